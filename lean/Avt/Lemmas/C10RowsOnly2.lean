/-
  Avt.Lemmas.C10RowsOnly2 — the full C10 relation for a height-only `Buffer.resize`.
-/
import Avt.Lemmas.C10RowsOnly

namespace Avt.Lemmas
open Avt Avt.Spec.C10

theorem cellEq_refl (x : Option Cell) : cellEq x x = true := by
  cases x with
  | none => rfl
  | some c => simp [cellEq]

theorem eqUpToBlanks_refl (a : List Cell) : eqUpToBlanks a a = true := by simp [eqUpToBlanks]

theorem unwrapLast_append {A B : List Line} (hB : B ≠ []) : unwrapLast (A ++ B) = A ++ unwrapLast B := by
  obtain ⟨ini, l, rfl⟩ := exists_snoc hB
  rw [← List.append_assoc, unwrapLast_append_singleton, unwrapLast_append_singleton, List.append_assoc]

theorem unwrapLast_drop {X : List Line} {n : Nat} (h : n < X.length) :
    (unwrapLast X).drop n = unwrapLast (X.drop n) := by
  have hd : X.drop n ≠ [] := by
    intro h0; have := congrArg List.length h0; simp at this; omega
  conv => lhs; rw [← List.take_append_drop n X, unwrapLast_append hd]
  rw [List.drop_append_of_le_length (by simp; omega)]
  simp

theorem unwrapLast_head (r : Line) (t : List Line) :
    ∃ r' t', unwrapLast (r :: t) = r' :: t' ∧ r'.cells = r.cells := by
  cases t with
  | nil => exact ⟨{ r with wrapped := false }, [], by simp [unwrapLast], rfl⟩
  | cons y t2 => exact ⟨r, unwrapLast (y :: t2), unwrapLast_cons_cons r y t2, rfl⟩

/-- tail facts when rows are only appended (or nothing changes) -/
theorem tail_pad (X : List Line) (hX : X ≠ []) (k c : Nat) (o : Nat) (pending : Bool) :
    ∃ mh mt mt', logicalLines X = mh :: mt
      ∧ logicalLines (X ++ List.replicate k (Line.blank c Pen.default)) = mh :: mt'
      ∧ eqUpToBlanks (mh.take o) (mh.take o) = true
      ∧ (pending = false → o < mh.length → cellEq mh[o]? mh[o]? = true)
      ∧ keptOrCut (mh :: mt) (mh :: mt') = true := by
  obtain ⟨m, hm⟩ := logicalLines_pad X k c
  cases hL : logicalLines X with
  | nil => exact absurd (logicalLines_eq_nil.1 hL) hX
  | cons mh mt =>
    refine ⟨mh, mt, mt ++ List.replicate m [], rfl, by rw [hm, hL]; rfl, eqUpToBlanks_refl _,
      fun _ _ => cellEq_refl _, ?_⟩
    have := keptOrCut_pad (mh :: mt) m
    simpa using this

/-- tail facts when rows are cut from the bottom: `P2` is the run of wrapped rows above the cursor
    row, `rowc :: Rt` the rows from the cursor row on, of which the first `j ≥ 1` are kept -/
theorem tail_cut {P2 : List Line} (hP2 : ∀ l ∈ P2, l.wrapped = true) (rowc : Line) (Rt : List Line)
    (j : Nat) (hj : 0 < j) (hjle : j ≤ (rowc :: Rt).length) (o : Nat) (pending : Bool)
    (ho : o ≤ (rowsCells P2).length + rowc.cells.length)
    (hstrict : pending = false → o < (rowsCells P2).length + rowc.cells.length) :
    ∃ mh mh' mt mt', logicalLines (P2 ++ rowc :: Rt) = mh :: mt
      ∧ logicalLines (P2 ++ unwrapLast ((rowc :: Rt).take j)) = mh' :: mt'
      ∧ eqUpToBlanks (mh'.take o) (mh.take o) = true
      ∧ (pending = false → o < mh.length → cellEq mh'[o]? mh[o]? = true)
      ∧ keptOrCut (mh :: mt) (mh' :: mt') = true := by
  -- the joined lines of the rows from the cursor row on, before and after the cut
  cases hR : joinRows (rowc :: Rt) with
  | nil => exact absurd (joinRows_eq_nil.1 hR) (by simp)
  | cons x xs =>
    obtain ⟨m, p, q, hc1, hc2, hc3⟩ := joinRows_cut (rowc :: Rt) j hj hjle
    rw [hR] at hc1 hc2
    have htk : (rowc :: Rt).take j = rowc :: Rt.take (j - 1) := by
      cases j with
      | zero => omega
      | succ j' => simp
    obtain ⟨r', t', hu, hr'⟩ := unwrapLast_head rowc (Rt.take (j - 1))
    obtain ⟨s, rr, hhead⟩ := joinRows_head r' t'
    rw [htk, hu] at hc1
    rw [htk, hu]
    -- the first joined line after the cut: a prefix of the old one that still holds the cursor row
    have hx' : ∃ x' xs', joinRows (r' :: t') = x' :: xs' ∧ x' <+: x ∧ rowc.cells <+: x'
        ∧ keptOrCut ((rowsCells P2 ++ x) :: xs |>.map stripDefault)
            ((rowsCells P2 ++ x') :: xs' |>.map stripDefault) = true := by
      rw [hhead] at hc1
      cases m with
      | zero =>
        simp only [List.take_zero, List.nil_append, List.cons.injEq] at hc1
        simp only [List.getElem?_cons_zero, Option.some.injEq] at hc2
        subst hc2
        obtain ⟨e1, e2⟩ := hc1
        refine ⟨r'.cells ++ s, rr, hhead, by rw [e1]; exact hc3, by rw [← hr']; exact List.prefix_append _ _, ?_⟩
        subst e2
        simp only [List.map_cons, List.map_nil, keptOrCut, List.isEmpty_nil, Bool.and_true,
          Bool.or_eq_true]
        right
        rw [List.isPrefixOf_iff_prefix, e1]
        obtain ⟨z, hz⟩ := hc3
        rw [← hz, ← List.append_assoc]
        exact rstrip_prefix_append _ _ _
      | succ m' =>
        simp only [List.take_succ_cons, List.cons_append, List.cons.injEq] at hc1
        simp only [List.getElem?_cons_succ] at hc2
        obtain ⟨e1, e2⟩ := hc1
        refine ⟨r'.cells ++ s, rr, hhead, by rw [e1]; exact List.prefix_refl _,
          by rw [← hr']; exact List.prefix_append _ _, ?_⟩
        rw [e1, e2]
        simp only [List.map_cons, List.map_append, List.map_take, List.map_nil, keptOrCut,
          beq_self_eq_true, Bool.true_and, Bool.or_eq_true]
        left
        have hq : (xs.map stripDefault ++ List.replicate 0 [])[m']? = some (stripDefault q) := by
          simp [hc2]
        have hp : stripDefault p <+: stripDefault q := by
          obtain ⟨z, hz⟩ := hc3; rw [← hz]; exact rstrip_prefix_append _ _ _
        have := keptOrCut_of_cut (xs.map stripDefault) 0 m' (stripDefault p) (stripDefault q) hq hp
        simpa using this
    obtain ⟨x', xs', hj', hpre, hrow, hkept⟩ := hx'
    have hJ : joinRows (P2 ++ rowc :: Rt) = (rowsCells P2 ++ x) :: xs := joinRows_run_append hP2 hR
    have hJ' : joinRows (P2 ++ r' :: t') = (rowsCells P2 ++ x') :: xs' := joinRows_run_append hP2 hj'
    have hpre' : rowsCells P2 ++ x' <+: rowsCells P2 ++ x := (List.prefix_append_right_inj _).2 hpre
    have hlen' : (rowsCells P2).length + rowc.cells.length ≤ (rowsCells P2 ++ x').length := by
      rw [List.length_append]; have := hrow.length_le; omega
    refine ⟨stripDefault (rowsCells P2 ++ x), stripDefault (rowsCells P2 ++ x'), xs.map stripDefault,
      xs'.map stripDefault, by simp [logicalLines, hJ], by simp [logicalLines, hJ'], ?_, ?_, ?_⟩
    · exact before_of_prefix hpre' (by omega)
    · intro hp hin
      exact char_of_prefix hpre' (by have := hstrict hp; omega) hin
    · simpa using hkept

/-- **C10 for a height-only resize of a buffer** (no reflow involved): the complete relation between
    the logical text and the cursor's place before and after -/
theorem rows_only_rel {b b' : Buffer} {r' : Nat} {cur cur' : Nat × Nat} (pending : Bool)
    (hview : b.view.length = b.rows) (hlens : ∀ l ∈ b.lines, l.len = b.cols)
    (hcur : cur.2 < b.rows) (hcol : cur.1 ≤ b.cols) (hstrict : pending = false → cur.1 < b.cols)
    (h : b.resize b.cols r' cur = some (b', cur')) :
    resizeRel (logicalLines b.lines) (logicalLines b'.lines)
      (cursorLogical b cur).1 (cursorLogical b cur).2
      (cursorLogical b' cur').1 (cursorLogical b' cur').2 pending = true := by
  obtain ⟨hok, -, hrows'⟩ := resize_rows_only hview hcur h
  simp only [rowsOnlyOK, Bool.and_eq_true, beq_iff_eq] at hok
  obtain ⟨⟨hl', hc1⟩, hc2⟩ := hok
  have hlen : b.lines.length = b.sb.length + b.rows := by simp [Buffer.lines, hview]
  -- the rows at and below the cursor row
  have hn : b.sb.length + cur.2 < b.lines.length := by omega
  have hdrop : ∃ rowc Rt, b.lines.drop (b.sb.length + cur.2) = rowc :: Rt := by
    cases hd : b.lines.drop (b.sb.length + cur.2) with
    | nil => have := congrArg List.length hd; simp at this; omega
    | cons r t => exact ⟨r, t, rfl⟩
  obtain ⟨rowc, Rt, hdrop⟩ := hdrop
  have hrowc : rowc.cells.length = b.cols := by
    have : rowc ∈ b.lines := List.mem_of_mem_drop (by rw [hdrop]; simp)
    exact hlens rowc this
  -- the new rows: same rows above the cursor row
  have hcases : (b'.lines = b.lines ++ List.replicate ((r' - b.rows) - min (b.lines.length - b.rows) (r' - b.rows)) (Line.blank b.cols Pen.default))
      ∨ (∃ k, b.sb.length + cur.2 < k ∧ k ≤ b.lines.length ∧ b'.lines = unwrapLast (b.lines.take k)) := by
    rw [hl', hrows']
    unfold rowsOnlyLines
    by_cases hlt : r' < b.rows
    · simp only [hlt, if_true]
      by_cases hex : min (b.rows - r') (b.rows - 1 - cur.2) = 0
      · left
        have : r' - b.rows = 0 := by omega
        simp [hex, this]
      · right
        simp only [hex, if_false]
        exact ⟨_, by omega, by omega, rfl⟩
    · left; simp only [hlt, if_false]
  -- in both cases the rows above the cursor row are untouched, so the cursor's logical position is the same
  have htake : b'.lines.take (b.sb.length + cur.2) = b.lines.take (b.sb.length + cur.2) := by
    rcases hcases with e | ⟨k, hk1, hk2, e⟩
    · rw [e, List.take_append_of_le_length (by omega)]
    · rw [e, unwrapLast_take (by simp; omega), List.take_take]
      congr 1; omega
  have hpos : cursorLogical b' cur' = cursorLogical b cur := by
    simp only [cursorLogical, hc2, htake, hc1]
  rw [hpos]
  -- split both row lists at the cursor row
  obtain ⟨hsplit, hcount⟩ := logicalLines_at b.lines (b.sb.length + cur.2)
  obtain ⟨hsplit', -⟩ := logicalLines_at b'.lines (b.sb.length + cur.2)
  rw [htake] at hsplit'
  have hi : (cursorLogical b cur).1
      = (logicalLines (rstrip (fun l => l.wrapped) (b.lines.take (b.sb.length + cur.2)))).length := by
    rw [hcount]; rfl
  have ho : (cursorLogical b cur).2
      = (rowsCells ((b.lines.take (b.sb.length + cur.2)).reverse.takeWhile (fun l => l.wrapped)).reverse).length + cur.1 := by
    rw [rowsCells_run_length]; rfl
  rw [hsplit, hsplit', hi, hdrop]
  generalize hP2 : ((b.lines.take (b.sb.length + cur.2)).reverse.takeWhile (fun l => l.wrapped)).reverse = P2 at *
  have hP2w : ∀ l ∈ P2, l.wrapped = true := by rw [← hP2]; exact run_all_wrapped _
  rcases hcases with e | ⟨k, hk1, hk2, e⟩
  · -- rows appended
    have hd' : b'.lines.drop (b.sb.length + cur.2)
        = (rowc :: Rt) ++ List.replicate ((r' - b.rows) - min (b.lines.length - b.rows) (r' - b.rows)) (Line.blank b.cols Pen.default) := by
      rw [e, List.drop_append_of_le_length (by omega), hdrop]
    rw [hd', ← List.append_assoc]
    obtain ⟨mh, mt, mt', h1, h2, h3, h4, h5⟩ :=
      tail_pad (P2 ++ rowc :: Rt) (by simp) _ b.cols (cursorLogical b cur).2 pending
    rw [h1, h2]
    exact resizeRel_of_tail _ _ pending h3 h4 h5
  · -- rows cut from the bottom
    have hd' : b'.lines.drop (b.sb.length + cur.2)
        = unwrapLast ((rowc :: Rt).take (k - (b.sb.length + cur.2))) := by
      rw [e, unwrapLast_drop (by simp; omega), List.drop_take, hdrop]
    rw [hd']
    have hjle : k - (b.sb.length + cur.2) ≤ (rowc :: Rt).length := by
      rw [← hdrop, List.length_drop]; omega
    obtain ⟨mh, mh', mt, mt', h1, h2, h3, h4, h5⟩ :=
      tail_cut hP2w rowc Rt (k - (b.sb.length + cur.2)) (by omega) hjle (cursorLogical b cur).2 pending
        (by rw [ho, hrowc]; omega) (by intro hp; rw [ho, hrowc]; have := hstrict hp; omega)
    rw [h1, h2]
    exact resizeRel_of_tail _ _ pending h3 h4 h5

end Avt.Lemmas
