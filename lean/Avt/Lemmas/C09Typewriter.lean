/-
  Avt.Lemmas.C09Typewriter — the "typewriter" invariant behind C09 and what it implies for `text()`
  and for the `TextUnwrapper`.
-/
import Avt.Lemmas.C09Text

namespace Avt.Lemmas
open Avt Avt.Spec.C09

/-- the terminal modes under which printable text + CR LF behaves like a typewriter: margins span the
    whole screen, auto-wrap on, replace mode, ASCII charset active, primary screen with unlimited
    scrollback -/
structure TWMode (t : Terminal) : Prop where
  top : t.topMargin = 0
  bottom : t.bottomMargin + 1 = t.rows
  autoWrap : t.autoWrapMode = true
  replace : t.insertMode = false
  charset : t.activeCharset = 0 ∧ t.charsets.1 = .ascii
  primary : t.activeBufferType = .primary
  unlimited : t.buffer.limit = none

/-- the geometric facts (part of `TInv`) the typewriter steps rely on -/
structure TWGeom (t : Terminal) : Prop where
  cols_pos : 1 ≤ t.cols
  rows_pos : 1 ≤ t.rows
  bcols : t.buffer.cols = t.cols
  brows : t.buffer.rows = t.rows
  view_len : t.buffer.view.length = t.rows
  row_lt : t.cursor.row < t.rows
  pending : (t.pendingWrap = true ∧ t.cursor.col = t.cols) ∨ (t.pendingWrap = false ∧ t.cursor.col < t.cols)
  dirty_len : t.dirtyLines.length = t.rows

/-- all characters of the rows, concatenated -/
def rowsText (rows : List Line) : List Nat := (rows.map Line.text).flatten

/-- **The typewriter invariant.**  `logical` (non-empty: `done ++ [cur]`) is the text typed so far.
    The rows of `sb ++ view` are: the rows of the finished lines (`closedRows`, whose `text` is `done`
    trimmed and whose unwrapped lines are prefixes of `done`), the rows of the line being typed (`ws ++ [lr]`: full-width rows, all wrapped except the
    last, spelling `cur` followed by blank padding), and blank rows below.  The cursor is on `lr`, at
    the end of `cur`: `|cur| = |ws|·cols + col` — `col = cols` (wrap pending) exactly when `|cur|` is a
    positive multiple of `cols`. -/
def TW (t : Terminal) (logical : List (List Nat)) : Prop :=
  ∃ (done : List (List Nat)) (cur : List Nat) (closedRows ws : List Line) (lr : Line)
    (belowRows : List Line) (pad : Nat),
    logical = done ++ [cur]
    ∧ t.buffer.lines = closedRows ++ (ws ++ [lr]) ++ belowRows
    ∧ lastUnwrapped closedRows = true
    ∧ Buffer.textGo closedRows [] = done.map trimEnd
    ∧ prefixwise (unwrapOut closedRows []) done = true
    ∧ (∀ l ∈ ws, l.wrapped = true) ∧ lr.wrapped = false
    ∧ (∀ l ∈ closedRows ++ (ws ++ [lr]) ++ belowRows, l.len = t.cols)
    ∧ rowsText (ws ++ [lr]) = cur ++ List.replicate pad 0x20
    ∧ cur.length = ws.length * t.cols + t.cursor.col
    ∧ t.buffer.sb.length + t.cursor.row = closedRows.length + ws.length
    ∧ (∀ l ∈ belowRows, l.wrapped = false ∧ l.text = List.replicate t.cols 0x20)

/-! ### what the invariant says about `text()` -/

theorem dropTrailingEmpty_eq (ls : List (List Nat)) : dropTrailingEmpty ls = rstrip List.isEmpty ls := rfl

theorem textGo_wrapped_run (ws : List Line) (hws : ∀ l ∈ ws, l.wrapped = true) (lr : Line)
    (hlr : lr.wrapped = false) (rest : List Line) (cur0 : List Nat) :
    Buffer.textGo (ws ++ [lr] ++ rest) cur0
      = trimEnd (cur0 ++ rowsText (ws ++ [lr])) :: Buffer.textGo rest [] := by
  induction ws generalizing cur0 with
  | nil => simp [rowsText, textGo_cons_unwrapped hlr]
  | cons w t ih =>
    have hw : w.wrapped = true := hws w (by simp)
    have ht : ∀ l ∈ t, l.wrapped = true := fun l hl => hws l (by simp [hl])
    rw [List.cons_append, List.cons_append, textGo_cons_wrapped hw, ih ht]
    simp [rowsText]

theorem unwrapOut_wrapped_run (ws : List Line) (hws : ∀ l ∈ ws, l.wrapped = true) (lr : Line)
    (hlr : lr.wrapped = false) (rest : List Line) (acc : List Nat) :
    unwrapOut (ws ++ [lr] ++ rest) acc
      = (acc ++ rowsText ws ++ trimEnd lr.text) :: unwrapOut rest [] := by
  induction ws generalizing acc with
  | nil => simp [rowsText, unwrapOut_cons_unwrapped hlr]
  | cons w t ih =>
    have hw : w.wrapped = true := hws w (by simp)
    have ht : ∀ l ∈ t, l.wrapped = true := fun l hl => hws l (by simp [hl])
    rw [List.cons_append, List.cons_append, unwrapOut_cons_wrapped hw, ih ht]
    simp [rowsText]

theorem unwrapOut_length {ls : List Line} (h : lastUnwrapped ls = true) :
    (unwrapOut ls []).length = (Buffer.textGo ls []).length := by
  rcases unwrapOut_trimEnd ls [] h with h1 | h1
  · rw [← h1]; simp
  · subst h1; rfl

theorem textGo_blank_rows (rows : List Line) (c : Nat)
    (h : ∀ l ∈ rows, l.wrapped = false ∧ l.text = List.replicate c 0x20) :
    Buffer.textGo rows [] = List.replicate rows.length [] := by
  induction rows with
  | nil => rfl
  | cons l t ih =>
    have hl := h l (by simp)
    rw [textGo_cons_unwrapped hl.1, ih (fun x hx => h x (by simp [hx])), hl.2]
    have : trimEnd ([] ++ List.replicate c 0x20) = trimEnd [] := trimEnd_append_spaces [] c
    rw [this]; rfl

/-- the text of a buffer in typewriter state: the typed lines trimmed, then empty lines -/
theorem TW_text_lines {t : Terminal} {logical : List (List Nat)} (h : TW t logical) :
    ∃ k, Buffer.textGo t.buffer.lines [] = logical.map trimEnd ++ List.replicate k [] := by
  obtain ⟨done, cur, closedRows, ws, lr, belowRows, pad, rfl, hlines, hlu, htext, -, hws, hlr, -, hrt, -, -, hbelow⟩ := h
  refine ⟨belowRows.length, ?_⟩
  have hmid : Buffer.textGo (ws ++ [lr] ++ belowRows) []
      = trimEnd cur :: List.replicate belowRows.length [] := by
    rw [textGo_wrapped_run ws hws lr hlr, textGo_blank_rows _ _ hbelow, hrt, List.nil_append,
      trimEnd_append_spaces]
  rw [hlines, List.append_assoc]
  by_cases hc : closedRows = []
  · subst hc
    have : done = [] := by
      have := congrArg List.length htext
      simpa [Buffer.textGo] using this.symm
    subst this
    rw [List.nil_append, hmid]; rfl
  · rw [textGo_append hlu hc, htext, hmid]
    simp

/-- C09, first clause, from the invariant: `text()` is the typed lines, trimmed, trailing empty
    lines aside -/
theorem TW_text {t : Terminal} {logical : List (List Nat)} (hm : TWMode t) (h : TW t logical) :
    textOK logical t.text = true := by
  obtain ⟨k, hk⟩ := TW_text_lines h
  have : t.text = logical.map trimEnd ++ List.replicate k [] := by
    simp only [Terminal.text, Terminal.primaryBuffer, hm.primary, if_true, Buffer.text]
    exact hk
  simp only [textOK, expectedText, this, beq_iff_eq]
  have e : trimEndWs = trimEnd := rfl
  rw [e]
  rw [dropTrailingEmpty_eq, dropTrailingEmpty_eq]
  apply rstrip_append_of_all
  intro x hx
  rw [(List.mem_replicate.1 hx).2]; rfl

/-- two terminals (any two geometries) in typewriter state for the same typed text give the same
    `text()` -/
theorem TW_width_independent {t0 t1 : Terminal} {logical : List (List Nat)}
    (hm0 : TWMode t0) (hm1 : TWMode t1) (h0 : TW t0 logical) (h1 : TW t1 logical) :
    sameText t0.text t1.text = true := by
  have a := TW_text hm0 h0
  have b := TW_text hm1 h1
  simp only [textOK, beq_iff_eq] at a b
  simp only [sameText, beq_iff_eq, a, b]

/-! ### what the invariant says about the `TextUnwrapper` -/

/-- everything `TextUnwrapper` produces for a list of rows: pushes, then the final flush -/
def unwrapAll (ls : List Line) : List (List Nat) :=
  (unwrapMany [] ls).2 ++ (unwrapFlush (unwrapMany [] ls).1).toList

theorem unwrapAcc_lastUnwrapped {ls : List Line} (h : lastUnwrapped ls = true) (hne : ls ≠ [])
    (acc : List Nat) : unwrapAcc ls acc = [] := by
  induction ls generalizing acc with
  | nil => exact absurd rfl hne
  | cons l t ih =>
    cases t with
    | nil =>
      have hl : l.wrapped = false := by simpa [lastUnwrapped] using h
      simp [unwrapAcc, hl]
    | cons l2 t2 =>
      have h' : lastUnwrapped (l2 :: t2) = true := by simpa [lastUnwrapped] using h
      unfold unwrapAcc
      split <;> exact ih h' (by simp) _

theorem unwrapAll_trimEnd {ls : List Line} (h : lastUnwrapped ls = true) :
    (unwrapAll ls).map trimEnd = Buffer.textGo ls [] := by
  by_cases hne : ls = []
  · subst hne; rfl
  · have hacc : (unwrapMany [] ls).1 = [] := by
      rw [unwrapMany_spec]; exact unwrapAcc_lastUnwrapped h hne []
    simp only [unwrapAll, hacc, unwrapFlush, List.isEmpty_nil, if_true, Option.toList_none,
      List.append_nil]
    exact unwrap_text ls h

theorem TW_lastUnwrapped {t : Terminal} {logical : List (List Nat)} (h : TW t logical) :
    lastUnwrapped t.buffer.lines = true := by
  obtain ⟨done, cur, closedRows, ws, lr, belowRows, pad, -, hlines, -, -, -, -, hlr, -, -, -, -, hbelow⟩ := h
  rw [hlines]
  by_cases hb : belowRows = []
  · subst hb
    rw [List.append_nil, ← List.append_assoc, lastUnwrapped_snoc]
    simp [hlr]
  · rw [lastUnwrapped_append hb]
    obtain ⟨ini, l, rfl⟩ := exists_snoc hb
    rw [lastUnwrapped_snoc]
    simp [(hbelow l (by simp)).1]

/-- C09, second clause (the part "same lines up to trailing white space"), from the invariant -/
theorem TW_unwrap {t : Terminal} {logical : List (List Nat)} (h : TW t logical) :
    dropTrailingEmpty ((unwrapAll t.buffer.lines).map trimEndWs) = expectedText logical := by
  obtain ⟨k, hk⟩ := TW_text_lines h
  have := unwrapAll_trimEnd (TW_lastUnwrapped h)
  have e : trimEndWs = trimEnd := rfl
  simp only [expectedText]
  rw [e, this, hk, dropTrailingEmpty_eq, dropTrailingEmpty_eq]
  apply rstrip_append_of_all
  intro x hx
  rw [(List.mem_replicate.1 hx).2]; rfl

end Avt.Lemmas
