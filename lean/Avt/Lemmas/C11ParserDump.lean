/-
  Avt.Lemmas.C11ParserDump — `Parser.dump` round trip, all fourteen states.
-/
import Avt.Lemmas.C11Params

namespace Avt
namespace Lemmas.C11
open Avt.Spec.C11

/-! ### entering the parameter state (closed facts over the generated table) -/

theorem csiEntry_digit : ∀ c, c < 58 → 48 ≤ c → (clean .CsiEntry).feed c = (clean .CsiParam).feed c := by
  decide

theorem csiEntry_marker : ∀ c, c < 64 → 60 ≤ c →
    (clean .CsiEntry).feed c = some (clean .CsiParam (some c), none) := by decide

theorem dcsEntry_digit : ∀ c, c < 58 → 48 ≤ c → (clean .DcsEntry).feed c = (clean .DcsParam).feed c := by
  decide

theorem dcsEntry_marker : ∀ c, c < 64 → 60 ≤ c →
    (clean .DcsEntry).feed c = some (clean .DcsParam (some c), none) := by decide

theorem pfeedAll_congr_first (p p' : Parser) (c : Nat) (cs : List Nat) (h : p.feed c = p'.feed c) :
    pfeedAll p (c :: cs) = pfeedAll p' (c :: cs) := by
  simp only [pfeedAll, h]

/-- a rendered parameter list starts with a digit -/
theorem renderAll_head (ps : List Nat) (A : Regs) (h : PartsOK ps) :
    ∃ d tail, renderAll (ps :: A) = d :: tail ∧ 0x30 ≤ d ∧ d ≤ 0x39 := by
  obtain ⟨h1, _, _⟩ := h
  cases ps with
  | nil => simp at h1
  | cons x xs =>
    have hne := digits_ne_nil x
    match hd : digits x with
    | [] => exact absurd hd hne
    | d :: ds =>
      have hdig := digits_isDigit x d (by rw [hd]; exact List.mem_cons_self ..)
      cases A with
      | nil =>
        refine ⟨d, ds ++ (xs.map fun y => 0x3a :: renderDec y).flatten, ?_, hdig⟩
        rw [renderAll_single]
        simp [renderParts, renderDec_eq_digits, hd]
      | cons qs A =>
        refine ⟨d, ds ++ (xs.map fun y => 0x3a :: renderDec y).flatten ++ 0x3b :: renderAll (qs :: A), ?_, hdig⟩
        rw [renderAll_cons₂]
        simp [renderParts, renderDec_eq_digits, hd]

/-- the common part of the `CsiParam` and `DcsParam` cases: from the entry state with clean
    registers, the optional marker and the rendered parameter list rebuild the registers -/
theorem pfeed_entry {stE stP : PState} {okc : Nat → Prop} (H : ParamState stP okc)
    (hdigit : ∀ c, c < 58 → 48 ≤ c → (clean stE).feed c = (clean stP).feed c)
    (hmarker : ∀ c, c < 64 → 60 ≤ c → (clean stE).feed c = some (clean stP (some c), none))
    (im : Option Nat) (him : im.isNone = true ∨ imIn 0x3c 0x3f im = true)
    (A : Regs) (hA : RegsOK A) (hc : ∀ c ∈ renderAll A, okc c) :
    pfeedAll (clean stE) (im.toList ++ renderAll A) = some (conc stP im A, []) := by
  obtain ⟨h1, h2, h3⟩ := hA
  cases A with
  | nil => simp at h1
  | cons ps A =>
    have key : ∀ im', pfeedAll (clean stP im') (renderAll (ps :: A)) = some (conc stP im' (ps :: A), []) := by
      intro im'
      have := pfeed_renderAll H im' A ps [] (by simpa using h2) h3 hc []
      simp only [List.nil_append, List.append_nil, conc_zero] at this
      rw [this]; rfl
    cases im with
    | none =>
      obtain ⟨d, tail, hd, hd1, hd2⟩ := renderAll_head ps A (h3 ps (List.mem_cons_self ..))
      simp only [Option.toList_none, List.nil_append]
      rw [hd, pfeedAll_congr_first _ _ _ _ (hdigit d (by omega) hd1), ← hd]
      exact key none
    | some m =>
      rcases him with him | him
      · simp at him
      · obtain ⟨c, hc', hm1, hm2⟩ := imIn_elim him
        cases hc'
        simp only [Option.toList_some, List.cons_append, List.nil_append]
        rw [pfeedAll_cons_silent _ _ _ _ (hmarker m (by omega) hm1)]
        exact key (some m)

/-- `Parser.dump` round trip, `CsiParam` and `DcsParam` -/
theorem parser_dump_param (p q0 : Parser) (hinv : PInv p = true) (hreg : PRegOK p = true)
    (hG : q0.state = .Ground) (hP : PInv q0 = true) (hs : paramsLive p.state = true) :
    ∃ d q, p.dump = some d ∧ pfeedAll q0 d = some (q, []) ∧ normP q = normP p := by
  obtain ⟨_, hC, hD⟩ := feed_clearing q0 hG hP
  obtain ⟨hconc, hA⟩ := eq_conc_decode p hinv
  have hren := renderParams_eq p hinv
  have hstate : p.state = .CsiParam ∨ p.state = .DcsParam := by
    cases hst : p.state <;> simp [paramsLive, hst] at hs <;> simp
  rcases hstate with hst | hst
  · -- CsiParam
    have him : p.intermediate.isNone = true ∨ imIn 0x3c 0x3f p.intermediate = true := by
      simpa [PRegOK, hst] using hreg
    refine ⟨0x9b :: p.intermediate.toList ++ renderAll (decode p), conc .CsiParam p.intermediate (decode p),
      ?_, ?_, ?_⟩
    · simp only [Parser.dump, hst, hren, Option.map_some]
    · rw [List.cons_append, pfeedAll_cons_silent _ _ _ _ hC]
      exact pfeed_entry paramState_csi csiEntry_digit csiEntry_marker _ him _ hA
        (fun c hc => by have := renderAll_chars _ c hc; exact this)
    · rw [← hst, ← hconc]
  · -- DcsParam
    have hreg' : (p.intermediate.isNone = true ∨ imIn 0x3c 0x3f p.intermediate = true)
        ∧ (p.params.take (p.curParam + 1)).all (fun q => q.curPart == 0) = true := by
      simpa [PRegOK, hst] using hreg
    have hsingle : ∀ ps ∈ decode p, ps.length = 1 := by
      intro ps hps
      simp only [decode, List.mem_map] at hps
      obtain ⟨q, hq, rfl⟩ := hps
      have h0 : q.curPart = 0 := by
        have := hreg'.2
        simp only [List.all_eq_true, beq_iff_eq] at this
        exact this q hq
      have hok : Param.ok q = true := by
        simp only [PInv, Bool.and_eq_true, List.all_eq_true] at hinv
        exact hinv.1.2 q (List.mem_of_mem_take hq)
      have := (partsOK_decParam q hok).1
      simp only [decParam, h0, List.length_take] at this ⊢
      omega
    refine ⟨0x90 :: p.intermediate.toList ++ renderAll (decode p), conc .DcsParam p.intermediate (decode p),
      ?_, ?_, ?_⟩
    · simp only [Parser.dump, hst, hren, Option.map_some]
    · rw [List.cons_append, pfeedAll_cons_silent _ _ _ _ hD]
      exact pfeed_entry paramState_dcs dcsEntry_digit dcsEntry_marker _ hreg'.1 _ hA
        (renderAll_chars_single _ hsingle)
    · rw [← hst, ← hconc]

/-- **`Parser.dump` round trip, all fourteen states.**  For a parser whose registers satisfy the
    invariant `PInv` and have the shape of their state (`PRegOK`), feeding `Parser.dump p` to any
    parser resting in `Ground` emits no function and yields `p` up to dead registers. -/
theorem parser_dump (p q0 : Parser) (hinv : PInv p = true) (hreg : PRegOK p = true)
    (hG : q0.state = .Ground) (hP : PInv q0 = true) :
    ∃ d q, p.dump = some d ∧ pfeedAll q0 d = some (q, []) ∧ normP q = normP p := by
  cases hs : paramsLive p.state with
  | false => exact parser_dump_easy p q0 hreg hG hP hs
  | true => exact parser_dump_param p q0 hinv hreg hG hP hs

end Lemmas.C11
end Avt
