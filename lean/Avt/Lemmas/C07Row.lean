/-
  Avt.Lemmas.C07Row — the row primitives (`Line.clear/insert/delete`) meet the row formulas of C07.
-/
import Avt.Lemmas.PrimScroll
import Avt.Spec.C07

namespace Avt.C07L
open Avt.PrimL
open Avt.Spec.C07

theorem csub_eq' (a b : Nat) (h : b ≤ a) : csub a b = some (a - b) := by simp [csub, h]

theorem lineClear_eq (l : Line) (a c : Nat) (pen : Pen) (h1 : a ≤ c) (h2 : c ≤ l.cells.length) :
    l.clear a c pen = some { l with cells := l.cells.take a ++ blanks (c - a) pen ++ l.cells.drop c } := by
  unfold Line.clear
  rw [fillRange_eq _ _ _ _ h1 h2]
  rfl

theorem row_el0 (l : Line) (cols col : Nat) (pen : Pen) (hl : l.cells.length = cols) (hc : col ≤ cols) :
    (l.clear col cols pen).map (fun l' => ({ l' with wrapped := false } : Line))
      = some (eraseRight cols col pen l) := by
  rw [lineClear_eq _ _ _ _ hc (by omega)]
  simp only [Option.map_some, eraseRight, blanks]
  congr 2
  list_pw

theorem row_ed0 (l : Line) (cols col : Nat) (pen : Pen) (hl : l.cells.length = cols) (hc : col ≤ cols) :
    ({ l with wrapped := false } : Line).clear col cols pen = some (eraseRight cols col pen l) := by
  rw [lineClear_eq _ _ _ _ hc (by simp only; omega)]
  simp only [eraseRight, blanks]
  congr 2
  list_pw

theorem row_el1 (l : Line) (cols col : Nat) (pen : Pen) (hl : l.cells.length = cols) :
    l.clear 0 (min (col + 1) cols) pen = some (eraseLeft cols col pen l) := by
  rw [lineClear_eq _ _ _ _ (Nat.zero_le _) (by omega)]
  simp only [eraseLeft, blanks]
  congr 2

theorem row_el2 (l : Line) (cols : Nat) (pen : Pen) (hl : l.cells.length = cols) :
    (l.clear 0 cols pen).map (fun l' => ({ l' with wrapped := false } : Line))
      = some (eraseRow cols pen l) := by
  rw [lineClear_eq _ _ _ _ (Nat.zero_le _) (by omega)]
  simp only [Option.map_some, eraseRow, blanks]
  congr 2
  list_pw

theorem row_ech (l : Line) (cols col n : Nat) (pen : Pen) (hl : l.cells.length = cols) (hc : col ≤ cols) :
    (l.clear col (col + min n (cols - col)) pen).map
        (fun l' => if (col + min n (cols - col) == cols) = true then ({ l' with wrapped := false } : Line) else l')
      = some (eraseChars cols col n pen l) := by
  have hk : min n (cols - col) ≤ cols - col := Nat.min_le_right _ _
  rw [lineClear_eq _ _ _ _ (by omega) (by omega)]
  simp only [Option.map_some, eraseChars, blanks, beq_iff_eq]
  generalize min n (cols - col) = k at hk ⊢
  have : col + k - col = k := by omega
  rw [this]
  split <;> rfl

theorem row_ich (l : Line) (cols col n : Nat) (pen : Pen) (hl : l.cells.length = cols) (hc : col ≤ cols) :
    l.insert col (min n (cols - col)) (Cell.blank pen) = some (insertChars cols col n pen l) := by
  have hk : min n (cols - col) ≤ cols - col := Nat.min_le_right _ _
  unfold Line.insert insertChars
  simp only [blanks]
  generalize min n (cols - col) = k at hk ⊢
  rw [rotRRange_eq _ _ _ _ (by omega) (Nat.le_refl _) (by omega)]
  simp only
  rw [fillRange_eq _ _ _ _ (by omega) (by simp; omega)]
  simp only [Option.map_some]
  congr 2
  list_pw

theorem row_dch (l : Line) (cols col n : Nat) (pen : Pen) (hl : l.cells.length = cols) (hc : col ≤ cols) :
    (l.delete col (min n (cols - col)) pen).map (fun l' => ({ l' with wrapped := false } : Line))
      = some (deleteChars cols col n pen l) := by
  have hk : min n (cols - col) ≤ cols - col := Nat.min_le_right _ _
  unfold Line.delete deleteChars
  simp only [blanks]
  generalize min n (cols - col) = k at hk ⊢
  rw [rotLRange_eq _ _ _ _ (by omega) (Nat.le_refl _) (by omega)]
  simp only
  rw [csub_eq' _ _ (by simp; omega)]
  simp only
  rw [fillRange_eq _ _ _ _ (by simp) (Nat.le_refl _)]
  simp only [Option.map_some]
  congr 2
  list_pw

end Avt.C07L
