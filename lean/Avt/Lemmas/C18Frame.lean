/-
  Avt.Lemmas.C18Frame — frame lemma for the tab-stop vector: apart from HTS / TBC / CTC (which edit
  it), RIS (which resets it to the defaults) and a window resize, no function touches `tabs` or
  `cols`.  Used by `C18_never_customised_history` (Props/C18.lean).
-/
import Avt.Lemmas.C18

namespace Avt.Lemmas.C18
open Avt Avt.Spec Avt.Spec.C18

/-- `t'` has the stop vector and the width of `t` -/
def Fr (t t' : Terminal) : Prop := t'.tabs = t.tabs ∧ t'.cols = t.cols

theorem Fr.refl (t : Terminal) : Fr t t := ⟨rfl, rfl⟩
theorem Fr.trans {a b c : Terminal} (h₁ : Fr a b) (h₂ : Fr b c) : Fr a c :=
  ⟨h₂.1.trans h₁.1, h₂.2.trans h₁.2⟩

theorem fr_map {α : Type} {t t' : Terminal} {o : Option α} {g : α → Terminal}
    (h : o.map g = some t') (hg : ∀ x, Fr t (g x)) : Fr t t' := by
  cases o with
  | none => simp at h
  | some x => simp at h; subst h; exact hg x

theorem fr_some {t s t' : Terminal} (h : some s = some t') (hs : Fr t s) : Fr t t' := by
  cases h; exact hs

/-- `fr_via e`: close `Fr t t'` from `e : Fr s t'` where `s` is a record update of `t` -/
local macro "fr_via " e:term : tactic => `(tactic| (have f := $e; exact Fr.trans ⟨rfl, rfl⟩ f))

section
variable {t t' : Terminal}

theorem fr_saveCursor (h : t.saveCursor = some t') : Fr t t' :=
  fr_map h fun _ => ⟨rfl, rfl⟩

theorem fr_restoreCursor : Fr t t.restoreCursor := ⟨rfl, rfl⟩

theorem fr_toCol (c : Nat) : Fr t (t.doMoveCursorToCol c) := ⟨rfl, rfl⟩

theorem fr_moveToCol {c : Nat} (h : t.moveCursorToCol c = some t') : Fr t t' := by
  unfold Terminal.moveCursorToCol at h
  split at h
  · exact fr_map h fun _ => fr_toCol _
  · exact fr_some h (fr_toCol _)

theorem fr_toRow {r : Nat} (h : t.doMoveCursorToRow r = some t') : Fr t t' :=
  fr_map h fun _ => ⟨rfl, rfl⟩

theorem fr_moveToRow {r : Nat} (h : t.moveCursorToRow r = some t') : Fr t t' := by
  unfold Terminal.moveCursorToRow at h
  simp only at h
  split at h
  · exact absurd h (by simp)
  · exact fr_toRow h

theorem fr_relCol {rel : Int} (h : t.moveCursorToRelCol rel = some t') : Fr t t' := by
  unfold Terminal.moveCursorToRelCol at h
  simp only at h
  split at h
  · exact fr_some h (fr_toCol _)
  · split at h
    · exact fr_map h fun _ => fr_toCol _
    · exact fr_some h (fr_toCol _)

theorem fr_home (h : t.moveCursorHome = some t') : Fr t t' := by
  unfold Terminal.moveCursorHome at h
  exact (fr_toCol 0).trans (fr_toRow h)

theorem fr_nextTab {n : Nat} (h : t.moveCursorToNextTab n = some t') : Fr t t' := by
  unfold Terminal.moveCursorToNextTab at h
  split at h
  · exact fr_moveToCol h
  · exact absurd h (by simp)

theorem fr_prevTab {n : Nat} (h : t.moveCursorToPrevTab n = some t') : Fr t t' := by
  unfold Terminal.moveCursorToPrevTab at h
  split at h
  · exact fr_moveToCol h
  · exact absurd h (by simp)

theorem fr_scrollUp {n : Nat} (h : t.scrollUpInRegion n = some t') : Fr t t' := by
  unfold Terminal.scrollUpInRegion at h
  split at h
  · exact absurd h (by simp)
  · exact fr_map h fun _ => ⟨rfl, rfl⟩

theorem fr_scrollDown {n : Nat} (h : t.scrollDownInRegion n = some t') : Fr t t' := by
  unfold Terminal.scrollDownInRegion at h
  split at h
  · exact absurd h (by simp)
  · exact fr_map h fun _ => ⟨rfl, rfl⟩

theorem fr_downWithScroll (h : t.moveCursorDownWithScroll = some t') : Fr t t' := by
  unfold Terminal.moveCursorDownWithScroll at h
  split at h
  · exact fr_scrollUp h
  · split at h
    · exact absurd h (by simp)
    · split at h
      · exact fr_toRow h
      · exact fr_some h (Fr.refl _)

theorem fr_cursorDown {n : Nat} (h : t.cursorDown n = some t') : Fr t t' := by
  unfold Terminal.cursorDown at h
  split at h
  · split at h
    · exact absurd h (by simp)
    · exact fr_toRow h
  · exact fr_toRow h

theorem fr_cursorUp {n : Nat} (h : t.cursorUp n = some t') : Fr t t' := by
  unfold Terminal.cursorUp at h
  exact fr_toRow h

theorem fr_markDirty {r : Nat} (h : t.markDirty r = some t') : Fr t t' :=
  fr_map h fun _ => ⟨rfl, rfl⟩

theorem fr_markDirtyRange {a b : Nat} (h : t.markDirtyRange a b = some t') : Fr t t' :=
  fr_map h fun _ => ⟨rfl, rfl⟩

theorem fr_switchAlt (h : t.switchToAlternateBuffer = some t') : Fr t t' := by
  unfold Terminal.switchToAlternateBuffer at h
  simp only at h
  split at h
  · fr_via fr_markDirtyRange h
  · exact fr_some h (Fr.refl _)

theorem fr_switchPrim (h : t.switchToPrimaryBuffer = some t') : Fr t t' := by
  unfold Terminal.switchToPrimaryBuffer at h
  simp only at h
  split at h
  · fr_via fr_markDirtyRange h
  · exact fr_some h (Fr.refl _)

theorem fr_reflow (h : t.reflow = some t') : Fr t t' :=
  let e := reflow_tabs h
  ⟨e.1, e.2.1⟩

theorem fr_softReset (h : t.softReset = some t') : Fr t t' :=
  fr_map h fun _ => ⟨rfl, rfl⟩

theorem fr_eraseWith {m : Buffer.EraseMode} (h : t.eraseWith m = some t') : Fr t t' :=
  fr_map h fun _ => ⟨rfl, rfl⟩

theorem fr_print {ch : Nat} (h : t.print ch = some t') : Fr t t' := by
  unfold Terminal.print at h
  simp only at h
  repeat' split at h
  all_goals (try (exact absurd h (by simp)))
  rename_i _ _ _ _ _ _ _ t1 h1 _ t2 h2
  have f1 : Fr t t1 := by
    split at h1
    · split at h1
      · split at h1
        · exact absurd h1 (by simp)
        · rename_i b hb
          split at h1
          · exact absurd h1 (by simp)
          · rename_i s hs
            have fs : Fr t s := by fr_via fr_scrollUp hs
            split at h1
            · exact absurd h1 (by simp)
            · split at h1
              · split at h1
                · exact absurd h1 (by simp)
                · exact fr_map h1 fun _ => fs.trans ⟨rfl, rfl⟩
              · exact fr_some h1 fs
      · split at h1
        · exact absurd h1 (by simp)
        · split at h1
          · split at h1
            · exact absurd h1 (by simp)
            · fr_via fr_toRow h1
          · exact fr_some h1 ⟨rfl, rfl⟩
    · exact fr_some h1 (Fr.refl _)
  have f2 : Fr t1 t2 := by
    split at h2
    · split at h2
      · exact absurd h2 (by simp)
      · split at h2
        · exact absurd h2 (by simp)
        · split at h2
          · exact fr_some h2 ⟨rfl, rfl⟩
          · exact fr_some h2 ⟨rfl, rfl⟩
    · split at h2
      · exact absurd h2 (by simp)
      · exact fr_some h2 ⟨rfl, rfl⟩
  exact f1.trans (f2.trans (fr_markDirty h))

theorem fr_printN {ch : Nat} : ∀ (k : Nat) {t t' : Terminal}, t.printN ch k = some t' → Fr t t'
  | 0, t, t', h => by unfold Terminal.printN at h; exact fr_some h (Fr.refl _)
  | k + 1, t, t', h => by
    unfold Terminal.printN at h
    split at h
    · exact absurd h (by simp)
    · rename_i s hs
      exact (fr_print hs).trans (fr_printN k h)

theorem fr_rep {n : Nat} (h : t.rep n = some t') : Fr t t' := by
  unfold Terminal.rep at h
  split at h
  · split at h
    · exact absurd h (by simp)
    · split at h
      · exact absurd h (by simp)
      · exact fr_printN _ h
  · exact fr_some h (Fr.refl _)

theorem fr_decalnRows : ∀ (k row : Nat) {t t' : Terminal}, Terminal.decalnRows t row k = some t' → Fr t t'
  | 0, row, t, t', h => by unfold Terminal.decalnRows at h; exact fr_some h (Fr.refl _)
  | k + 1, row, t, t', h => by
    unfold Terminal.decalnRows at h
    split at h
    · exact absurd h (by simp)
    · split at h
      · exact absurd h (by simp)
      · rename_i s hs
        have f1 : Fr t s := by fr_via fr_markDirty hs
        exact f1.trans (fr_decalnRows k _ h)

theorem fr_ed {s : EdScope} (h : t.ed s = some t') : Fr t t' := by
  unfold Terminal.ed at h
  cases s <;> simp only at h
  · split at h
    · exact absurd h (by simp)
    · rename_i s hs; exact (fr_eraseWith hs).trans (fr_markDirtyRange h)
  · split at h
    · exact absurd h (by simp)
    · rename_i s hs; exact (fr_eraseWith hs).trans (fr_markDirtyRange h)
  · split at h
    · exact absurd h (by simp)
    · rename_i s hs; exact (fr_eraseWith hs).trans (fr_markDirtyRange h)
  · exact fr_some h (Fr.refl _)

theorem fr_el {s : ElScope} (h : t.el s = some t') : Fr t t' := by
  unfold Terminal.el at h
  simp only at h
  split at h
  · exact absurd h (by simp)
  · rename_i s hs; exact (fr_eraseWith hs).trans (fr_markDirty h)

theorem fr_ech {n : Nat} (h : t.ech n = some t') : Fr t t' := by
  unfold Terminal.ech at h
  split at h
  · exact absurd h (by simp)
  · rename_i s hs; exact (fr_eraseWith hs).trans (fr_markDirty h)

theorem fr_ich {n : Nat} (h : t.ich n = some t') : Fr t t' := by
  unfold Terminal.ich at h
  split at h
  · exact absurd h (by simp)
  · fr_via fr_markDirty h

theorem fr_il {n : Nat} (h : t.il n = some t') : Fr t t' := by
  unfold Terminal.il at h
  simp only at h
  split at h
  · exact absurd h (by simp)
  · fr_via fr_markDirtyRange h

theorem fr_dl {n : Nat} (h : t.dl n = some t') : Fr t t' := by
  unfold Terminal.dl at h
  simp only at h
  split at h
  · exact absurd h (by simp)
  · fr_via fr_markDirtyRange h

theorem fr_dch {n : Nat} (h : t.dch n = some t') : Fr t t' := by
  unfold Terminal.dch at h
  simp only at h
  split at h
  · exact absurd h (by simp)
  · rename_i s hs
    have f1 : Fr t s := by
      split at hs
      · split at hs
        · exact absurd hs (by simp)
        · exact fr_moveToCol hs
      · exact fr_some hs (Fr.refl _)
    split at h
    · exact absurd h (by simp)
    · have f2 : Fr s t' := by fr_via fr_markDirty h
      exact f1.trans f2

theorem fr_cub {n : Nat} (h : t.cub n = some t') : Fr t t' := by
  unfold Terminal.cub at h
  exact fr_relCol h

theorem fr_cup {r c : Nat} (h : t.cup r c = some t') : Fr t t' := by
  unfold Terminal.cup at h
  split at h
  · exact absurd h (by simp)
  · rename_i s hs; exact (fr_moveToCol hs).trans (fr_moveToRow h)

theorem fr_bs (h : t.bs = some t') : Fr t t' := by
  unfold Terminal.bs at h
  split at h <;> exact fr_relCol h

theorem fr_lf (h : t.lf = some t') : Fr t t' := by
  unfold Terminal.lf at h
  cases hd : t.moveCursorDownWithScroll with
  | none => simp [hd] at h
  | some s =>
    simp only [hd, Option.map_some, Option.some.injEq] at h
    subst h
    refine (fr_downWithScroll hd).trans ?_
    split
    · exact fr_toCol _
    · exact Fr.refl _

theorem fr_nel (h : t.nel = some t') : Fr t t' := by
  unfold Terminal.nel at h
  cases hd : t.moveCursorDownWithScroll with
  | none => simp [hd] at h
  | some s =>
    simp only [hd, Option.map_some, Option.some.injEq] at h
    subst h
    exact (fr_downWithScroll hd).trans (fr_toCol _)

theorem fr_ri (h : t.ri = some t') : Fr t t' := by
  unfold Terminal.ri at h
  split at h
  · exact fr_scrollDown h
  · split at h
    · exact fr_toRow h
    · exact fr_some h (Fr.refl _)

theorem fr_sm (ms : List AnsiMode) : Fr t (t.sm ms) := by
  unfold Terminal.sm
  induction ms generalizing t with
  | nil => exact Fr.refl _
  | cons m ms ih =>
    rw [List.foldl_cons]
    refine Fr.trans ?_ ih
    cases m <;> exact ⟨rfl, rfl⟩

theorem fr_rm (ms : List AnsiMode) : Fr t (t.rm ms) := by
  unfold Terminal.rm
  induction ms generalizing t with
  | nil => exact Fr.refl _
  | cons m ms ih =>
    rw [List.foldl_cons]
    refine Fr.trans ?_ ih
    cases m <;> exact ⟨rfl, rfl⟩

theorem fr_decstbm {a b : Nat} (h : t.decstbm a b = some t') : Fr t t' := by
  unfold Terminal.decstbm at h
  simp only at h
  split at h
  · exact absurd h (by simp)
  · refine Fr.trans ?_ (fr_home h)
    split
    · exact ⟨rfl, rfl⟩
    · exact Fr.refl _

theorem fr_decsetOne {m : DecMode} (h : t.decsetOne m = some t') : Fr t t' := by
  unfold Terminal.decsetOne at h
  cases m <;> simp only at h
  · exact fr_some h ⟨rfl, rfl⟩
  · fr_via fr_home h
  · exact fr_some h ⟨rfl, rfl⟩
  · exact fr_some h ⟨rfl, rfl⟩
  · split at h
    · exact absurd h (by simp)
    · rename_i s hs; exact (fr_switchAlt hs).trans (fr_reflow h)
  · exact fr_saveCursor h
  · split at h
    · exact absurd h (by simp)
    · rename_i s hs
      split at h
      · exact absurd h (by simp)
      · rename_i s2 hs2
        exact (fr_saveCursor hs).trans ((fr_switchAlt hs2).trans (fr_reflow h))

theorem fr_decrstOne {m : DecMode} (h : t.decrstOne m = some t') : Fr t t' := by
  unfold Terminal.decrstOne at h
  cases m <;> simp only at h
  · exact fr_some h ⟨rfl, rfl⟩
  · fr_via fr_home h
  · exact fr_some h ⟨rfl, rfl⟩
  · exact fr_some h ⟨rfl, rfl⟩
  · split at h
    · exact absurd h (by simp)
    · rename_i s hs; exact (fr_switchPrim hs).trans (fr_reflow h)
  · exact fr_some h fr_restoreCursor
  · split at h
    · exact absurd h (by simp)
    · rename_i s hs
      exact (fr_switchPrim hs).trans (fr_restoreCursor.trans (fr_reflow h))

theorem fr_foldM' {α : Type} {g : Terminal → α → Option Terminal}
    (hg : ∀ {t t' : Terminal} {a : α}, g t a = some t' → Fr t t') :
    ∀ (l : List α) {t t' : Terminal}, Terminal.foldM' g l t = some t' → Fr t t'
  | [], t, t', h => by unfold Terminal.foldM' at h; exact fr_some h (Fr.refl _)
  | a :: l, t, t', h => by
    unfold Terminal.foldM' at h
    split at h
    · rename_i s hs; exact (hg hs).trans (fr_foldM' hg l h)
    · exact absurd h (by simp)

end

/-- functions that may change the stop vector or the width: the editing functions, RIS (back to
    the defaults) and XTWINOPS (a resize, inert on the pinned tree) -/
def touchesTabs : Function → Bool
  | .hts | .tbc _ | .ctc _ | .ris | .xtwinops _ _ => true
  | _ => false

/-- every other function leaves the stop vector and the width alone -/
theorem execute_frame {t t' : Terminal} {f : Function} (hf : touchesTabs f = false)
    (h : t.execute f = some t') : Fr t t' := by
  cases f <;> simp only [touchesTabs, Bool.true_eq_false] at hf <;> simp only [Terminal.execute] at h
  case bs => exact fr_bs h
  case cbt n => exact fr_prevTab h
  case cha n => exact fr_moveToCol h
  case cht n => exact fr_nextTab h
  case cnl n =>
    cases hd : t.cursorDown (asUsize n 1) with
    | none => simp [hd] at h
    | some s => simp only [hd, Option.map_some, Option.some.injEq] at h; subst h
                exact (fr_cursorDown hd).trans (fr_toCol _)
  case cpl n =>
    cases hd : t.cursorUp (asUsize n 1) with
    | none => simp [hd] at h
    | some s => simp only [hd, Option.map_some, Option.some.injEq] at h; subst h
                exact (fr_cursorUp hd).trans (fr_toCol _)
  case cr => exact fr_some h (fr_toCol _)
  case cub n => exact fr_cub h
  case cud n => exact fr_cursorDown h
  case cuf n => exact fr_relCol h
  case cup r c => exact fr_cup h
  case cuu n => exact fr_cursorUp h
  case dch n => exact fr_dch h
  case decaln => exact fr_decalnRows _ _ h
  case decrc => exact fr_some h fr_restoreCursor
  case decrst ms => exact fr_foldM' fr_decrstOne ms h
  case decsc => exact fr_saveCursor h
  case decset ms => exact fr_foldM' fr_decsetOne ms h
  case decstbm a b => exact fr_decstbm h
  case decstr => exact fr_softReset h
  case dl n => exact fr_dl h
  case ech n => exact fr_ech h
  case ed s => exact fr_ed h
  case el s => exact fr_el h
  case g1d4 c => exact fr_some h ⟨rfl, rfl⟩
  case gzd4 c => exact fr_some h ⟨rfl, rfl⟩
  case ht => exact fr_nextTab h
  case ich n => exact fr_ich h
  case il n => exact fr_il h
  case lf => exact fr_lf h
  case nel => exact fr_nel h
  case print ch => exact fr_print h
  case rep n => exact fr_rep h
  case ri => exact fr_ri h
  case rm ms => exact fr_some h (fr_rm ms)
  case scorc => exact fr_some h fr_restoreCursor
  case scosc => exact fr_saveCursor h
  case sd n => exact fr_scrollDown h
  case sgr ops => exact fr_some h ⟨rfl, rfl⟩
  case si => exact fr_some h ⟨rfl, rfl⟩
  case sm ms => exact fr_some h (fr_sm ms)
  case so => exact fr_some h ⟨rfl, rfl⟩
  case su n => exact fr_scrollUp h
  case vpa n => exact fr_moveToRow h
  case vpr n => exact fr_cursorDown h

end Avt.Lemmas.C18
