/-
  Avt.Lemmas.InvBuffer — every `Buffer` operation other than `resize` succeeds under its range
  precondition and preserves the buffer invariant, `cols`, `rows` and `limit`.

  `BOK b` is the `Prop` form of `BInv b = true` (`BInv_iff`); `BOKW` is `BOK` without the clause
  "last view line not soft-wrapped" (needed for the one place where the code breaks that clause
  for a moment: `Terminal.print` marks the last row wrapped and scrolls immediately afterwards).
-/
import Avt.Lemmas.Prim
import Avt.Spec.Inv

namespace Avt

/-! ### the invariant in `Prop` form -/

/-- "the last line is not soft-wrapped", element-wise -/
def LastU (v : List Line) : Prop := ∀ l, v[v.length - 1]? = some l → l.wrapped = false

theorem lastUnwrapped_iff (v : List Line) : lastUnwrapped v = true ↔ LastU v := by
  unfold LastU
  induction v with
  | nil => simp [lastUnwrapped]
  | cons a t ih =>
    cases t with
    | nil => simp [lastUnwrapped]
    | cons b t' =>
      have e : lastUnwrapped (a :: b :: t') = lastUnwrapped (b :: t') := by simp [lastUnwrapped]
      rw [e, ih]
      simp

/-- `BInv` without the last-line clause -/
structure BOKW (b : Buffer) : Prop where
  hc : 1 ≤ b.cols
  hr : 1 ≤ b.rows
  hv : b.view.length = b.rows
  hvw : ∀ l ∈ b.view, l.cells.length = b.cols
  hsw : ∀ l ∈ b.sb, l.cells.length = b.cols
  hlim : ∀ l, b.limit = some l → l.hard = l.soft + l.soft / Gen.hardDiv
  htrim : b.trimNeeded = true ∨ ∀ l, b.limit = some l → b.sb.length ≤ l.hard

/-- `BInv` as a proposition -/
structure BOK (b : Buffer) : Prop extends BOKW b where
  hlast : LastU b.view

theorem BInv_iff (b : Buffer) : BInv b = true ↔ BOK b := by
  constructor
  · intro h
    simp only [BInv, Bool.and_eq_true, decide_eq_true_eq, beq_iff_eq, List.all_eq_true,
      Bool.or_eq_true] at h
    obtain ⟨⟨⟨⟨⟨⟨⟨h1, h2⟩, h3⟩, h4⟩, h5⟩, h6⟩, h7⟩, h8⟩ := h
    refine ⟨⟨h1, h2, h3, h4, h5, ?_, ?_⟩, (lastUnwrapped_iff _).1 h6⟩
    · intro l hl; rw [hl] at h7; simpa using h7
    · rcases h8 with h8 | h8
      · exact .inl h8
      · refine .inr fun l hl => ?_
        rw [hl] at h8; simpa using h8
  · intro ⟨⟨h1, h2, h3, h4, h5, h6, h7⟩, h8⟩
    simp only [BInv, Bool.and_eq_true, decide_eq_true_eq, beq_iff_eq, List.all_eq_true,
      Bool.or_eq_true]
    refine ⟨⟨⟨⟨⟨⟨⟨h1, h2⟩, h3⟩, h4⟩, h5⟩, (lastUnwrapped_iff _).2 h8⟩, ?_⟩, ?_⟩
    · cases hl : b.limit with
      | none => rfl
      | some l => simpa using h6 l hl
    · rcases h7 with h7 | h7
      · exact .inl h7
      · cases hl : b.limit with
        | none => exact .inr rfl
        | some l => exact .inr (by simpa using h7 l hl)

theorem BOK.of_BInv {b : Buffer} (h : BInv b = true) : BOK b := (BInv_iff b).1 h
theorem BOK.BInv {b : Buffer} (h : BOK b) : BInv b = true := (BInv_iff b).2 h

/-- what every buffer operation keeps -/
structure BFrame (b b' : Buffer) : Prop where
  cols : b'.cols = b.cols
  rows : b'.rows = b.rows
  limit : b'.limit = b.limit

theorem BFrame.refl (b : Buffer) : BFrame b b := ⟨rfl, rfl, rfl⟩

theorem BFrame.trans {a b c : Buffer} (h1 : BFrame a b) (h2 : BFrame b c) : BFrame a c :=
  ⟨h2.cols.trans h1.cols, h2.rows.trans h1.rows, h2.limit.trans h1.limit⟩

/-- replacing the view by one of the right shape -/
theorem BOKW.setView {b : Buffer} (h : BOKW b) (v : List Line) (hl : v.length = b.rows)
    (hw : ∀ l ∈ v, l.cells.length = b.cols) : BOKW { b with view := v } :=
  { h with hv := hl, hvw := hw }

theorem LastU_set {v : List Line} {i : Nat} {l' : Line} (hv : LastU v)
    (h : i + 1 < v.length ∨ (∀ l, v[i]? = some l → l.wrapped = false → l'.wrapped = false)) :
    LastU (v.set i l') := by
  intro l hl
  simp only [List.length_set, List.getElem?_set] at hl
  split at hl
  · rename_i hi
    split at hl
    · cases hl
      rcases h with h | h
      · omega
      · have hlt : i < v.length := by omega
        refine h v[i] (List.getElem?_eq_getElem hlt) (hv _ ?_)
        subst hi; exact List.getElem?_eq_getElem hlt
    · cases hl
  · exact hv l hl

theorem Line.blank_len (cols : Nat) (pen : Pen) : (Line.blank cols pen).cells.length = cols := by
  simp [Line.blank]

theorem Line.blank_wrapped (cols : Nat) (pen : Pen) : (Line.blank cols pen).wrapped = false := rfl

/-! ### Line operations -/

theorem Line.print_ok (l : Line) {col : Nat} (cell : Cell) (h : col < l.cells.length) :
    ∃ l', l.print col cell = some l' ∧ l'.cells.length = l.cells.length ∧ l'.wrapped = l.wrapped := by
  refine ⟨{ l with cells := l.cells.set col cell }, ?_, by simp, rfl⟩
  simp [Line.print, setAt_eq_some _ h]

theorem Line.clear_ok (l : Line) {a b : Nat} (pen : Pen) (hab : a ≤ b) (hb : b ≤ l.cells.length) :
    ∃ l', l.clear a b pen = some l' ∧ l'.cells.length = l.cells.length ∧ l'.wrapped = l.wrapped := by
  cases hf : fillRange l.cells a b (Cell.blank pen) with
  | none => simp [fillRange_eq_some _ hab hb] at hf
  | some cs =>
    exact ⟨{ l with cells := cs }, by simp [Line.clear, hf], fillRange_length hf, rfl⟩

theorem Line.insert_ok (l : Line) {col n : Nat} (cell : Cell) (hc : col ≤ l.cells.length)
    (hn : n ≤ l.cells.length - col) :
    ∃ l', l.insert col n cell = some l' ∧ l'.cells.length = l.cells.length ∧ l'.wrapped = l.wrapped := by
  cases hr : rotRRange l.cells col l.cells.length n with
  | none => simp [rotRRange_eq_some hc (Nat.le_refl _) hn] at hr
  | some cs =>
    have hlen := rotRRange_length hr
    cases hf : fillRange cs col (col + n) cell with
    | none => rw [fillRange_eq_some _ (by omega) (by omega)] at hf; cases hf
    | some cs' =>
      exact ⟨{ l with cells := cs' }, by simp [Line.insert, hr, hf],
        (fillRange_length hf).trans hlen, rfl⟩

theorem Line.delete_ok (l : Line) {col n : Nat} (pen : Pen) (hc : col ≤ l.cells.length)
    (hn : n ≤ l.cells.length - col) :
    ∃ l', l.delete col n pen = some l' ∧ l'.cells.length = l.cells.length ∧ l'.wrapped = l.wrapped := by
  cases hr : rotLRange l.cells col l.cells.length n with
  | none => simp [rotLRange_eq_some hc (Nat.le_refl _) hn] at hr
  | some cs =>
    have hlen := rotLRange_length hr
    have hs : csub cs.length n = some (cs.length - n) := csub_eq_some (by omega)
    cases hf : fillRange cs (cs.length - n) cs.length (Cell.blank pen) with
    | none => rw [fillRange_eq_some _ (by omega) (by omega)] at hf; cases hf
    | some cs' =>
      exact ⟨{ l with cells := cs' }, by simp [Line.delete, hr, hs, hf],
        (fillRange_length hf).trans hlen, rfl⟩

namespace Buffer

/-! ### row updates -/

/-- the generic row update: `f` succeeds on lines of the right width and keeps the width; the
    last-line clause survives if the row is not the last one or `f` never sets the wrap mark -/
theorem updRow_ok {b : Buffer} {row : Nat} {f : Line → Option Line} (h : BOKW b)
    (hrow : row < b.rows)
    (hf : ∀ l, l.cells.length = b.cols → ∃ l', f l = some l' ∧ l'.cells.length = b.cols)
    (hw : row + 1 < b.rows ∨ ∀ l l', f l = some l' → l.wrapped = false → l'.wrapped = false) :
    ∃ b', b.updRow row f = some b' ∧ BOKW b' ∧ BFrame b b' ∧ b'.sb = b.sb
      ∧ b'.trimNeeded = b.trimNeeded ∧ (LastU b.view → LastU b'.view) := by
  have hlt : row < b.view.length := by rw [h.hv]; exact hrow
  obtain ⟨l', hl', hlen'⟩ := hf b.view[row] (h.hvw _ (List.getElem_mem hlt))
  refine ⟨{ b with view := b.view.set row l' }, ?_, ?_, ⟨rfl, rfl, rfl⟩, rfl, rfl, ?_⟩
  · simp [updRow, modAtM_eq_some hlt hl']
  · refine h.setView _ (by simp [h.hv]) ?_
    intro l hl
    rcases List.mem_or_eq_of_mem_set hl with hl | rfl
    · exact h.hvw l hl
    · exact hlen'
  · intro hL
    refine LastU_set hL ?_
    rcases hw with hw | hw
    · exact .inl (by have := h.hv; omega)
    · refine .inr fun l hl => ?_
      rw [List.getElem?_eq_getElem hlt] at hl
      cases hl
      exact hw _ _ hl'

/-- the result type of the preservation lemmas below -/
def Keeps (b : Buffer) (r : Option Buffer) : Prop :=
  ∃ b', r = some b' ∧ BOKW b' ∧ BFrame b b' ∧ (LastU b.view → LastU b'.view)

theorem Keeps.of_updRow {b : Buffer} {r : Option Buffer}
    (h : ∃ b', r = some b' ∧ BOKW b' ∧ BFrame b b' ∧ b'.sb = b.sb
      ∧ b'.trimNeeded = b.trimNeeded ∧ (LastU b.view → LastU b'.view)) : Keeps b r := by
  obtain ⟨b', h1, h2, h3, _, _, h4⟩ := h
  exact ⟨b', h1, h2, h3, h4⟩

theorem print_ok {b : Buffer} {col row : Nat} (cell : Cell) (h : BOKW b) (hrow : row < b.rows)
    (hcol : col < b.cols) : Keeps b (b.print col row cell) := by
  refine .of_updRow (updRow_ok h hrow (fun l hl => ?_) (.inr fun l l' hl' hw => ?_))
  · obtain ⟨l', h1, h2, _⟩ := l.print_ok cell (hl ▸ hcol)
    exact ⟨l', h1, h2.trans hl⟩
  · simp only [Line.print] at hl'
    cases hs : setAt l.cells col cell <;> simp [hs] at hl'
    subst hl'; exact hw

theorem wrap_ok {b : Buffer} {row : Nat} (h : BOKW b) (hrow : row < b.rows) :
    ∃ b', b.wrap row = some b' ∧ BOKW b' ∧ BFrame b b'
      ∧ (row + 1 < b.rows → LastU b.view → LastU b'.view) := by
  by_cases hr : row + 1 < b.rows
  · obtain ⟨b', h1, h2, h3, _, _, h4⟩ :=
      updRow_ok (f := fun l => some { l with wrapped := true }) h hrow
        (fun l hl => ⟨_, rfl, hl⟩) (.inl hr)
    exact ⟨b', h1, h2, h3, fun _ => h4⟩
  · have hlt : row < b.view.length := by rw [h.hv]; exact hrow
    refine ⟨{ b with view := b.view.set row { b.view[row] with wrapped := true } }, ?_, ?_,
      ⟨rfl, rfl, rfl⟩, fun h' => absurd h' hr⟩
    · simp [wrap, updRow, modAtM, List.getElem?_eq_getElem hlt]
    · refine h.setView _ (by simp [h.hv]) ?_
      intro l hl
      rcases List.mem_or_eq_of_mem_set hl with hl | rfl
      · exact h.hvw l hl
      · exact h.hvw b.view[row] (List.getElem_mem hlt)

theorem unwrapRow_ok {b : Buffer} {row : Nat} (h : BOKW b) (hrow : row < b.rows) :
    Keeps b (b.unwrapRow row) := by
  refine .of_updRow (updRow_ok (f := fun l => some { l with wrapped := false }) h hrow
    (fun l hl => ⟨_, rfl, hl⟩) (.inr fun l l' hl' _ => ?_))
  cases hl'; rfl

theorem insert_ok {b : Buffer} {col row : Nat} (n : Nat) (cell : Cell) (h : BOKW b)
    (hrow : row < b.rows) (hcol : col ≤ b.cols) : Keeps b (b.insert col row n cell) := by
  simp only [insert, csub_eq_some hcol]
  refine .of_updRow (updRow_ok h hrow (fun l hl => ?_) (.inr fun l l' hl' hw => ?_))
  · obtain ⟨l', h1, h2, _⟩ := l.insert_ok (col := col) (n := min n (b.cols - col)) cell (by omega)
      (by rw [hl]; exact Nat.min_le_right _ _)
    exact ⟨l', h1, h2.trans hl⟩
  · simp only [Line.insert] at hl'
    cases hs : rotRRange l.cells col l.cells.length (min n (b.cols - col)) <;> simp [hs] at hl'
    obtain ⟨_, _, rfl⟩ := hl'; exact hw

theorem delete_ok {b : Buffer} {col row : Nat} (n : Nat) (pen : Pen) (h : BOKW b)
    (hrow : row < b.rows) (hcol : col ≤ b.cols) : Keeps b (b.delete col row n pen) := by
  simp only [delete, csub_eq_some hcol]
  refine .of_updRow (updRow_ok h hrow (fun l hl => ?_) (.inr fun l l' hl' _ => ?_))
  · obtain ⟨l', h1, h2, _⟩ := l.delete_ok (col := col) (n := min n (b.cols - col)) pen (by omega)
      (by rw [hl]; exact Nat.min_le_right _ _)
    exact ⟨{ l' with wrapped := false }, by rw [h1]; rfl, h2.trans hl⟩
  · cases hd : l.delete col (min n (b.cols - col)) pen <;> simp [hd] at hl'
    subst hl'; rfl

/-! ### clear -/

theorem clear_ok {b : Buffer} {a c : Nat} (pen : Pen) (h : BOKW b) (hac : a ≤ c) (hc : c ≤ b.rows) :
    ∃ b', b.clear a c pen = some b' ∧ BOKW b' ∧ BFrame b b' ∧ b'.sb = b.sb
      ∧ b'.trimNeeded = b.trimNeeded
      ∧ (LastU b.view ∨ (a < c ∧ c = b.rows) → LastU b'.view) := by
  cases hf : fillRange b.view a c (Line.blank b.cols pen) with
  | none => rw [fillRange_eq_some _ hac (by rw [h.hv]; exact hc)] at hf; cases hf
  | some v =>
    have hlen := fillRange_length hf
    refine ⟨{ b with view := v }, by simp [clear, hf], ?_, ⟨rfl, rfl, rfl⟩, rfl, rfl, ?_⟩
    · refine h.setView v (hlen.trans h.hv) fun l hl => ?_
      rcases fillRange_mem hf hl with rfl | hl
      · exact Line.blank_len _ _
      · exact h.hvw l hl
    · intro hL l hl
      simp only [hlen, fillRange_getElem? hf] at hl
      split at hl
      · cases hl; rfl
      · rcases hL with hL | hL
        · exact hL l hl
        · have := h.hv; omega

theorem clear_keeps {b : Buffer} {a c : Nat} (pen : Pen) (h : BOKW b) (hac : a ≤ c)
    (hc : c ≤ b.rows) : Keeps b (b.clear a c pen) := by
  obtain ⟨b', h1, h2, h3, _, _, h4⟩ := clear_ok pen h hac hc
  exact ⟨b', h1, h2, h3, fun hL => h4 (.inl hL)⟩

/-! ### erase (all seven modes) -/

theorem Keeps.bind {b : Buffer} {r : Option Buffer} {g : Buffer → Option Buffer}
    (h : Keeps b r) (hg : ∀ b', BOKW b' → BFrame b b' → Keeps b' (g b')) :
    Keeps b (match (generalizing := false) r with | none => none | some b' => g b') := by
  obtain ⟨b', rfl, h2, h3, h4⟩ := h
  obtain ⟨b'', h5, h6, h7, h8⟩ := hg b' h2 h3
  exact ⟨b'', h5, h6, h3.trans h7, fun hL => h8 (h4 hL)⟩

theorem erase_ok {b : Buffer} {col row : Nat} (mode : EraseMode) (pen : Pen) (h : BOKW b)
    (hrow : row < b.rows) (hcol : col ≤ b.cols) : Keeps b (b.erase col row mode pen) := by
  cases mode with
  | nextChars n =>
    simp only [erase, csub_eq_some hcol]
    refine .of_updRow (updRow_ok h hrow (fun l hl => ?_) (.inr fun l l' hl' hw => ?_))
    · obtain ⟨l', h1, h2, _⟩ := l.clear_ok (a := col) (b := col + min n (b.cols - col)) pen
        (by omega) (by omega)
      refine ⟨_, by rw [h1]; rfl, ?_⟩
      split <;> simp [h2, hl]
    · cases hd : l.clear col (col + min n (b.cols - col)) pen <;> simp [hd] at hl'
      rename_i l1
      obtain ⟨l2, h1, _, h2⟩ : ∃ l2, l.clear col (col + min n (b.cols - col)) pen = some l2
          ∧ True ∧ l2.wrapped = l.wrapped := by
        simp only [Line.clear] at hd ⊢
        cases hf : fillRange l.cells col (col + min n (b.cols - col)) (Cell.blank pen) <;>
          simp [hf] at hd ⊢
      rw [hd] at h1; cases h1
      subst hl'; split <;> simp [h2, hw]
  | fromCursorToEndOfView =>
    simp only [erase]
    refine Keeps.bind (.of_updRow (updRow_ok h hrow (fun l hl => ?_) (.inr fun l l' hl' _ => ?_)))
      fun b' hb' hfr => ?_
    · obtain ⟨l', h1, h2, _⟩ := ({ l with wrapped := false } : Line).clear_ok (a := col) (b := b.cols)
        pen hcol (by simp [hl])
      exact ⟨l', h1, h2.trans hl⟩
    · simp only [Line.clear] at hl'
      cases hf : fillRange l.cells col b.cols (Cell.blank pen) <;> simp [hf] at hl'
      subst hl'; rfl
    · exact clear_keeps pen hb' (by rw [hfr.rows]; omega) (Nat.le_refl _)
  | fromStartOfViewToCursor =>
    simp only [erase]
    refine Keeps.bind (.of_updRow (updRow_ok h hrow (fun l hl => ?_) (.inr fun l l' hl' hw => ?_)))
      fun b' hb' hfr => ?_
    · obtain ⟨l', h1, h2, _⟩ := l.clear_ok (a := 0) (b := min (col + 1) b.cols) pen (Nat.zero_le _)
        (by rw [hl]; exact Nat.min_le_right _ _)
      exact ⟨l', h1, h2.trans hl⟩
    · simp only [Line.clear] at hl'
      cases hf : fillRange l.cells 0 (min (col + 1) b.cols) (Cell.blank pen) <;> simp [hf] at hl'
      subst hl'; exact hw
    · exact clear_keeps pen hb' (Nat.zero_le _) (by rw [hfr.rows]; omega)
  | wholeView => exact clear_keeps pen h (Nat.zero_le _) (Nat.le_refl _)
  | fromCursorToEndOfLine =>
    simp only [erase]
    refine .of_updRow (updRow_ok h hrow (fun l hl => ?_) (.inr fun l l' hl' _ => ?_))
    · obtain ⟨l', h1, h2, _⟩ := l.clear_ok (a := col) (b := b.cols) pen hcol (by omega)
      exact ⟨{ l' with wrapped := false }, by rw [h1]; rfl, h2.trans hl⟩
    · cases hd : l.clear col b.cols pen <;> simp [hd] at hl'
      subst hl'; rfl
  | fromStartOfLineToCursor =>
    simp only [erase]
    refine .of_updRow (updRow_ok h hrow (fun l hl => ?_) (.inr fun l l' hl' hw => ?_))
    · obtain ⟨l', h1, h2, _⟩ := l.clear_ok (a := 0) (b := min (col + 1) b.cols) pen (Nat.zero_le _)
        (by rw [hl]; exact Nat.min_le_right _ _)
      exact ⟨l', h1, h2.trans hl⟩
    · simp only [Line.clear] at hl'
      cases hf : fillRange l.cells 0 (min (col + 1) b.cols) (Cell.blank pen) <;> simp [hf] at hl'
      subst hl'; exact hw
  | wholeLine =>
    simp only [erase]
    refine .of_updRow (updRow_ok h hrow (fun l hl => ?_) (.inr fun l l' hl' _ => ?_))
    · obtain ⟨l', h1, h2, _⟩ := l.clear_ok (a := 0) (b := b.cols) pen (Nat.zero_le _) (by omega)
      exact ⟨{ l' with wrapped := false }, by rw [h1]; rfl, h2.trans hl⟩
    · cases hd : l.clear 0 b.cols pen <;> simp [hd] at hl'
      subst hl'; rfl

/-! ### scrolling -/

theorem unwrapRow_last {b : Buffer} {row : Nat} (h : BOKW b) (hrow : row < b.rows) :
    ∃ b', b.unwrapRow row = some b' ∧ BOKW b' ∧ BFrame b b'
      ∧ (LastU b.view ∨ row + 1 = b.rows → LastU b'.view) := by
  have hlt : row < b.view.length := by rw [h.hv]; exact hrow
  obtain ⟨b', h1, h2, h3, h4⟩ := unwrapRow_ok h hrow
  refine ⟨b', h1, h2, h3, ?_⟩
  rintro (hL | hL)
  · exact h4 hL
  · simp only [unwrapRow, updRow, modAtM, List.getElem?_eq_getElem hlt, Option.map_some,
      Option.some.injEq] at h1
    subst h1
    intro l hl
    simp only [List.length_set, List.getElem?_set] at hl
    have := h.hv
    rw [if_pos (by omega), if_pos (by omega)] at hl
    cases hl; rfl

theorem scrollUp_ok {b : Buffer} {s e : Nat} (n : Nat) (pen : Pen) (h : BOKW b) (hse : s < e)
    (he : e ≤ b.rows) :
    ∃ b', b.scrollUp s e n pen = some b' ∧ BOKW b' ∧ BFrame b b'
      ∧ (LastU b.view ∨ (e = b.rows ∧ 1 ≤ n) → LastU b'.view) := by
  have hvl := h.hv
  simp only [scrollUp, csub_eq_some (Nat.le_of_lt hse), csub_eq_some (show 1 ≤ e by omega),
    csub_eq_some h.hr]
  -- stage 1: the wrap mark of the row above the end of the range
  obtain ⟨b1, hb1, ok1, fr1, hL1, heq1⟩ : ∃ b1,
      (if e - 1 < b.rows - 1 then b.unwrapRow (e - 1) else some b) = some b1 ∧ BOKW b1 ∧ BFrame b b1
        ∧ (LastU b.view → LastU b1.view) ∧ (e = b.rows → b1 = b) := by
    split
    · obtain ⟨b1, h1, h2, h3, h4⟩ := unwrapRow_ok h (show e - 1 < b.rows by omega)
      exact ⟨b1, h1, h2, h3, h4, fun he' => by omega⟩
    · exact ⟨b, rfl, h, .refl b, id, fun _ => rfl⟩
  rw [hb1]
  simp only []
  have hvl1 := ok1.hv
  have hr1 := fr1.rows
  by_cases hs : s = 0
  · subst hs
    simp only [if_true, Nat.sub_zero]
    by_cases hee : e = b1.rows
    · -- extend at the bottom
      rw [if_pos hee]
      refine ⟨_, rfl, ?_, ⟨fr1.cols, fr1.rows, fr1.limit⟩, ?_⟩
      · refine { ok1 with hv := ?_, hvw := ?_, hsw := ?_, htrim := .inl rfl }
        · simp; omega
        · intro l hl
          rcases List.mem_append.1 (List.mem_of_mem_drop hl) with hl | hl
          · exact ok1.hvw l hl
          · rw [(List.mem_replicate.1 hl).2]; exact Line.blank_len _ _
        · intro l hl
          rcases List.mem_append.1 hl with hl | hl
          · exact ok1.hsw l hl
          · rcases List.mem_append.1 (List.mem_of_mem_take hl) with hl | hl
            · exact ok1.hvw l hl
            · rw [(List.mem_replicate.1 hl).2]; exact Line.blank_len _ _
      · intro hL l hl
        simp only [List.length_drop, List.length_append, List.length_replicate,
          List.getElem?_drop] at hl
        by_cases hn : min n e = 0
        · rw [hn] at hl
          simp only [List.replicate_zero, List.append_nil, Nat.zero_add, Nat.add_zero,
            Nat.sub_zero] at hl
          rcases hL with hL | hL
          · exact hL1 hL l hl
          · omega
        · rw [List.getElem?_append_right (by omega)] at hl
          simp only [List.getElem?_replicate] at hl
          split at hl
          · cases hl; rfl
          · cases hl
    · -- insert below the range
      rw [if_neg hee, if_pos ⟨by omega, by omega⟩]
      refine ⟨_, rfl, ?_, ⟨fr1.cols, fr1.rows, fr1.limit⟩, ?_⟩
      · refine { ok1 with hv := ?_, hvw := ?_, hsw := ?_, htrim := .inl rfl }
        · simp; omega
        · intro l hl
          rcases List.mem_append.1 (List.mem_of_mem_drop hl) with hl | hl
          · rcases List.mem_append.1 hl with hl | hl
            · exact ok1.hvw l (List.mem_of_mem_take hl)
            · rw [(List.mem_replicate.1 hl).2]; exact Line.blank_len _ _
          · exact ok1.hvw l (List.mem_of_mem_drop hl)
        · intro l hl
          rcases List.mem_append.1 hl with hl | hl
          · exact ok1.hsw l hl
          · rcases List.mem_append.1 (List.mem_of_mem_take hl) with hl | hl
            · rcases List.mem_append.1 hl with hl | hl
              · exact ok1.hvw l (List.mem_of_mem_take hl)
              · rw [(List.mem_replicate.1 hl).2]; exact Line.blank_len _ _
            · exact ok1.hvw l (List.mem_of_mem_drop hl)
      · intro hL l hl
        rcases hL with hL | hL
        · refine hL1 hL l ?_
          simp only [List.length_drop, List.length_append, List.length_replicate,
            List.length_take, List.getElem?_drop] at hl
          rw [List.getElem?_append_right (by simp; omega)] at hl
          simp only [List.getElem?_drop, List.length_append, List.length_take,
            List.length_replicate] at hl
          rw [← hl]; congr 1; omega
        · omega
  · -- region not anchored at the top: rotate inside the view
    rw [if_neg hs]
    simp only [csub_eq_some (show 1 ≤ s by omega)]
    obtain ⟨b2, hb2, ok2, fr2, hL2⟩ := unwrapRow_ok ok1 (show s - 1 < b1.rows by omega)
    rw [hb2]
    have hvl2 := ok2.hv
    have hr2 := fr2.rows
    simp only []
    cases hrot : rotLRange b2.view s e (min n (e - s)) with
    | none =>
      rw [rotLRange_eq_some (Nat.le_of_lt hse) (by omega) (Nat.min_le_right _ _)] at hrot
      cases hrot
    | some v =>
      have hvlen := rotLRange_length hrot
      have ok3 : BOKW { b2 with view := v } :=
        ok2.setView v (by omega) fun l hl => ok2.hvw l (rotLRange_mem hrot hl)
      obtain ⟨b3, hb3, ok4, fr3, _, _, hL3⟩ :=
        clear_ok (a := e - min n (e - s)) (c := e) pen ok3 (Nat.sub_le _ _)
          (show e ≤ b2.rows by omega)
      simp only [] at hb3 ⊢
      rw [hb3]
      refine ⟨_, rfl, { ok4 with htrim := .inl rfl }, ?_, ?_⟩
      · exact ⟨fr3.cols.trans (fr2.cols.trans fr1.cols), fr3.rows.trans (fr2.rows.trans fr1.rows),
          fr3.limit.trans (fr2.limit.trans fr1.limit)⟩
      · intro hL
        refine hL3 ?_
        by_cases hcl : e = b.rows ∧ 1 ≤ min n (e - s)
        · exact .inr ⟨by omega, by show e = b2.rows; omega⟩
        · left
          have hLb : LastU b.view := by
            rcases hL with hL | hL
            · exact hL
            · omega
          have hL2' := hL2 (hL1 hLb)
          intro l hl
          refine hL2' l ?_
          simp only [hvlen, rotLRange_getElem? hrot] at hl
          split at hl
          · split at hl
            · rw [← hl]; congr 1; omega
            · omega
          · exact hl

theorem scrollDown_ok {b : Buffer} {s e : Nat} (n : Nat) (pen : Pen) (h : BOKW b) (hse : s < e)
    (he : e ≤ b.rows) : Keeps b (b.scrollDown s e n pen) := by
  have hvl := h.hv
  simp only [scrollDown, csub_eq_some (Nat.le_of_lt hse)]
  cases hrot : rotRRange b.view s e (min n (e - s)) with
  | none =>
    rw [rotRRange_eq_some (Nat.le_of_lt hse) (by omega) (Nat.min_le_right _ _)] at hrot
    cases hrot
  | some v =>
    have hvlen := rotRRange_length hrot
    have ok0 : BOKW { b with view := v } :=
      h.setView v (by omega) fun l hl => h.hvw l (rotRRange_mem hrot hl)
    obtain ⟨b1, hb1, ok1, fr1, _, _, hL1⟩ :=
      clear_ok (a := s) (c := s + min n (e - s)) pen ok0 (Nat.le_add_right _ _)
        (show s + min n (e - s) ≤ b.rows by omega)
    simp only [] at hb1 ⊢
    rw [hb1]
    simp only []
    obtain ⟨b2, hb2, ok2, fr2, hL2⟩ : ∃ b2,
        (if s > 0 then b1.unwrapRow (s - 1) else some b1) = some b2 ∧ BOKW b2 ∧ BFrame b1 b2
          ∧ (LastU b1.view → LastU b2.view) := by
      split
      · exact unwrapRow_ok ok1 (show s - 1 < b1.rows by have := fr1.rows; simp at this; omega)
      · exact ⟨b1, rfl, ok1, .refl b1, id⟩
    rw [hb2]
    simp only [csub_eq_some (show 1 ≤ e by omega)]
    have hr1 : b1.rows = b.rows := fr1.rows
    have hr2 := fr2.rows
    obtain ⟨b3, hb3, ok3, fr3, hL3⟩ := unwrapRow_last ok2 (show e - 1 < b2.rows by omega)
    refine ⟨b3, hb3, ok3, ?_, ?_⟩
    · exact ⟨fr3.cols.trans (fr2.cols.trans fr1.cols), fr3.rows.trans (fr2.rows.trans fr1.rows),
        fr3.limit.trans (fr2.limit.trans fr1.limit)⟩
    · intro hL
      refine hL3 ?_
      by_cases hee : e = b.rows
      · exact .inr (by omega)
      · left
        refine hL2 (hL1 (.inl ?_))
        intro l hl
        refine hL l ?_
        simp only [hvlen, rotRRange_getElem? hrot] at hl
        rw [if_neg (by omega)] at hl
        exact hl

/-! ### gc, new -/

theorem gc_ok {b : Buffer} (h : BOK b) :
    BOK b.gc.1 ∧ BFrame b b.gc.1 ∧ b.gc.1.trimNeeded = false ∧ b.gc.1.view = b.view
      ∧ b.gc.1.sb.length ≤ b.sb.length := by
  cases hg : b.gc with
  | mk b' out =>
  simp only []
  unfold gc at hg
  split at hg
  · simp only [] at hg
    split at hg
    · rename_i lim hl
      have hh := h.hlim lim hl
      generalize lim.soft / Gen.hardDiv = q at hh
      split at hg
      · rename_i hgt
        simp only [Prod.mk.injEq] at hg
        obtain ⟨rfl, -⟩ := hg
        refine ⟨⟨{ h.toBOKW with hsw := fun l hl' => h.hsw l (List.mem_of_mem_drop hl'),
                                 htrim := .inr fun l hl' => ?_ }, h.hlast⟩, ⟨rfl, rfl, rfl⟩, rfl, rfl, ?_⟩
        · simp only [] at hl'
          rw [hl] at hl'; cases hl'
          simp only [List.length_drop]; omega
        · simp
      · rename_i hgt
        simp only [Prod.mk.injEq] at hg
        obtain ⟨rfl, -⟩ := hg
        refine ⟨⟨{ h.toBOKW with htrim := .inr fun l hl' => ?_ }, h.hlast⟩, ⟨rfl, rfl, rfl⟩, rfl,
          rfl, Nat.le_refl _⟩
        simp only [] at hl'
        rw [hl] at hl'; cases hl'
        simp only []; omega
    · rename_i hl
      simp only [Prod.mk.injEq] at hg
      obtain ⟨rfl, -⟩ := hg
      refine ⟨⟨{ h.toBOKW with htrim := .inr fun l hl' => ?_ }, h.hlast⟩, ⟨rfl, rfl, rfl⟩, rfl, rfl,
        Nat.le_refl _⟩
      simp only [] at hl'
      rw [hl] at hl'; cases hl'
  · rename_i ht
    simp only [Prod.mk.injEq] at hg
    obtain ⟨rfl, -⟩ := hg
    refine ⟨h, ⟨rfl, rfl, rfl⟩, by simpa using ht, rfl, Nat.le_refl _⟩

/-- after `gc` the scrollback is within the hard limit -/
theorem gc_bound {b : Buffer} (h : BOK b) (lim : Limit) (hl : b.limit = some lim) :
    b.gc.1.sb.length ≤ lim.hard := by
  obtain ⟨h1, h2, h3, _, _⟩ := gc_ok h
  rcases h1.htrim with h4 | h4
  · rw [h3] at h4; cases h4
  · exact h4 lim (h2.limit.trans hl)

theorem new_ok {cols rows : Nat} (limit : Option Nat) (pen : Option Pen) (hc : 1 ≤ cols)
    (hr : 1 ≤ rows) : BOK (Buffer.new cols rows limit pen) := by
  refine ⟨⟨hc, hr, by simp [Buffer.new], ?_, by simp [Buffer.new], ?_, .inr ?_⟩, ?_⟩
  · intro l hl
    simp only [Buffer.new] at hl
    rw [(List.mem_replicate.1 hl).2]; exact Line.blank_len _ _
  · intro l hl
    simp only [Buffer.new] at hl
    cases limit <;> simp [mkLimit] at hl
    subst hl; rfl
  · intro l hl
    simp [Buffer.new]
  · intro l hl
    simp only [Buffer.new, List.length_replicate, List.getElem?_replicate] at hl
    split at hl
    · cases hl; rfl
    · cases hl

@[simp] theorem new_cols (cols rows : Nat) (limit : Option Nat) (pen : Option Pen) :
    (Buffer.new cols rows limit pen).cols = cols := rfl
@[simp] theorem new_rows (cols rows : Nat) (limit : Option Nat) (pen : Option Pen) :
    (Buffer.new cols rows limit pen).rows = rows := rfl
@[simp] theorem new_limit (cols rows : Nat) (limit : Option Nat) (pen : Option Pen) :
    (Buffer.new cols rows limit pen).limit = limit.map mkLimit := rfl
@[simp] theorem new_sb (cols rows : Nat) (limit : Option Nat) (pen : Option Pen) :
    (Buffer.new cols rows limit pen).sb = [] := rfl

end Buffer
end Avt
