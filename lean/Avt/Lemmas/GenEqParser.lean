/-
  Avt.Lemmas.GenEqParser — the generated translation of the hand-modelled parts of src/parser.rs
  (Avt/Gen/ParserGen.lean, regenerated from /repo/src by translate/rs2lean_p5.py on every run) EQUALS the
  hand-written model (`Avt.Param.*`, `Avt.Parser.{new,clear,collect,param}`, `Avt.Parser.sgrOps`), for all inputs.
  One theorem per generated function; `coverage_complete` ties the list of generated functions to the list of
  theorems.  A change in the Rust body of a translated function changes the generated definition and the
  corresponding theorem stops checking.
-/
import Avt.Gen.ParserGen
import Avt.Lemmas.Prim

set_option linter.unusedSimpArgs false
set_option linter.unusedVariables false

namespace Avt.GenEqParser
open Avt

/-! ### the checked primitives of the generated prelude -/

theorem ckAdd_eq (w a b : Nat) : GenP.ckAdd w a b = if a + b < w then some (a + b) else none := rfl
theorem ckMul_eq (w a b : Nat) : GenP.ckMul w a b = if a * b < w then some (a * b) else none := rfl

theorem slice_zero {α} (l : List α) (b : Nat) :
    GenP.slice l 0 b = if b ≤ l.length then some (l.take b) else none := by
  simp [GenP.slice]

theorem sliceFrom_eq {α} (l : List α) (a : Nat) :
    GenP.sliceFrom l a = if a ≤ l.length then some (l.drop a) else none := rfl

/-! ### Param -/

theorem Param.new_eq (n : Nat) : GenP.Param.new n = { curPart := 0, parts := [n, 0, 0, 0, 0, 0] } := rfl

theorem Param.default_eq : GenP.Param.default = ({} : Param) := rfl

theorem Param.clear_eq (p : Param) : GenP.Param.clear p = p.clear := by
  simp only [GenP.Param.clear, Avt.Param.clear]
  cases fillRange p.parts 0 (p.curPart + 1) 0 <;> rfl

theorem Param.addPart_eq (p : Param) : GenP.Param.addPart p = p.addPart := rfl

theorem Param.addDigit_eq (p : Param) (d : Nat) : GenP.Param.addDigit p d = p.addDigit d := by
  simp only [GenP.Param.addDigit, Avt.Param.addDigit, ckAdd_eq, ckMul_eq]
  cases p.parts[p.curPart]? with
  | none => rfl
  | some n =>
    simp only []
    by_cases h : 10 * n + d < 4294967296
    · have h1 : 10 * n < 4294967296 := by omega
      simp [h, h1]
    · by_cases h1 : 10 * n < 4294967296 <;> simp [h, h1]

theorem Param.asU16_eq (p : Param) : GenP.Param.asU16 p = p.asU16 := rfl

theorem Param.parts_eq (p : Param) : GenP.Param.parts p = p.partsSlice := by
  simp only [GenP.Param.parts, Avt.Param.partsSlice, slice_zero]

/-! ### Parser helpers -/

theorem new_eq : GenP.new = Parser.new := by decide

theorem collect_eq (p : Parser) (c : Nat) : GenP.collect p c = p.collect c := rfl

theorem put_eq (p : Parser) (c : Nat) : GenP.put p c = p := rfl

theorem oscPut_eq (p : Parser) (c : Nat) : GenP.oscPut p c = p := rfl

theorem mapM_clear (l : List Param) : List.mapM (fun p' => GenP.Param.clear p') l = l.mapM Param.clear := by
  congr 1; funext q; exact Param.clear_eq q

theorem clear_eq (p : Parser) : GenP.clear p = p.clear := by
  simp only [GenP.clear, Avt.Parser.clear, slice_zero, mapM_clear]
  by_cases h : p.curParam + 1 ≤ p.params.length
  · simp only [h, if_true]
    cases (p.params.take (p.curParam + 1)).mapM Param.clear <;> simp
  · simp [h]

theorem param_eq (p : Parser) (c : Nat) : GenP.param p c = p.param c := by
  simp only [GenP.param, Avt.Parser.param, modAt, modAtM, Param.addPart_eq, Param.addDigit_eq]
  by_cases h1 : c = 0x3b
  · simp only [h1, if_true]
    by_cases h2 : p.curParam + 1 = 32 <;> simp [h2, Gen.paramsLen]
  · simp only [h1, if_false]
    by_cases h2 : c = 0x3a
    · simp only [h2, if_true]
      cases p.params[p.curParam]? <;> rfl
    · simp only [h2, if_false]
      cases hq : p.params[p.curParam]? with
      | none => cases csub (c % 256) 0x30 <;> simp
      | some q =>
        cases csub (c % 256) 0x30 with
        | none => rfl
        | some d => simp only []; cases q.addDigit d <;> rfl

/-- the glue of `Parser::feed`: the statements of an arm body, run with the GENERATED helper functions -/
def runActsGen : List Act → Parser → Nat → Option (Parser × Option Function)
  | [], p, _ => some (p, none)
  | a :: as, p, input =>
    match a with
    | .setState s => runActsGen as { p with state := s } input
    | .clear => match GenP.clear p with | some p' => runActsGen as p' input | none => none
    | .collect => runActsGen as (GenP.collect p input) input
    | .param => match GenP.param p input with | some p' => runActsGen as p' input | none => none
    | .put => runActsGen as (GenP.put p input) input
    | .oscPut => runActsGen as (GenP.oscPut p input) input
    | .retExecute => some (p, Parser.execute input)
    | .retCsiDispatch => (p.csiDispatch input).map fun f => (p, f)
    | .retEscDispatch => p.escDispatch input
    | .retPrint => some (p, some (.print input))

/-- every action name of the regenerated `feedArms` table runs the generated function of the same name -/
theorem runActs_gen (as : List Act) (p : Parser) (c : Nat) : Parser.runActs as p c = runActsGen as p c := by
  induction as generalizing p with
  | nil => rfl
  | cons a as ih =>
    cases a <;> simp only [Parser.runActs, runActsGen, clear_eq, param_eq, collect_eq, put_eq, oscPut_eq, ih] <;> rfl

/-- the methods `Parser::feed` calls: the five helpers proved above plus the three table-translated dispatchers -/
theorem feedCalls_as_expected :
    GenP.feedCalls = ["param", "clear", "csi_dispatch", "execute", "osc_put", "collect", "esc_dispatch", "put"] := by
  decide

/-! ### SgrOps::next -/

/-- the model's `sgrStep` result, in the shape of the generated loop body: the new `self.ps` and the value the
    body `return`ed (`none`: no `return`, the loop goes on) -/
def conv (rest : List Param) (x : Option (Option SgrOp × Nat)) : Option (GenP.SgrOps × Option (Option SgrOp)) :=
  x.bind fun r => some (⟨rest.drop r.2⟩, r.1.map some)

theorem sliceFrom_succ {α} (x : α) (l : List α) (k : Nat) : GenP.sliceFrom (x :: l) (k + 1) = GenP.sliceFrom l k := by
  simp [GenP.sliceFrom]

theorem sliceFrom_zero {α} (l : List α) : GenP.sliceFrom l 0 = some l := by
  simp [GenP.sliceFrom]

theorem arms4_eq (p : Param) (rest : List Param) (parts : List Nat) :
    GenP.SgrOps.next.arms4 ⟨p :: rest⟩ p parts = some (⟨rest⟩, none) := by
  simp [GenP.SgrOps.next.arms4, sliceFrom_succ, sliceFrom_zero]

theorem arms3_single (p : Param) (rest : List Param) (n : Nat) :
    GenP.SgrOps.next.arms3 ⟨p :: rest⟩ p [n] =
      if 100 ≤ n ∧ n ≤ 107 then some (⟨rest⟩, some (some (.setBg (.indexed ((n - 100 + 8) % 256)))))
      else some (⟨rest⟩, none) := by
  simp only [GenP.SgrOps.next.arms3, arms4_eq, ckAdd_eq, sliceFrom_succ, sliceFrom_zero]
  by_cases g : 100 ≤ n ∧ n ≤ 107
  · rw [if_pos (by omega), if_pos g, csub_eq_some (by omega)]
    simp only []
    rw [if_pos (by omega)]
  · rw [if_neg (by omega), if_neg g]

theorem arms2_single (p : Param) (rest : List Param) (n : Nat) (h48 : n ≠ 48) (h49 : n ≠ 49) :
    GenP.SgrOps.next.arms2 ⟨p :: rest⟩ p [n] =
      if 90 ≤ n ∧ n ≤ 97 then some (⟨rest⟩, some (some (.setFg (.indexed ((n - 90 + 8) % 256)))))
      else GenP.SgrOps.next.arms3 ⟨p :: rest⟩ p [n] := by
  simp only [GenP.SgrOps.next.arms2, h48, h49, ckAdd_eq, sliceFrom_succ, sliceFrom_zero]
  · by_cases g : 90 ≤ n ∧ n ≤ 97
    · rw [if_pos (by omega), if_pos g, csub_eq_some (by omega)]
      simp only []
      rw [if_pos (by omega)]
    · rw [if_neg (by omega), if_neg g]

theorem arms1_single (p : Param) (rest : List Param) (n : Nat) (h38 : n ≠ 38) (h39 : n ≠ 39) :
    GenP.SgrOps.next.arms1 ⟨p :: rest⟩ p [n] =
      if 40 ≤ n ∧ n ≤ 47 then some (⟨rest⟩, some (some (.setBg (.indexed ((n - 40) % 256)))))
      else GenP.SgrOps.next.arms2 ⟨p :: rest⟩ p [n] := by
  simp only [GenP.SgrOps.next.arms1, h38, h39, sliceFrom_succ, sliceFrom_zero]
  · by_cases g : 40 ≤ n ∧ n ≤ 47
    · rw [if_pos (by omega), if_pos g, csub_eq_some (by omega)]
    · rw [if_neg (by omega), if_neg g]

/-- unfolds the generated loop body and its continuation arms -/
macro "unfold_body" : tactic => `(tactic|
  simp only [GenP.SgrOps.next.loop1.body, GenP.SgrOps.next.arms1, GenP.SgrOps.next.arms2, Param.parts_eq,
    List.getElem?_cons_succ, List.getElem?_cons_zero, sliceFrom_succ, sliceFrom_zero])

/-- the `[38]` / `[48]` arms: the colour is taken from the following parameters -/
macro "colour_arm" hp:ident rest:ident : tactic => `(tactic|
  (cases $rest:ident with
   | nil => simp [GenP.SgrOps.next.loop1.body, GenP.SgrOps.next.arms1, GenP.SgrOps.next.arms2, Param.parts_eq, $hp:ident,
              conv, sliceFrom_succ, sliceFrom_zero]
   | cons q rest' =>
     simp only [GenP.SgrOps.next.loop1.body, GenP.SgrOps.next.arms1, GenP.SgrOps.next.arms2, Param.parts_eq, $hp:ident,
       List.getElem?_cons_succ, List.getElem?_cons_zero, sliceFrom_succ, sliceFrom_zero]
     cases hq : q.partsSlice with
     | none => simp [conv]
     | some qp =>
       simp only []
       repeat rw [if_neg (by omega)]
       by_cases h2 : qp = [2]
       · subst h2
         rcases rest' with _ | ⟨a, _ | ⟨b, _ | ⟨c, t⟩⟩⟩ <;>
           simp [conv, Param.asU16_eq, sliceFrom_succ, sliceFrom_zero, GenP.Color.rgb, Parser.u8]
         cases a.asU16 <;> cases b.asU16 <;> cases c.asU16 <;> simp
       · by_cases h5 : qp = [5]
         · subst h5
           rcases rest' with _ | ⟨a, t⟩ <;>
             simp [conv, Param.asU16_eq, sliceFrom_succ, sliceFrom_zero, Parser.u8]
           cases a.asU16 <;> simp
         · split <;> first | (simp_all [conv]; done) | (split <;> simp_all [conv])))

/-- one iteration of the generated `while let` loop is the model's `sgrStep` -/
theorem body_eq (p : Param) (rest : List Param) :
    GenP.SgrOps.next.loop1.body ⟨p :: rest⟩ p = conv rest (Parser.sgrStep p rest) := by
  cases hp : p.partsSlice with
  | none => simp [GenP.SgrOps.next.loop1.body, Parser.sgrStep, Param.parts_eq, hp, conv]
  | some parts =>
    revert rest
    intro rest
    simp only [Parser.sgrStep, hp]
    split
    all_goals (try (simp [GenP.SgrOps.next.loop1.body, Param.parts_eq, hp, conv, sliceFrom_succ, sliceFrom_zero,
      GenP.SgrOps.next.arms1, GenP.SgrOps.next.arms2, GenP.SgrOps.next.arms3, GenP.SgrOps.next.arms4, Parser.u8,
      GenP.Color.rgb]; done))
    · colour_arm hp rest
    · colour_arm hp rest
    · next n _ _ _ _ _ _ _ _ _ _ _ _ _ _ _ h38 h39 h48 h49 =>
      have hb : GenP.SgrOps.next.loop1.body ⟨p :: rest⟩ p =
          if 30 ≤ n ∧ n ≤ 37 then some (⟨rest⟩, some (some (.setFg (.indexed ((n - 30) % 256)))))
          else GenP.SgrOps.next.arms1 ⟨p :: rest⟩ p [n] := by
        simp only [GenP.SgrOps.next.loop1.body, Param.parts_eq, hp, sliceFrom_succ, sliceFrom_zero, *]
        · by_cases g : 30 ≤ n ∧ n ≤ 37
          · rw [if_pos (by omega), if_pos g, csub_eq_some (by omega)]
          · rw [if_neg (by omega), if_neg g]
      rw [hb, arms1_single p rest n (fun h => h38 h) (fun h => h39 h),
        arms2_single p rest n (fun h => h48 h) (fun h => h49 h), arms3_single]
      simp only [Parser.u8, conv]
      by_cases g1 : 30 ≤ n ∧ n ≤ 37
      · simp [g1]
      · by_cases g2 : 40 ≤ n ∧ n ≤ 47
        · simp [g1, g2]
        · by_cases g3 : 90 ≤ n ∧ n ≤ 97
          · simp [g1, g2, g3]
          · by_cases g4 : 100 ≤ n ∧ n ≤ 107 <;> simp [g1, g2, g3, g4]

/-- `SgrOps::next` in the style of the model's `sgrGo` (structural, with a skip counter): the remaining
    parameters and the op returned -/
def nextGo : Nat → List Param → Option (List Param × Option SgrOp)
  | _, [] => some ([], none)
  | k + 1, _ :: rest => nextGo k rest
  | 0, p :: rest =>
    match Parser.sgrStep p rest with
    | none => none
    | some (some op, k) => some (rest.drop k, some op)
    | some (none, k) => nextGo k rest

theorem nextGo_drop (k : Nat) (l : List Param) : nextGo k l = nextGo 0 (l.drop k) := by
  induction l generalizing k with
  | nil => simp [nextGo]
  | cons x r ih => cases k with
    | zero => rfl
    | succ k => simp only [nextGo, List.drop_succ_cons]; exact ih k

theorem sgrGo_drop (k : Nat) (l : List Param) : Parser.sgrGo k l = Parser.sgrGo 0 (l.drop k) := by
  induction l generalizing k with
  | nil => simp [Parser.sgrGo]
  | cons x r ih => cases k with
    | zero => rfl
    | succ k => simp only [Parser.sgrGo, List.drop_succ_cons]; exact ih k

theorem nextGo_length {k : Nat} {ps l : List Param} {op : SgrOp} (h : nextGo k ps = some (l, some op)) :
    l.length < ps.length := by
  induction ps generalizing k with
  | nil => simp [nextGo] at h
  | cons p rest ih =>
    cases k with
    | succ k => simp only [nextGo] at h; have := ih h; simp only [List.length_cons]; omega
    | zero =>
      simp only [nextGo] at h
      cases hs : Parser.sgrStep p rest with
      | none => simp [hs] at h
      | some r =>
        obtain ⟨o, j⟩ := r
        cases o with
        | none => simp only [hs] at h; have := ih h; simp only [List.length_cons]; omega
        | some o =>
          simp only [hs, Option.some.injEq, Prod.mk.injEq] at h
          obtain ⟨h1, _⟩ := h
          subst h1
          simp only [List.length_drop, List.length_cons]; omega

/-- the generated `while let` loop, given enough fuel, is `nextGo` -/
theorem loop1_eq (fuel : Nat) (ps : List Param) (h : ps.length < fuel) :
    GenP.SgrOps.next.loop1 fuel ⟨ps⟩ = (nextGo 0 ps).map fun r => (⟨r.1⟩, r.2.map some) := by
  induction fuel generalizing ps with
  | zero => omega
  | succ fuel ih =>
    cases ps with
    | nil => simp [GenP.SgrOps.next.loop1, nextGo]
    | cons p rest =>
      simp only [GenP.SgrOps.next.loop1, List.head?_cons, body_eq, conv, nextGo]
      cases hs : Parser.sgrStep p rest with
      | none => simp
      | some r =>
        obtain ⟨o, j⟩ := r
        cases o with
        | some o => simp
        | none =>
          simp only [Option.bind_some, Option.map_none]
          rw [ih (rest.drop j) (by simp only [List.length_drop, List.length_cons] at h ⊢; omega), nextGo_drop j rest]

theorem next_nextGo (ps : List Param) :
    GenP.SgrOps.next ⟨ps⟩ = (nextGo 0 ps).map fun r => (⟨r.1⟩, r.2) := by
  simp only [GenP.SgrOps.next, loop1_eq (ps.length + 1) ps (by omega)]
  cases nextGo 0 ps with
  | none => rfl
  | some r => obtain ⟨l, o⟩ := r; cases o <;> rfl

theorem sgrGo_nextGo (k : Nat) (ps : List Param) :
    Parser.sgrGo k ps =
      match nextGo k ps with
      | none => none
      | some (_, none) => some []
      | some (l, some op) => (Parser.sgrGo 0 l).map (op :: ·) := by
  induction ps generalizing k with
  | nil => simp [Parser.sgrGo, nextGo]
  | cons p rest ih =>
    cases k with
    | succ k => simp only [Parser.sgrGo, nextGo]; exact ih k
    | zero =>
      simp only [Parser.sgrGo, nextGo]
      cases hs : Parser.sgrStep p rest with
      | none => rfl
      | some r =>
        obtain ⟨o, j⟩ := r
        cases o with
        | some o =>
          simp only []
          rw [sgrGo_drop j rest]
          cases Parser.sgrGo 0 (rest.drop j) <;> rfl
        | none =>
          simp only []
          rw [ih j]
          cases nextGo j rest with
          | none => rfl
          | some r => obtain ⟨l, o⟩ := r; cases o with
            | none => rfl
            | some o => simp only []; cases Parser.sgrGo 0 l <;> rfl

theorem collect_fuel (fuel : Nat) (ps : List Param) (h : ps.length < fuel) :
    GenP.SgrOps.collect fuel ⟨ps⟩ = Parser.sgrGo 0 ps := by
  induction fuel generalizing ps with
  | zero => omega
  | succ fuel ih =>
    rw [GenP.SgrOps.collect, next_nextGo, sgrGo_nextGo]
    cases hn : nextGo 0 ps with
    | none => rfl
    | some r =>
      obtain ⟨l, o⟩ := r
      cases o with
      | none => rfl
      | some o =>
        simp only [Option.map_some]
        rw [ih l (by have := nextGo_length hn; omega)]
        cases Parser.sgrGo 0 l <;> rfl

/-- **`SgrOps { ps }.collect()` (generated from `SgrOps::next`) is the model's `sgrOps`**, for every parameter list;
    in particular the fuel of the two generated loops always suffices -/
theorem SgrOps.collect_eq (ps : List Param) :
    GenP.SgrOps.collect (ps.length + 1) ⟨ps⟩ = Parser.sgrOps ps :=
  collect_fuel _ ps (by omega)

/-- one call of the generated `SgrOps::next`: the op it returns and what is left, in terms of the model's `sgrStep` -/
theorem SgrOps.next_eq (ps : List Param) :
    GenP.SgrOps.next ⟨ps⟩ = (nextGo 0 ps).map fun r => (⟨r.1⟩, r.2) := next_nextGo ps

/-! ### Color::rgb -/

theorem Color.rgb_eq (r g b : Nat) : GenP.Color.rgb r g b = Avt.Color.rgb r g b := rfl

/-! ### coverage -/

/-- the functions of this module that have an equality theorem above -/
def provedFunctions : List String := [
  "Parser::new", "Parser::clear", "Parser::collect", "Parser::param", "Parser::put", "Parser::osc_put",
  "SgrOps::next", "Param::new", "Param::clear", "Param::add_part", "Param::add_digit", "Param::as_u16",
  "Param::parts", "Param::default", "Color::rgb"]

/-- every function the translator emitted has its theorem here (a new Rust function shows up as a failure) -/
theorem coverage_complete : GenP.translated = provedFunctions := by decide

theorem untranslated_as_expected : GenP.untranslated = [] := by decide

end Avt.GenEqParser
