/-
  Avt.Lemmas.C07Edit — ED/EL/ECH/ICH/DCH/DECALN of `Terminal.execute` meet `editSpec`.
-/
import Avt.Lemmas.C07Row

namespace Avt.C07L
open Avt.PrimL
open Avt.Spec.C07

/-- what the proofs need from the invariant -/
structure EditFacts (t : Terminal) : Prop where
  bcols : t.buffer.cols = t.cols
  brows : t.buffer.rows = t.rows
  cols1 : 1 ≤ t.cols
  rows1 : 1 ≤ t.rows
  vlen : t.buffer.view.length = t.rows
  width : ∀ l ∈ t.buffer.view, l.cells.length = t.cols
  row : t.cursor.row < t.rows
  col : t.cursor.col ≤ t.cols
  pend : t.cursor.col < t.cols → t.pendingWrap = false
  dlen : t.dirtyLines.length = t.rows

theorem editFacts {t : Terminal} (h : TInv t = true) : EditFacts t := by
  simp [TInv, BInv] at h
  constructor <;> grind

theorem set_eq_onRowOf (v : List Line) (row : Nat) (g : Line → Line) (h : row < v.length) :
    v.set row (g v[row]) = onRowOf v row g := by
  unfold onRowOf
  list_pw

theorem updRow_eq (b : Buffer) (row : Nat) (f : Line → Option Line) (g : Line → Line)
    (h : row < b.view.length) (hf : f b.view[row] = some (g b.view[row])) :
    b.updRow row f = some { b with view := onRowOf b.view row g } := by
  unfold Buffer.updRow
  rw [modAtM_eq _ _ _ _ h hf, set_eq_onRowOf _ _ _ h]
  rfl

theorem markDirty_eq (t : Terminal) (row : Nat) (h : row < t.dirtyLines.length) :
    t.markDirty row = some { t with dirtyLines := markRange t.dirtyLines row (row + 1) } := by
  unfold Terminal.markDirty Dirty.add setAt markRange
  simp only [h, if_true, Option.map_some]
  congr 2
  list_pw

theorem markDirtyRange_eq (t : Terminal) (a b : Nat) (h1 : a ≤ b) (h2 : b ≤ t.dirtyLines.length) :
    t.markDirtyRange a b = some { t with dirtyLines := markRange t.dirtyLines a b } := by
  unfold Terminal.markDirtyRange Dirty.extend markRange
  rw [fillRange_eq _ _ _ _ h1 h2]
  rfl

theorem bufClear_eq (b : Buffer) (a c : Nat) (pen : Pen) (h1 : a ≤ c) (h2 : c ≤ b.view.length) :
    b.clear a c pen = some { b with view := b.view.take a ++ blankRows (c - a) b.cols pen ++ b.view.drop c } := by
  unfold Buffer.clear
  rw [fillRange_eq _ _ _ _ h1 h2]
  rfl

theorem getElem_width {t : Terminal} (F : EditFacts t) (h : t.cursor.row < t.buffer.view.length) :
    (t.buffer.view[t.cursor.row]).cells.length = t.cols :=
  F.width _ (List.getElem_mem h)

theorem el_eq (t : Terminal) (s : ElScope) (h : TInv t = true) : t.el s = some (editSpec t (.el s)) := by
  have F := editFacts h
  have hr : t.cursor.row < t.buffer.view.length := by rw [F.vlen]; exact F.row
  have hw := getElem_width F hr
  unfold Terminal.el Terminal.eraseWith Buffer.erase
  cases s
  · simp only [F.bcols]
    rw [updRow_eq _ _ _ (eraseRight t.cols t.cursor.col t.pen) hr (row_el0 _ _ _ _ hw F.col)]
    simp only [Option.map_some]
    rw [markDirty_eq _ _ (by simp only; rw [F.dlen]; exact F.row)]
    rfl
  · simp only [F.bcols]
    rw [updRow_eq _ _ _ (eraseLeft t.cols t.cursor.col t.pen) hr (row_el1 _ _ _ _ hw)]
    simp only [Option.map_some]
    rw [markDirty_eq _ _ (by simp only; rw [F.dlen]; exact F.row)]
    rfl
  · simp only [F.bcols]
    rw [updRow_eq _ _ _ (eraseRow t.cols t.pen) hr (row_el2 _ _ _ hw)]
    simp only [Option.map_some]
    rw [markDirty_eq _ _ (by simp only; rw [F.dlen]; exact F.row)]
    rfl

theorem ech_eq (t : Terminal) (n : Nat) (h : TInv t = true) : t.ech n = some (editSpec t (.ech n)) := by
  have F := editFacts h
  have hr : t.cursor.row < t.buffer.view.length := by rw [F.vlen]; exact F.row
  have hw := getElem_width F hr
  unfold Terminal.ech Terminal.eraseWith Buffer.erase
  simp only [F.bcols, csub_eq' _ _ F.col]
  rw [updRow_eq _ _ _ (eraseChars t.cols t.cursor.col (asUsize n 1) t.pen) hr (row_ech _ _ _ _ _ hw F.col)]
  simp only [Option.map_some]
  rw [markDirty_eq _ _ (by simp only; rw [F.dlen]; exact F.row)]
  rfl

theorem ich_eq (t : Terminal) (n : Nat) (h : TInv t = true) : t.ich n = some (editSpec t (.ich n)) := by
  have F := editFacts h
  have hr : t.cursor.row < t.buffer.view.length := by rw [F.vlen]; exact F.row
  have hw := getElem_width F hr
  unfold Terminal.ich Buffer.insert
  simp only [F.bcols, csub_eq' _ _ F.col]
  rw [updRow_eq _ _ _ (insertChars t.cols t.cursor.col (asUsize n 1) t.pen) hr (row_ich _ _ _ _ _ hw F.col)]
  simp only
  rw [markDirty_eq _ _ (by simp only; rw [F.dlen]; exact F.row)]
  rfl

theorem dch_unfold (t : Terminal) (n : Nat) (h1 : 1 ≤ t.cols) :
    t.dch n =
      match (leavePending t).buffer.delete (leavePending t).cursor.col (leavePending t).cursor.row
          (asUsize n 1) (leavePending t).pen with
      | none => none
      | some b => ({ leavePending t with buffer := b } : Terminal).markDirty (leavePending t).cursor.row := by
  unfold Terminal.dch leavePending
  by_cases hge : t.cursor.col ≥ t.cols
  · have : ¬ (t.cols - 1 ≥ t.cols) := by omega
    simp only [hge, if_true, csub_eq' _ _ h1, Terminal.moveCursorToCol, this, if_false,
      Terminal.doMoveCursorToCol]
    rfl
  · simp only [hge, if_false]
    rfl

theorem dch_eq (t : Terminal) (n : Nat) (h : TInv t = true) : t.dch n = some (editSpec t (.dch n)) := by
  have F := editFacts h
  have hr : t.cursor.row < t.buffer.view.length := by rw [F.vlen]; exact F.row
  have hw := getElem_width F hr
  rw [dch_unfold t n F.cols1]
  simp only [editSpec]
  have e1 : (leavePending t).buffer = t.buffer := by unfold leavePending; split <;> rfl
  have e2 : (leavePending t).cursor.row = t.cursor.row := by unfold leavePending; split <;> rfl
  have e3 : (leavePending t).pen = t.pen := by unfold leavePending; split <;> rfl
  have e4 : (leavePending t).dirtyLines = t.dirtyLines := by unfold leavePending; split <;> rfl
  have e5 : (leavePending t).cursor.col ≤ t.cols := by
    unfold leavePending; split
    · simp only; omega
    · exact F.col
  generalize leavePending t = t2 at e1 e2 e3 e4 e5 ⊢
  unfold Buffer.delete
  simp only [e1, e2, e3, F.bcols, csub_eq' _ _ e5]
  rw [updRow_eq _ _ _ (deleteChars t.cols t2.cursor.col (asUsize n 1) t.pen) hr (row_dch _ _ _ _ _ hw e5)]
  simp only
  rw [markDirty_eq _ _ (by simp only; rw [e4, F.dlen]; exact F.row)]
  simp only [onRow, withView, e1, e2, e3, e4]

theorem ed_eq (t : Terminal) (s : EdScope) (h : TInv t = true) : t.ed s = some (editSpec t (.ed s)) := by
  have F := editFacts h
  have hr : t.cursor.row < t.buffer.view.length := by rw [F.vlen]; exact F.row
  have hw := getElem_width F hr
  have hvl := F.vlen
  have hrow := F.row
  unfold Terminal.ed Terminal.eraseWith Buffer.erase
  cases s
  · simp only [F.bcols]
    rw [updRow_eq _ _ _ (eraseRight t.cols t.cursor.col t.pen) hr (row_ed0 _ _ _ _ hw F.col)]
    simp only
    rw [bufClear_eq _ _ _ _ (by simp only [F.brows]; omega) (by simp [onRowOf, F.brows]; omega)]
    simp only [Option.map_some]
    rw [markDirtyRange_eq _ _ _ (by (try simp only) <;> omega) (by simp only [F.dlen]; omega)]
    simp only [editSpec, withView, F.brows, F.bcols]
    congr 3
    unfold onRowOf blankRows
    list_pw
  · simp only [F.bcols]
    rw [updRow_eq _ _ _ (eraseLeft t.cols t.cursor.col t.pen) hr (row_el1 _ _ _ _ hw)]
    simp only
    rw [bufClear_eq _ _ _ _ (Nat.zero_le _) (by simp [onRowOf]; omega)]
    simp only [Option.map_some]
    rw [markDirtyRange_eq _ _ _ (by (try simp only) <;> omega) (by simp only [F.dlen]; omega)]
    simp only [editSpec, withView, F.brows, F.bcols]
    congr 3
    unfold onRowOf blankRows
    list_pw
  · rw [bufClear_eq _ _ _ _ (Nat.zero_le _) (by rw [F.brows, F.vlen]; exact Nat.le_refl _)]
    simp only [Option.map_some]
    rw [markDirtyRange_eq _ _ _ (by (try simp only) <;> omega) (by simp only [F.dlen]; omega)]
    simp only [editSpec, withView, F.brows, F.bcols]
    congr 3
    unfold blankRows
    list_pw
  · rfl

/-! ### DECALN -/

def cellE : Cell := ⟨0x45, Pen.default⟩

def partE (l : Line) (col j : Nat) : Line :=
  ⟨l.cells.take col ++ List.replicate j cellE ++ l.cells.drop (col + j), l.wrapped⟩

theorem set_self_of_getElem? {α} (v : List α) (i : Nat) (x : α) (h : v[i]? = some x) : v.set i x = v := by
  apply List.ext_getElem?
  intro j
  rw [List.getElem?_set]
  split
  · subst_vars
    split
    · exact h.symm
    · rw [List.getElem?_eq_none (by omega)] at h; cases h
  · rfl

theorem partE_zero (l : Line) (col : Nat) : partE l col 0 = l := by
  cases l
  simp [partE]

theorem partE_succ (l : Line) (col j : Nat) (h : col < l.cells.length) :
    partE ⟨l.cells.set col cellE, l.wrapped⟩ (col + 1) j = partE l col (j + 1) := by
  unfold partE
  simp only
  congr 1
  list_pw

theorem partE_full (l : Line) (cols : Nat) (h : l.cells.length = cols) :
    partE l 0 cols = alignRow cols l := by
  unfold partE alignRow cellE
  congr 1
  list_pw

theorem decalnCols_eq (j : Nat) : ∀ (b : Buffer) (row col : Nat) (l : Line),
    b.view[row]? = some l → col + j ≤ l.cells.length →
    Terminal.decalnCols b row col j = some { b with view := b.view.set row (partE l col j) } := by
  induction j with
  | zero =>
    intro b row col l hl hc
    simp only [Terminal.decalnCols, partE_zero, set_self_of_getElem? _ _ _ hl]
  | succ j ih =>
    intro b row col l hl hc
    have hrow : row < b.view.length := by
      rcases Nat.lt_or_ge row b.view.length with h | h
      · exact h
      · rw [List.getElem?_eq_none h] at hl; cases hl
    unfold Terminal.decalnCols
    have hp : b.print col row ⟨0x45, Pen.default⟩
        = some { b with view := b.view.set row ⟨l.cells.set col cellE, l.wrapped⟩ } := by
      unfold Buffer.print Buffer.updRow modAtM Line.print setAt
      have : col < l.cells.length := by omega
      simp only [hl, this, if_true, Option.map_some]
      rfl
    rw [hp]
    simp only
    rw [ih _ row (col + 1) ⟨l.cells.set col cellE, l.wrapped⟩
      (by simp only [List.getElem?_set_self hrow]) (by simp only [List.length_set]; omega)]
    simp only [List.set_set]
    rw [partE_succ l col j (by omega)]

theorem decalnRows_eq (k : Nat) : ∀ (t : Terminal) (r : Nat),
    t.buffer.view.length = t.rows → (∀ l ∈ t.buffer.view, l.cells.length = t.cols) →
    t.dirtyLines.length = t.rows → r + k ≤ t.rows →
    Terminal.decalnRows t r k = some (withView t
      (t.buffer.view.take r ++ ((t.buffer.view.drop r).take k).map (alignRow t.cols) ++ t.buffer.view.drop (r + k))
      (markRange t.dirtyLines r (r + k))) := by
  induction k with
  | zero =>
    intro t r hv hw hd hrk
    simp only [Terminal.decalnRows, withView, markRange, List.take_zero, List.map_nil, List.append_nil,
      Nat.add_zero, List.take_append_drop, Nat.sub_self, List.replicate_zero]
  | succ k ih =>
    intro t r hv hw hd hrk
    have hr : r < t.buffer.view.length := by omega
    have hl : t.buffer.view[r]? = some t.buffer.view[r] := List.getElem?_eq_getElem hr
    have hwl : (t.buffer.view[r]).cells.length = t.cols := hw _ (List.getElem_mem hr)
    unfold Terminal.decalnRows
    rw [decalnCols_eq t.cols t.buffer r 0 _ hl (by omega), partE_full _ _ hwl]
    simp only
    rw [markDirty_eq _ _ (by simp only; omega)]
    simp only
    rw [ih _ (r + 1) (by simp only [List.length_set]; exact hv)
      (by
        intro l hmem
        simp only at hmem
        rcases List.mem_or_eq_of_mem_set hmem with h | h
        · exact hw l h
        · subst h; simp [alignRow])
      (by simp [markRange]; omega) (by simp only; omega)]
    simp only [withView]
    congr 1
    congr 1
    · congr 1
      list_pw
    · unfold markRange
      list_pw

theorem decaln_eq (t : Terminal) (h : TInv t = true) : t.decaln = some (editSpec t .decaln) := by
  have F := editFacts h
  unfold Terminal.decaln
  rw [decalnRows_eq t.rows t 0 F.vlen F.width F.dlen (by omega)]
  simp only [editSpec, withView, Nat.zero_add]
  congr 3
  rw [← F.vlen]
  simp

/-- C07: every covered editing function does exactly what `editSpec` says -/
theorem edit_eq (t : Terminal) (f : Function) (h : TInv t = true) (hf : coveredEdit f = true) :
    t.execute f = some (editSpec t f) := by
  cases f <;> simp only [coveredEdit, Bool.false_eq_true] at hf
  case ed s => exact ed_eq t s h
  case el s => exact el_eq t s h
  case ech n => exact ech_eq t n h
  case ich n => exact ich_eq t n h
  case dch n => exact dch_eq t n h
  case decaln => exact decaln_eq t h

end Avt.C07L
