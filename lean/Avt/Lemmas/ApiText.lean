/-
  Avt.Lemmas.ApiText — the texts a user of `feed_str` writes, and the function each one makes the
  parser emit (composition of the C03 theorems; nothing here looks at the generated tables).

    SeqText p xs of      `xs` is one complete item as the parser in state `p` reads it, emitting `of`:
                         * a whole CSI sequence (7- or 8-bit introducer, any private marker, any
                           parameter string, any intermediates, final) — from ANY parser state;
                         * a whole ESC sequence — from ANY parser state;
                         * a C0 / C1 control with a function — from Ground;
                         * a printable character — from Ground.
    SeqText.run          the parser emits exactly `of.toList`, is in Ground afterwards, keeps `PInv`.
    CmdText p xs f       the explicit spellings: `CSI n X` for the 21 one-parameter commands,
                         `CSI a;b X` / `CSI a X` / `CSI X` for CUP, HVP, DECSTBM, the selector commands
                         ED / EL / TBC / CTC, `CSI ? n h/l`, `CSI s`, `CSI u`, `CSI ! p`, `ESC 7`,
                         `ESC 8`, `ESC D/E/H/M`, `ESC # 8`, and the twelve C0 / C1 controls.  Numbers
                         are ANY digit strings: empty (missing), leading zeros, `0`; the value read is
                         `val ds = decVal ds % 65536`, i.e. exact up to 65535 (`val_of_le`).
    CmdText.seq          every such spelling is a `SeqText` for the function the property names.
    run_printables       a run of printable characters from Ground emits one `Print` each.
-/
import Avt.Lemmas.ApiBridge

namespace Avt.Api
open Avt Avt.Spec Avt.Spec.C03 Avt.Spec.C20 Avt.ParserSeq Avt.ParserSem

/-- the two CSI introducers: 7-bit `ESC [` and 8-bit `0x9B` -/
def IsCsi (intro : List Nat) : Prop := intro = [0x1B, 0x5B] ∨ intro = [0x9B]

/-- what the resting parser prints: `0x20..0x7F` (DEL included) and every code point from `0xA0` on -/
abbrev printable (c : Nat) : Bool := Lemmas.C11.printableCh c

/-- one complete item of input as the parser in state `p` reads it, and the function it emits -/
inductive SeqText (p : Parser) : List Nat → Option Function → Prop
  | csi {intro : List Nat} (hi : IsCsi intro) (t : CsiText) (ht : t.wf = true) :
      SeqText p (intro ++ t.body) t.fn
  | esc (t : EscText) (ht : t.wf = true) : SeqText p (0x1B :: t.body) t.fn
  | ctl (hg : p.state = .Ground) {c : Nat} {f : Function} (hc : (c, f) ∈ refExecTable) :
      SeqText p [c] (some f)
  | print (hg : p.state = .Ground) {c : Nat} (hc : printable c = true) : SeqText p [c] (some (.print c))

/-- the twelve controls with a function: executed in Ground -/
theorem ctl_facts {c : Nat} {f : Function} (hc : (c, f) ∈ refExecTable) :
    c < 0x110000 ∧ williams .Ground c = (.execute, .Ground) ∧ refExecute c = some f := by
  simp only [refExecTable, List.mem_cons, Prod.mk.injEq, List.not_mem_nil, or_false] at hc
  rcases hc with h | h | h | h | h | h | h | h | h | h | h | h <;>
    (obtain ⟨rfl, rfl⟩ := h; exact ⟨by decide, by decide, rfl⟩)

/-- **text ↦ function**: the parser emits exactly the item's function and is in Ground afterwards -/
theorem SeqText.run {p : Parser} {xs : List Nat} {of : Option Function} (hp : PInv p = true)
    (h : SeqText p xs of) :
    ∃ q, Spec.C03.run p xs = some (q, of.toList) ∧ q.state = .Ground ∧ PInv q = true := by
  cases h with
  | csi hi t ht => exact Props.C03.C03_csi_sequence hp _ hi t ht
  | esc t ht => exact Props.C03.C03_esc_sequence hp t ht
  | @ctl hg c f hc =>
    obtain ⟨hlt, hw, he⟩ := ctl_facts hc
    obtain ⟨p', h1, h2, h3⟩ := feed_refStep hp c hlt
    have hs : (abs p).state = .Ground := hg
    rw [refStep_execute (a := abs p) (s := .Ground) (by rw [hs]; exact hw)] at h1 h2
    refine ⟨p', ?_, congrArg AState.state h2, h3⟩
    simp only [Spec.C03.run, h1, he, Option.toList, List.append_nil]
  | @print hg c hc =>
    refine ⟨p, ?_, hg, hp⟩
    simp only [Spec.C03.run, Lemmas.C11.feed_printableCh p hg hc, Option.toList, List.append_nil]

/-- a run of printable characters from Ground: one `Print` per character, the parser untouched -/
theorem run_printables : ∀ (xs : List Nat) {p : Parser}, p.state = .Ground →
    (∀ c ∈ xs, printable c = true) → Spec.C03.run p xs = some (p, xs.map Function.print)
  | [], _, _, _ => rfl
  | c :: cs, p, hg, h => by
    have h1 := Lemmas.C11.feed_printableCh p hg (h c (List.mem_cons_self ..))
    have h2 := run_printables cs hg fun d hd => h d (List.mem_cons_of_mem _ hd)
    simp only [Spec.C03.run, h1, h2, Option.toList, List.map_cons, List.cons_append, List.nil_append]

/-! ### numbers as written -/

/-- a digit string (possibly empty = parameter missing; leading zeros allowed) -/
def Digits (ds : List Nat) : Prop := ds.all (inR 0x30 0x39) = true

instance (ds : List Nat) : Decidable (Digits ds) := by unfold Digits; exact inferInstance

/-- the value the parser reads: decimal, modulo 65536 -/
def val (ds : List Nat) : Nat := decVal ds % 65536

/-- every value up to 65535 arrives exactly -/
theorem val_of_le {ds : List Nat} (h : decVal ds ≤ 65535) : val ds = decVal ds := by
  unfold val; omega

theorem val_nil : val [] = 0 := rfl

theorem parseParams_one {ds : List Nat} (hd : Digits ds) : parseParams ds = [[val ds]] :=
  parseParams_digits ds hd

theorem stepW_digit_pre (pre : List (List Nat)) (v c : Nat) (h1 : 0x30 ≤ c) (h2 : c ≤ 0x39) :
    stepW (pre ++ [[v]]) c = pre ++ [[(10 * v + (c - 0x30)) % 65536]] := by
  unfold stepW
  rw [if_neg (by omega), if_neg (by omega), modLast_append]
  rfl

theorem foldl_digits_pre (pre : List (List Nat)) (ds : List Nat) (hd : Digits ds) (v : Nat) :
    ds.foldl stepW (pre ++ [[v % 65536]])
      = pre ++ [[ds.foldl (fun v c => 10 * v + (c - 0x30)) v % 65536]] := by
  induction ds generalizing v with
  | nil => rfl
  | cons c cs ih =>
    simp only [Digits, List.all_cons, Bool.and_eq_true, inR_iff] at hd
    simp only [List.foldl_cons]
    rw [stepW_digit_pre _ _ c hd.1.1 hd.1.2]
    have : (10 * (v % 65536) + (c - 48)) % 65536 = (10 * v + (c - 48)) % 65536 := by omega
    rw [this]
    exact ih hd.2 _

/-- `a ; b` is read as two parameters -/
theorem parseParams_two {d1 d2 : List Nat} (h1 : Digits d1) (h2 : Digits d2) :
    parseParams (d1 ++ 0x3B :: d2) = [[val d1], [val d2]] := by
  unfold parseParams
  rw [List.foldl_append, List.foldl_cons]
  have e1 : d1.foldl stepW [[0]] = [[val d1]] := parseParams_digits d1 h1
  rw [e1]
  have e2 : stepW [[val d1]] 0x3B = [[val d1]] ++ [[0 % 65536]] := rfl
  rw [e2, foldl_digits_pre _ d2 h2 0]
  rfl

/-- a parameter string made of digits and `;` only -/
def ParamStr (ps : List Nat) : Prop := ps.all (fun c => inR 0x30 0x39 c || c == 0x3B) = true

theorem ParamStr_digits {ds : List Nat} (h : Digits ds) : ParamStr ds := by
  unfold ParamStr Digits at *
  rw [List.all_eq_true] at h ⊢
  intro c hc
  rw [h c hc]; rfl

theorem ParamStr_two {d1 d2 : List Nat} (h1 : Digits d1) (h2 : Digits d2) : ParamStr (d1 ++ 0x3B :: d2) := by
  have a := ParamStr_digits h1
  have b := ParamStr_digits h2
  unfold ParamStr at *
  rw [List.all_append, List.all_cons, a, b]; rfl

/-- a CSI text without intermediates -/
def csiNum (marker : Option Nat) (params : List Nat) (final : Nat) : CsiText := ⟨marker, params, [], final⟩

theorem csiNum_body (marker : Option Nat) (params : List Nat) (final : Nat) :
    (csiNum marker params final).body = marker.toList ++ params ++ [final] := by
  simp [csiNum, CsiText.body]

theorem csiNum_wf {marker : Option Nat} {params : List Nat} {final : Nat}
    (hm : marker = none ∨ marker = some 0x3F) (hp : ParamStr params) (hf : inR 0x40 0x7E final = true) :
    (csiNum marker params final).wf = true := by
  unfold ParamStr at hp
  rw [List.all_eq_true] at hp
  have h1 : params.all (inR 0x30 0x3B) = true := by
    rw [List.all_eq_true]
    intro c hc
    have := hp c hc
    simp only [Bool.or_eq_true, inR_iff, beq_iff_eq] at this
    rw [inR_iff]; omega
  have h2 : (params.head? != some 0x3A) = true := by
    cases params with
    | nil => rfl
    | cons c cs =>
      have := hp c (List.mem_cons_self ..)
      simp only [Bool.or_eq_true, inR_iff, beq_iff_eq] at this
      simp only [List.head?_cons, bne_iff_ne, ne_eq, Option.some.injEq]
      omega
  rcases hm with rfl | rfl <;>
    simp only [csiNum, CsiText.wf, h1, h2, hf, Bool.or_true, List.all_nil, Bool.and_self] <;> rfl

theorem csiNum_fn (marker : Option Nat) (params : List Nat) (final : Nat) :
    (csiNum marker params final).fn = refDispatchCsi marker final (parseParams params) := by
  cases marker <;> rfl

/-! ### the explicit spellings -/

/-- `CSI n X`: the one-parameter commands (final character, function of the number read) -/
inductive Csi1 : Nat → (Nat → Function) → Prop
  | ich : Csi1 0x40 .ich | cuu : Csi1 0x41 .cuu | cud : Csi1 0x42 .cud | cuf : Csi1 0x43 .cuf
  | cub : Csi1 0x44 .cub | cnl : Csi1 0x45 .cnl | cpl : Csi1 0x46 .cpl | cha : Csi1 0x47 .cha
  | cht : Csi1 0x49 .cht | il : Csi1 0x4C .il | dl : Csi1 0x4D .dl | dch : Csi1 0x50 .dch
  | su : Csi1 0x53 .su | sd : Csi1 0x54 .sd | ech : Csi1 0x58 .ech | cbt : Csi1 0x5A .cbt
  | hpa : Csi1 0x60 .cha | hpr : Csi1 0x61 .cuf | rep : Csi1 0x62 .rep | vpa : Csi1 0x64 .vpa
  | vpr : Csi1 0x65 .vpr

/-- `CSI a ; b X`: CUP, HVP, DECSTBM -/
inductive Csi2 : Nat → (Nat → Nat → Function) → Prop
  | cup : Csi2 0x48 .cup | hvp : Csi2 0x66 .cup | decstbm : Csi2 0x72 .decstbm

/-- `CSI n X` where `n` selects from a table: ED, EL, TBC, CTC -/
inductive CsiSel : Nat → List (Nat × Function) → Prop
  | ed : CsiSel 0x4A refEd | el : CsiSel 0x4B refEl | tbc : CsiSel 0x67 refTbc | ctc : CsiSel 0x57 refCtc

/-- `ESC c` for the 7-bit forms of IND, NEL, HTS, RI -/
inductive EscFe : Nat → Function → Prop
  | ind : EscFe 0x44 .lf | nel : EscFe 0x45 .nel | hts : EscFe 0x48 .hts | ri : EscFe 0x4D .ri

/-- the command texts, spelled out, and the function each denotes -/
inductive CmdText (p : Parser) : List Nat → Function → Prop
  | csi1 {intro ds : List Nat} {final : Nat} {mk : Nat → Function} (hi : IsCsi intro)
      (hk : Csi1 final mk) (hd : Digits ds) : CmdText p (intro ++ ds ++ [final]) (mk (val ds))
  | csi2 {intro d1 d2 : List Nat} {final : Nat} {mk : Nat → Nat → Function} (hi : IsCsi intro)
      (hk : Csi2 final mk) (h1 : Digits d1) (h2 : Digits d2) :
      CmdText p (intro ++ (d1 ++ 0x3B :: d2) ++ [final]) (mk (val d1) (val d2))
  | csi2short {intro d1 : List Nat} {final : Nat} {mk : Nat → Nat → Function} (hi : IsCsi intro)
      (hk : Csi2 final mk) (h1 : Digits d1) : CmdText p (intro ++ d1 ++ [final]) (mk (val d1) 0)
  | sel {intro ds : List Nat} {final : Nat} {tbl : List (Nat × Function)} {f : Function}
      (hi : IsCsi intro) (hk : CsiSel final tbl) (hd : Digits ds) (hl : tbl.lookup (val ds) = some f) :
      CmdText p (intro ++ ds ++ [final]) f
  | decset {intro ds : List Nat} {m : DecMode} (hi : IsCsi intro) (hd : Digits ds)
      (hm : refDecMode (val ds) = some m) : CmdText p (intro ++ (0x3F :: ds) ++ [0x68]) (.decset [m])
  | decrst {intro ds : List Nat} {m : DecMode} (hi : IsCsi intro) (hd : Digits ds)
      (hm : refDecMode (val ds) = some m) : CmdText p (intro ++ (0x3F :: ds) ++ [0x6C]) (.decrst [m])
  | scosc {intro : List Nat} (hi : IsCsi intro) : CmdText p (intro ++ [0x73]) .scosc
  | scorc {intro : List Nat} (hi : IsCsi intro) : CmdText p (intro ++ [0x75]) .scorc
  | decstr {intro : List Nat} (hi : IsCsi intro) : CmdText p (intro ++ [0x21, 0x70]) .decstr
  | decsc : CmdText p [0x1B, 0x37] .decsc
  | decrc : CmdText p [0x1B, 0x38] .decrc
  | decaln : CmdText p [0x1B, 0x23, 0x38] .decaln
  | escFe {c : Nat} {f : Function} (hk : EscFe c f) : CmdText p [0x1B, c] f
  | ctl (hg : p.state = .Ground) {c : Nat} {f : Function} (hc : (c, f) ∈ refExecTable) : CmdText p [c] f

theorem Csi1.final_ok {final : Nat} {mk : Nat → Function} (h : Csi1 final mk) : inR 0x40 0x7E final = true := by
  cases h <;> decide

theorem Csi1.fn {final : Nat} {mk : Nat → Function} (h : Csi1 final mk) (v : Nat) :
    refDispatchCsi none final [[v]] = some (mk v) := by
  cases h <;> rfl

theorem Csi2.final_ok {final : Nat} {mk : Nat → Nat → Function} (h : Csi2 final mk) :
    inR 0x40 0x7E final = true := by
  cases h <;> decide

theorem Csi2.fn {final : Nat} {mk : Nat → Nat → Function} (h : Csi2 final mk) (a b : Nat) :
    refDispatchCsi none final [[a], [b]] = some (mk a b) ∧ refDispatchCsi none final [[a]] = some (mk a 0) := by
  cases h <;> exact ⟨rfl, rfl⟩

theorem CsiSel.final_ok {final : Nat} {tbl : List (Nat × Function)} (h : CsiSel final tbl) :
    inR 0x40 0x7E final = true := by
  cases h <;> decide

theorem CsiSel.fn {final : Nat} {tbl : List (Nat × Function)} (h : CsiSel final tbl) (v : Nat) :
    refDispatchCsi none final [[v]] = tbl.lookup v := by
  cases h <;> rfl

/-- every spelled-out command text is a complete sequence selecting the named function -/
theorem CmdText.seq {p : Parser} {xs : List Nat} {f : Function} (h : CmdText p xs f) :
    SeqText p xs (some f) := by
  cases h with
  | @csi1 intro ds final mk hi hk hd =>
    have h := SeqText.csi (p := p) hi (csiNum none ds final)
      (csiNum_wf (.inl rfl) (ParamStr_digits hd) hk.final_ok)
    rw [csiNum_body, csiNum_fn, parseParams_one hd, hk.fn] at h
    simpa using h
  | @csi2 intro d1 d2 final mk hi hk h1 h2 =>
    have h := SeqText.csi (p := p) hi (csiNum none (d1 ++ 0x3B :: d2) final)
      (csiNum_wf (.inl rfl) (ParamStr_two h1 h2) hk.final_ok)
    rw [csiNum_body, csiNum_fn, parseParams_two h1 h2, (hk.fn _ _).1] at h
    simpa using h
  | @csi2short intro d1 final mk hi hk h1 =>
    have h := SeqText.csi (p := p) hi (csiNum none d1 final)
      (csiNum_wf (.inl rfl) (ParamStr_digits h1) hk.final_ok)
    rw [csiNum_body, csiNum_fn, parseParams_one h1, (hk.fn _ 0).2] at h
    simpa using h
  | @sel intro ds final tbl f hi hk hd hl =>
    have h := SeqText.csi (p := p) hi (csiNum none ds final)
      (csiNum_wf (.inl rfl) (ParamStr_digits hd) hk.final_ok)
    rw [csiNum_body, csiNum_fn, parseParams_one hd, hk.fn, hl] at h
    simpa using h
  | @decset intro ds m hi hd hm =>
    have h := SeqText.csi (p := p) hi (csiNum (some 0x3F) ds 0x68)
      (csiNum_wf (.inr rfl) (ParamStr_digits hd) (by decide))
    rw [csiNum_body, csiNum_fn, parseParams_one hd] at h
    have e : refDispatchCsi (some 0x3F) 0x68 [[val ds]] = some (.decset [m]) := by
      show some (Function.decset ([[val ds]].filterMap fun q => refDecMode (q.headD 0))) = _
      simp [hm]
    rw [e] at h
    simpa using h
  | @decrst intro ds m hi hd hm =>
    have h := SeqText.csi (p := p) hi (csiNum (some 0x3F) ds 0x6C)
      (csiNum_wf (.inr rfl) (ParamStr_digits hd) (by decide))
    rw [csiNum_body, csiNum_fn, parseParams_one hd] at h
    have e : refDispatchCsi (some 0x3F) 0x6C [[val ds]] = some (.decrst [m]) := by
      show some (Function.decrst ([[val ds]].filterMap fun q => refDecMode (q.headD 0))) = _
      simp [hm]
    rw [e] at h
    simpa using h
  | @scosc intro hi =>
    exact SeqText.csi (p := p) hi ⟨none, [], [], 0x73⟩ (by decide)
  | @scorc intro hi =>
    exact SeqText.csi (p := p) hi ⟨none, [], [], 0x75⟩ (by decide)
  | @decstr intro hi =>
    exact SeqText.csi (p := p) hi ⟨none, [], [0x21], 0x70⟩ (by decide)
  | decsc => exact SeqText.esc (p := p) ⟨[], 0x37⟩ (by decide)
  | decrc => exact SeqText.esc (p := p) ⟨[], 0x38⟩ (by decide)
  | decaln => exact SeqText.esc (p := p) ⟨[0x23], 0x38⟩ (by decide)
  | @escFe c f hk =>
    cases hk
    · exact SeqText.esc (p := p) ⟨[], 0x44⟩ (by decide)
    · exact SeqText.esc (p := p) ⟨[], 0x45⟩ (by decide)
    · exact SeqText.esc (p := p) ⟨[], 0x48⟩ (by decide)
    · exact SeqText.esc (p := p) ⟨[], 0x4D⟩ (by decide)
  | ctl hg hc => exact SeqText.ctl hg hc

/-! ### one item through `feed_str`, over reachable states -/

/-- **text ↦ function ↦ terminal.**  From every reachable state, feeding one complete item that
    selects function `f`: `feed_str` returns; `f` executes without panic into a state `t1` satisfying
    the invariant; the terminal afterwards is `finishT t1`; the changed lines are the rows flagged in
    `t1`; the parser is in Ground; the result is reachable.  (Per-character `feed`: the terminal is
    `t1` itself.) -/
theorem Api_seq {v : Vt} (hR : Reach v) {xs : List Nat} {f : Function}
    (hx : SeqText v.parser xs (some f)) :
    ∃ v' ch t1, v.feedStr xs = some (v', ch) ∧ v.terminal.execute f = some t1 ∧ TInv t1 = true
      ∧ v'.terminal = finishT t1 ∧ ch.lines = Dirty.toVec t1.dirtyLines
      ∧ v'.parser.state = .Ground ∧ Reach v'
      ∧ ∃ g, v.feedAll xs = some g ∧ g.terminal = t1 ∧ g.parser = v'.parser := by
  obtain ⟨hp, ht⟩ := reach_parts hR
  obtain ⟨q, hr, hq, _⟩ := hx.run hp
  obtain ⟨t1, h1, h2⟩ := Props.Closed.C02_execute f ht
  obtain ⟨v', ch, a1, a2, a3, a4, _, a6, a7⟩ := Api_single hR hr h1
  exact ⟨v', ch, t1, a1, h1, h2, a2, a4, a3 ▸ hq, a6, ⟨q, t1⟩, a7, rfl, a3.symm⟩

/-- an item that selects nothing leaves the terminal as `changes()` + `gc()` leave it -/
theorem Api_seq_none {v : Vt} (hR : Reach v) {xs : List Nat} (hx : SeqText v.parser xs none) :
    ∃ v' ch, v.feedStr xs = some (v', ch) ∧ v'.terminal = finishT v.terminal
      ∧ ch.lines = Dirty.toVec v.terminal.dirtyLines ∧ v'.parser.state = .Ground ∧ Reach v' := by
  obtain ⟨hp, _⟩ := reach_parts hR
  obtain ⟨q, hr, hq, _⟩ := hx.run hp
  have hs := feedStr_of_run (t' := v.terminal) hr rfl
  exact ⟨_, _, hs, rfl, rfl, hq, Reach_feedStr hR hs⟩

/-! ### whole inputs: any concatenation of items -/

/-- an input that is a concatenation of complete items, and the functions it makes the parser emit;
    every item after the first is read from Ground (whatever the registers hold) -/
inductive Texts : Parser → List Nat → List Function → Prop
  | nil (p : Parser) : Texts p [] []
  | cons {p : Parser} {xs ys : List Nat} {of : Option Function} {fs : List Function}
      (h : SeqText p xs of) (hrest : ∀ q : Parser, q.state = .Ground → Texts q ys fs) :
      Texts p (xs ++ ys) (of.toList ++ fs)

theorem Texts.run {p : Parser} {xs : List Nat} {fs : List Function} (hp : PInv p = true)
    (h : Texts p xs fs) : ∃ q, Spec.C03.run p xs = some (q, fs) ∧ PInv q = true := by
  induction h with
  | nil p => exact ⟨p, rfl, hp⟩
  | @cons p xs ys of fs h _ ih =>
    obtain ⟨q, h1, h2, h3⟩ := h.run hp
    obtain ⟨r, h4, h5⟩ := ih q h2 h3
    exact ⟨r, run_append xs ys h1 h4, h5⟩

theorem Texts.emits {p : Parser} {xs : List Nat} {fs : List Function} (hp : PInv p = true)
    (h : Texts p xs fs) : emits p xs fs := by
  obtain ⟨q, h1, _⟩ := h.run hp
  exact emits_of_run h1

/-- **whole inputs through `feed_str`, with a specification**: any concatenation of complete items whose
    functions are all covered — each in the state in which it is executed — by a sound specification `S`:
    the terminal is `finishT` of the fold of `S` -/
theorem Api_texts {cov : Terminal → Function → Bool} {S : Terminal → Function → Terminal}
    (hS : SpecFor cov S) {v : Vt} (hR : Reach v) {xs : List Nat} {fs : List Function}
    (hx : Texts v.parser xs fs) (hc : coveredRun cov S fs v.terminal = true) :
    ∃ v' ch, v.feedStr xs = some (v', ch) ∧ v'.terminal = finishT (fs.foldl S v.terminal)
      ∧ ch.lines = Dirty.toVec (fs.foldl S v.terminal).dirtyLines ∧ Reach v' := by
  obtain ⟨v', ch, h1, h2, h3, _, h5⟩ := Api_bridge_spec hS hR (hx.emits (reach_parts hR).1) hc
  exact ⟨v', ch, h1, h2, h3, h5⟩

end Avt.Api
