/-
  Avt.Lemmas.InvTabs — `tabsOK` (strictly increasing, all stops in `(0, cols)`) is established by
  `Tabs.new` and preserved by `Tabs.set`, `unset`, `contract`, `expand`.
-/
import Avt.Spec.Inv

namespace Avt

theorem strictlyIncreasing_iff (l : List Nat) :
    strictlyIncreasing l = true ↔ l.Pairwise (· < ·) := by
  induction l with
  | nil => simp [strictlyIncreasing]
  | cons a t ih =>
    cases t with
    | nil => simp [strictlyIncreasing]
    | cons b r =>
      simp only [strictlyIncreasing, Bool.and_eq_true, decide_eq_true_eq, ih]
      constructor
      · rintro ⟨hab, hp⟩
        refine List.pairwise_cons.2 ⟨fun x hx => ?_, hp⟩
        rcases List.mem_cons.1 hx with rfl | hx
        · exact hab
        · exact Nat.lt_trans hab ((List.pairwise_cons.1 hp).1 x hx)
      · intro hp
        obtain ⟨h1, h2⟩ := List.pairwise_cons.1 hp
        exact ⟨h1 b (List.mem_cons_self ..), h2⟩

/-- `tabsOK` as a proposition -/
def TabsOK (tabs : List Nat) (cols : Nat) : Prop :=
  tabs.Pairwise (· < ·) ∧ ∀ t ∈ tabs, 0 < t ∧ t < cols

theorem tabsOK_iff (tabs : List Nat) (cols : Nat) : tabsOK tabs cols = true ↔ TabsOK tabs cols := by
  simp [tabsOK, TabsOK, strictlyIncreasing_iff]

namespace Tabs

theorem mem_stepFrom {start stop x : Nat} (h : x ∈ stepFrom start stop) :
    start ≤ x ∧ x < stop := by
  simp only [stepFrom, List.mem_map, List.mem_range] at h
  obtain ⟨i, hi, rfl⟩ := h
  omega

theorem pairwise_stepFrom (start stop : Nat) : (stepFrom start stop).Pairwise (· < ·) := by
  unfold stepFrom
  rw [List.pairwise_map]
  refine List.Pairwise.imp ?_ List.pairwise_lt_range
  intro a b hab; omega

theorem new_ok (cols : Nat) : TabsOK (Tabs.new cols) cols := by
  refine ⟨pairwise_stepFrom _ _, fun t ht => ?_⟩
  have := mem_stepFrom ht
  omega

theorem mem_set {tabs : List Nat} {pos x : Nat} (h : x ∈ Tabs.set tabs pos) : x = pos ∨ x ∈ tabs := by
  induction tabs with
  | nil => simp [Tabs.set] at h; exact .inl h
  | cons t ts ih =>
    simp only [Tabs.set] at h
    split at h
    · rcases List.mem_cons.1 h with h | h
      · exact .inl h
      · exact .inr h
    · split at h
      · exact .inr h
      · rcases List.mem_cons.1 h with h | h
        · exact .inr (h ▸ List.mem_cons_self ..)
        · rcases ih h with h | h
          · exact .inl h
          · exact .inr (List.mem_cons_of_mem _ h)

theorem set_ok {tabs : List Nat} {cols pos : Nat} (h : TabsOK tabs cols) (h0 : 0 < pos)
    (h1 : pos < cols) : TabsOK (Tabs.set tabs pos) cols := by
  refine ⟨?_, fun t ht => ?_⟩
  · have hp := h.1
    clear h
    induction tabs with
    | nil => simp [Tabs.set]
    | cons t ts ih =>
      obtain ⟨hlt, hp'⟩ := List.pairwise_cons.1 hp
      simp only [Tabs.set]
      split
      · rename_i hpt
        refine List.pairwise_cons.2 ⟨fun x hx => ?_, hp⟩
        rcases List.mem_cons.1 hx with rfl | hx
        · exact hpt
        · exact Nat.lt_trans hpt (hlt x hx)
      · split
        · exact hp
        · refine List.pairwise_cons.2 ⟨fun x hx => ?_, ih hp'⟩
          rcases mem_set hx with rfl | hx
          · omega
          · exact hlt x hx
  · rcases mem_set ht with rfl | ht
    · exact ⟨h0, h1⟩
    · exact h.2 t ht

theorem unset_ok {tabs : List Nat} {cols : Nat} (pos : Nat) (h : TabsOK tabs cols) :
    TabsOK (Tabs.unset tabs pos) cols :=
  ⟨h.1.filter _, fun t ht => h.2 t (List.mem_filter.1 ht).1⟩

theorem of_mem_takeWhile {α} {p : α → Bool} {l : List α} {x : α} (h : x ∈ l.takeWhile p) :
    p x = true := by
  induction l with
  | nil => simp at h
  | cons a t ih =>
    simp only [List.takeWhile_cons] at h
    split at h
    · rcases List.mem_cons.1 h with rfl | h
      · assumption
      · exact ih h
    · simp at h

theorem contract_ok {tabs : List Nat} {cols cols' : Nat} (h : TabsOK tabs cols) :
    TabsOK (Tabs.contract tabs cols') cols' := by
  refine ⟨h.1.sublist (List.takeWhile_sublist _), fun t ht => ⟨?_, ?_⟩⟩
  · exact (h.2 t ((List.takeWhile_sublist _).subset ht)).1
  · simpa using of_mem_takeWhile ht

theorem expand_ok {tabs : List Nat} {cols cols' : Nat} (h : TabsOK tabs cols) (hc : 1 ≤ cols)
    (hlt : cols < cols') : TabsOK (Tabs.expand tabs cols cols') cols' := by
  unfold Tabs.expand
  refine ⟨List.pairwise_append.2 ⟨h.1, pairwise_stepFrom _ _, fun a ha b hb => ?_⟩, fun t ht => ?_⟩
  · have h1 := (h.2 a ha).2
    have h2 := (mem_stepFrom hb).1
    split at h2 <;> omega
  · rcases List.mem_append.1 ht with ht | ht
    · have := h.2 t ht; omega
    · have h2 := mem_stepFrom ht
      split at h2 <;> omega

theorem nil_ok (cols : Nat) : TabsOK [] cols := ⟨List.Pairwise.nil, fun _ h => by cases h⟩

end Tabs
end Avt
