/-
  Avt.Lemmas.ApiBridge — the generic bridge from the parser theorems (text ↦ functions) and the
  terminal theorems (function ↦ specification, under `TInv`) to statements about the public API:
  `Vt.feedStr` / `Vt.feed` over the bytes a user feeds, from every state reachable through the API.

    emits p xs fs              the model parser, started in `p`, emits exactly `fs` while reading `xs`
                               (`Frame.emitted`, the driver-independent function of Lemmas/FrameVt.lean;
                               `emits_of_run`: it is what `Spec.C03.run` — the subject of the C03
                               theorems — returns; `emits_of_emit`: and what C08's `emit` returns);
    feedStr_of_run             no invariant needed: whenever the fold of `execute` over the emitted
                               functions succeeds, `feed_str` returns `finishT` of it and reports its
                               dirty rows;
    Api_bridge / Api_bridge_feed   over `Reach`: the call returns, the terminal is `finishT` of the fold
                               (per-character `feed`: the fold itself), `Changes.lines` are the flagged
                               rows of the fold, and the result is reachable again;
    Api_bridge_spec            the fold replaced by the fold of a specification `S` that is sound for
                               the functions it covers (`SpecFor cov S`);
    finishT_*                  what `changes()` + `gc()` keep: view, cursor, pen, modes, tabs, margins,
                               saved contexts; the flags are cleared;
    Reach_feedStr, reach_penOK reachability is closed under the calls; the pen of a reachable state
                               has its attribute byte inside the five bits in use (needed by C08).
-/
import Avt.Props.Closed2
import Avt.Props.C03
import Avt.Props.C08
import Avt.Props.C15
import Avt.Props.C20
import Avt.Lemmas.C11CellsReach

namespace Avt.Api
open Avt Avt.Spec

/-! ### what the parser emits -/

/-- the model parser, started in state `p`, emits exactly the functions `fs` while reading `xs` -/
def emits (p : Parser) (xs : List Nat) (fs : List Function) : Prop := Frame.emitted p xs = fs

/-- `Spec.C03.run` (final parser + emitted functions) determines `Frame.emitted` -/
theorem emits_of_run : ∀ {xs : List Nat} {p q : Parser} {fs : List Function},
    Spec.C03.run p xs = some (q, fs) → emits p xs fs
  | [], p, q, fs, h => by
    simp only [Spec.C03.run, Option.some.injEq, Prod.mk.injEq] at h
    rw [← h.2]; rfl
  | c :: cs, p, q, fs, h => by
    unfold emits
    simp only [Spec.C03.run] at h
    cases hf : p.feed c with
    | none => rw [hf] at h; cases h
    | some r =>
      obtain ⟨p', o⟩ := r
      rw [hf] at h
      simp only at h
      cases hr : Spec.C03.run p' cs with
      | none => rw [hr] at h; cases h
      | some r2 =>
        obtain ⟨q', fs'⟩ := r2
        rw [hr] at h
        simp only [Option.some.injEq, Prod.mk.injEq] at h
        have ih : Frame.emitted p' cs = fs' := emits_of_run hr
        rw [← h.2]
        cases o with
        | none => simp only [Frame.emitted, hf, ih, Option.toList, List.nil_append]
        | some f => simp only [Frame.emitted, hf, ih, Option.toList, List.cons_append, List.nil_append]

/-- C08's `emit` is the same function as C03's `run` -/
theorem emit_eq_run : ∀ (xs : List Nat) (p : Parser), Spec.C08.emit p xs = Spec.C03.run p xs
  | [], _ => rfl
  | c :: cs, p => by
    simp only [Spec.C08.emit, Spec.C03.run]
    cases p.feed c with
    | none => rfl
    | some r =>
      obtain ⟨p', o⟩ := r
      simp only [emit_eq_run cs p']
      cases Spec.C03.run p' cs <;> rfl

theorem emits_of_emit {xs : List Nat} {p q : Parser} {fs : List Function}
    (h : Spec.C08.emit p xs = some (q, fs)) : emits p xs fs :=
  emits_of_run (by rw [← emit_eq_run]; exact h)

/-- under the register invariant the parser never panics, on any input (`parserOK`) -/
theorem run_ok : ∀ (xs : List Nat) {p : Parser}, PInv p = true →
    ∃ q fs, Spec.C03.run p xs = some (q, fs) ∧ PInv q = true
  | [], p, hp => ⟨p, [], rfl, hp⟩
  | c :: cs, p, hp => by
    obtain ⟨p', f, h1, h2⟩ := parserOK p c hp
    obtain ⟨q, fs, h3, h4⟩ := run_ok cs h2
    exact ⟨q, f.toList ++ fs, by simp only [Spec.C03.run, h1, h3], h4⟩

theorem run_append : ∀ (xs ys : List Nat) {p q r : Parser} {fs gs : List Function},
    Spec.C03.run p xs = some (q, fs) → Spec.C03.run q ys = some (r, gs) →
    Spec.C03.run p (xs ++ ys) = some (r, fs ++ gs)
  | [], ys, p, q, r, fs, gs, h1, h2 => by
    simp only [Spec.C03.run, Option.some.injEq, Prod.mk.injEq] at h1
    obtain ⟨rfl, rfl⟩ := h1
    simpa using h2
  | c :: cs, ys, p, q, r, fs, gs, h1, h2 => by
    simp only [Spec.C03.run, List.cons_append] at h1 ⊢
    cases hf : p.feed c with
    | none => rw [hf] at h1; cases h1
    | some x =>
      obtain ⟨p', o⟩ := x
      rw [hf] at h1
      simp only at h1 ⊢
      cases hr : Spec.C03.run p' cs with
      | none => rw [hr] at h1; cases h1
      | some r2 =>
        obtain ⟨q', fs'⟩ := r2
        rw [hr] at h1
        simp only [Option.some.injEq, Prod.mk.injEq] at h1
        obtain ⟨rfl, rfl⟩ := h1
        rw [run_append cs ys hr h2]
        simp

/-! ### the fold of `execute` -/

/-- the functions a call executes, folded over the terminal -/
abbrev execAll (fs : List Function) (t : Terminal) : Option Terminal :=
  Terminal.foldM' Terminal.execute fs t

theorem execAll_eq_C08 : ∀ (fs : List Function) (t : Terminal), execAll fs t = Spec.C08.execAll fs t
  | [], _ => rfl
  | f :: fs, t => by
    simp only [execAll, Terminal.foldM', Spec.C08.execAll]
    cases t.execute f with
    | none => rfl
    | some t1 => exact execAll_eq_C08 fs t1

/-- under the terminal invariant the fold always succeeds and keeps the invariant (C01 + C02) -/
theorem execAll_ok : ∀ (fs : List Function) {t : Terminal}, TInv t = true →
    ∃ t', execAll fs t = some t' ∧ TInv t' = true
  | [], t, h => ⟨t, rfl, h⟩
  | f :: fs, t, h => by
    obtain ⟨t1, h1, h2⟩ := Props.Closed.C02_execute f h
    obtain ⟨t', h3, h4⟩ := execAll_ok fs h2
    exact ⟨t', by simp only [execAll, Terminal.foldM', h1]; exact h3, h4⟩

theorem execAll_append (fs gs : List Function) (t : Terminal) :
    execAll (fs ++ gs) t = (execAll fs t).bind (execAll gs) := by
  induction fs generalizing t with
  | nil => rfl
  | cons f fs ih =>
    simp only [execAll, Terminal.foldM', List.cons_append]
    cases t.execute f with
    | none => rfl
    | some t1 => exact ih t1

/-! ### `changes()` + `gc()` -/

theorem finish_eq (p : Parser) (t : Terminal) :
    Vt.finish ⟨p, t⟩ = (⟨p, finishT t⟩, ⟨Dirty.toVec t.dirtyLines, ((t.changes).1.gc).2⟩) := rfl

theorem finishT_view (t : Terminal) : (finishT t).buffer.view = t.buffer.view :=
  Props.C15.gc_view _

/-- what `changes()` + `gc()` never touch -/
theorem finishT_keeps (t : Terminal) :
    (finishT t).cursor = t.cursor ∧ (finishT t).pen = t.pen ∧ (finishT t).cols = t.cols
      ∧ (finishT t).rows = t.rows ∧ (finishT t).tabs = t.tabs
      ∧ (finishT t).topMargin = t.topMargin ∧ (finishT t).bottomMargin = t.bottomMargin
      ∧ (finishT t).originMode = t.originMode ∧ (finishT t).autoWrapMode = t.autoWrapMode
      ∧ (finishT t).insertMode = t.insertMode ∧ (finishT t).newLineMode = t.newLineMode
      ∧ (finishT t).cursorKeysMode = t.cursorKeysMode ∧ (finishT t).pendingWrap = t.pendingWrap
      ∧ (finishT t).charsets = t.charsets ∧ (finishT t).activeCharset = t.activeCharset
      ∧ (finishT t).savedCtx = t.savedCtx ∧ (finishT t).alternateSavedCtx = t.alternateSavedCtx
      ∧ (finishT t).activeBufferType = t.activeBufferType ∧ (finishT t).otherBuffer = t.otherBuffer
      ∧ (finishT t).scrollbackLimit = t.scrollbackLimit :=
  ⟨rfl, rfl, rfl, rfl, rfl, rfl, rfl, rfl, rfl, rfl, rfl, rfl, rfl, rfl, rfl, rfl, rfl, rfl, rfl, rfl⟩

/-- the flags are cleared: the next call starts with no pending changed line -/
theorem finishT_clean (t : Terminal) : (finishT t).dirtyLines.all (· == false) = true := by
  show (Dirty.clear t.dirtyLines).all (· == false) = true
  simp [Dirty.clear]

theorem toVec_clean {d : List Bool} (h : d.all (· == false) = true) : Dirty.toVec d = [] :=
  Props.C20.toVecGo_clean d 0 h

/-! ### the bridge, without any invariant -/

/-- whenever the fold of `execute` over the emitted functions succeeds, so does per-character `feed` -/
theorem feedAll_of_run {v : Vt} {xs : List Nat} {q : Parser} {fs : List Function} {t' : Terminal}
    (hr : Spec.C03.run v.parser xs = some (q, fs)) (he : execAll fs v.terminal = some t') :
    v.feedAll xs = some ⟨q, t'⟩ := by
  have := Spec.C08.feedAll_emit xs v q fs (by rw [emit_eq_run]; exact hr)
  rw [this, ← execAll_eq_C08, he]; rfl

/-- … and `feed_str` returns `finishT` of the fold and reports the rows the fold flagged -/
theorem feedStr_of_run {v : Vt} {xs : List Nat} {q : Parser} {fs : List Function} {t' : Terminal}
    (hr : Spec.C03.run v.parser xs = some (q, fs)) (he : execAll fs v.terminal = some t') :
    v.feedStr xs = some (⟨q, finishT t'⟩, ⟨Dirty.toVec t'.dirtyLines, ((t'.changes).1.gc).2⟩) := by
  unfold Vt.feedStr
  rw [feedAll_of_run hr he]
  rfl

/-! ### reachability -/

theorem Reach_feedStr {v v' : Vt} {ch : Changes} {xs : List Nat} (h : Reach v)
    (hs : v.feedStr xs = some (v', ch)) : Reach v' := by
  obtain ⟨w, h1, h2⟩ := Props.Closed.Reach_step h (.feedStr xs) trivial
  simp only [step, hs, Option.map_some, Option.some.injEq] at h1
  exact h1 ▸ h2

theorem Reach_feedAll {v v' : Vt} {xs : List Nat} (h : Reach v) (hs : v.feedAll xs = some v') :
    Reach v' := by
  obtain ⟨w, h1, h2⟩ := Props.Closed.Reach_step h (.feedChars xs) trivial
  simp only [step, hs, Option.some.injEq] at h1
  exact h1 ▸ h2

theorem Reach_resize {v v' : Vt} {ch : Changes} {c r : Nat} (h : Reach v) (hc : 1 ≤ c) (hr : 1 ≤ r)
    (hs : v.resize c r = some (v', ch)) : Reach v' := by
  obtain ⟨w, h1, h2⟩ := Props.Closed.Reach_step h (.resize c r) ⟨hc, hr⟩
  simp only [step, hs, Option.map_some, Option.some.injEq] at h1
  exact h1 ▸ h2

theorem reach_parts {v : Vt} (h : Reach v) : PInv v.parser = true ∧ TInv v.terminal = true := by
  have := Props.Closed.reach_inv h
  simpa [Inv] using this

/-- `Avt.Reach` (lists of `PubOp`) is contained in the reachability notion of the C11 block (lists of
    `HOp`; a dropped `Changes` is the same state in the model) -/
theorem reach_C11 {v : Vt} (h : Reach v) : Lemmas.C11.Reach v := by
  obtain ⟨cols, rows, lim, v0, ops, hc, hr, h0, hv, hrun⟩ := h
  let conv : PubOp → Lemmas.C11.HOp := fun op =>
    match op with
    | .feedStr s => .feedStr s
    | .feedDrop s => .feedStr s
    | .feedChars s => .feedChars s
    | .resize c r => .resize c r
  have hstep : ∀ (w : Vt) (op : PubOp), (conv op).run w = step w op := by
    intro w op; cases op <;> rfl
  have hrun' : ∀ (ops : List PubOp) (w : Vt), Lemmas.C11.runHist w (ops.map conv) = run w ops := by
    intro ops
    induction ops with
    | nil => intro w; rfl
    | cons op ops ih =>
      intro w
      simp only [List.map_cons, Lemmas.C11.runHist, run, hstep]
      cases step w op with
      | none => rfl
      | some w1 => exact ih w1
  refine ⟨cols, rows, lim, ops.map conv, hc, hr, ?_, ?_⟩
  · intro op hop c r he
    obtain ⟨o, ho, rfl⟩ := List.mem_map.1 hop
    cases o with
    | feedStr s => cases he
    | feedDrop s => cases he
    | feedChars s => cases he
    | resize c' r' =>
      have e : c' = c ∧ r' = r := by
        simp only [conv] at he
        injection he with e1 e2
        exact ⟨e1, e2⟩
      have := hv _ ho
      rw [← e.1, ← e.2]; exact this
  · rw [h0, Option.bind_some, hrun', hrun]

/-- the pen of a reachable state is a pen the SGR decoder can produce; in particular its attribute
    byte lies inside the five bits in use -/
theorem reach_penOK {v : Vt} (h : Reach v) : v.terminal.pen.attrs < 32 :=
  (Lemmas.C11.reach_cellsInv (reach_C11 h)).pen.1

/-! ### the bridge over reachable states -/

/-- **Bridge, `feed_str`.**  From every reachable state, for every input `xs` and the functions `fs` the
    parser emits for it: the call returns; the fold of `execute` over `fs` succeeds (C01) and keeps
    the invariant (C02); the terminal afterwards is `finishT` of the fold; the changed lines
    reported are the rows flagged at the end of the fold; the result is reachable. -/
theorem Api_bridge {v : Vt} (hR : Reach v) {xs : List Nat} {fs : List Function}
    (he : emits v.parser xs fs) :
    ∃ v' ch t', v.feedStr xs = some (v', ch) ∧ execAll fs v.terminal = some t' ∧ TInv t' = true
      ∧ v'.terminal = finishT t' ∧ ch.lines = Dirty.toVec t'.dirtyLines ∧ Reach v' := by
  obtain ⟨hp, ht⟩ := reach_parts hR
  obtain ⟨q, fs', hr, _⟩ := run_ok xs hp
  have e : fs' = fs := (emits_of_run hr).symm.trans he
  subst e
  obtain ⟨t', h1, h2⟩ := execAll_ok fs' ht
  have hs := feedStr_of_run hr h1
  exact ⟨_, _, t', hs, h1, h2, rfl, rfl, Reach_feedStr hR hs⟩

/-- **Bridge, per-character `Vt::feed`** (no `changes()`, no `gc()`): the terminal afterwards is the
    fold itself. -/
theorem Api_bridge_feed {v : Vt} (hR : Reach v) {xs : List Nat} {fs : List Function}
    (he : emits v.parser xs fs) :
    ∃ g, v.feedAll xs = some g ∧ execAll fs v.terminal = some g.terminal ∧ Reach g := by
  obtain ⟨hp, ht⟩ := reach_parts hR
  obtain ⟨q, fs', hr, _⟩ := run_ok xs hp
  have e : fs' = fs := (emits_of_run hr).symm.trans he
  subst e
  obtain ⟨t', h1, _⟩ := execAll_ok fs' ht
  have hs := feedAll_of_run hr h1
  exact ⟨_, hs, h1, Reach_feedAll hR hs⟩

/-- the same with the parser afterwards, when the emitted functions are known through `Spec.C03.run`
    (the form in which the C03 theorems deliver them) -/
theorem Api_bridge_run {v : Vt} (hR : Reach v) {xs : List Nat} {q : Parser} {fs : List Function}
    (hr : Spec.C03.run v.parser xs = some (q, fs)) :
    ∃ v' ch t', v.feedStr xs = some (v', ch) ∧ execAll fs v.terminal = some t' ∧ TInv t' = true
      ∧ v'.terminal = finishT t' ∧ v'.parser = q ∧ ch.lines = Dirty.toVec t'.dirtyLines
      ∧ v.feedAll xs = some ⟨q, t'⟩ ∧ Reach v' := by
  obtain ⟨_, ht⟩ := reach_parts hR
  obtain ⟨t', h1, h2⟩ := execAll_ok fs ht
  have hs := feedStr_of_run hr h1
  exact ⟨_, _, t', hs, h1, h2, rfl, rfl, rfl, feedAll_of_run hr h1, Reach_feedStr hR hs⟩

/-! ### folding a specification instead of `execute` -/

/-- `S` is a sound specification of the functions `cov` selects: under the invariant, `execute` does
    not panic and returns exactly `S t f` -/
def SpecFor (cov : Terminal → Function → Bool) (S : Terminal → Function → Terminal) : Prop :=
  ∀ (t : Terminal) (f : Function), TInv t = true → cov t f = true → t.execute f = some (S t f)

/-- every function of the run is covered in the state in which it is executed -/
def coveredRun (cov : Terminal → Function → Bool) (S : Terminal → Function → Terminal) :
    List Function → Terminal → Bool
  | [], _ => true
  | f :: fs, t => cov t f && coveredRun cov S fs (S t f)

theorem coveredRun_of_all {cov : Function → Bool} {S : Terminal → Function → Terminal} :
    ∀ (fs : List Function) (t : Terminal), (∀ f ∈ fs, cov f = true) →
      coveredRun (fun _ f => cov f) S fs t = true
  | [], _, _ => rfl
  | f :: fs, t, h => by
    simp only [coveredRun, Bool.and_eq_true]
    exact ⟨h f (List.mem_cons_self ..), coveredRun_of_all fs _ fun g hg => h g (List.mem_cons_of_mem _ hg)⟩

theorem execAll_spec {cov : Terminal → Function → Bool} {S : Terminal → Function → Terminal}
    (hS : SpecFor cov S) : ∀ (fs : List Function) {t : Terminal}, TInv t = true →
      coveredRun cov S fs t = true → execAll fs t = some (fs.foldl S t) ∧ TInv (fs.foldl S t) = true
  | [], t, h, _ => ⟨rfl, h⟩
  | f :: fs, t, h, hc => by
    simp only [coveredRun, Bool.and_eq_true] at hc
    have h1 := hS t f h hc.1
    obtain ⟨t1, h2, h3⟩ := Props.Closed.C02_execute f h
    rw [h1] at h2; cases h2
    obtain ⟨h4, h5⟩ := execAll_spec hS fs h3 hc.2
    exact ⟨by simp only [execAll, Terminal.foldM', h1, List.foldl_cons]; exact h4, h5⟩

/-- **Bridge with a specification.**  If every emitted function is covered by a sound specification
    `S` in the state in which it is executed, the terminal after `feed_str` is `finishT` of the fold
    of `S`, and the changed lines are the rows that fold flags. -/
theorem Api_bridge_spec {cov : Terminal → Function → Bool} {S : Terminal → Function → Terminal}
    (hS : SpecFor cov S) {v : Vt} (hR : Reach v) {xs : List Nat} {fs : List Function}
    (he : emits v.parser xs fs) (hc : coveredRun cov S fs v.terminal = true) :
    ∃ v' ch, v.feedStr xs = some (v', ch) ∧ v'.terminal = finishT (fs.foldl S v.terminal)
      ∧ ch.lines = Dirty.toVec (fs.foldl S v.terminal).dirtyLines
      ∧ TInv (fs.foldl S v.terminal) = true ∧ Reach v' := by
  obtain ⟨v', ch, t', h1, h2, _, h4, h5, h6⟩ := Api_bridge hR he
  obtain ⟨e1, e2⟩ := execAll_spec hS fs (reach_parts hR).2 hc
  rw [e1] at h2; cases h2
  exact ⟨v', ch, h1, h4, h5, e2, h6⟩

/-- the per-character version: no `finishT` -/
theorem Api_bridge_spec_feed {cov : Terminal → Function → Bool} {S : Terminal → Function → Terminal}
    (hS : SpecFor cov S) {v : Vt} (hR : Reach v) {xs : List Nat} {fs : List Function}
    (he : emits v.parser xs fs) (hc : coveredRun cov S fs v.terminal = true) :
    ∃ g, v.feedAll xs = some g ∧ g.terminal = fs.foldl S v.terminal ∧ Reach g := by
  obtain ⟨g, h1, h2, h3⟩ := Api_bridge_feed hR he
  obtain ⟨e1, _⟩ := execAll_spec hS fs (reach_parts hR).2 hc
  rw [e1] at h2
  exact ⟨g, h1, (Option.some.inj h2).symm, h3⟩

/-- one function: the form most headline corollaries use -/
theorem Api_single {v : Vt} (hR : Reach v) {xs : List Nat} {q : Parser} {f : Function}
    (hr : Spec.C03.run v.parser xs = some (q, [f])) {t1 : Terminal}
    (hx : v.terminal.execute f = some t1) :
    ∃ v' ch, v.feedStr xs = some (v', ch) ∧ v'.terminal = finishT t1 ∧ v'.parser = q
      ∧ ch.lines = Dirty.toVec t1.dirtyLines ∧ TInv t1 = true ∧ Reach v'
      ∧ v.feedAll xs = some ⟨q, t1⟩ := by
  obtain ⟨v', ch, t', h1, h2, h3, h4, h5, h6, h7, h8⟩ := Api_bridge_run hR hr
  simp only [execAll, Terminal.foldM', hx, Option.some.injEq] at h2
  subst h2
  exact ⟨v', ch, h1, h4, h5, h6, h3, h8, h7⟩

/-- the scrollback a `feed_str` hands out, in terms of the state `g` per-character feeding ends in: on
    the primary screen what is handed out followed by `lines()` is what was there; on the alternate
    screen nothing is handed out -/
theorem feedStr_scrollback {v v' g : Vt} {ch : Changes} {xs : List Nat} (h : v.feedStr xs = some (v', ch))
    (hg : v.feedAll xs = some g) :
    (g.terminal.activeBufferType = .primary → ch.scrollback ++ v'.lines = g.terminal.buffer.lines)
      ∧ (g.terminal.activeBufferType = .alternate → ch.scrollback = []) := by
  unfold Vt.feedStr at h
  rw [hg] at h
  simp only [Option.map_some, Option.some.injEq] at h
  have e1 : v' = g.finish.1 := by rw [h]
  have e2 : ch = g.finish.2 := by rw [h]
  obtain ⟨_, a, b, _⟩ := Avt.C14.C14_finish g
  subst e1 e2
  exact ⟨a, b⟩

/-- the view as the API shows it after a call that ends in terminal `t1` -/
theorem view_finishT (p : Parser) (t1 : Terminal) : (⟨p, finishT t1⟩ : Vt).view = t1.buffer.view :=
  finishT_view t1

end Avt.Api
