/-
  Avt.Lemmas.Reflow — `Line.contract` / `Line.extend` / `Line.expand` length lemmas and the
  termination + output invariant of the reflow iterator (`reflowGo`, `reflow`).
-/
import Avt.Spec.Inv

namespace Avt

/-! ### lastUnwrapped -/

theorem lastUnwrapped_cons_of_ne_nil (x : Line) {ls : List Line} (h : ls ≠ []) :
    lastUnwrapped (x :: ls) = lastUnwrapped ls := by
  cases ls with
  | nil => exact absurd rfl h
  | cons y ys => rfl

theorem lastUnwrapped_append_of_ne_nil (xs : List Line) {ls : List Line} (h : ls ≠ []) :
    lastUnwrapped (xs ++ ls) = lastUnwrapped ls := by
  induction xs with
  | nil => rfl
  | cons x xs ih =>
    have : xs ++ ls ≠ [] := by simp [h]
    rw [List.cons_append, lastUnwrapped_cons_of_ne_nil x this, ih]

theorem lastUnwrapped_drop {ls : List Line} (k : Nat) (h : lastUnwrapped ls = true)
    (hk : k < ls.length) : lastUnwrapped (ls.drop k) = true := by
  have hne : ls.drop k ≠ [] := by
    intro e
    have := congrArg List.length e
    simp at this
    omega
  have := lastUnwrapped_append_of_ne_nil (ls.take k) hne
  rw [List.take_append_drop] at this
  rw [← this]; exact h

theorem lastUnwrapped_append_blank (ls : List Line) (n cols : Nat) (pen : Pen) (hn : 0 < n) :
    lastUnwrapped (ls ++ List.replicate n (Line.blank cols pen)) = true := by
  have hne : List.replicate n (Line.blank cols pen) ≠ [] := by
    intro e
    have := congrArg List.length e
    simp at this
    omega
  rw [lastUnwrapped_append_of_ne_nil ls hne]
  clear hne
  induction n with
  | zero => omega
  | succ m ih =>
    cases m with
    | zero => rfl
    | succ k =>
      rw [List.replicate_succ, lastUnwrapped_cons_of_ne_nil _ (by simp)]
      exact ih (by omega)

/-! ### Line level -/

namespace Line

theorem trim_len_le (l : Line) : l.trim.len ≤ l.len := by
  simp only [trim, len, List.length_take]
  omega

@[simp] theorem trim_wrapped (l : Line) : l.trim.wrapped = l.wrapped := rfl

theorem expand_ok (l : Line) (n : Nat) (pen : Pen) (h : l.len ≤ n) :
    ∃ l', l.expand n pen = some l' ∧ l'.len = n ∧ l'.wrapped = l.wrapped := by
  refine ⟨{ l with cells := l.cells ++ List.replicate (n - l.len) (Cell.blank pen) }, ?_, ?_, rfl⟩
  · simp [expand, csub, h]
  · simp only [len] at *
    simp
    omega

/-- `contract` when the line is longer than `n`: the kept part has exactly `n` cells; a returned
    rest is shorter by at least `n` and inherits the wrap flag; with no rest the wrap flag stays. -/
theorem contract_spec (l : Line) (n : Nat) (h : n < l.len) :
    (l.contract n).1.len = n ∧
    (match (l.contract n).2 with
     | none => (l.contract n).1.wrapped = l.wrapped
     | some r => r.wrapped = l.wrapped ∧ r.len + n ≤ l.len ∧ 0 < r.len) := by
  simp only [len] at h
  cases hw : l.wrapped with
  | true =>
    simp only [contract, hw, len]
    simp only [Bool.not_true, Bool.false_eq_true, if_false]
    have h1 : l.cells.length > n := h
    simp only [h1, if_true]
    have h2 : (List.drop n l.cells).isEmpty = false := by
      cases hd : List.drop n l.cells with
      | nil =>
        have := congrArg List.length hd
        simp at this; omega
      | cons a b => rfl
    simp only [h2]
    simp
    omega
  | false =>
    simp only [contract, hw, len]
    simp only [Bool.not_false, if_true]
    by_cases h1 : (List.take (max n (l.cells.length - l.trailers)) l.cells).length > n
    · simp only [h1, if_true]
      split
      · simp only [List.length_take]
        simp only [List.length_take] at h1
        exact ⟨by omega, trivial⟩
      · rename_i hne
        simp only [List.length_take]
        simp only [List.length_take] at h1
        refine ⟨by omega, rfl, ?_, ?_⟩
        · have := trim_len_le ⟨List.drop n (List.take (max n (l.cells.length - l.trailers)) l.cells), false⟩
          simp only [len, List.length_drop, List.length_take] at this
          omega
        · cases hc : (trim ⟨List.drop n (List.take (max n (l.cells.length - l.trailers)) l.cells), false⟩).cells with
          | nil => simp [hc] at hne
          | cons a b => simp
    · simp only [h1, if_false]
      simp only [List.length_take] at h1 ⊢
      exact ⟨by omega, trivial⟩

/-- `extend` when the line is shorter than `n`: it never panics, and
    * either it emits a line of exactly `n` cells together with a rest that is no longer than `other`
      and has its wrap flag,
    * or it emits an unwrapped line of exactly `n` cells and no rest,
    * or (`other` wrapped and too short) it emits nothing and the accumulated line stays wrapped. -/
theorem extend_spec (l other : Line) (n : Nat) (h : l.len < n) :
    ∃ l' e r, l.extend other n = some (l', e, r) ∧
      ((∃ r', e = true ∧ r = some r' ∧ l'.len = n ∧ r'.wrapped = other.wrapped ∧ r'.len ≤ other.len)
       ∨ (e = true ∧ r = none ∧ l'.len = n ∧ l'.wrapped = false)
       ∨ (e = false ∧ l'.wrapped = true ∧ other.wrapped = true ∧ l'.len ≤ l.len + other.len)) := by
  have hc : csub n l.len = some (n - l.len) := by simp [csub]; omega
  have hne : ¬ (n - l.len = 0) := by omega
  simp only [extend, hc, hne, if_false]
  cases hw : l.wrapped with
  | false =>
    obtain ⟨l', he, hl, _⟩ := expand_ok l n Pen.default (by omega)
    refine ⟨l', true, some other, by simp [he], Or.inl ⟨other, rfl, rfl, hl, rfl, Nat.le_refl _⟩⟩
  | true =>
    simp only [Bool.not_true, Bool.false_eq_true, if_false]
    generalize ho : (if (!other.wrapped) = true then other.trim else other) = o
    have how : o.wrapped = other.wrapped := by
      rw [← ho]; split <;> rfl
    have hol : o.len ≤ other.len := by
      rw [← ho]; split
      · exact trim_len_le other
      · exact Nat.le_refl _
    by_cases h1 : n - l.len < o.len
    · simp only [h1, if_true]
      refine ⟨_, _, _, rfl, Or.inl ⟨_, rfl, rfl, ?_, how, ?_⟩⟩
      · simp only [len] at *
        simp only [List.length_append, List.length_take]
        omega
      · simp only [len] at *
        simp only [List.length_drop]
        omega
    · simp only [h1, if_false]
      cases how' : o.wrapped with
      | true =>
        simp only [Bool.not_true, Bool.false_eq_true, if_false]
        refine ⟨_, _, _, rfl, Or.inr (Or.inr ⟨rfl, rfl, by rw [← how, how'], ?_⟩)⟩
        simp only [len] at *
        simp only [List.length_append]
        omega
      | false =>
        simp only [Bool.not_false, if_true]
        split
        · rename_i h2
          obtain ⟨l3, he, hl, hw3⟩ := expand_ok
            ({ cells := l.cells ++ o.cells, wrapped := false } : Line) n Pen.default (by omega)
          simp only [he, Option.map_some]
          exact ⟨_, _, _, rfl, Or.inr (Or.inl ⟨rfl, rfl, hl, hw3⟩)⟩
        · rename_i h2
          refine ⟨_, _, _, rfl, Or.inr (Or.inl ⟨rfl, rfl, ?_, rfl⟩)⟩
          simp only [len] at *
          simp only [List.length_append] at *
          omega

end Line

/-! ### the reflow iterator -/

namespace Buffer

/-- the body of one `Reflow::next` iteration once the current line has been picked -/
def reflowBody (cols fuel : Nat) (line : Line) (iter : List Line) : Option (List Line) :=
  if cols < line.len then
    let (line', rest') := line.contract cols
    (reflowGo cols fuel rest' iter).map fun out => line' :: out
  else if cols = line.len then
    (reflowGo cols fuel none iter).map fun out => line :: out
  else
    match iter with
    | next :: iter' =>
      match line.extend next cols with
      | none => none
      | some (line', true, some r) => (reflowGo cols fuel (some r) iter').map fun out => line' :: out
      | some (line', true, none) => (reflowGo cols fuel none iter').map fun out => line' :: out
      | some (line', false, _) => reflowGo cols fuel (some line') iter'
    | [] =>
      match line.expand cols Pen.default with
      | none => none
      | some l' => (reflowGo cols fuel none []).map fun out => { l' with wrapped := false } :: out

theorem reflowGo_some (cols fuel : Nat) (l : Line) (iter : List Line) :
    reflowGo cols (fuel + 1) (some l) iter = reflowBody cols fuel l iter := by
  conv => lhs; unfold reflowGo
  rfl

theorem reflowGo_none_cons (cols fuel : Nat) (l : Line) (ls : List Line) :
    reflowGo cols (fuel + 1) none (l :: ls) = reflowBody cols fuel l ls := by
  conv => lhs; unfold reflowGo
  rfl

theorem reflowGo_none_nil (cols fuel : Nat) : reflowGo cols (fuel + 1) none [] = some [] := by
  rw [reflowGo]

/-- potential of an iterator state: every iteration of `Reflow::next` decreases it -/
def rmu (rest : Option Line) (iter : List Line) : Nat :=
  (match rest with | some l => l.len + 1 | none => 0) + (iter.map Line.len).sum + 2 * iter.length

/-- what we prove of a (partial) run of the iterator -/
def GoOK (cols : Nat) (res : Option (List Line)) (empty : Bool) : Prop :=
  ∃ out, res = some out ∧ (∀ l ∈ out, l.len = cols) ∧ out.isEmpty = empty ∧ lastUnwrapped out = true

theorem GoOK_cons {cols : Nat} {res : Option (List Line)} {e : Bool} (line : Line)
    (h : GoOK cols res e) (hl : line.len = cols) (hw : e = true → line.wrapped = false) :
    GoOK cols (res.map fun out => line :: out) false := by
  obtain ⟨out, hr, hall, hem, hlu⟩ := h
  refine ⟨line :: out, by simp [hr], ?_, rfl, ?_⟩
  · intro l hl'
    cases hl' with
    | head => exact hl
    | tail _ h' => exact hall l h'
  · cases out with
    | nil =>
      have : line.wrapped = false := hw (by simpa using hem.symm)
      simp [lastUnwrapped, this]
    | cons y ys => exact hlu

theorem reflowBody_ok (cols fuel : Nat) (hc : 1 ≤ cols)
    (IH : ∀ rest iter, rmu rest iter < fuel → lastUnwrapped (rest.toList ++ iter) = true →
      GoOK cols (reflowGo cols fuel rest iter) (rest.isNone && iter.isEmpty))
    (line : Line) (iter : List Line) (hm : line.len + rmu none iter < fuel)
    (hJ : lastUnwrapped (line :: iter) = true) :
    GoOK cols (reflowBody cols fuel line iter) false := by
  unfold reflowBody
  by_cases h1 : cols < line.len
  · -- Less
    simp only [h1, if_true]
    have hs := Line.contract_spec line cols h1
    generalize line.contract cols = pr at hs
    obtain ⟨line', rest'⟩ := pr
    simp only at hs ⊢
    obtain ⟨hlen, hrest⟩ := hs
    cases rest' with
    | none =>
      simp only at hrest
      refine GoOK_cons line' (IH none iter ?_ ?_) hlen ?_
      · simp only [rmu] at *; omega
      · cases iter with
        | nil => rfl
        | cons y ys => rw [lastUnwrapped_cons_of_ne_nil line (by simp)] at hJ; exact hJ
      · intro he
        cases iter with
        | nil => rw [hrest]; simpa [lastUnwrapped] using hJ
        | cons y ys => simp at he
    | some r =>
      simp only at hrest
      obtain ⟨hrw, hrl, _⟩ := hrest
      refine GoOK_cons line' (IH (some r) iter ?_ ?_) hlen ?_
      · simp only [rmu] at *; omega
      · cases iter with
        | nil => simp only [Option.toList, List.append_nil, lastUnwrapped] at hJ ⊢; rw [hrw]; exact hJ
        | cons y ys =>
          rw [lastUnwrapped_cons_of_ne_nil line (by simp)] at hJ
          simp only [Option.toList, List.singleton_append]
          rw [lastUnwrapped_cons_of_ne_nil r (by simp)]; exact hJ
      · intro he; simp at he
  · simp only [h1, if_false]
    by_cases h2 : cols = line.len
    · -- Equal
      rw [if_pos h2]
      refine GoOK_cons line (IH none iter ?_ ?_) h2.symm ?_
      · simp only [rmu] at *; omega
      · cases iter with
        | nil => rfl
        | cons y ys => rw [lastUnwrapped_cons_of_ne_nil line (by simp)] at hJ; exact hJ
      · intro he
        cases iter with
        | nil => simpa [lastUnwrapped] using hJ
        | cons y ys => simp at he
    · -- Greater
      rw [if_neg h2]
      have h3 : line.len < cols := by omega
      cases iter with
      | nil =>
        obtain ⟨l', he, hl, _⟩ := Line.expand_ok line cols Pen.default (by omega)
        simp only [he]
        refine GoOK_cons _ (IH none [] ?_ rfl) hl (fun _ => rfl)
        simp only [rmu] at *; omega
      | cons next iter' =>
        obtain ⟨l', e, r, hex, hcases⟩ := Line.extend_spec line next cols h3
        simp only [hex]
        have hJ' : lastUnwrapped (next :: iter') = true := by
          rw [lastUnwrapped_cons_of_ne_nil line (by simp)] at hJ; exact hJ
        rcases hcases with ⟨r', rfl, rfl, hl, hrw, hrl⟩ | ⟨rfl, rfl, hl, hw⟩ | ⟨rfl, hw, how, hl⟩
        · simp only
          refine GoOK_cons l' (IH (some r') iter' ?_ ?_) hl (by intro he; simp at he)
          · simp only [rmu, List.map_cons, List.sum_cons, List.length_cons] at *; omega
          · cases iter' with
            | nil => simp only [Option.toList, List.append_nil, lastUnwrapped] at hJ' ⊢; rw [hrw]; exact hJ'
            | cons y ys =>
              rw [lastUnwrapped_cons_of_ne_nil next (by simp)] at hJ'
              simp only [Option.toList, List.singleton_append]
              rw [lastUnwrapped_cons_of_ne_nil r' (by simp)]; exact hJ'
        · simp only
          refine GoOK_cons l' (IH none iter' ?_ ?_) hl (fun _ => hw)
          · simp only [rmu, List.map_cons, List.sum_cons, List.length_cons] at *; omega
          · cases iter' with
            | nil => rfl
            | cons y ys => rw [lastUnwrapped_cons_of_ne_nil next (by simp)] at hJ'; exact hJ'
        · simp only
          have := IH (some l') iter' ?_ ?_
          · simpa using this
          · simp only [rmu, List.map_cons, List.sum_cons, List.length_cons] at *; omega
          · cases iter' with
            | nil => simp [lastUnwrapped, how] at hJ'
            | cons y ys =>
              rw [lastUnwrapped_cons_of_ne_nil next (by simp)] at hJ'
              simp only [Option.toList, List.singleton_append]
              rw [lastUnwrapped_cons_of_ne_nil l' (by simp)]; exact hJ'

/-- The reflow iterator terminates within any fuel exceeding the potential, every line it yields has
    exactly `cols` cells, it yields something unless there is nothing to process, and its last line
    is not wrapped when the last pending input line is not wrapped. -/
theorem reflowGo_ok (cols : Nat) (hc : 1 ≤ cols) :
    ∀ (fuel : Nat) (rest : Option Line) (iter : List Line), rmu rest iter < fuel →
      lastUnwrapped (rest.toList ++ iter) = true →
      GoOK cols (reflowGo cols fuel rest iter) (rest.isNone && iter.isEmpty) := by
  intro fuel
  induction fuel with
  | zero => intro rest iter h; omega
  | succ fuel IH =>
    intro rest iter hm hJ
    cases rest with
    | some l =>
      rw [reflowGo_some]
      refine reflowBody_ok cols fuel hc IH l iter ?_ hJ
      simp only [rmu] at *; omega
    | none =>
      cases iter with
      | nil => rw [reflowGo_none_nil]; exact ⟨[], rfl, by simp, rfl, rfl⟩
      | cons l ls =>
        rw [reflowGo_none_cons]
        refine reflowBody_ok cols fuel hc IH l ls ?_ hJ
        simp only [rmu, List.map_cons, List.sum_cons, List.length_cons] at *; omega

theorem reflowFuel_gt (lines : List Line) : rmu none lines < reflowFuel lines := by
  simp only [rmu, reflowFuel]; omega

/-- `reflow` never panics for `cols ≥ 1` (the iterator terminates and the final `assert!` holds);
    all output lines have `cols` cells; non-empty input gives non-empty output; if the last input
    line is unwrapped so is the last output line. -/
theorem reflow_ok (lines : List Line) (cols : Nat) (hc : 1 ≤ cols)
    (hlu : lastUnwrapped lines = true) :
    ∃ out, reflow lines cols = some out ∧ (∀ l ∈ out, l.len = cols) ∧
      (lines ≠ [] → out ≠ []) ∧ lastUnwrapped out = true := by
  obtain ⟨out, hr, hall, hem, hl⟩ :=
    reflowGo_ok cols hc (reflowFuel lines) none lines (reflowFuel_gt lines) hlu
  have hall' : out.all (fun l => l.len == cols) = true := by
    rw [List.all_eq_true]; intro l hl'; simpa using hall l hl'
  refine ⟨out, ?_, hall, ?_, hl⟩
  · have : ¬ cols = 0 := by omega
    simp only [reflow, this, if_false, hr, hall', if_true]
  · intro hne he
    subst he
    cases lines with
    | nil => exact hne rfl
    | cons a b => simp at hem

end Buffer

end Avt
