/-
  Avt.Lemmas.C11SoundReg — the register-shape invariant `PRegOK` of the parser is preserved by every
  character (`PRegOKStable`, the contract of Avt.Lemmas.C11Sound3), hence holds in every reachable state.

  The reference diagram `williams` looks at the character only through `classChar` (160 classes), so
  the facts about which transitions exist are decided by evaluation over 14 states × 160 classes.
-/
import Avt.Lemmas.C11Sound3

namespace Avt
namespace Lemmas.C11
open Avt.Spec.C11 Avt.Spec.C03 Avt.ParserSem

theorem classChar_lt (c : Nat) : classChar c < 160 := by
  unfold classChar; split <;> omega

theorem classChar_idem (c : Nat) : classChar (classChar c) = classChar c := by
  unfold classChar; split
  · simp
  · rename_i h; simp [h]

theorem williams_class (st : PState) (c : Nat) : williams st c = williams st (classChar c) := by
  unfold williams; rw [classChar_idem]

/-- the registers of state `st` already have the shape state `s'` asks for -/
def shapeImpl (st s' : PState) : Bool :=
  (match s' with
    | .Ground | .CsiIgnore | .DcsIgnore | .OscString | .SosPmApcString => true
    | _ => false)
  || s' == st
  || (s' == .DcsPassthrough && (st == .DcsEntry || st == .DcsParam || st == .DcsIntermediate))

/-- what the diagram guarantees about a transition, in terms of the class `d` of the character -/
def shapeFact (st : PState) (d : Nat) : Bool :=
  let w := williams st d
  match w.1 with
  | .ignore | .put | .oscPut | .print | .execute => shapeImpl st w.2
  | .collect =>
    ((w.2 == .EscapeIntermediate || w.2 == .CsiIntermediate || w.2 == .DcsIntermediate) && 0x20 ≤ d && d ≤ 0x2f)
    || (((st == .CsiEntry && w.2 == .CsiParam) || (st == .DcsEntry && w.2 == .DcsParam)) && 0x3c ≤ d && d ≤ 0x3f)
  | .clear => entryClears w.2
  | .param =>
    ((st == .CsiEntry && w.2 == .CsiParam) || (st == .CsiParam && w.2 == .CsiParam)
      || (st == .DcsEntry && w.2 == .DcsParam) || (st == .DcsParam && w.2 == .DcsParam))
    && 0x30 ≤ d && d ≤ 0x3b && (w.2 != .DcsParam || d != 0x3a)
  | .dispatchCsi | .dispatchEsc => w.2 == .Ground

theorem shapeFact_all : ∀ st ∈ PState.all, ∀ d, d < 160 → shapeFact st d = true := by decide +kernel

theorem shapeFact_at (st : PState) (c : Nat) : shapeFact st (classChar c) = true :=
  shapeFact_all st (mem_all st) _ (classChar_lt c)

/-! ### the shape is kept, kind by kind -/

theorem shapeImpl_ok {p : Parser} {s' : PState} (h : shapeImpl p.state s' = true) (hr : PRegOK p = true) :
    PRegOK { p with state := s' } = true := by
  obtain ⟨st, ps, cp, im⟩ := p
  cases st <;> cases s' <;> simp only [shapeImpl, Bool.or_eq_true, Bool.and_eq_true, beq_iff_eq, reduceCtorEq,
    Bool.false_eq_true, or_false, false_or, and_false, and_true, or_self, false_and] at h <;>
    first
      | (simp only [PRegOK] at hr ⊢; done)
      | (simp only [PRegOK] at hr ⊢; exact hr)
      | (simp only [PRegOK, Bool.and_eq_true, Bool.or_eq_true, Option.isNone_iff_eq_none] at hr ⊢; simp_all; done)
      | (simp only [PRegOK, Bool.and_eq_true, Bool.or_eq_true, Option.isNone_iff_eq_none] at hr ⊢
         rcases hr.1 with h1 | h1 <;> simp [h1])

theorem param_intermediate {p q : Parser} {c : Nat} (h : p.param c = some q) : q.intermediate = p.intermediate := by
  unfold Parser.param at h
  split at h
  · cases h; rfl
  · split at h
    · split at h
      · cases h; rfl
      · cases h
    · split at h
      · cases h
      · split at h
        · cases h; rfl
        · cases h

/-- in a DCS parameter string (digits and `;` only) no parameter gets a sub-part -/
theorem param_dcs_parts {p q : Parser} {c : Nat} (hinv : PInv p = true) (hc : c ≠ 0x3a)
    (hp : (p.params.take (p.curParam + 1)).all (fun x => x.curPart == 0) = true) (h : p.param c = some q) :
    (q.params.take (q.curParam + 1)).all (fun x => x.curPart == 0) = true := by
  rw [pinv_iff] at hinv
  obtain ⟨hlen, hcp, hok, hz⟩ := hinv
  simp only [List.all_eq_true, beq_iff_eq] at hp ⊢
  unfold Parser.param at h
  by_cases h3b : c = 0x3b
  · -- `;`
    rw [if_pos h3b] at h
    cases h
    intro x hx
    simp only at hx
    obtain ⟨i, hi, rfl⟩ := List.mem_iff_getElem.1 hx
    simp only [List.length_take] at hi
    rw [List.getElem_take]
    by_cases hic : i < p.curParam + 1
    · exact hp _ (by rw [List.mem_iff_getElem]; exact ⟨i, by simp; omega, by rw [List.getElem_take]⟩)
    · have hmem : p.params[i]'(by omega) ∈ p.params.drop (p.curParam + 1) := by
        rw [List.mem_iff_getElem]
        refine ⟨i - (p.curParam + 1), by simp; omega, ?_⟩
        rw [List.getElem_drop]
        congr 1; omega
      have := hz _ hmem
      rw [isZero_iff] at this
      exact this.1
  · rw [if_neg h3b, if_neg hc] at h
    cases hd : csub (c % 256) 0x30 with
    | none => simp [hd] at h
    | some d =>
      simp only [hd] at h
      cases hps : modAtM p.params p.curParam (fun q => q.addDigit d) with
      | none => simp [hps] at h
      | some ps =>
        simp only [hps, Option.some.injEq] at h
        subst h
        simp only
        unfold modAtM at hps
        cases hx : p.params[p.curParam]? with
        | none => simp [hx] at hps
        | some x =>
          simp only [hx] at hps
          cases hy : x.addDigit d with
          | none => simp [hy] at hps
          | some y =>
            simp only [hy, Option.some.injEq] at hps
            subst hps
            intro z hz'
            obtain ⟨i, hi, rfl⟩ := List.mem_iff_getElem.1 hz'
            simp only [List.length_take, List.length_set] at hi
            rw [List.getElem_take, List.getElem_set]
            split
            · have hxc : x.curPart = 0 := by
                refine hp x ?_
                rw [List.mem_iff_getElem]
                refine ⟨p.curParam, by simp; omega, ?_⟩
                rw [List.getElem_take]
                exact (List.getElem?_eq_some_iff.1 hx).2
              unfold Param.addDigit at hy
              cases hn : x.parts[x.curPart]? with
              | none => simp [hn] at hy
              | some n =>
                simp only [hn] at hy
                split at hy
                · cases hy; exact hxc
                · cases hy
            · exact hp _ (by rw [List.mem_iff_getElem]; exact ⟨i, by simp; omega, by rw [List.getElem_take]⟩)

theorem escDispatch_ground {q q' : Parser} {c : Nat} {f : Option Function} (hq : q.state = .Ground)
    (h : q.escDispatch c = some (q', f)) : q'.state = .Ground := by
  unfold Parser.escDispatch at h
  split at h
  · cases h; exact hq
  · split at h
    · simp only [] at h
      split at h
      · cases h; exact hq
      · cases h
    · cases h; exact hq
    · cases h; rfl

theorem pregOK_stable : PRegOKStable := by
  intro p p' c f hinv hreg hfeed
  rw [feed_eq_sem, williams_class] at hfeed
  have hf := shapeFact_at p.state c
  simp only [shapeFact] at hf
  generalize hwd : williams p.state (classChar c) = w at hfeed hf
  obtain ⟨k, s'⟩ := w
  have hcc : ∀ lo hi, lo ≤ classChar c → classChar c ≤ hi → hi < 0x41 → classChar c = c := by
    intro lo hi h1 h2 h3
    unfold classChar at h2 ⊢
    split
    · rename_i hge; rw [if_pos hge] at h2; omega
    · rfl
  cases k <;> simp only [sem] at hfeed hf
  case ignore => cases hfeed; exact shapeImpl_ok hf hreg
  case put => cases hfeed; exact shapeImpl_ok hf hreg
  case oscPut => cases hfeed; exact shapeImpl_ok hf hreg
  case print => cases hfeed; exact shapeImpl_ok hf hreg
  case execute => cases hfeed; exact shapeImpl_ok hf hreg
  case dispatchCsi =>
    simp only [Option.map_eq_some_iff] at hfeed
    obtain ⟨g, _, hg⟩ := hfeed
    cases hg
    simp only [beq_iff_eq] at hf
    subst hf
    rfl
  case dispatchEsc =>
    simp only [beq_iff_eq] at hf
    subst hf
    have hg := escDispatch_ground (q := { p with state := .Ground }) rfl hfeed
    obtain ⟨st', ps', cp', im'⟩ := p'
    simp only at hg
    subst hg
    rfl
  case clear =>
    rw [clear_eq hinv] at hfeed
    simp only [Option.map_some, Option.some.injEq, Prod.mk.injEq] at hfeed
    obtain ⟨rfl, _⟩ := hfeed
    cases s' <;> simp only [entryClears, Bool.false_eq_true] at hf <;> decide
  case collect =>
    cases hfeed
    simp only [Bool.or_eq_true, Bool.and_eq_true, beq_iff_eq, decide_eq_true_eq] at hf
    rcases hf with ⟨⟨hs, h1⟩, h2⟩ | ⟨⟨hs, h1⟩, h2⟩
    · have e := hcc _ _ h1 h2 (by decide)
      rw [e] at h1 h2
      rcases hs with (rfl | rfl) | rfl <;> simp [PRegOK, imIn, h1, h2]
    · have e := hcc _ _ h1 h2 (by decide)
      rw [e] at h1 h2
      rcases hs with ⟨hst, rfl⟩ | ⟨hst, rfl⟩
      · simp [PRegOK, imIn, h1, h2]
      · obtain ⟨st, ps, cp, im⟩ := p
        simp only at hst
        subst hst
        simp only [PRegOK, Bool.and_eq_true, beq_iff_eq, List.all_eq_true, Option.isNone_iff_eq_none] at hreg
        simp only [PRegOK, imIn, h1, h2, decide_true, Bool.and_self, Bool.or_true, Bool.true_and, List.all_eq_true,
          beq_iff_eq]
        intro x hx
        have := hreg.2 x (List.mem_of_mem_take hx)
        rw [isZero_iff] at this
        exact this.1
  case param =>
    simp only [Option.map_eq_some_iff, Prod.mk.injEq] at hfeed
    obtain ⟨q, hq, rfl, _⟩ := hfeed
    simp only [Bool.or_eq_true, Bool.and_eq_true, beq_iff_eq, decide_eq_true_eq, bne_iff_ne, ne_eq] at hf
    obtain ⟨⟨⟨hs, h1⟩, h2⟩, h3⟩ := hf
    have e := hcc _ _ h1 h2 (by decide)
    rw [e] at h1 h2 h3
    have him := param_intermediate hq
    obtain ⟨st, ps, cp, im⟩ := p
    rcases hs with ((⟨hst, rfl⟩ | ⟨hst, rfl⟩) | ⟨hst, rfl⟩) | ⟨hst, rfl⟩ <;> simp only at hst <;> subst hst
    · simp only [PRegOK, Bool.and_eq_true, Option.isNone_iff_eq_none] at hreg
      simp only at him
      simp [PRegOK, him, hreg.1.1]
    · simp only [PRegOK] at hreg ⊢
      simp only at him
      rw [him]; exact hreg
    · simp only [PRegOK, Bool.and_eq_true, beq_iff_eq, List.all_eq_true, Option.isNone_iff_eq_none] at hreg
      simp only at him
      have hc3 : c ≠ 0x3a := by
        rcases h3 with h3 | h3
        · exact absurd rfl h3
        · exact h3
      have hparts := param_dcs_parts (p := ⟨.DcsEntry, ps, cp, im⟩) hinv hc3 (by
        simp only [List.all_eq_true, beq_iff_eq]
        intro x hx
        have := hreg.2 x (List.mem_of_mem_take hx)
        rw [isZero_iff] at this
        exact this.1) hq
      simp only [PRegOK, him, hreg.1.1, Option.isNone_none, Bool.true_or, Bool.true_and]
      exact hparts
    · simp only [PRegOK, Bool.and_eq_true] at hreg
      simp only at him
      have hc3 : c ≠ 0x3a := by
        rcases h3 with h3 | h3
        · exact absurd rfl h3
        · exact h3
      have hparts := param_dcs_parts (p := ⟨.DcsParam, ps, cp, im⟩) hinv hc3 hreg.2 hq
      simp only [PRegOK, him, Bool.and_eq_true]
      exact ⟨hreg.1, hparts⟩

end Lemmas.C11
end Avt
