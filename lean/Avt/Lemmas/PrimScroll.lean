/-
  Avt.Lemmas.PrimScroll — generic list lemmas about the checked primitives (`modAtM`, `fillRange`,
  `rotLRange`, `rotRRange`) and a pointwise tactic for `take`/`drop`/`replicate` identities.
-/
import Avt.Model.Buffer

namespace Avt.PrimL

/-- prove an equation between lists built from `take`/`drop`/`++`/`replicate`/`map`/`set` pointwise -/
syntax "list_pw" : tactic
macro_rules
  | `(tactic| list_pw) => `(tactic|
      (apply List.ext_getElem?
       intro i
       simp only [List.getElem?_take, List.getElem?_append, List.getElem?_drop, List.length_take,
         List.length_drop, List.length_append, List.length_replicate, List.getElem?_replicate,
         List.getElem?_map, List.length_map, List.getElem?_set, List.length_set,
         List.length_cons, List.length_nil, List.getElem?_cons, List.getElem?_nil]
       grind))

theorem modAtM_eq {α} (l : List α) (i : Nat) (f : α → Option α) (y : α) (h : i < l.length)
    (hf : f l[i] = some y) : modAtM l i f = some (l.set i y) := by
  simp [modAtM, List.getElem?_eq_getElem h, hf]

theorem set_eq_take_drop {α} (l : List α) (i : Nat) (y : α) (h : i < l.length) :
    l.set i y = l.take i ++ [y] ++ l.drop (i + 1) := by
  list_pw

theorem fillRange_eq {α} (l : List α) (a b : Nat) (x : α) (h1 : a ≤ b) (h2 : b ≤ l.length) :
    fillRange l a b x = some (l.take a ++ List.replicate (b - a) x ++ l.drop b) := by
  simp [fillRange, h1, h2]

theorem rotLRange_eq {α} (l : List α) (a b n : Nat) (h1 : a ≤ b) (h2 : b ≤ l.length) (h3 : n ≤ b - a) :
    rotLRange l a b n = some (l.take a ++ (l.take b).drop (a + n) ++ ((l.take b).drop a).take n ++ l.drop b) := by
  simp [rotLRange, h1, h2, h3, List.drop_drop]

theorem rotRRange_eq {α} (l : List α) (a b n : Nat) (h1 : a ≤ b) (h2 : b ≤ l.length) (h3 : n ≤ b - a) :
    rotRRange l a b n = some (l.take a ++ (l.take b).drop (b - n) ++ (l.take (b - n)).drop a ++ l.drop b) := by
  simp only [rotRRange, h1, h2, h3, and_self, if_true]
  congr 1
  list_pw

end Avt.PrimL
