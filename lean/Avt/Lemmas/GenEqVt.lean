/-
  Avt.Lemmas.GenEqVt — the generated translation of src/vt.rs and src/util.rs (Avt/Gen/VtGen.lean, regenerated
  from /repo/src by translate/rs2lean_buf.py on every run) EQUALS the hand-written model (`Avt.Vt.*`,
  `unwrapPush`/`unwrapMany`/`unwrapFlush`, `Avt.TextCollector.*`), for all inputs.  The generated code calls the
  generated `GenT.*` functions of terminal.rs; their equalities with the model come from Lemmas/GenEq.lean, so
  the chain source text → model is kernel-checked end to end (the parser's `feed` is the table interpreter of
  section 4.1, `Terminal::dump`/`Parser::dump` are the hand-written model functions).
-/
import Avt.Gen.VtGen
import Avt.Lemmas.GenEq
import Avt.Lemmas.GenEqLine

set_option linter.unusedSimpArgs false
set_option linter.unusedVariables false

namespace Avt.GenEqVt
open Avt

/-! ### vt.rs -/

/-- one step of the fold inside the generated `feed_str` is the model's `Vt.feed` -/
theorem feed_eq (v : Vt) (c : Nat) : GenV.feed v c = Vt.feed v c := by
  simp only [GenV.feed, Vt.feed, GenEq.execute_eq]
  cases h : v.parser.feed c with
  | none => rfl
  | some r =>
    obtain ⟨p, o⟩ := r
    cases o with
    | none => rfl
    | some f => simp only []; cases v.terminal.execute f <;> rfl

theorem foldM'_feedAll (f : Vt → Nat → Option Vt) (hf : ∀ v c, f v c = Vt.feed v c) (s : List Nat) (v : Vt) :
    Terminal.foldM' f s v = Vt.feedAll v s := by
  induction s generalizing v with
  | nil => rfl
  | cons c cs ih =>
    simp only [Terminal.foldM', Vt.feedAll, hf]
    cases Vt.feed v c with
    | none => rfl
    | some v' => exact ih v'

/-- the tail shared by `feed_str` and `resize`: `changes()` then `gc()` -/
theorem finish_eq (v : Vt) :
    (let (x5, x4) := GenT.changes v.terminal
     let v := { v with terminal := x5 }
     let lines := x4
     let (x7, x6) := GenT.gc v.terminal
     let v := { v with terminal := x7 }
     let scrollback := x6
     (v, ({ lines := lines, scrollback := scrollback } : Changes))) = Vt.finish v := by
  simp only [GenEq.changes_eq, GenEq.gc_eq, Vt.finish]

theorem feedStr_eq (v : Vt) (s : List Nat) : GenV.feedStr v s = Vt.feedStr v s := by
  unfold GenV.feedStr Vt.feedStr
  rw [foldM'_feedAll _ (fun v c => by
    have := feed_eq v c
    simp only [GenV.feed] at this
    cases h : v.parser.feed c with
    | none => simp only [h] at this ⊢; exact this
    | some r =>
      obtain ⟨p, o⟩ := r
      simp only [h] at this ⊢
      cases o <;> exact this) s v]
  cases Vt.feedAll v s with
  | none => rfl
  | some v' => simp only [Option.map_some]; exact congrArg some (finish_eq v')

theorem resize_eq (v : Vt) (cols rows : Nat) : GenV.resize v cols rows = Vt.resize v cols rows := by
  unfold GenV.resize Vt.resize
  rw [← GenEq.resize_eq]
  cases GenT.resize v.terminal cols rows with
  | none => rfl
  | some r =>
    obtain ⟨t, flag⟩ := r
    simp only [Option.map_some]
    exact congrArg some (finish_eq { v with terminal := t })

theorem size_eq (v : Vt) : GenV.size v = v.size := rfl
theorem view_eq (v : Vt) : GenV.view v = v.view := rfl
theorem lines_eq (v : Vt) : GenV.lines v = v.lines := rfl
theorem line_eq (v : Vt) (n : Nat) : GenV.line v n = v.line n := rfl
theorem text_eq (v : Vt) : GenV.text v = v.text := rfl
theorem cursor_eq (v : Vt) : GenV.cursor v = v.cursor := rfl
theorem cursorKeyAppMode_eq (v : Vt) : GenV.cursorKeyAppMode v = v.cursorKeyAppMode := rfl

theorem dump_eq (v : Vt) : GenV.dump v = v.dump := by
  unfold GenV.dump Vt.dump
  cases v.terminal.dump <;> cases v.parser.dump <;> rfl

/-! ### util.rs -/

/-- `TextUnwrapper` is the model's accumulator -/
theorem TextUnwrapper.push_eq (u : GenV.TextUnwrapper) (l : Line) :
    GenV.TextUnwrapper.push u l
      = (⟨(unwrapPush u.wrappedLine l).1⟩, (unwrapPush u.wrappedLine l).2) := by
  unfold GenV.TextUnwrapper.push unwrapPush
  simp only [GenEqLine.text_eq]
  cases l.wrapped <;> rfl

theorem TextUnwrapper.flush_eq (u : GenV.TextUnwrapper) :
    GenV.TextUnwrapper.flush u = unwrapFlush u.wrappedLine := rfl

/-- abstraction: the generated collector keeps a `TextUnwrapper`, the model its accumulator -/
def absTC (tc : GenV.TextCollector) : Avt.TextCollector := { vt := tc.vt, acc := tc.unwrapper.wrappedLine }

/-- one step of the effectful `filter_map(|l| self.unwrapper.push(&l))` as the generated code writes it -/
def stepTC : GenV.TextCollector × List (List Nat) → Line → GenV.TextCollector × List (List Nat) :=
  fun (tc, out3) l =>
    let (x7, x6) := GenV.TextUnwrapper.push tc.unwrapper l
    let tc := { tc with unwrapper := x7 }
    match x6 with
    | none => (tc, out3)
    | some x8 =>
      let out3 := out3 ++ [x8]
      (tc, out3)

/-- the same over a local `unwrapper` (`TextCollector::flush`) -/
def stepU : GenV.TextUnwrapper × List (List Nat) → Line → GenV.TextUnwrapper × List (List Nat) :=
  fun (unwrapper, out1) l =>
    let (x5, x4) := GenV.TextUnwrapper.push unwrapper l
    let unwrapper := x5
    match x4 with
    | none => (unwrapper, out1)
    | some x6 =>
      let out1 := out1 ++ [x6]
      (unwrapper, out1)

theorem stepTC_eq (vt : Vt) (acc : List Nat) (out : List (List Nat)) (l : Line) :
    stepTC (⟨vt, ⟨acc⟩⟩, out) l = (⟨vt, ⟨(unwrapPush acc l).1⟩⟩, out ++ (unwrapPush acc l).2.toList) := by
  simp only [stepTC, TextUnwrapper.push_eq]
  cases (unwrapPush acc l).2 <;> simp

theorem stepU_eq (acc : List Nat) (out : List (List Nat)) (l : Line) :
    stepU (⟨acc⟩, out) l = (⟨(unwrapPush acc l).1⟩, out ++ (unwrapPush acc l).2.toList) := by
  simp only [stepU, TextUnwrapper.push_eq]
  cases (unwrapPush acc l).2 <;> simp

/-- consumed in order, the effectful `filter_map` is the model's `unwrapMany` -/
theorem fold_unwrapMany (ls : List Line) (vt : Vt) (acc : List Nat) (out : List (List Nat)) :
    List.foldl stepTC (⟨vt, ⟨acc⟩⟩, out) ls
      = (⟨vt, ⟨(unwrapMany acc ls).1⟩⟩, out ++ (unwrapMany acc ls).2) := by
  induction ls generalizing acc out with
  | nil => simp [unwrapMany]
  | cons l ls ih =>
    simp only [List.foldl_cons, stepTC_eq, ih, unwrapMany]
    cases (unwrapPush acc l).2 <;> simp

theorem fold_unwrapMany' (ls : List Line) (acc : List Nat) (out : List (List Nat)) :
    List.foldl stepU (⟨acc⟩, out) ls = (⟨(unwrapMany acc ls).1⟩, out ++ (unwrapMany acc ls).2) := by
  induction ls generalizing acc out with
  | nil => simp [unwrapMany]
  | cons l ls ih =>
    simp only [List.foldl_cons, stepU_eq, ih, unwrapMany]
    cases (unwrapPush acc l).2 <;> simp

theorem TextCollector.feedStr_eq (tc : GenV.TextCollector) (s : List Nat) :
    (GenV.TextCollector.feedStr tc s).map (fun r => (absTC r.1, r.2)) = (absTC tc).feedStr s := by
  obtain ⟨vt, ⟨acc⟩⟩ := tc
  have shape : GenV.TextCollector.feedStr ⟨vt, ⟨acc⟩⟩ s =
      (match GenV.feedStr vt s with
       | none => none
       | some (x2, x1) => some (List.foldl stepTC (⟨x2, ⟨acc⟩⟩, []) x1.scrollback)) := rfl
  rw [shape]
  unfold Avt.TextCollector.feedStr
  simp only [Avt.GenEqVt.feedStr_eq, absTC]
  cases Vt.feedStr vt s with
  | none => rfl
  | some r =>
    obtain ⟨v', ch⟩ := r
    simp only [Option.map_some, fold_unwrapMany, List.nil_append]

theorem TextCollector.resize_eq (tc : GenV.TextCollector) (cols rows : Nat) :
    (GenV.TextCollector.resize tc cols rows).map (fun r => (absTC r.1, r.2)) = (absTC tc).resize cols rows := by
  obtain ⟨vt, ⟨acc⟩⟩ := tc
  have shape : GenV.TextCollector.resize ⟨vt, ⟨acc⟩⟩ cols rows =
      (match GenV.resize vt cols rows with
       | none => none
       | some (x2, x1) => some (List.foldl stepTC (⟨x2, ⟨acc⟩⟩, []) x1.scrollback)) := rfl
  rw [shape]
  unfold Avt.TextCollector.resize
  simp only [Avt.GenEqVt.resize_eq, absTC]
  cases Vt.resize vt cols rows with
  | none => rfl
  | some r =>
    obtain ⟨v', ch⟩ := r
    simp only [Option.map_some, fold_unwrapMany, List.nil_append]

theorem TextCollector.flush_eq (tc : GenV.TextCollector) :
    GenV.TextCollector.flush tc = (absTC tc).flush := by
  obtain ⟨vt, ⟨acc⟩⟩ := tc
  have shape : GenV.TextCollector.flush ⟨vt, ⟨acc⟩⟩ =
      (let r := List.foldl stepU (⟨acc⟩, []) (GenV.lines vt)
       GenL.popWhile (fun x => x.isEmpty) (r.2 ++ Option.toList (GenV.TextUnwrapper.flush r.1))) := rfl
  rw [shape]
  unfold Avt.TextCollector.flush
  simp only [absTC, lines_eq, GenEqLine.popWhile_eq, Avt.TextCollector.dropTrailingEmpty,
    TextUnwrapper.flush_eq, fold_unwrapMany', List.nil_append]

/-! ### coverage -/

/-- the functions of vt.rs / util.rs that have an equality theorem above -/
def provedFunctions : List String := [
  "Vt::feed_str", "Vt::feed", "Vt::size", "Vt::resize", "Vt::view", "Vt::lines", "Vt::line", "Vt::text",
  "Vt::cursor", "Vt::cursor_key_app_mode", "Vt::dump", "TextUnwrapper::push", "TextUnwrapper::flush",
  "TextCollector::feed_str", "TextCollector::resize", "TextCollector::flush"]

/-- constructors through `Builder` / derived `Default`: not translated (the model has `Vt.new` directly) -/
def untranslatedFunctions : List String :=
  ["Vt::builder", "Vt::new", "TextUnwrapper::new", "TextCollector::new"]

/-- every function the translator emitted has its theorem here (a new Rust function shows up as a failure) -/
theorem coverage_complete : GenV.translated = provedFunctions := by decide

theorem untranslated_as_expected : GenV.untranslated.length = untranslatedFunctions.length := by decide

end Avt.GenEqVt
