/-
  Avt.Lemmas.C09Rstrip — "remove the trailing elements that satisfy `p`", the common shape of
  `trimEnd` (trailing white space, C09) and `stripDefault` (trailing default cells, C10).
-/
namespace Avt.Lemmas

/-- drop the longest suffix all of whose elements satisfy `p` -/
def rstrip {α} (p : α → Bool) (xs : List α) : List α := (xs.reverse.dropWhile p).reverse

variable {α : Type} (p : α → Bool)

@[simp] theorem rstrip_nil : rstrip p ([] : List α) = [] := rfl

theorem mem_takeWhile_pos {q : α → Bool} : ∀ {l : List α} {x : α}, x ∈ l.takeWhile q → q x = true
  | [], _, h => by simp at h
  | y :: ys, x, h => by
    rw [List.takeWhile_cons] at h
    split at h
    · rcases List.mem_cons.1 h with rfl | h'
      · assumption
      · exact mem_takeWhile_pos h'
    · simp at h

/-- a list is its `rstrip` followed by a run of `p`-elements -/
theorem rstrip_decomp (xs : List α) :
    ∃ d, xs = rstrip p xs ++ d ∧ ∀ x ∈ d, p x = true := by
  refine ⟨(xs.reverse.takeWhile p).reverse, ?_, ?_⟩
  · have h := (List.takeWhile_append_dropWhile (p := p) (l := xs.reverse))
    have h2 := congrArg List.reverse h
    rw [List.reverse_append, List.reverse_reverse] at h2
    exact h2.symm
  · intro x hx
    exact mem_takeWhile_pos (List.mem_reverse.1 hx)

theorem rstrip_append_of_all {a d : List α} (h : ∀ x ∈ d, p x = true) :
    rstrip p (a ++ d) = rstrip p a := by
  unfold rstrip
  rw [List.reverse_append, List.dropWhile_append_of_pos]
  intro x hx; exact h x (List.mem_reverse.1 hx)

theorem rstrip_append_singleton (xs : List α) (c : α) :
    rstrip p (xs ++ [c]) = if p c then rstrip p xs else xs ++ [c] := by
  unfold rstrip
  rw [List.reverse_append]
  simp only [List.reverse_cons, List.reverse_nil, List.nil_append, List.singleton_append,
    List.dropWhile_cons]
  split <;> simp

theorem rstrip_append_singleton_neg {xs : List α} {c : α} (h : p c = false) :
    rstrip p (xs ++ [c]) = xs ++ [c] := by
  rw [rstrip_append_singleton]; simp [h]

theorem rstrip_append_of_ne {a b : List α} (h : rstrip p b ≠ []) :
    rstrip p (a ++ b) = a ++ rstrip p b := by
  unfold rstrip at *
  rw [List.reverse_append, List.dropWhile_append]
  have : (List.dropWhile p b.reverse).isEmpty = false := by
    cases hd : List.dropWhile p b.reverse with
    | nil => simp [hd] at h
    | cons _ _ => rfl
  simp [this]

theorem rstrip_eq_nil_iff {b : List α} : rstrip p b = [] ↔ ∀ x ∈ b, p x = true := by
  constructor
  · intro h x hx
    obtain ⟨d, hd, hall⟩ := rstrip_decomp p b
    rw [h, List.nil_append] at hd
    exact hall x (hd ▸ hx)
  · intro h
    have := rstrip_append_of_all p (a := []) h
    simpa using this

/-- `rstrip` of a concatenation only looks at the `rstrip` of the right part -/
theorem rstrip_append_rstrip (a b : List α) :
    rstrip p (a ++ rstrip p b) = rstrip p (a ++ b) := by
  obtain ⟨d, hd, hall⟩ := rstrip_decomp p b
  conv => rhs; rw [hd, ← List.append_assoc, rstrip_append_of_all p hall]

theorem rstrip_idem (xs : List α) : rstrip p (rstrip p xs) = rstrip p xs := by
  simpa using rstrip_append_rstrip p [] xs

theorem rstrip_prefix (xs : List α) : rstrip p xs <+: xs := by
  obtain ⟨d, hd, _⟩ := rstrip_decomp p xs
  exact ⟨d, hd.symm⟩

/-- cutting a list short and stripping gives a prefix of the stripped list -/
theorem rstrip_prefix_append (a b : List α) : rstrip p a <+: rstrip p (a ++ b) := by
  by_cases h : rstrip p b = []
  · rw [rstrip_append_of_all p ((rstrip_eq_nil_iff p).1 h)]
    exact List.prefix_refl _
  · rw [rstrip_append_of_ne p h]
    exact (rstrip_prefix p a).trans (List.prefix_append _ _)

/-- congruence: what follows a fixed front part matters only up to `rstrip` -/
theorem rstrip_append_congr (a : List α) {x y : List α} (h : rstrip p x = rstrip p y) :
    rstrip p (a ++ x) = rstrip p (a ++ y) := by
  rw [← rstrip_append_rstrip p a x, ← rstrip_append_rstrip p a y, h]

theorem rstrip_length_le (xs : List α) : (rstrip p xs).length ≤ xs.length :=
  (rstrip_prefix p xs).length_le

/-- `rstrip` as a `take`: the length removed is the length of the trailing `p`-run -/
theorem rstrip_eq_take (xs : List α) :
    rstrip p xs = xs.take (xs.length - (xs.reverse.takeWhile p).length) := by
  have h := (List.takeWhile_append_dropWhile (p := p) (l := xs.reverse))
  have h2 := congrArg List.reverse h
  rw [List.reverse_append, List.reverse_reverse] at h2
  have hl : xs.length = (rstrip p xs).length + (xs.reverse.takeWhile p).length := by
    have := congrArg List.length h2
    simp only [List.length_append, List.length_reverse] at this
    unfold rstrip; simp only [List.length_reverse]; omega
  have : xs.length - (xs.reverse.takeWhile p).length = (rstrip p xs).length := by omega
  rw [this]
  obtain ⟨d, hd, _⟩ := rstrip_decomp p xs
  have h3 : xs.take (rstrip p xs).length = (rstrip p xs ++ d).take (rstrip p xs).length := by
    rw [← hd]
  rw [h3, List.take_append_of_le_length (Nat.le_refl _), List.take_length]

/-- taking at least the stripped length and stripping again changes nothing -/
theorem rstrip_take_of_le {xs : List α} {m : Nat} (h : (rstrip p xs).length ≤ m) :
    rstrip p (xs.take m) = rstrip p xs := by
  obtain ⟨d, hd, hall⟩ := rstrip_decomp p xs
  have : xs.take m = rstrip p xs ++ d.take (m - (rstrip p xs).length) := by
    conv => lhs; rw [hd, List.take_append]
    rw [List.take_of_length_le h]
  rw [this, rstrip_append_of_all]
  · exact rstrip_idem p xs
  · intro x hx; exact hall x (List.mem_of_mem_take hx)

end Avt.Lemmas
