/-
  Avt.Lemmas.ParserOK — `ParserOK` (the contract of `Parser.feed` assumed by `Avt.Lemmas.InvVt`)
  closed for EVERY `c : Nat`.

  * `c < 0x110000` (every Rust `char`): `Avt.Props.C03.feed_total` / `PInv_feed`.
  * `c ≥ 0x110000` (no Rust `char`, but the model's characters are `Nat`): a direct re-check over the
    GENERATED tables.  `Parser.premap c = Gen.premapTo` there; for each of the 14 states the arm of
    `Gen.feedArms` selected by `Gen.premapTo` (if any) contains neither `clear` nor `param`
    (`bigOK`, by evaluation of the table); the dispatching acts are called with the raw `c`, which
    no arm of `Gen.csiArms` / `Gen.escArms` matches because all their finals / upper bounds are
    `< 0x110000` (`csiFinalsSmall`, `escHisSmall`, by evaluation of the tables).
-/
import Avt.Lemmas.InvVt
import Avt.Props.C03

namespace Avt
namespace ParserBig

/-! ### the invariant does not read `state` / `intermediate` -/

theorem PInv_setState (p : Parser) (s : PState) : PInv { p with state := s } = PInv p := rfl

theorem PInv_collect (p : Parser) (c : Nat) : PInv (p.collect c) = PInv p := rfl

/-! ### facts read off the generated tables -/

theorem premapFrom_le : Gen.premapFrom ≤ 0x110000 := by decide

theorem csiFinalsSmall : Gen.csiArms.all (fun a => decide (a.final < 0x110000)) = true := by decide

theorem escHisSmall : Gen.escArms.all (fun a => decide (a.hi < 0x110000)) = true := by decide

/-- acts that can neither panic nor touch the parameter registers -/
def benign : Act → Bool
  | .clear => false
  | .param => false
  | _ => true

/-- the arm selected in state `st` by the premapped character (if any) consists of benign acts -/
def bigOK (st : PState) : Bool :=
  match Parser.findArm Gen.feedArms st Gen.premapTo with
  | none => true
  | some arm => arm.acts.all benign

theorem bigOK_all (st : PState) : bigOK st = true := by
  cases st <;> decide

/-! ### the two dispatchers on a non-scalar `c` -/

theorem csiDispatch_big (p : Parser) {c : Nat} (hc : 0x110000 ≤ c) : p.csiDispatch c = some none := by
  have hn : Gen.csiArms.find? (fun a => Parser.CsiArm.matches a p.intermediate c) = none := by
    rw [List.find?_eq_none]
    intro a ha
    have h1 := List.all_eq_true.1 csiFinalsSmall a ha
    have h2 : a.final < 0x110000 := of_decide_eq_true h1
    have h3 : (a.final == c) = false := by
      rw [beq_eq_false_iff_ne]; omega
    simp [Parser.CsiArm.matches, h3]
  unfold Parser.csiDispatch
  rw [hn]

theorem escDispatch_big (p : Parser) {c : Nat} (hc : 0x110000 ≤ c) : p.escDispatch c = some (p, none) := by
  have hn : Gen.escArms.find? (fun a => Parser.EscArm.matches a p.intermediate c) = none := by
    rw [List.find?_eq_none]
    intro a ha
    have h1 := List.all_eq_true.1 escHisSmall a ha
    have h2 : a.hi < 0x110000 := of_decide_eq_true h1
    have h3 : decide (c ≤ a.hi) = false := by
      rw [decide_eq_false_iff_not]; omega
    simp [Parser.EscArm.matches, h3]
  unfold Parser.escDispatch
  rw [hn]

/-! ### running a benign arm body -/

theorem runActs_big {c : Nat} (hc : 0x110000 ≤ c) :
    ∀ (acts : List Act) (p : Parser), acts.all benign = true → PInv p = true →
      ∃ p' f, Parser.runActs acts p c = some (p', f) ∧ PInv p' = true := by
  intro acts
  induction acts with
  | nil => intro p _ hp; exact ⟨p, none, rfl, hp⟩
  | cons a as ih =>
    intro p hb hp
    rw [List.all_cons, Bool.and_eq_true] at hb
    obtain ⟨ha, has⟩ := hb
    cases a with
    | setState s => exact ih _ has ((PInv_setState p s).trans hp)
    | clear => cases ha
    | collect => exact ih _ has ((PInv_collect p c).trans hp)
    | param => cases ha
    | put => exact ih _ has hp
    | oscPut => exact ih _ has hp
    | retExecute => exact ⟨p, _, rfl, hp⟩
    | retCsiDispatch =>
      refine ⟨p, none, ?_, hp⟩
      simp only [Parser.runActs, csiDispatch_big p hc, Option.map_some]
    | retEscDispatch =>
      refine ⟨p, none, ?_, hp⟩
      simp only [Parser.runActs, escDispatch_big p hc]
    | retPrint => exact ⟨p, _, rfl, hp⟩

theorem premap_big {c : Nat} (hc : 0x110000 ≤ c) : Parser.premap c = Gen.premapTo := by
  have := premapFrom_le
  unfold Parser.premap
  rw [if_pos (by omega)]

/-- `feed` on a non-scalar code point: no panic, invariant kept -/
theorem feed_big {p : Parser} {c : Nat} (hc : 0x110000 ≤ c) (hp : PInv p = true) :
    ∃ p' f, p.feed c = some (p', f) ∧ PInv p' = true := by
  have hk := bigOK_all p.state
  unfold bigOK at hk
  unfold Parser.feed
  rw [premap_big hc]
  cases hf : Parser.findArm Gen.feedArms p.state Gen.premapTo with
  | none => exact ⟨p, none, rfl, hp⟩
  | some arm =>
    rw [hf] at hk
    exact runActs_big hc arm.acts p hk hp

end ParserBig

/-- **`ParserOK`, closed**: for every register file satisfying `PInv` and EVERY `c : Nat`,
    `Parser.feed` does not panic and re-establishes `PInv`. -/
theorem parserOK : ParserOK := by
  intro p c hp
  by_cases hc : c < 0x110000
  · have ht := Props.C03.feed_total hp c hc
    cases hf : p.feed c with
    | none => rw [hf] at ht; cases ht
    | some r =>
      obtain ⟨p', f⟩ := r
      exact ⟨p', f, rfl, Props.C03.PInv_feed hp hc hf⟩
  · exact ParserBig.feed_big (by omega) hp

end Avt
