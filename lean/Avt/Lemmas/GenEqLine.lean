/-
  Avt.Lemmas.GenEqLine — the generated translation of src/line.rs (Avt/Gen/LineGen.lean, regenerated from
  /repo/src/line.rs by translate/rs2lean_buf.py on every run) EQUALS the hand-written model `Avt.Line.*`,
  for all inputs.  One theorem `<name>_eq` per generated function; `coverage_complete` ties the list of
  generated functions to the list of theorems.  A change in the Rust body of a translated function changes
  the generated definition and the corresponding theorem stops checking.
-/
import Avt.Gen.LineGen
import Avt.Lemmas.GenEq
import Avt.Lemmas.Prim

set_option linter.unusedSimpArgs false
set_option linter.unusedVariables false

namespace Avt.GenEqLine
open Avt

/-! ### the idiom primitives of the generated prelude -/

theorem slice_eq_some {α} (l : List α) (a b : Nat) (h1 : a ≤ b) (h2 : b ≤ l.length) :
    GenL.slice l a b = some ((l.take b).drop a) := by
  simp [GenL.slice, h1, h2]

theorem popWhile_eq {α} (p : α → Bool) (l : List α) :
    GenL.popWhile p l = (l.reverse.dropWhile p).reverse := rfl

/-! ### line.rs -/

theorem blank_eq (cols : Nat) (pen : Pen) : GenL.blank cols pen = Line.blank cols pen := rfl

theorem len_eq (l : Line) : GenL.len l = l.len := rfl

theorem clear_eq (l : Line) (a b : Nat) (pen : Pen) : GenL.clear l (a, b) pen = Line.clear l a b pen := by
  simp only [GenL.clear, Line.clear, GenEq.Cell.blank_eq]
  cases fillRange l.cells a b (Cell.blank pen) <;> rfl

theorem print_eq (l : Line) (col : Nat) (cell : Cell) : GenL.print l col cell = Line.print l col cell := by
  simp only [GenL.print, Line.print]
  cases setAt l.cells col cell <;> rfl

theorem insert_eq (l : Line) (col n : Nat) (cell : Cell) :
    GenL.insert l col n cell = Line.insert l col n cell := by
  simp only [GenL.insert, Line.insert]
  cases rotRRange l.cells col l.cells.length n with
  | none => rfl
  | some cs => simp only []; cases fillRange cs col (col + n) cell <;> rfl

theorem delete_eq (l : Line) (col n : Nat) (pen : Pen) :
    GenL.delete l col n pen = Line.delete l col n pen := by
  simp only [GenL.delete, Line.delete, GenEq.Cell.blank_eq]
  cases rotLRange l.cells col l.cells.length n with
  | none => rfl
  | some cs =>
    simp only []
    cases csub cs.length n with
    | none => rfl
    | some st => simp only []; cases fillRange cs st cs.length (Cell.blank pen) <;> rfl

theorem slice_to_end {α} (l : List α) (n : Nat) (h : n ≤ l.length) :
    GenL.slice l n l.length = some (l.drop n) := by
  simp [GenL.slice, h]
theorem trailers_eq (l : Line) : GenL.trailers l = l.trailers := by
  simp only [GenL.trailers, Line.trailers]
  congr 2
  funext c
  exact GenEq.Cell.isDefault_eq c

theorem takeWhile_length_le {α} (p : α → Bool) (l : List α) : (l.takeWhile p).length ≤ l.length := by
  induction l with
  | nil => simp
  | cons x xs ih => simp only [List.takeWhile_cons]; split <;> simp <;> omega

theorem trailers_le (l : Line) : l.trailers ≤ l.cells.length := by
  have := takeWhile_length_le Cell.isDefault l.cells.reverse
  simpa [Line.trailers] using this

theorem trim_eq (l : Line) : GenL.trim l = some l.trim := by
  have hle := trailers_le l
  simp only [GenL.trim, trailers_eq, GenL.len, Line.len, Line.trim]
  by_cases h : l.trailers > 0
  · simp [h, csub, hle]
  · have h0 : l.trailers = 0 := by omega
    simp [h0]

theorem contract_eq (l : Line) (len : Nat) : GenL.contract l len = some (l.contract len) := by
  obtain ⟨cells, w⟩ := l
  have hle := trailers_le ⟨cells, w⟩
  cases w
  · simp only [GenL.contract, Line.contract, trailers_eq, GenL.len, Line.len, trim_eq,
      Bool.not_false, if_true, csub, hle]
    split
    · rename_i h
      rw [slice_to_end _ _ (by omega)]
      simp only []
      split <;> rfl
    · rfl
  · simp only [GenL.contract, Line.contract, trailers_eq, GenL.len, Line.len, trim_eq,
      Bool.not_true, if_false, Bool.false_eq_true]
    split
    · rename_i h
      rw [slice_to_end _ _ (by omega)]
      simp only []
      split <;> rfl
    · rfl

theorem slice_zero {α} (l : List α) (n : Nat) (h : n ≤ l.length) : GenL.slice l 0 n = some (l.take n) := by
  simp [GenL.slice, h]

theorem expand_eq (l : Line) (len : Nat) (pen : Pen) : GenL.expand l len pen = Line.expand l len pen := by
  simp only [GenL.expand, Line.expand, GenEq.Cell.blank_eq, GenL.len, Line.len]
  cases csub len l.cells.length <;> rfl

theorem rot_take_drop {α} (cs : List α) (n : Nat) (h : n ≤ cs.length) :
    List.take (cs.length - n) (List.drop n cs ++ List.take n cs) = List.drop n cs := by
  rw [List.take_append_of_le_length (by simp)]
  exact List.take_of_length_le (by simp)

/-- the generated `extend` after the `needed` / `self.wrapped` tests, for the (possibly trimmed) `other` -/
theorem extend_tail (cells : List Cell) (o : Line) (len needed : Nat) :
    (if needed < o.cells.length then
      match GenL.slice o.cells 0 needed with
      | none => none
      | some x3 =>
        match rotLRange o.cells 0 o.cells.length needed with
        | none => none
        | some x4 =>
          match csub x4.length needed with
          | none => none
          | some x5 =>
            some (({ cells := cells ++ x3, wrapped := true } : Line), (true,
              some ({ cells := List.take x5 x4, wrapped := o.wrapped } : Line)))
    else
      if (!o.wrapped) = true then
        match (if (cells ++ o.cells).length < len then
                 Line.expand { cells := cells ++ o.cells, wrapped := false } len Pen.default
               else some { cells := cells ++ o.cells, wrapped := false }) with
        | none => none
        | some l => some (l, (true, none))
      else some (({ cells := cells ++ o.cells, wrapped := true } : Line), (false, none)))
    =
    (if needed < o.len then
      some (({ cells := cells ++ o.cells.take needed, wrapped := true } : Line), true,
            some { cells := o.cells.drop needed, wrapped := o.wrapped })
    else
      if (!o.wrapped) = true then
        if ({ cells := cells ++ o.cells, wrapped := false } : Line).len < len then
          (Line.expand { cells := cells ++ o.cells, wrapped := false } len Pen.default).map
            fun l3 => (l3, true, none)
        else some ({ cells := cells ++ o.cells, wrapped := false }, true, none)
      else some ({ cells := cells ++ o.cells, wrapped := true }, false, none)) := by
  simp only [Line.len]
  by_cases hn : needed < o.cells.length
  · simp only [hn, if_true]
    rw [slice_zero _ _ (by omega), rotLRange_eq_some (Nat.zero_le _) (Nat.le_refl _) (by omega)]
    simp only [List.take_zero, List.drop_zero, List.take_length, List.nil_append,
      List.drop_length, List.append_nil, List.length_append, List.length_drop, List.length_take, csub]
    have h2 : needed ≤ o.cells.length - needed + min needed o.cells.length := by omega
    simp only [h2, if_true]
    have h3 : o.cells.length - needed + min needed o.cells.length - needed = o.cells.length - needed := by omega
    rw [h3, rot_take_drop _ _ (by omega)]
  · simp only [hn, if_false]
    by_cases ho : (!o.wrapped) = true
    · simp only [ho, if_true]
      by_cases hl : (cells ++ o.cells).length < len
      · simp only [hl, if_true]
        cases Line.expand { cells := cells ++ o.cells, wrapped := false } len Pen.default <;> rfl
      · simp only [hl, if_false]
    · simp [ho]

theorem penDefault_eq : GenT.Pen.default = Pen.default := rfl

theorem extend_eq (l other : Line) (len : Nat) : GenL.extend l other len = Line.extend l other len := by
  obtain ⟨cells, w⟩ := l
  simp only [GenL.extend, Line.extend, GenL.len, expand_eq, penDefault_eq, trim_eq, Line.len]
  cases hs : csub len cells.length with
  | none => rfl
  | some needed =>
    simp only []
    split
    · rfl
    · cases w
      · simp only [Bool.not_false, if_true]
        cases Line.expand ⟨cells, false⟩ len Pen.default <;> rfl
      · simp only [Bool.not_true, if_false, Bool.false_eq_true]
        cases ho : other.wrapped
        · simp only [Bool.not_false, if_true]
          have := extend_tail cells other.trim len needed
          simp only [Line.trim, ho, Bool.not_false, if_true] at this ⊢
          exact this
        · simp only [Bool.not_true, if_false, Bool.false_eq_true]
          have := extend_tail cells other len needed
          simp only [ho, Bool.not_true, if_false, Bool.false_eq_true] at this ⊢
          exact this

theorem isEmpty_eq (l : Line) : GenL.isEmpty l = (l.len == 0) := by
  simp only [GenL.isEmpty, len_eq]; exact GenEq.dec_beq _ _

theorem cells_eq (l : Line) : GenL.cells l = l.cells := rfl

theorem chars_eq (l : Line) : GenL.chars l = l.text := rfl

theorem text_eq (l : Line) : GenL.text l = l.text := rfl

theorem isBlank_eq (l : Line) : GenL.isBlank l = l.isBlank := by
  simp only [GenL.isBlank, Line.isBlank]
  congr 1
  funext c
  exact GenEq.Cell.isDefault_eq c

/-! ### coverage -/

/-- the functions of line.rs that have an equality theorem above -/
def provedFunctions : List String := [
  "Line::blank", "Line::clear", "Line::print", "Line::insert", "Line::delete", "Line::extend", "Line::expand",
  "Line::contract", "Line::len", "Line::is_empty", "Line::cells", "Line::chars", "Line::text", "Line::trim",
  "Line::trailers", "Line::is_blank"]

/-- `Chunks::new` / `Chunks::next` (a generic iterator over a closure; used only by `dump` / `Debug`) -/
def untranslatedFunctions : List String := ["Chunks::new", "Chunks::next"]

/-- every function the translator emitted has its theorem here (a new Rust function shows up as a failure) -/
theorem coverage_complete : GenL.translated = provedFunctions := by decide

theorem untranslated_as_expected : GenL.untranslated.length = untranslatedFunctions.length := by decide

/-- the place functions (`Index` impls) that were expanded inside the functions above -/
theorem inlined_as_expected :
    GenL.inlined = ["<Line as Index<Range<usize>>>::index", "<Line as Index<RangeFull>>::index"] := by decide

end Avt.GenEqLine
