/-
  Avt.Lemmas.C17Frame — functions that neither save, switch screens nor reset leave both saved
  contexts exactly as they are.
-/
import Avt.Spec.C17

namespace Avt.Spec.C17
open Avt

/-- both saved contexts are the same -/
def CtxSame (t t' : Terminal) : Prop :=
  t'.savedCtx = t.savedCtx ∧ t'.alternateSavedCtx = t.alternateSavedCtx

theorem CtxSame.refl (t : Terminal) : CtxSame t t := ⟨rfl, rfl⟩

theorem CtxSame.trans {a b c : Terminal} (h1 : CtxSame a b) (h2 : CtxSame b c) : CtxSame a c :=
  ⟨h2.1.trans h1.1, h2.2.trans h1.2⟩

theorem map_ctx {α} {t t' : Terminal} {o : Option α} {g : α → Terminal}
    (h : o.map g = some t') (hg : ∀ a, CtxSame t (g a)) : CtxSame t t' := by
  cases o with
  | none => cases h
  | some a => cases h; exact hg a

theorem markDirty_ctx {t t' : Terminal} {r : Nat} (h : t.markDirty r = some t') : CtxSame t t' :=
  map_ctx h (fun _ => ⟨rfl, rfl⟩)

theorem markDirtyRange_ctx {t t' : Terminal} {a b : Nat} (h : t.markDirtyRange a b = some t') :
    CtxSame t t' := map_ctx h (fun _ => ⟨rfl, rfl⟩)

theorem doMoveCursorToRow_ctx {t t' : Terminal} {r : Nat} (h : t.doMoveCursorToRow r = some t') :
    CtxSame t t' := map_ctx h (fun _ => ⟨rfl, rfl⟩)

theorem moveCursorToCol_ctx {t t' : Terminal} {c : Nat} (h : t.moveCursorToCol c = some t') :
    CtxSame t t' := by
  unfold Terminal.moveCursorToCol at h
  split at h
  · exact map_ctx h (fun _ => ⟨rfl, rfl⟩)
  · cases h; exact ⟨rfl, rfl⟩

theorem moveCursorToRow_ctx {t t' : Terminal} {r : Nat} (h : t.moveCursorToRow r = some t') :
    CtxSame t t' := by
  unfold Terminal.moveCursorToRow at h
  simp only at h
  split at h
  · cases h
  · exact doMoveCursorToRow_ctx h

theorem moveCursorToRelCol_ctx {t t' : Terminal} {r : Int} (h : t.moveCursorToRelCol r = some t') :
    CtxSame t t' := by
  unfold Terminal.moveCursorToRelCol at h
  simp only at h
  split at h
  · cases h; exact ⟨rfl, rfl⟩
  · split at h
    · exact map_ctx h (fun _ => ⟨rfl, rfl⟩)
    · cases h; exact ⟨rfl, rfl⟩

theorem moveCursorHome_ctx {t t' : Terminal} (h : t.moveCursorHome = some t') : CtxSame t t' := by
  unfold Terminal.moveCursorHome at h
  exact CtxSame.trans (b := t.doMoveCursorToCol 0) ⟨rfl, rfl⟩ (doMoveCursorToRow_ctx h)

theorem moveCursorToNextTab_ctx {t t' : Terminal} {n : Nat} (h : t.moveCursorToNextTab n = some t') :
    CtxSame t t' := by
  unfold Terminal.moveCursorToNextTab at h
  split at h
  · exact moveCursorToCol_ctx h
  · cases h

theorem moveCursorToPrevTab_ctx {t t' : Terminal} {n : Nat} (h : t.moveCursorToPrevTab n = some t') :
    CtxSame t t' := by
  unfold Terminal.moveCursorToPrevTab at h
  split at h
  · exact moveCursorToCol_ctx h
  · cases h

theorem scrollUpInRegion_ctx {t t' : Terminal} {n : Nat} (h : t.scrollUpInRegion n = some t') :
    CtxSame t t' := by
  unfold Terminal.scrollUpInRegion at h
  split at h
  · cases h
  · exact map_ctx h (fun _ => ⟨rfl, rfl⟩)

theorem scrollDownInRegion_ctx {t t' : Terminal} {n : Nat} (h : t.scrollDownInRegion n = some t') :
    CtxSame t t' := by
  unfold Terminal.scrollDownInRegion at h
  split at h
  · cases h
  · exact map_ctx h (fun _ => ⟨rfl, rfl⟩)

theorem moveCursorDownWithScroll_ctx {t t' : Terminal} (h : t.moveCursorDownWithScroll = some t') :
    CtxSame t t' := by
  unfold Terminal.moveCursorDownWithScroll at h
  split at h
  · exact scrollUpInRegion_ctx h
  · split at h
    · cases h
    · split at h
      · exact doMoveCursorToRow_ctx h
      · cases h; exact ⟨rfl, rfl⟩

theorem cursorDown_ctx {t t' : Terminal} {n : Nat} (h : t.cursorDown n = some t') : CtxSame t t' := by
  unfold Terminal.cursorDown at h
  split at h
  · split at h
    · cases h
    · exact doMoveCursorToRow_ctx h
  · exact doMoveCursorToRow_ctx h

theorem cursorUp_ctx {t t' : Terminal} {n : Nat} (h : t.cursorUp n = some t') : CtxSame t t' := by
  unfold Terminal.cursorUp at h
  exact doMoveCursorToRow_ctx h

theorem setTab_ctx (t : Terminal) : CtxSame t t.setTab := by
  unfold Terminal.setTab; split <;> exact ⟨rfl, rfl⟩

theorem ctc_ctx (t : Terminal) (op : CtcOp) : CtxSame t (t.ctc op) := by
  cases op
  · exact setTab_ctx t
  · exact ⟨rfl, rfl⟩
  · exact ⟨rfl, rfl⟩

theorem tbc_ctx (t : Terminal) (s : TbcScope) : CtxSame t (t.tbc s) := by
  cases s <;> exact ⟨rfl, rfl⟩

theorem bs_ctx {t t' : Terminal} (h : t.bs = some t') : CtxSame t t' := by
  unfold Terminal.bs at h
  split at h <;> exact moveCursorToRelCol_ctx h

theorem lf_ctx {t t' : Terminal} (h : t.lf = some t') : CtxSame t t' := by
  unfold Terminal.lf at h
  cases hm : t.moveCursorDownWithScroll with
  | none => simp [hm] at h
  | some t1 =>
    simp only [hm, Option.map_some, Option.some.injEq] at h
    subst h
    refine (moveCursorDownWithScroll_ctx hm).trans ?_
    split <;> exact ⟨rfl, rfl⟩

theorem nel_ctx {t t' : Terminal} (h : t.nel = some t') : CtxSame t t' := by
  unfold Terminal.nel at h
  cases hm : t.moveCursorDownWithScroll with
  | none => simp [hm] at h
  | some t1 =>
    simp only [hm, Option.map_some, Option.some.injEq] at h
    subst h
    exact (moveCursorDownWithScroll_ctx hm).trans ⟨rfl, rfl⟩

theorem ri_ctx {t t' : Terminal} (h : t.ri = some t') : CtxSame t t' := by
  unfold Terminal.ri at h
  split at h
  · exact scrollDownInRegion_ctx h
  · split at h
    · exact doMoveCursorToRow_ctx h
    · cases h; exact ⟨rfl, rfl⟩

theorem decalnRows_ctx : ∀ (k row : Nat) {t t' : Terminal}, Terminal.decalnRows t row k = some t' → CtxSame t t'
  | 0, _, t, t', h => by cases h; exact ⟨rfl, rfl⟩
  | k + 1, row, t, t', h => by
    unfold Terminal.decalnRows at h
    split at h
    · cases h
    · rename_i b _
      split at h
      · cases h
      · rename_i t1 h1
        exact (CtxSame.trans (b := { t with buffer := b }) ⟨rfl, rfl⟩ (markDirty_ctx h1)).trans
          (decalnRows_ctx k (row + 1) h)

theorem ich_ctx {t t' : Terminal} {n : Nat} (h : t.ich n = some t') : CtxSame t t' := by
  unfold Terminal.ich at h
  split at h
  · cases h
  · rename_i b _
    exact CtxSame.trans (b := { t with buffer := b }) ⟨rfl, rfl⟩ (markDirty_ctx h)

theorem cub_ctx {t t' : Terminal} {n : Nat} (h : t.cub n = some t') : CtxSame t t' := by
  unfold Terminal.cub at h
  exact moveCursorToRelCol_ctx h

theorem cup_ctx {t t' : Terminal} {r c : Nat} (h : t.cup r c = some t') : CtxSame t t' := by
  unfold Terminal.cup at h
  split at h
  · cases h
  · rename_i t1 h1
    exact (moveCursorToCol_ctx h1).trans (moveCursorToRow_ctx h)

theorem eraseWith_ctx {t t' : Terminal} {m : Buffer.EraseMode} (h : t.eraseWith m = some t') :
    CtxSame t t' := map_ctx h (fun _ => ⟨rfl, rfl⟩)

theorem ed_ctx {t t' : Terminal} {s : EdScope} (h : t.ed s = some t') : CtxSame t t' := by
  unfold Terminal.ed at h
  cases s with
  | savedLines => cases h; exact ⟨rfl, rfl⟩
  | below | above | all =>
    simp only at h
    split at h
    · cases h
    · rename_i t1 h1
      exact (eraseWith_ctx h1).trans (markDirtyRange_ctx h)

theorem el_ctx {t t' : Terminal} {s : ElScope} (h : t.el s = some t') : CtxSame t t' := by
  unfold Terminal.el at h
  simp only at h
  split at h
  · cases h
  · rename_i t1 h1
    exact (eraseWith_ctx h1).trans (markDirty_ctx h)

theorem ech_ctx {t t' : Terminal} {n : Nat} (h : t.ech n = some t') : CtxSame t t' := by
  unfold Terminal.ech at h
  split at h
  · cases h
  · rename_i t1 h1
    exact (eraseWith_ctx h1).trans (markDirty_ctx h)

theorem il_ctx {t t' : Terminal} {n : Nat} (h : t.il n = some t') : CtxSame t t' := by
  unfold Terminal.il at h
  simp only at h
  split at h
  · cases h
  · rename_i b _
    exact CtxSame.trans (b := { t with buffer := b }) ⟨rfl, rfl⟩ (markDirtyRange_ctx h)

theorem dl_ctx {t t' : Terminal} {n : Nat} (h : t.dl n = some t') : CtxSame t t' := by
  unfold Terminal.dl at h
  simp only at h
  split at h
  · cases h
  · rename_i b _
    exact CtxSame.trans (b := { t with buffer := b }) ⟨rfl, rfl⟩ (markDirtyRange_ctx h)

theorem dch_ctx {t t' : Terminal} {n : Nat} (h : t.dch n = some t') : CtxSame t t' := by
  unfold Terminal.dch at h
  simp only at h
  split at h
  · cases h
  · rename_i t1 ht1
    have h1 : CtxSame t t1 := by
      split at ht1
      · split at ht1
        · cases ht1
        · exact moveCursorToCol_ctx ht1
      · cases ht1; exact ⟨rfl, rfl⟩
    split at h
    · cases h
    · rename_i b _
      exact h1.trans (CtxSame.trans (b := { t1 with buffer := b }) ⟨rfl, rfl⟩ (markDirty_ctx h))


theorem print_ctx {t t' : Terminal} {ch : Nat} (h : t.print ch = some t') : CtxSame t t' := by
  unfold Terminal.print at h
  split at h
  · cases h
  · split at h
    · cases h
    · simp only at h
      split at h
      · cases h
      · rename_i t1 ht1
        split at h
        · cases h
        · rename_i t2 ht2
          have h1 : CtxSame t t1 := by
            split at ht1
            · have h0 : CtxSame t (t.doMoveCursorToCol 0) := ⟨rfl, rfl⟩
              generalize t.doMoveCursorToCol 0 = t0 at ht1 h0
              split at ht1
              · split at ht1
                · cases ht1
                · rename_i b hb
                  have hb' : CtxSame t { t0 with buffer := b } := h0.trans ⟨rfl, rfl⟩
                  split at ht1
                  · cases ht1
                  · rename_i t3 ht3
                    have h3 := hb'.trans (scrollUpInRegion_ctx ht3)
                    split at ht1
                    · cases ht1
                    · split at ht1
                      · split at ht1
                        · cases ht1
                        · exact h3.trans (map_ctx ht1 (fun _ => ⟨rfl, rfl⟩))
                      · cases ht1; exact h3
              · split at ht1
                · cases ht1
                · split at ht1
                  · split at ht1
                    · cases ht1
                    · rename_i b hb
                      have hb' : CtxSame t { t0 with buffer := b } := h0.trans ⟨rfl, rfl⟩
                      exact hb'.trans (doMoveCursorToRow_ctx ht1)
                  · cases ht1; exact h0
            · cases ht1; exact ⟨rfl, rfl⟩
          have h2 : CtxSame t1 t2 := by
            split at ht2
            · split at ht2
              · cases ht2
              · split at ht2
                · cases ht2
                · split at ht2
                  · cases ht2; exact ⟨rfl, rfl⟩
                  · cases ht2; exact ⟨rfl, rfl⟩
            · split at ht2
              · cases ht2
              · cases ht2; exact ⟨rfl, rfl⟩
          exact (h1.trans h2).trans (markDirty_ctx h)

theorem printN_ctx {ch : Nat} : ∀ (k : Nat) {t t' : Terminal}, t.printN ch k = some t' → CtxSame t t'
  | 0, t, t', h => by cases h; exact ⟨rfl, rfl⟩
  | k + 1, t, t', h => by
    unfold Terminal.printN at h
    split at h
    · cases h
    · rename_i t1 h1
      exact (print_ctx h1).trans (printN_ctx k h)

theorem rep_ctx {t t' : Terminal} {n : Nat} (h : t.rep n = some t') : CtxSame t t' := by
  unfold Terminal.rep at h
  split at h
  · split at h
    · cases h
    · split at h
      · cases h
      · exact printN_ctx _ h
  · cases h; exact ⟨rfl, rfl⟩

theorem sm_ctx (ms : List AnsiMode) : ∀ t : Terminal, CtxSame t (t.sm ms) := by
  induction ms with
  | nil => intro t; exact ⟨rfl, rfl⟩
  | cons m ms ih =>
    intro t
    simp only [Terminal.sm, List.foldl_cons]
    cases m
    · exact CtxSame.trans (b := { t with insertMode := true }) ⟨rfl, rfl⟩ (ih _)
    · exact CtxSame.trans (b := { t with newLineMode := true }) ⟨rfl, rfl⟩ (ih _)

theorem rm_ctx (ms : List AnsiMode) : ∀ t : Terminal, CtxSame t (t.rm ms) := by
  induction ms with
  | nil => intro t; exact ⟨rfl, rfl⟩
  | cons m ms ih =>
    intro t
    simp only [Terminal.rm, List.foldl_cons]
    cases m
    · exact CtxSame.trans (b := { t with insertMode := false }) ⟨rfl, rfl⟩ (ih _)
    · exact CtxSame.trans (b := { t with newLineMode := false }) ⟨rfl, rfl⟩ (ih _)

theorem decstbm_ctx {t t' : Terminal} {a b : Nat} (h : t.decstbm a b = some t') : CtxSame t t' := by
  unfold Terminal.decstbm at h
  simp only at h
  split at h
  · cases h
  · refine CtxSame.trans ?_ (moveCursorHome_ctx h)
    split <;> exact ⟨rfl, rfl⟩

theorem xtwinopsF_ctx {t t' : Terminal} {c r : Nat} (hx : t.xtwinops = false)
    (h : t.xtwinopsF c r = some t') : CtxSame t t' := by
  unfold Terminal.xtwinopsF at h
  simp only [hx, Bool.false_eq_true, if_false] at h
  cases h; exact ⟨rfl, rfl⟩

/-- setting a DEC mode that neither saves nor switches -/
theorem decsetOne_ctx {t t' : Terminal} {m : DecMode} (hm : modeTouches true m = false)
    (h : t.decsetOne m = some t') : CtxSame t t' := by
  cases m <;> simp only [modeTouches, Bool.true_eq_false] at hm <;> simp only [Terminal.decsetOne] at h
  · cases h; exact ⟨rfl, rfl⟩
  · exact CtxSame.trans (b := { t with originMode := true }) ⟨rfl, rfl⟩ (moveCursorHome_ctx h)
  · cases h; exact ⟨rfl, rfl⟩
  · cases h; exact ⟨rfl, rfl⟩

/-- resetting a DEC mode that does not switch (a restore keeps both contexts) -/
theorem decrstOne_ctx {t t' : Terminal} {m : DecMode} (hm : modeTouches false m = false)
    (h : t.decrstOne m = some t') : CtxSame t t' := by
  cases m <;> simp only [modeTouches, Bool.true_eq_false] at hm <;> simp only [Terminal.decrstOne] at h
  · cases h; exact ⟨rfl, rfl⟩
  · exact CtxSame.trans (b := { t with originMode := false }) ⟨rfl, rfl⟩ (moveCursorHome_ctx h)
  · cases h; exact ⟨rfl, rfl⟩
  · cases h; exact ⟨rfl, rfl⟩
  · cases h; exact ⟨rfl, rfl⟩

theorem foldM_ctx {f : Terminal → DecMode → Option Terminal} {p : DecMode → Bool}
    (hf : ∀ t t' m, p m = false → f t m = some t' → CtxSame t t') :
    ∀ (ms : List DecMode) {t t' : Terminal}, ms.any p = false → Terminal.foldM' f ms t = some t' →
      CtxSame t t'
  | [], t, t', _, h => by cases h; exact ⟨rfl, rfl⟩
  | m :: ms, t, t', hp, h => by
    simp only [List.any_cons, Bool.or_eq_false_iff] at hp
    unfold Terminal.foldM' at h
    split at h
    · rename_i t1 h1
      exact (hf _ _ _ hp.1 h1).trans (foldM_ctx hf ms hp.2 h)
    · cases h

/-- C17, clause (3): every function that is not a save, a switch of screens, DECSTR or RIS leaves
    both saved contexts unchanged (all constructors of `Function`; `TInv` is only needed to know that
    the `xtwinops` flag is off) -/
theorem frame {t t' : Terminal} {f : Function} (hi : TInv t = true) (hf : touchesCtx f = false)
    (h : t.execute f = some t') : CtxSame t t' := by
  have hx : t.xtwinops = false := by
    simp only [TInv, Bool.and_eq_true, Bool.not_eq_true'] at hi
    exact hi.2
  cases f <;> simp only [touchesCtx, Bool.true_eq_false] at hf <;> simp only [Terminal.execute] at h
  case bs => exact bs_ctx h
  case cbt n => exact moveCursorToPrevTab_ctx h
  case cha n => exact moveCursorToCol_ctx h
  case cht n => exact moveCursorToNextTab_ctx h
  case cnl n =>
    cases hc : t.cursorDown (asUsize n 1) with
    | none => simp [hc] at h
    | some t1 =>
      simp only [hc, Option.map_some, Option.some.injEq] at h; subst h
      exact (cursorDown_ctx hc).trans ⟨rfl, rfl⟩
  case cpl n =>
    cases hc : t.cursorUp (asUsize n 1) with
    | none => simp [hc] at h
    | some t1 =>
      simp only [hc, Option.map_some, Option.some.injEq] at h; subst h
      exact (cursorUp_ctx hc).trans ⟨rfl, rfl⟩
  case cr => cases h; exact ⟨rfl, rfl⟩
  case ctc op => cases h; exact ctc_ctx t op
  case cub n => exact cub_ctx h
  case cud n => exact cursorDown_ctx h
  case cuf n => exact moveCursorToRelCol_ctx h
  case cup r c => exact cup_ctx h
  case cuu n => exact cursorUp_ctx h
  case dch n => exact dch_ctx h
  case decaln => exact decalnRows_ctx _ _ h
  case decrc => cases h; exact ⟨rfl, rfl⟩
  case decrst ms => exact foldM_ctx (fun _ _ _ hp hh => decrstOne_ctx hp hh) ms hf h
  case decset ms => exact foldM_ctx (fun _ _ _ hp hh => decsetOne_ctx hp hh) ms hf h
  case decstbm a b => exact decstbm_ctx h
  case dl n => exact dl_ctx h
  case ech n => exact ech_ctx h
  case ed s => exact ed_ctx h
  case el s => exact el_ctx h
  case g1d4 c => cases h; exact ⟨rfl, rfl⟩
  case gzd4 c => cases h; exact ⟨rfl, rfl⟩
  case ht => exact moveCursorToNextTab_ctx h
  case hts => cases h; exact setTab_ctx t
  case ich n => exact ich_ctx h
  case il n => exact il_ctx h
  case lf => exact lf_ctx h
  case nel => exact nel_ctx h
  case print ch => exact print_ctx h
  case rep n => exact rep_ctx h
  case ri => exact ri_ctx h
  case rm ms => cases h; exact rm_ctx ms t
  case scorc => cases h; exact ⟨rfl, rfl⟩
  case sd n => exact scrollDownInRegion_ctx h
  case sgr ops => cases h; exact ⟨rfl, rfl⟩
  case si => cases h; exact ⟨rfl, rfl⟩
  case sm ms => cases h; exact sm_ctx ms t
  case so => cases h; exact ⟨rfl, rfl⟩
  case su n => exact scrollUpInRegion_ctx h
  case tbc s => cases h; exact tbc_ctx t s
  case vpa n => exact moveCursorToRow_ctx h
  case vpr n => exact cursorDown_ctx h
  case xtwinops c r => exact xtwinopsF_ctx hx h

end Avt.Spec.C17
