/-
  Avt.Lemmas.C16Resized — what the resized-excursion clause of C16 needs:

  * `text_eq_logical`      `Buffer::text` is `lineText` (characters, `trim_end`) of the logical lines
                           (`Spec.C10.logicalLines`) of the rows;
  * `textRel_of_keptOrCut` C10's "kept or cut short at the bottom" on logical lines gives C16's
                           `textRel` on `text()`;
  * `leave_resize`         leaving the alternate screen (`DECRST 47/1047/1049`) is ONE `Buffer.resize`
                           of the parked buffer to the terminal's size, fed with `leaveCursor`: the
                           parked saved cursor (1049) resp. the alternate screen's cursor (47/1047).
-/
import Avt.Lemmas.C16Text
import Avt.Lemmas.C16Switch
import Avt.Lemmas.C09Text
import Avt.Lemmas.C10Width3
import Avt.Lemmas.ResizeOK

namespace Avt.C16
open Avt Avt.Lemmas

/-! ### `text()` from the logical lines -/

/-- the string `text()` shows for a logical line: its characters, trailing white space removed -/
def lineText (cs : List Cell) : List Nat := trimEnd (cs.map Cell.ch)

theorem lineText_nil : lineText [] = [] := rfl

/-- `cur` glued to the front of the first line -/
def glueHead (cur : List Nat) : List (List Nat) → List (List Nat)
  | [] => []
  | x :: xs => (cur ++ x) :: xs

theorem joinRows_ne_nil {ls : List Line} (h : ls ≠ []) : Spec.C10.joinRows ls ≠ [] :=
  fun h0 => h (joinRows_eq_nil.1 h0)

theorem joinText_joinRows : ∀ (ls : List Line) (cur : List Nat), ls ≠ [] → lastUnwrapped ls = true →
    joinText ls cur = glueHead cur ((Spec.C10.joinRows ls).map (List.map Cell.ch))
  | [], _, h, _ => absurd rfl h
  | [l], cur, _, hl => by
    have hw : l.wrapped = false := by simpa [lastUnwrapped] using hl
    simp [joinText, Spec.C10.joinRows, hw, glueHead, Line.text]
  | l :: l2 :: t, cur, _, hl => by
    have hl' : lastUnwrapped (l2 :: t) = true := by simpa [lastUnwrapped] using hl
    cases hw : l.wrapped with
    | false =>
      rw [joinText_cons_unwrapped hw, joinRows_cons_unwrapped hw,
        joinText_joinRows (l2 :: t) [] (by simp) hl']
      cases hj : Spec.C10.joinRows (l2 :: t) with
      | nil => exact absurd hj (joinRows_ne_nil (by simp))
      | cons x xs => simp [glueHead, Line.text]
    | true =>
      rw [joinText_cons_wrapped hw, joinText_joinRows (l2 :: t) _ (by simp) hl']
      cases hj : Spec.C10.joinRows (l2 :: t) with
      | nil => exact absurd hj (joinRows_ne_nil (by simp))
      | cons x xs =>
        rw [joinRows_cons_wrapped hw hj]
        simp [glueHead, Line.text]

/-- default cells are blanks, so stripping them does not change the trimmed text -/
theorem lineText_strip (cs : List Cell) : lineText (Spec.C10.stripDefault cs) = lineText cs := by
  obtain ⟨d, hd, hall⟩ := rstrip_decomp Cell.isDefault cs
  rw [stripDefault_eq]
  unfold lineText
  conv => rhs; rw [hd, List.map_append]
  rw [trimEnd_append_ws]
  intro c hc
  obtain ⟨x, hx, rfl⟩ := List.mem_map.1 hc
  have := hall x hx
  simp only [Cell.isDefault, Bool.and_eq_true, beq_iff_eq] at this
  rw [this.1]; decide

/-- **`Buffer::text` of rows whose last row is not soft-wrapped** (every buffer: `BInv`) is the list
    of its logical lines, each shown as `lineText` -/
theorem text_eq_logical {ls : List Line} (h : lastUnwrapped ls = true) :
    Buffer.textGo ls [] = (Spec.C10.logicalLines ls).map lineText := by
  by_cases hne : ls = []
  · subst hne; rfl
  · rw [textGo_spec, joinText_joinRows ls [] hne h]
    cases hj : Spec.C10.joinRows ls with
    | nil => exact absurd hj (joinRows_ne_nil hne)
    | cons x xs =>
      simp only [Spec.C10.logicalLines, hj, List.map_cons, glueHead, List.nil_append, List.map_map,
        List.cons.injEq]
      refine ⟨(lineText_strip x).symm, ?_⟩
      apply List.map_congr_left
      intro y _
      exact (lineText_strip y).symm

theorem buffer_text_eq_logical {b : Buffer} (h : BInv b = true) :
    b.text = (Spec.C10.logicalLines b.lines).map lineText := by
  apply text_eq_logical
  obtain ⟨_, _, hv⟩ := binv_parts h
  have hlu : lastUnwrapped b.view = true := by
    simp only [BInv, Bool.and_eq_true] at h
    exact h.1.1.2
  have hne : b.view ≠ [] := by
    intro h0; rw [h0] at hv
    have := (binv_parts h).2.1
    simp at hv; omega
  unfold Buffer.lines
  rw [lastUnwrapped_append hne]; exact hlu

/-! ### from `keptOrCut` to `textRel` -/

open Spec.C16 in
theorem dropTrailingEmpty_cons (x : List Nat) (xs : List (List Nat)) :
    dropTrailingEmpty (x :: xs)
      = if (dropTrailingEmpty xs).isEmpty && x.isEmpty then [] else x :: dropTrailingEmpty xs := by
  unfold dropTrailingEmpty
  rw [List.reverse_cons, List.dropWhile_append]
  cases hd : List.dropWhile List.isEmpty xs.reverse with
  | nil =>
    cases hx : x.isEmpty <;> simp [hx]
  | cons y ys =>
    simp

open Spec.C16 in
theorem isPrefixOf_of_prefix {n o : List Nat} (h : n <+: o) : isPrefixOf n o = true := by
  obtain ⟨r, rfl⟩ := h
  simp [isPrefixOf]

theorem lineText_prefix {a b : List Cell} (h : b <+: a) : lineText b <+: lineText a := by
  obtain ⟨s, rfl⟩ := h
  unfold lineText
  rw [List.map_append]
  exact rstrip_prefix_append _ _ _

open Spec.C16 Spec.C10 in
theorem dte_of_blank : ∀ (bs : List (List Cell)), keptOrCut [] bs = true →
    dropTrailingEmpty (bs.map lineText) = []
  | [], _ => rfl
  | b :: bs, h => by
    simp only [keptOrCut, Bool.and_eq_true, List.isEmpty_iff] at h
    rw [List.map_cons, dropTrailingEmpty_cons, dte_of_blank bs h.2, h.1]
    rfl

open Spec.C16 Spec.C10 in
/-- logical lines kept or cut short at the bottom (C10) ⟹ the text is never altered, at most cut
    short at the end (C16's `textRel`) -/
theorem textRel_of_keptOrCut : ∀ (as bs : List (List Cell)), keptOrCut as bs = true →
    textRel (as.map lineText) (bs.map lineText) = true
  | _, [], _ => by simp [textRel, dropTrailingEmpty, prefixLines]
  | [], b :: bs, h => by
    unfold textRel
    rw [dte_of_blank (b :: bs) h]; rfl
  | a :: as, b :: bs, h => by
    unfold textRel
    rw [List.map_cons, List.map_cons, dropTrailingEmpty_cons]
    simp only [keptOrCut, Bool.or_eq_true, Bool.and_eq_true, beq_iff_eq, List.isEmpty_iff] at h
    rcases h with ⟨hba, hk⟩ | ⟨hp, hbs⟩
    · subst hba
      have ih := textRel_of_keptOrCut as bs hk
      unfold textRel at ih
      cases hd : dropTrailingEmpty (bs.map lineText) with
      | nil =>
        cases (lineText b).isEmpty
        · simp [prefixLines, isPrefixOf]
        · simp [prefixLines]
      | cons n ns =>
        rw [hd] at ih
        simp [prefixLines, ih]
    · subst hbs
      have hp' : b <+: a := List.isPrefixOf_iff_prefix.1 hp
      have := isPrefixOf_of_prefix (lineText_prefix hp')
      cases (lineText b).isEmpty
      · simp [dropTrailingEmpty, prefixLines, this]
      · simp [dropTrailingEmpty, prefixLines]

/-! ### leaving the alternate screen = one `Buffer.resize` of the parked buffer -/

/-- the cursor handed to the deferred `Buffer.resize` when the alternate screen is left with mode `m`:
    `?1049l` restores the parked saved cursor first (old geometry of the primary), `?47l`/`?1047l`
    use the alternate screen's cursor (current geometry) -/
def leaveCursor (t : Terminal) (m : DecMode) : Nat × Nat :=
  if m = .saveCursorAltScreenBuffer then (t.alternateSavedCtx.cursorCol, t.alternateSavedCtx.cursorRow)
  else (t.cursor.col, t.cursor.row)

/-- was a wrap pending for the cursor handed to the deferred resize? (never after `restore_cursor`) -/
def leavePending (t : Terminal) (m : DecMode) : Bool :=
  if m = .saveCursorAltScreenBuffer then false else t.pendingWrap

theorem leave_resize {t t' : Terminal} {m : DecMode} (ha : t.activeBufferType = .alternate)
    (hm : Spec.C16.isAltScreenMode m = true) (h : t.decrstOne m = some t') :
    ∃ cur', t.otherBuffer.resize t.cols t.rows (leaveCursor t m) = some (t'.buffer, cur')
      ∧ t'.cursor.col = cur'.1 ∧ t'.cursor.row = cur'.2
      ∧ t'.activeBufferType = .primary ∧ t'.cols = t.cols ∧ t'.rows = t.rows
      ∧ t'.scrollbackLimit = t.scrollbackLimit := by
  cases m <;> simp only [Spec.C16.isAltScreenMode, Bool.false_eq_true] at hm <;>
    simp only [Terminal.decrstOne] at h
  · split at h
    · simp at h
    · rename_i t1 h1
      obtain ⟨e1, e2, e3, _⟩ := switchToPrimary_alternate ha h1
      obtain ⟨hb, hcur, _, _, _, _⟩ := sc_buffer e3
      obtain ⟨hc1, hr1⟩ := geo_parts e2
      obtain ⟨cur', g1, g2, g3, _, g5, g6⟩ := terminal_reflow_buffer h
      obtain ⟨hc2, hr2⟩ := geo_parts (geo_reflow h)
      have hsl : t1.scrollbackLimit = t.scrollbackLimit := by
        have := e2; simp only [geo, Prod.mk.injEq] at this; exact this.2.2.2
      have hab : t1.activeBufferType = .primary := by
        have := congrArg (·.2.2) e1; exact this
      refine ⟨cur', ?_, g2, g3, g5.trans hab, hc2.trans hc1, hr2.trans hr1, g6.trans hsl⟩
      rw [hb, hc1, hr1, hcur] at g1
      simpa [leaveCursor] using g1
  · split at h
    · simp at h
    · rename_i t1 h1
      obtain ⟨e1, e2, e3, e4⟩ := switchToPrimary_alternate ha h1
      obtain ⟨hb, _, _, _, _, _⟩ := sc_buffer e3
      obtain ⟨hc1, hr1⟩ := geo_parts e2
      obtain ⟨cur', g1, g2, g3, _, g5, g6⟩ := terminal_reflow_buffer h
      obtain ⟨hc2, hr2⟩ := geo_parts (geo_reflow h)
      have hsl : t1.scrollbackLimit = t.scrollbackLimit := by
        have := e2; simp only [geo, Prod.mk.injEq] at this; exact this.2.2.2
      have hab : t1.activeBufferType = .primary := by
        have := congrArg (·.2.2) e1; exact this
      refine ⟨cur', ?_, g2, g3, ?_, ?_, ?_, ?_⟩
      · have g1' : t1.buffer.resize t1.cols t1.rows (t1.savedCtx.cursorCol, t1.savedCtx.cursorRow)
            = some (t'.buffer, cur') := g1
        rw [hb, hc1, hr1, e4] at g1'
        simpa [leaveCursor] using g1'
      · exact g5.trans hab
      · exact (hc2.trans (show t1.restoreCursor.cols = t1.cols from rfl)).trans hc1
      · exact (hr2.trans (show t1.restoreCursor.rows = t1.rows from rfl)).trans hr1
      · exact (g6.trans (show t1.restoreCursor.scrollbackLimit = t1.scrollbackLimit from rfl)).trans hsl

/-! ### `reflow` keeps the pen and the origin / auto-wrap modes -/

/-- the part of the cursor context `restore_cursor` sets besides the position -/
def pm (t : Terminal) : Pen × Bool × Bool := (t.pen, t.originMode, t.autoWrapMode)

theorem pm_markDirtyRange {t t' : Terminal} {a b} (h : t.markDirtyRange a b = some t') : pm t' = pm t := by
  unfold Terminal.markDirtyRange at h
  simp only [Option.map_eq_some_iff] at h
  obtain ⟨_, _, rfl⟩ := h; rfl

theorem pm_reflow {t t' : Terminal} (h : t.reflow = some t') : pm t' = pm t := by
  unfold Terminal.reflow at h
  dsimp only at h
  split at h
  · simp at h
  · rename_i b col row hr
    split at h
    · simp at h
    · rename_i t2 h2
      split at h
      · simp at h
      · rename_i t3 h3
        have e2 := pm_markDirtyRange h2
        have e3 : pm t3 = pm t2 := by
          split at h3
          · simp only [Option.map_eq_some_iff] at h3; obtain ⟨_, _, rfl⟩ := h3; rfl
          · simp only [Option.some.injEq] at h3; subst h3; rfl
        have e4 : pm t' = pm t3 := by
          split at h
          · simp only [Option.map_eq_some_iff] at h; obtain ⟨_, _, rfl⟩ := h; rfl
          · simp only [Option.some.injEq] at h; subst h; rfl
        refine e4.trans (e3.trans (e2.trans ?_))
        split <;> rfl

/-- `?1049l`: besides the cursor position (which goes through the deferred resize) the pen, origin
    mode and auto-wrap mode come back from the parked context, and no wrap is pending -/
theorem leave_1049_ctx {t t' : Terminal} (ha : t.activeBufferType = .alternate)
    (h : t.decrstOne .saveCursorAltScreenBuffer = some t') :
    t'.pen = t.alternateSavedCtx.pen ∧ t'.originMode = t.alternateSavedCtx.originMode
      ∧ t'.autoWrapMode = t.alternateSavedCtx.autoWrapMode ∧ t'.pendingWrap = false := by
  simp only [Terminal.decrstOne] at h
  split at h
  · simp at h
  · rename_i t1 h1
    obtain ⟨_, _, _, e4⟩ := switchToPrimary_alternate ha h1
    have e := pm_reflow h
    obtain ⟨_, _, _, _, g4, _, _⟩ := terminal_reflow_buffer h
    simp only [pm, Prod.mk.injEq] at e
    refine ⟨?_, ?_, ?_, ?_⟩
    · rw [e.1]; show t1.savedCtx.pen = _; rw [e4]
    · rw [e.2.1]; show t1.savedCtx.originMode = _; rw [e4]
    · rw [e.2.2]; show t1.savedCtx.autoWrapMode = _; rw [e4]
    · rw [g4]; split <;> rfl

/-! ### C10's relation for one `Buffer.resize` of any buffer satisfying the invariant -/

theorem binv_rows_facts {b : Buffer} (hb : BInv b = true) :
    b.view.length = b.rows ∧ 1 ≤ b.rows ∧ (∀ l ∈ b.lines, l.len = b.cols)
      ∧ lastUnwrapped b.lines = true := by
  obtain ⟨_, hbr, hvl, hvw, hsw, hvlu, _, _⟩ := (BInv_unpack b).mp hb
  refine ⟨hvl, hbr, ?_, ?_⟩
  · intro l hl
    simp only [Buffer.lines, List.mem_append] at hl
    rcases hl with hl | hl
    · exact widths_of_all hsw l hl
    · exact widths_of_all hvw l hl
  · have hne : b.view ≠ [] := by
      intro h0; rw [h0] at hvl; simp at hvl; omega
    unfold Buffer.lines
    rw [lastUnwrapped_append hne]; exact hvlu

/-- **C10 for `Buffer.resize` of any buffer** (active or parked), any new geometry ≥ 1×1, any cursor
    whose row is inside the buffer's screen (and, when the width is kept, whose column is inside it or
    wrap-pending): the whole relation `resizeRel` between the logical text and the cursor's place
    before and after -/
theorem buffer_resize_rel {b b' : Buffer} {c r : Nat} {cur cur' : Nat × Nat} (pending : Bool)
    (hb : BInv b = true) (hc : 1 ≤ c) (hr : 1 ≤ r) (hcur : cur.2 < b.rows)
    (hcol : c = b.cols → cur.1 ≤ b.cols ∧ (pending = false → cur.1 < b.cols))
    (h : b.resize c r cur = some (b', cur')) :
    Spec.C10.resizeRel (Spec.C10.logicalLines b.lines) (Spec.C10.logicalLines b'.lines)
      (Spec.C10.cursorLogical b cur).1 (Spec.C10.cursorLogical b cur).2
      (Spec.C10.cursorLogical b' cur').1 (Spec.C10.cursorLogical b' cur').2 pending = true := by
  obtain ⟨hvl, hrows, hlens, hlu⟩ := binv_rows_facts hb
  by_cases hsame : c = b.cols
  · subst hsame
    exact rows_only_rel pending hvl hlens hcur (hcol rfl).1 (hcol rfl).2 h
  · exact width_rel pending hvl hrows hlens hlu hcur hc hr hsame h

end Avt.C16
