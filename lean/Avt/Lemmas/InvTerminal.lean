/-
  Avt.Lemmas.InvTerminal — every helper and every control function of Avt/Model/Terminal.lean
  succeeds under the terminal invariant and preserves it.

  `TOK t` is the `Prop` form of `TInv t = true` (`TInv_iff`).  `Buffer.resize` is used only through its
  contract `ResizeOK` (Avt/Spec/ResizeOK.lean), taken as an explicit hypothesis where needed
  (`Terminal.reflow` and its callers).
-/
import Avt.Lemmas.InvBuffer
import Avt.Lemmas.InvTabs
import Avt.Spec.ResizeOK

namespace Avt

/-! ### the invariant in `Prop` form -/

/-- everything except the clause about the active saved context (which `Terminal.reflow`
    re-establishes by clamping at its very end) -/
structure TOKR (t : Terminal) : Prop where
  bcols : t.buffer.cols = t.cols
  brows : t.buffer.rows = t.rows
  bok : BOK t.buffer
  ook : BOK t.otherBuffer
  crow : t.cursor.row < t.rows
  ccol : (t.pendingWrap = true ∧ t.cursor.col = t.cols) ∨ (t.pendingWrap = false ∧ t.cursor.col < t.cols)
  marg : t.topMargin ≤ t.bottomMargin ∧ t.bottomMargin < t.rows
    ∧ (t.topMargin < t.bottomMargin ∨ (t.topMargin = 0 ∧ t.bottomMargin + 1 = t.rows))
  tabs : TabsOK t.tabs t.cols
  actx : t.activeBufferType = .primary ∨ (t.alternateSavedCtx.cursorCol < t.otherBuffer.cols
    ∧ t.alternateSavedCtx.cursorRow < t.otherBuffer.rows)
  dirty : t.dirtyLines.length = t.rows
  cs : t.activeCharset < 2
  lim : (t.activeBufferType = .primary ∧ t.buffer.limit = t.scrollbackLimit.map Buffer.mkLimit)
    ∨ (t.activeBufferType = .alternate ∧ t.buffer.limit = some (Buffer.mkLimit 0)
        ∧ t.otherBuffer.limit = t.scrollbackLimit.map Buffer.mkLimit)
  xt : t.xtwinops = false

/-- `TInv` as a proposition -/
structure TOK (t : Terminal) : Prop extends TOKR t where
  sctx : t.savedCtx.cursorCol < t.cols ∧ t.savedCtx.cursorRow < t.rows

theorem TInv_iff (t : Terminal) : TInv t = true ↔ TOK t := by
  constructor
  · intro h
    simp only [TInv, Bool.and_eq_true, decide_eq_true_eq, beq_iff_eq, Bool.or_eq_true,
      Bool.not_eq_true', BInv_iff, tabsOK_iff] at h
    obtain ⟨⟨⟨⟨⟨⟨⟨⟨⟨⟨⟨⟨⟨⟨⟨⟨h1, h2⟩, h3⟩, h4⟩, h5⟩, h6⟩, h7⟩, h8⟩, h9⟩, h10⟩, h11⟩, h12⟩, h13⟩, h14⟩,
      h15⟩, h16⟩, h17⟩ := h
    refine ⟨⟨h1, h2, h3, h4, h5, h6, ⟨h7, h8, h9⟩, h10, h13, h14, h15, ?_, h17⟩, ⟨h11, h12⟩⟩
    cases hab : t.activeBufferType <;> simp [hab] at h16
    · exact .inl ⟨rfl, h16⟩
    · exact .inr ⟨rfl, h16⟩
  · intro h
    simp only [TInv, Bool.and_eq_true, decide_eq_true_eq, beq_iff_eq, Bool.or_eq_true,
      Bool.not_eq_true', BInv_iff, tabsOK_iff]
    refine ⟨⟨⟨⟨⟨⟨⟨⟨⟨⟨⟨⟨⟨⟨⟨⟨h.bcols, h.brows⟩, h.bok⟩, h.ook⟩, h.crow⟩, h.ccol⟩, h.marg.1⟩, h.marg.2.1⟩,
      h.marg.2.2⟩, h.tabs⟩, h.sctx.1⟩, h.sctx.2⟩, h.actx⟩, h.dirty⟩, h.cs⟩, ?_⟩, h.xt⟩
    rcases h.lim with ⟨h1, h2⟩ | ⟨h1, h2, h3⟩
    · simp [h1, h2]
    · simp [h1, h2, h3]

theorem TOK.of_TInv {t : Terminal} (h : TInv t = true) : TOK t := (TInv_iff t).1 h
theorem TOK.TInv {t : Terminal} (h : TOK t) : TInv t = true := (TInv_iff t).2 h

namespace TOK
variable {t : Terminal}

theorem c1 (h : TOK t) : 1 ≤ t.cols := h.bcols ▸ h.bok.hc
theorem r1 (h : TOK t) : 1 ≤ t.rows := h.brows ▸ h.bok.hr
theorem ccol_le (h : TOK t) : t.cursor.col ≤ t.cols := by
  rcases h.ccol with ⟨_, h⟩ | ⟨_, h⟩ <;> omega
theorem brow (h : TOK t) : t.cursor.row < t.buffer.rows := h.brows ▸ h.crow
theorem bcol_le (h : TOK t) : t.cursor.col ≤ t.buffer.cols := h.bcols ▸ h.ccol_le

/-- replacing the active buffer by one with the same geometry and limit -/
theorem withBuffer (h : TOK t) {b : Buffer} (hb : BOK b) (fr : BFrame t.buffer b) :
    TOK { t with buffer := b } :=
  { h with bcols := fr.cols.trans h.bcols, brows := fr.rows.trans h.brows, bok := hb,
           lim := by
             rcases h.lim with ⟨h1, h2⟩ | ⟨h1, h2, h3⟩
             · exact .inl ⟨h1, fr.limit.trans h2⟩
             · exact .inr ⟨h1, fr.limit.trans h2, h3⟩ }

theorem withDirty (h : TOK t) {d : List Bool} (hd : d.length = t.rows) :
    TOK { t with dirtyLines := d } :=
  { h with dirty := hd }

theorem withBufferDirty (h : TOK t) {b : Buffer} {d : List Bool} (hb : BOK b)
    (fr : BFrame t.buffer b) (hd : d.length = t.rows) :
    TOK { t with buffer := b, dirtyLines := d } :=
  (h.withBuffer hb fr).withDirty hd

end TOK

/-! ### DirtyLines -/

namespace Dirty

theorem add_ok {d : List Bool} {n : Nat} (h : n < d.length) :
    ∃ d', Dirty.add d n = some d' ∧ d'.length = d.length :=
  ⟨d.set n true, setAt_eq_some _ h, by simp⟩

theorem extend_ok {d : List Bool} {a b : Nat} (hab : a ≤ b) (hb : b ≤ d.length) :
    ∃ d', Dirty.extend d a b = some d' ∧ d'.length = d.length := by
  cases hf : fillRange d a b true with
  | none => rw [fillRange_eq_some _ hab hb] at hf; cases hf
  | some d' => exact ⟨d', hf, fillRange_length hf⟩

theorem resize_length (d : List Bool) (len : Nat) : (Dirty.resize d len).length = len := by
  unfold Dirty.resize; split <;> simp <;> omega

theorem clear_length (d : List Bool) : (Dirty.clear d).length = d.length := by simp [Dirty.clear]

theorem new_length (n : Nat) : (Dirty.new n).length = n := by simp [Dirty.new]

theorem toVecGo_spec (d : List Bool) (i : Nat) :
    (toVecGo d i).Pairwise (· < ·) ∧ ∀ x ∈ toVecGo d i, i ≤ x ∧ x < i + d.length := by
  induction d generalizing i with
  | nil => simp [toVecGo]
  | cons b bs ih =>
    obtain ⟨h1, h2⟩ := ih (i + 1)
    simp only [toVecGo]
    split
    · refine ⟨List.pairwise_cons.2 ⟨fun x hx => ?_, h1⟩, fun x hx => ?_⟩
      · have := h2 x hx; omega
      · rcases List.mem_cons.1 hx with rfl | hx
        · simp
        · have := h2 x hx; simp; omega
    · refine ⟨h1, fun x hx => ?_⟩
      have := h2 x hx; simp; omega

theorem toVec_ok (d : List Bool) : changesOK d.length (toVec d) = true := by
  obtain ⟨h1, h2⟩ := toVecGo_spec d 0
  simp only [changesOK, Bool.and_eq_true, strictlyIncreasing_iff, List.all_eq_true,
    decide_eq_true_eq]
  exact ⟨h1, fun x hx => by have := h2 x hx; omega⟩

end Dirty

namespace Terminal

/-! ### small helpers -/

theorem markDirty_ok {t : Terminal} {row : Nat} (h : TOK t) (hr : row < t.rows) :
    ∃ d, t.markDirty row = some { t with dirtyLines := d } ∧ TOK { t with dirtyLines := d } := by
  obtain ⟨d, h1, h2⟩ := Dirty.add_ok (d := t.dirtyLines) (n := row) (by rw [h.dirty]; exact hr)
  exact ⟨d, by simp [markDirty, h1], h.withDirty (h2.trans h.dirty)⟩

theorem markDirtyRange_ok {t : Terminal} {a b : Nat} (h : TOK t) (hab : a ≤ b) (hb : b ≤ t.rows) :
    ∃ d, t.markDirtyRange a b = some { t with dirtyLines := d } ∧ TOK { t with dirtyLines := d } := by
  obtain ⟨d, h1, h2⟩ := Dirty.extend_ok (d := t.dirtyLines) hab (by rw [h.dirty]; exact hb)
  exact ⟨d, by simp [markDirtyRange, h1], h.withDirty (h2.trans h.dirty)⟩

/-- the shape all success statements take -/
def Pres (r : Option Terminal) : Prop := ∃ t', r = some t' ∧ TOK t'

theorem Pres.ret {t : Terminal} (h : TOK t) : Pres (Option.some t) := ⟨t, rfl, h⟩

theorem Pres.bind {r : Option Terminal} {g : Terminal → Option Terminal} (h : Pres r)
    (hg : ∀ t', TOK t' → Pres (g t')) :
    Pres (match (generalizing := false) r with | none => none | some t' => g t') := by
  obtain ⟨t', rfl, h'⟩ := h
  exact hg t' h'

theorem Pres.map {r : Option Terminal} {g : Terminal → Terminal} (h : Pres r)
    (hg : ∀ t', TOK t' → TOK (g t')) : Pres (r.map g) := by
  obtain ⟨t', rfl, h'⟩ := h
  exact ⟨g t', rfl, hg t' h'⟩

theorem Pres.of_csub_map {a b : Nat} {g : Nat → Terminal} (hab : b ≤ a) (hg : TOK (g (a - b))) :
    Pres ((csub a b).map g) := ⟨_, by rw [csub_eq_some hab]; rfl, hg⟩

theorem markDirty_pres {t : Terminal} {row : Nat} (h : TOK t) (hr : row < t.rows) :
    Pres (t.markDirty row) := by
  obtain ⟨d, h1, h2⟩ := markDirty_ok h hr; exact ⟨_, h1, h2⟩

theorem markDirtyRange_pres {t : Terminal} {a b : Nat} (h : TOK t) (hab : a ≤ b) (hb : b ≤ t.rows) :
    Pres (t.markDirtyRange a b) := by
  obtain ⟨d, h1, h2⟩ := markDirtyRange_ok h hab hb; exact ⟨_, h1, h2⟩

theorem doMoveCursorToCol_ok {t : Terminal} {col : Nat} (h : TOK t) (hc : col < t.cols) :
    TOK (t.doMoveCursorToCol col) :=
  { h with ccol := .inr ⟨rfl, hc⟩ }

theorem saveCursor_ok {t : Terminal} (h : TOK t) : Pres t.saveCursor := by
  have := h.c1
  refine Pres.of_csub_map h.c1 { h with sctx := ⟨?_, h.crow⟩ }
  show min t.cursor.col (t.cols - 1) < t.cols
  omega

theorem restoreCursor_ok {t : Terminal} (h : TOK t) : TOK t.restoreCursor :=
  { h with crow := h.sctx.2, ccol := .inr ⟨rfl, h.sctx.1⟩ }

theorem moveCursorToCol_ok {t : Terminal} (col : Nat) (h : TOK t) : Pres (t.moveCursorToCol col) := by
  have := h.c1
  unfold moveCursorToCol
  split
  · exact Pres.of_csub_map h.c1 (doMoveCursorToCol_ok h (by omega))
  · exact ⟨_, rfl, doMoveCursorToCol_ok h (by omega)⟩

theorem doMoveCursorToRow_ok {t : Terminal} {row : Nat} (h : TOK t) (hr : row < t.rows) :
    Pres (t.doMoveCursorToRow row) := by
  have := h.c1
  refine Pres.of_csub_map h.c1 { h with crow := hr, ccol := .inr ⟨rfl, ?_⟩ }
  show min t.cursor.col (t.cols - 1) < t.cols
  omega

theorem moveCursorToRow_ok {t : Terminal} (row : Nat) (h : TOK t) : Pres (t.moveCursorToRow row) := by
  have := h.r1
  have hm := h.marg
  unfold moveCursorToRow actualBottomMargin actualTopMargin
  split
  · exact doMoveCursorToRow_ok h (by omega)
  · simp only [csub_eq_some h.r1]
    exact doMoveCursorToRow_ok h (by omega)

theorem moveCursorToRelCol_ok {t : Terminal} (rel : Int) (h : TOK t) :
    Pres (t.moveCursorToRelCol rel) := by
  have := h.c1
  unfold moveCursorToRelCol
  simp only []
  split
  · exact ⟨_, rfl, doMoveCursorToCol_ok h (by omega)⟩
  · split
    · exact Pres.of_csub_map h.c1 (doMoveCursorToCol_ok h (by omega))
    · exact ⟨_, rfl, doMoveCursorToCol_ok h (by omega)⟩

theorem moveCursorHome_ok {t : Terminal} (h : TOK t) : Pres t.moveCursorHome := by
  have := h.r1
  have hm := h.marg
  unfold moveCursorHome
  refine doMoveCursorToRow_ok (doMoveCursorToCol_ok h h.c1) ?_
  show (t.doMoveCursorToCol 0).actualTopMargin < t.rows
  unfold actualTopMargin
  split
  · show t.topMargin < t.rows; omega
  · omega

theorem moveCursorToNextTab_ok {t : Terminal} {n : Nat} (h : TOK t) (hn : 1 ≤ n) :
    Pres (t.moveCursorToNextTab n) := by
  simp only [moveCursorToNextTab, Tabs.after, csub_eq_some hn, csub_eq_some h.c1, Option.map_some]
  exact moveCursorToCol_ok _ h

theorem moveCursorToPrevTab_ok {t : Terminal} {n : Nat} (h : TOK t) (hn : 1 ≤ n) :
    Pres (t.moveCursorToPrevTab n) := by
  simp only [moveCursorToPrevTab, Tabs.before, csub_eq_some hn, Option.map_some]
  exact moveCursorToCol_ok _ h

theorem cursorDown_ok {t : Terminal} (n : Nat) (h : TOK t) : Pres (t.cursorDown n) := by
  have := h.r1
  have hm := h.marg
  unfold cursorDown
  split
  · simp only [csub_eq_some h.r1]
    exact doMoveCursorToRow_ok h (by omega)
  · exact doMoveCursorToRow_ok h (by omega)

theorem cursorUp_ok {t : Terminal} (n : Nat) (h : TOK t) : Pres (t.cursorUp n) := by
  have := h.crow
  have hm := h.marg
  unfold cursorUp
  simp only []
  refine doMoveCursorToRow_ok h ?_
  split <;> omega

theorem setTab_ok {t : Terminal} (h : TOK t) : TOK t.setTab := by
  unfold setTab
  split
  · rename_i hc
    exact { h with tabs := Tabs.set_ok h.tabs hc.1 hc.2 }
  · exact h

theorem clearTab_ok {t : Terminal} (h : TOK t) : TOK t.clearTab :=
  { h with tabs := Tabs.unset_ok _ h.tabs }

theorem clearAllTabs_ok {t : Terminal} (h : TOK t) : TOK t.clearAllTabs :=
  { h with tabs := Tabs.nil_ok _ }

/-! ### scrolling in the region -/

/-- raw form (only `BOKW` of the buffer is needed; used by `print` right after it marked the last
    row wrapped) -/
theorem scrollUpInRegion_raw {t : Terminal} (n : Nat) (hb : BOKW t.buffer)
    (hr : t.buffer.rows = t.rows) (hm : t.topMargin ≤ t.bottomMargin ∧ t.bottomMargin < t.rows)
    (hd : t.dirtyLines.length = t.rows) :
    ∃ b d, t.scrollUpInRegion n = some { t with buffer := b, dirtyLines := d } ∧ BOKW b
      ∧ BFrame t.buffer b ∧ d.length = t.rows
      ∧ (LastU t.buffer.view ∨ (t.bottomMargin + 1 = t.rows ∧ 1 ≤ n) → LastU b.view) := by
  obtain ⟨b, h1, h2, h3, h4⟩ := Buffer.scrollUp_ok (b := t.buffer) (s := t.topMargin)
    (e := t.bottomMargin + 1) n t.pen hb (by omega) (by omega)
  obtain ⟨d, h5, h6⟩ := Dirty.extend_ok (d := t.dirtyLines) (a := t.topMargin)
    (b := t.bottomMargin + 1) (by omega) (by omega)
  refine ⟨b, d, by simp [scrollUpInRegion, h1, h5], h2, h3, h6.trans hd, ?_⟩
  rintro (hL | hL)
  · exact h4 (.inl hL)
  · exact h4 (.inr ⟨by omega, hL.2⟩)

theorem scrollUpInRegion_ok {t : Terminal} (n : Nat) (h : TOK t) : Pres (t.scrollUpInRegion n) := by
  obtain ⟨b, d, h1, h2, h3, h4, h5⟩ :=
    scrollUpInRegion_raw n h.bok.toBOKW h.brows ⟨h.marg.1, h.marg.2.1⟩ h.dirty
  exact ⟨_, h1, h.withBufferDirty ⟨h2, h5 (.inl h.bok.hlast)⟩ h3 h4⟩

theorem scrollDownInRegion_ok {t : Terminal} (n : Nat) (h : TOK t) :
    Pres (t.scrollDownInRegion n) := by
  have hm := h.marg
  have hr := h.brows
  obtain ⟨b, h1, h2, h3, h4⟩ := Buffer.scrollDown_ok (b := t.buffer) (s := t.topMargin)
    (e := t.bottomMargin + 1) n t.pen h.bok.toBOKW (by omega) (by omega)
  obtain ⟨d, h5, h6⟩ := Dirty.extend_ok (d := t.dirtyLines) (a := t.topMargin)
    (b := t.bottomMargin + 1) (by omega) (by have := h.dirty; omega)
  exact ⟨_, by simp [scrollDownInRegion, h1, h5],
    h.withBufferDirty ⟨h2, h4 h.bok.hlast⟩ h3 (h6.trans h.dirty)⟩

theorem moveCursorDownWithScroll_ok {t : Terminal} (h : TOK t) : Pres t.moveCursorDownWithScroll := by
  have := h.r1
  unfold moveCursorDownWithScroll
  split
  · exact scrollUpInRegion_ok 1 h
  · simp only [csub_eq_some h.r1]
    split
    · exact doMoveCursorToRow_ok h (by omega)
    · exact .ret h

/-! ### a buffer operation followed by a dirty mark -/

theorem keeps_markDirty {t : Terminal} {r : Option Buffer} {row : Nat} (h : TOK t)
    (hk : Buffer.Keeps t.buffer r) (hr : row < t.rows) :
    Pres (match (generalizing := false) r with
      | none => none
      | some b => ({ t with buffer := b } : Terminal).markDirty row) := by
  obtain ⟨b, rfl, h2, h3, h4⟩ := hk
  exact markDirty_pres (h.withBuffer ⟨h2, h4 h.bok.hlast⟩ h3) hr

theorem keeps_markDirtyRange {t : Terminal} {r : Option Buffer} {a c : Nat} (h : TOK t)
    (hk : Buffer.Keeps t.buffer r) (hac : a ≤ c) (hc : c ≤ t.rows) :
    Pres (match (generalizing := false) r with
      | none => none
      | some b => ({ t with buffer := b } : Terminal).markDirtyRange a c) := by
  obtain ⟨b, rfl, h2, h3, h4⟩ := hk
  exact markDirtyRange_pres (h.withBuffer ⟨h2, h4 h.bok.hlast⟩ h3) hac hc

theorem eraseWith_ok {t : Terminal} (mode : Buffer.EraseMode) (h : TOK t) :
    ∃ b, t.eraseWith mode = some { t with buffer := b } ∧ TOK { t with buffer := b } := by
  obtain ⟨b, h1, h2, h3, h4⟩ := Buffer.erase_ok mode t.pen h.bok.toBOKW h.brow h.bcol_le
  exact ⟨b, by simp [eraseWith, h1], h.withBuffer ⟨h2, h4 h.bok.hlast⟩ h3⟩

/-! ### control functions (everything except `print`, buffer switches and resize) -/

theorem bs_ok {t : Terminal} (h : TOK t) : Pres t.bs := by
  unfold bs; split <;> exact moveCursorToRelCol_ok _ h

theorem lf_ok {t : Terminal} (h : TOK t) : Pres t.lf :=
  (moveCursorDownWithScroll_ok h).map fun t' h' => by
    split
    · exact doMoveCursorToCol_ok h' h'.c1
    · exact h'

theorem nel_ok {t : Terminal} (h : TOK t) : Pres t.nel :=
  (moveCursorDownWithScroll_ok h).map fun _ h' => doMoveCursorToCol_ok h' h'.c1

theorem ri_ok {t : Terminal} (h : TOK t) : Pres t.ri := by
  have := h.crow
  unfold ri
  split
  · exact scrollDownInRegion_ok 1 h
  · split
    · exact doMoveCursorToRow_ok h (by omega)
    · exact .ret h

theorem ich_ok {t : Terminal} (n : Nat) (h : TOK t) : Pres (t.ich n) :=
  keeps_markDirty h (Buffer.insert_ok _ _ h.bok.toBOKW h.brow h.bcol_le) h.crow

theorem cub_ok {t : Terminal} (n : Nat) (h : TOK t) : Pres (t.cub n) :=
  moveCursorToRelCol_ok _ h

theorem cup_ok {t : Terminal} (row col : Nat) (h : TOK t) : Pres (t.cup row col) :=
  (moveCursorToCol_ok _ h).bind fun _ h' => moveCursorToRow_ok _ h'

theorem ed_ok {t : Terminal} (s : EdScope) (h : TOK t) : Pres (t.ed s) := by
  have := h.crow
  cases s with
  | below =>
    obtain ⟨b, h1, h2⟩ := eraseWith_ok .fromCursorToEndOfView h
    simp only [ed, h1]
    exact markDirtyRange_pres h2 (Nat.le_of_lt h.crow) (Nat.le_refl _)
  | above =>
    obtain ⟨b, h1, h2⟩ := eraseWith_ok .fromStartOfViewToCursor h
    simp only [ed, h1]
    exact markDirtyRange_pres h2 (Nat.zero_le _) h.crow
  | all =>
    obtain ⟨b, h1, h2⟩ := eraseWith_ok .wholeView h
    simp only [ed, h1]
    exact markDirtyRange_pres h2 (Nat.zero_le _) (Nat.le_refl _)
  | savedLines => exact .ret h

theorem el_ok {t : Terminal} (s : ElScope) (h : TOK t) : Pres (t.el s) := by
  cases s with
  | toRight =>
    obtain ⟨b, h1, h2⟩ := eraseWith_ok .fromCursorToEndOfLine h
    simp only [el, h1]
    exact markDirty_pres h2 h.crow
  | toLeft =>
    obtain ⟨b, h1, h2⟩ := eraseWith_ok .fromStartOfLineToCursor h
    simp only [el, h1]
    exact markDirty_pres h2 h.crow
  | all =>
    obtain ⟨b, h1, h2⟩ := eraseWith_ok .wholeLine h
    simp only [el, h1]
    exact markDirty_pres h2 h.crow

theorem ech_ok {t : Terminal} (n : Nat) (h : TOK t) : Pres (t.ech n) := by
  obtain ⟨b, h1, h2⟩ := eraseWith_ok (.nextChars (asUsize n 1)) h
  simp only [ech, h1]
  exact markDirty_pres h2 h.crow

theorem ilRange_ok {t : Terminal} (h : TOK t) : t.ilRange.1 < t.ilRange.2 ∧ t.ilRange.2 ≤ t.rows := by
  have := h.crow
  have := h.marg
  unfold ilRange
  split <;> simp <;> omega

theorem il_ok {t : Terminal} (n : Nat) (h : TOK t) : Pres (t.il n) := by
  obtain ⟨h1, h2⟩ := ilRange_ok h
  unfold il
  generalize t.ilRange = ab at h1 h2
  obtain ⟨a, b⟩ := ab
  exact keeps_markDirtyRange h
    (Buffer.scrollDown_ok _ _ h.bok.toBOKW h1 (by rw [h.brows]; exact h2)) (Nat.le_of_lt h1) h2

theorem dl_ok {t : Terminal} (n : Nat) (h : TOK t) : Pres (t.dl n) := by
  obtain ⟨h1, h2⟩ := ilRange_ok h
  unfold dl
  generalize t.ilRange = ab at h1 h2
  obtain ⟨a, b⟩ := ab
  obtain ⟨b', h3, h4, h5, h6⟩ :=
    Buffer.scrollUp_ok (asUsize n 1) t.pen h.bok.toBOKW h1 (by rw [h.brows]; exact h2)
  exact keeps_markDirtyRange h ⟨b', h3, h4, h5, fun hL => h6 (.inl hL)⟩ (Nat.le_of_lt h1) h2

theorem dch_ok {t : Terminal} (n : Nat) (h : TOK t) : Pres (t.dch n) := by
  unfold dch
  have h1 : Pres (if t.cursor.col ≥ t.cols then
      match csub t.cols 1 with
      | none => none
      | some c1 => t.moveCursorToCol c1
    else some t) := by
    split
    · simp only [csub_eq_some h.c1]; exact moveCursorToCol_ok _ h
    · exact .ret h
  exact h1.bind fun t' h' =>
    keeps_markDirty h' (Buffer.delete_ok _ _ h'.bok.toBOKW h'.brow h'.bcol_le) h'.crow

theorem ctc_ok {t : Terminal} (op : CtcOp) (h : TOK t) : TOK (t.ctc op) := by
  cases op
  · exact setTab_ok h
  · exact clearTab_ok h
  · exact clearAllTabs_ok h

theorem tbc_ok {t : Terminal} (s : TbcScope) (h : TOK t) : TOK (t.tbc s) := by
  cases s
  · exact clearTab_ok h
  · exact clearAllTabs_ok h

theorem sm_ok {t : Terminal} (ms : List AnsiMode) (h : TOK t) : TOK (t.sm ms) := by
  unfold sm
  induction ms generalizing t with
  | nil => exact h
  | cons m ms ih =>
    refine ih ?_
    cases m
    · exact { h with }
    · exact { h with }

theorem rm_ok {t : Terminal} (ms : List AnsiMode) (h : TOK t) : TOK (t.rm ms) := by
  unfold rm
  induction ms generalizing t with
  | nil => exact h
  | cons m ms ih =>
    refine ih ?_
    cases m
    · exact { h with }
    · exact { h with }

theorem sgr_ok {t : Terminal} (ops : List SgrOp) (h : TOK t) : TOK (t.sgr ops) := { h with }

theorem decstbm_ok {t : Terminal} (top bottom : Nat) (h : TOK t) : Pres (t.decstbm top bottom) := by
  have := h.r1
  unfold decstbm
  have hb : 1 ≤ asUsize bottom t.rows := by unfold asUsize; split <;> omega
  simp only [csub_eq_some hb]
  refine moveCursorHome_ok ?_
  split
  · rename_i hc
    exact { h with marg := ⟨Nat.le_of_lt hc.1, hc.2, .inl hc.1⟩ }
  · exact h

theorem softReset_ok {t : Terminal} (h : TOK t) : Pres t.softReset := by
  have := h.r1
  have := h.c1
  refine Pres.of_csub_map h.r1 { h with marg := ?_, sctx := ?_, cs := ?_ }
  · show 0 ≤ t.rows - 1 ∧ t.rows - 1 < t.rows ∧ (0 < t.rows - 1 ∨ (0 = 0 ∧ t.rows - 1 + 1 = t.rows))
    omega
  · show 0 < 2
    omega
  · show 0 < t.cols ∧ 0 < t.rows
    omega

theorem hardReset_ok {t : Terminal} (h : TOK t) : Pres t.hardReset := by
  have hr := h.r1
  have hc := h.c1
  refine Pres.of_csub_map h.r1
    { bcols := rfl, brows := rfl, bok := Buffer.new_ok _ _ hc hr, ook := Buffer.new_ok _ _ hc hr,
      crow := ?_, ccol := .inr ⟨rfl, ?_⟩, marg := ?_, tabs := Tabs.new_ok _, sctx := ?_,
      actx := .inl rfl, dirty := Dirty.new_length _, cs := ?_, lim := .inl ⟨rfl, rfl⟩, xt := h.xt }
  · show 0 < t.rows; omega
  · show 0 < t.cols; omega
  · show 0 ≤ t.rows - 1 ∧ t.rows - 1 < t.rows ∧ (0 < t.rows - 1 ∨ (0 = 0 ∧ t.rows - 1 + 1 = t.rows))
    omega
  · show 0 < 2
    omega
  · show 0 < t.cols ∧ 0 < t.rows
    omega

/-! ### DECALN -/

theorem decalnCols_ok {b : Buffer} {row : Nat} (hrow : row < b.rows) (j : Nat) :
    ∀ (b0 : Buffer) (col : Nat), BOK b0 → BFrame b b0 → col + j = b.cols →
      ∃ b', decalnCols b0 row col j = some b' ∧ BOK b' ∧ BFrame b b' := by
  induction j with
  | zero => intro b0 col h0 fr _; exact ⟨b0, rfl, h0, fr⟩
  | succ j ih =>
    intro b0 col h0 fr hc
    obtain ⟨b1, h1, h2, h3, h4⟩ := Buffer.print_ok (col := col) (row := row) ⟨0x45, Pen.default⟩
      h0.toBOKW (by rw [fr.rows]; exact hrow) (by rw [fr.cols]; omega)
    simp only [decalnCols, h1]
    exact ih b1 (col + 1) ⟨h2, h4 h0.hlast⟩ (fr.trans h3) (by omega)

theorem decalnRows_ok (k : Nat) : ∀ (t : Terminal) (row : Nat), TOK t → row + k = t.rows →
    Pres (decalnRows t row k) := by
  induction k with
  | zero => intro t row h _; exact .ret h
  | succ k ih =>
    intro t row h hk
    obtain ⟨b, h1, h2, h3⟩ := decalnCols_ok (b := t.buffer) (row := row) (by rw [h.brows]; omega)
      t.cols t.buffer 0 h.bok (.refl _) (by rw [h.bcols]; omega)
    simp only [decalnRows, h1]
    obtain ⟨d, h4, h5⟩ := markDirty_ok (row := row) (h.withBuffer h2 h3) (by show row < t.rows; omega)
    rw [h4]
    exact ih _ (row + 1) h5 (by show row + 1 + k = t.rows; omega)

theorem decaln_ok {t : Terminal} (h : TOK t) : Pres t.decaln :=
  decalnRows_ok t.rows t 0 h (by omega)

/-! ### print -/

theorem activeCharsetValue_ok {t : Terminal} (h : TOK t) : ∃ cs, t.activeCharsetValue = some cs := by
  have := h.cs
  unfold activeCharsetValue
  split
  · exact ⟨_, rfl⟩
  · exact ⟨_, rfl⟩
  · rename_i h0 h1
    have : t.activeCharset = 0 ∨ t.activeCharset = 1 := by omega
    rcases this with h' | h'
    · exact absurd h' h0
    · exact absurd h' h1

theorem _root_.Avt.Charset.translate_ok (cs : Charset) (ch : Nat) : ∃ ch', cs.translate ch = some ch' := by
  cases cs with
  | ascii => exact ⟨ch, rfl⟩
  | drawing =>
    unfold Charset.translate
    simp only []
    split
    · rename_i hr
      simp only [Gen.gfxLo, Gen.gfxHi] at hr
      have hb : Gen.gfxBase ≤ ch := by simp only [Gen.gfxBase]; omega
      simp only [csub_eq_some hb]
      have hl : ch - Gen.gfxBase < Gen.gfxChars.length := by
        have : Gen.gfxChars.length = 31 := by decide
        simp only [Gen.gfxBase]; omega
      exact ⟨_, List.getElem?_eq_getElem hl⟩
    · exact ⟨ch, rfl⟩

/-- pending wrap with the cursor on the bottom margin: mark the row, scroll the region, and (when the
    region ends above the last row) re-mark the row that moved up -/
def wrapAtBottom (t : Terminal) : Option Terminal :=
  match t.buffer.wrap t.cursor.row with
  | none => none
  | some b =>
    match ({ t with buffer := b } : Terminal).scrollUpInRegion 1 with
    | none => none
    | some t =>
      match csub t.rows 1 with
      | none => none
      | some r1 =>
        if t.bottomMargin < r1 then
          match csub t.bottomMargin 1 with
          | none => none
          | some bm1 => (t.buffer.wrap bm1).map fun b => { t with buffer := b }
        else some t

/-- pending wrap with the cursor elsewhere: mark the row and move down (unless on the last row) -/
def wrapElsewhere (t : Terminal) : Option Terminal :=
  match csub t.rows 1 with
  | none => none
  | some r1 =>
    if t.cursor.row < r1 then
      match t.buffer.wrap t.cursor.row with
      | none => none
      | some b => ({ t with buffer := b } : Terminal).doMoveCursorToRow (t.cursor.row + 1)
    else some t

/-- first half of `Terminal.print`: resolve a pending wrap -/
def printWrapPhase (t : Terminal) : Option Terminal :=
  if t.autoWrapMode && t.pendingWrap then
    let t := t.doMoveCursorToCol 0
    if t.cursor.row = t.bottomMargin then t.wrapAtBottom else t.wrapElsewhere
  else some t

/-- second half of `Terminal.print`: write the cell and advance -/
def printCellPhase (t : Terminal) (cell : Cell) : Option Terminal :=
  let nextCol := t.cursor.col + 1
  if nextCol ≥ t.cols then
    match csub t.cols 1 with
    | none => none
    | some c1 =>
      match t.buffer.print c1 t.cursor.row cell with
      | none => none
      | some b =>
        let t := { t with buffer := b }
        if t.autoWrapMode then some { t.doMoveCursorToCol t.cols with pendingWrap := true }
        else some t
  else
    let b := if t.insertMode then t.buffer.insert t.cursor.col t.cursor.row 1 cell
             else t.buffer.print t.cursor.col t.cursor.row cell
    match b with
    | none => none
    | some b => some (({ t with buffer := b } : Terminal).doMoveCursorToCol nextCol)

theorem print_eq (t : Terminal) (ch : Nat) :
    t.print ch =
      match t.activeCharsetValue with
      | none => none
      | some cs =>
        match cs.translate ch with
        | none => none
        | some ch' =>
          match t.printWrapPhase with
          | none => none
          | some t1 =>
            match t1.printCellPhase ⟨ch', t.pen⟩ with
            | none => none
            | some t2 => t2.markDirty t2.cursor.row := rfl

theorem wrapAtBottom_ok {t : Terminal} (h : TOK t) (hrow : t.cursor.row = t.bottomMargin) :
    Pres t.wrapAtBottom := by
  have hr1 := h.r1
  have hm := h.marg
  have hbr := h.brows
  unfold wrapAtBottom
  obtain ⟨b, hb1, hb2, hb3, hb4⟩ := Buffer.wrap_ok (b := t.buffer) (row := t.cursor.row)
    h.bok.toBOKW h.brow
  rw [hb1]
  simp only []
  obtain ⟨b2, d, hs1, hs2, hs3, hs4, hs5⟩ :=
    scrollUpInRegion_raw (t := { t with buffer := b }) 1 hb2
      (hb3.rows.trans h.brows) ⟨hm.1, hm.2.1⟩ h.dirty
  rw [hs1]
  have hL2 : LastU b2.view := by
    refine hs5 ?_
    by_cases hlast : t.bottomMargin + 1 = t.rows
    · exact .inr ⟨hlast, Nat.le_refl _⟩
    · exact .inl (hb4 (by omega) h.bok.hlast)
  have h2 : TOK { t with buffer := b2, dirtyLines := d } :=
    h.withBufferDirty ⟨hs2, hL2⟩ (hb3.trans hs3) hs4
  simp only [csub_eq_some hr1]
  split
  · rename_i hbm
    rw [csub_eq_some (show 1 ≤ t.bottomMargin by omega)]
    simp only []
    have hrows2 : b2.rows = t.rows := by have := hs3.rows; have := hb3.rows; simp only [] at *; omega
    obtain ⟨b3, hw1, hw2, hw3, hw4⟩ := Buffer.wrap_ok (b := b2) (row := t.bottomMargin - 1) hs2
      (by omega)
    rw [hw1]
    exact ⟨_, rfl, h2.withBuffer ⟨hw2, hw4 (by omega) hL2⟩ hw3⟩
  · exact ⟨_, rfl, h2⟩

theorem wrapElsewhere_ok {t : Terminal} (h : TOK t) : Pres t.wrapElsewhere := by
  have hr1 := h.r1
  have hbr := h.brows
  unfold wrapElsewhere
  simp only [csub_eq_some hr1]
  split
  · rename_i hlt
    obtain ⟨b, hb1, hb2, hb3, hb4⟩ := Buffer.wrap_ok (b := t.buffer) (row := t.cursor.row)
      h.bok.toBOKW h.brow
    rw [hb1]
    simp only []
    refine doMoveCursorToRow_ok (h.withBuffer ⟨hb2, hb4 (by omega) h.bok.hlast⟩ hb3) ?_
    show t.cursor.row + 1 < t.rows
    omega
  · exact .ret h

theorem printWrapPhase_ok {t : Terminal} (h : TOK t) : Pres t.printWrapPhase := by
  unfold printWrapPhase
  split
  · have h0 : TOK (t.doMoveCursorToCol 0) := doMoveCursorToCol_ok h h.c1
    simp only []
    split
    · rename_i hrow; exact wrapAtBottom_ok h0 hrow
    · exact wrapElsewhere_ok h0
  · exact .ret h

theorem printCellPhase_ok {t : Terminal} (cell : Cell) (h : TOK t) : Pres (t.printCellPhase cell) := by
  have hc1 := h.c1
  have hcc := h.ccol
  unfold printCellPhase
  simp only []
  split
  · rename_i hge
    simp only [csub_eq_some hc1]
    obtain ⟨b, h1, h2, h3, h4⟩ := Buffer.print_ok (col := t.cols - 1) (row := t.cursor.row) cell
      h.bok.toBOKW h.brow (by rw [h.bcols]; omega)
    rw [h1]
    simp only []
    have hb := h.withBuffer ⟨h2, h4 h.bok.hlast⟩ h3
    split
    · exact ⟨_, rfl, { hb with ccol := .inl ⟨rfl, rfl⟩ }⟩
    · exact ⟨_, rfl, hb⟩
  · rename_i hlt
    have hk : Buffer.Keeps t.buffer (if t.insertMode then t.buffer.insert t.cursor.col t.cursor.row 1 cell
        else t.buffer.print t.cursor.col t.cursor.row cell) := by
      split
      · exact Buffer.insert_ok _ _ h.bok.toBOKW h.brow h.bcol_le
      · exact Buffer.print_ok _ h.bok.toBOKW h.brow (by rw [h.bcols]; omega)
    obtain ⟨b, h1, h2, h3, h4⟩ := hk
    rw [h1]
    exact ⟨_, rfl, doMoveCursorToCol_ok (h.withBuffer ⟨h2, h4 h.bok.hlast⟩ h3) (by show t.cursor.col + 1 < t.cols; omega)⟩

theorem print_ok {t : Terminal} (ch : Nat) (h : TOK t) : Pres (t.print ch) := by
  rw [print_eq]
  obtain ⟨cs, h1⟩ := activeCharsetValue_ok h
  obtain ⟨ch', h2⟩ := cs.translate_ok ch
  simp only [h1, h2]
  exact (printWrapPhase_ok h).bind fun t1 ht1 =>
    (printCellPhase_ok _ ht1).bind fun t2 ht2 => markDirty_pres ht2 ht2.crow

theorem printN_ok (ch : Nat) (k : Nat) : ∀ {t : Terminal}, TOK t → Pres (t.printN ch k) := by
  induction k with
  | zero => intro t h; exact .ret h
  | succ k ih =>
    intro t h
    obtain ⟨t', h1, h2⟩ := print_ok ch h
    simp only [printN, h1]
    exact ih h2

theorem rep_ok {t : Terminal} (n : Nat) (h : TOK t) : Pres (t.rep n) := by
  unfold rep
  split
  · rename_i hpos
    have hlt : t.cursor.row < t.buffer.view.length := by rw [h.bok.hv]; exact h.brow
    rw [List.getElem?_eq_getElem hlt]
    simp only []
    have hw := h.bok.hvw _ (List.getElem_mem hlt)
    have hlt2 : t.cursor.col - 1 < (t.buffer.view[t.cursor.row]).cells.length := by
      rw [hw]; have := h.bcol_le; omega
    rw [List.getElem?_eq_getElem hlt2]
    exact printN_ok _ _ h
  · exact .ret h

/-! ### reflow, buffer switches, resize -/

/-- what `Terminal.reflow` needs: the terminal invariant with the active buffer still at its old
    geometry (stale primary after a switch, or any buffer right after `cols`/`rows` were assigned) -/
structure PreReflow (t : Terminal) : Prop where
  c1 : 1 ≤ t.cols
  r1 : 1 ≤ t.rows
  bok : BOK t.buffer
  ook : BOK t.otherBuffer
  crow : t.cursor.row < t.buffer.rows ∨ t.cursor.row < t.rows
  ccol : t.cols = t.buffer.cols →
    ((t.pendingWrap = true ∧ t.cursor.col = t.cols) ∨ (t.pendingWrap = false ∧ t.cursor.col < t.cols))
  marg : t.topMargin ≤ t.bottomMargin ∧ t.bottomMargin < t.rows
    ∧ (t.topMargin < t.bottomMargin ∨ (t.topMargin = 0 ∧ t.bottomMargin + 1 = t.rows))
  tabs : TabsOK t.tabs t.cols
  actx : t.activeBufferType = .primary ∨ (t.alternateSavedCtx.cursorCol < t.otherBuffer.cols
    ∧ t.alternateSavedCtx.cursorRow < t.otherBuffer.rows)
  cs : t.activeCharset < 2
  lim : (t.activeBufferType = .primary ∧ t.buffer.limit = t.scrollbackLimit.map Buffer.mkLimit)
    ∨ (t.activeBufferType = .alternate ∧ t.buffer.limit = some (Buffer.mkLimit 0)
        ∧ t.otherBuffer.limit = t.scrollbackLimit.map Buffer.mkLimit)
  xt : t.xtwinops = false

theorem _root_.Avt.TOK.pre {t : Terminal} (h : TOK t) : PreReflow t :=
  { c1 := h.c1, r1 := h.r1, bok := h.bok, ook := h.ook, crow := .inr h.crow, ccol := fun _ => h.ccol,
    marg := h.marg, tabs := h.tabs, actx := h.actx, cs := h.cs, lim := h.lim, xt := h.xt }

/-- `Terminal.reflow`: clamp the saved cursor column -/
def clampSavedCol (t : Terminal) : Option Terminal :=
  if t.savedCtx.cursorCol ≥ t.cols
  then (csub t.cols 1).map fun c1 => { t with savedCtx := { t.savedCtx with cursorCol := c1 } }
  else some t

/-- `Terminal.reflow`: clamp the saved cursor row -/
def clampSavedRow (t : Terminal) : Option Terminal :=
  if t.savedCtx.cursorRow ≥ t.rows
  then (csub t.rows 1).map fun r1 => { t with savedCtx := { t.savedCtx with cursorRow := r1 } }
  else some t

/-- the part of `Terminal.reflow` after `Buffer.resize` -/
def reflowTail (t : Terminal) : Option Terminal :=
  match t.markDirtyRange 0 t.rows with
  | none => none
  | some t =>
    match t.clampSavedCol with
    | none => none
    | some t => t.clampSavedRow

theorem reflow_eq (t : Terminal) :
    t.reflow =
      match (if t.cols ≠ t.buffer.cols then { t with pendingWrap := false } else t) with
      | t =>
        match t.buffer.resize t.cols t.rows (t.cursor.col, t.cursor.row) with
        | none => none
        | some (b, (col, row)) =>
          reflowTail { t with buffer := b, cursor := { t.cursor with col := col, row := row },
                              dirtyLines := Dirty.resize t.dirtyLines t.rows } := rfl

theorem clampSavedCol_ok {t : Terminal} (h : TOKR t) :
    ∃ t', t.clampSavedCol = some t' ∧ TOKR t' ∧ t'.savedCtx.cursorCol < t'.cols := by
  have hc : 1 ≤ t.cols := h.bcols ▸ h.bok.hc
  unfold clampSavedCol
  split
  · rw [csub_eq_some hc]
    exact ⟨_, rfl, { h with }, by show t.cols - 1 < t.cols; omega⟩
  · exact ⟨t, rfl, h, by omega⟩

theorem clampSavedRow_ok {t : Terminal} (h : TOKR t) (hc : t.savedCtx.cursorCol < t.cols) :
    Pres t.clampSavedRow := by
  have hr : 1 ≤ t.rows := h.brows ▸ h.bok.hr
  unfold clampSavedRow
  split
  · rw [csub_eq_some hr]
    exact ⟨_, rfl, { toTOKR := { h with }, sctx := ⟨hc, by show t.rows - 1 < t.rows; omega⟩ }⟩
  · exact ⟨t, rfl, { toTOKR := h, sctx := ⟨hc, by omega⟩ }⟩

theorem reflowTail_ok {t : Terminal} (h : TOKR t) : Pres t.reflowTail := by
  unfold reflowTail
  obtain ⟨d, hd1, hd2⟩ := Dirty.extend_ok (d := t.dirtyLines) (a := 0) (b := t.rows) (Nat.zero_le _)
    (by rw [h.dirty]; exact Nat.le_refl _)
  have hd1' : t.markDirtyRange 0 t.rows = some { t with dirtyLines := d } := by
    simp [markDirtyRange, hd1]
  rw [hd1']
  have h3 : TOKR { t with dirtyLines := d } := { h with dirty := hd2.trans h.dirty }
  obtain ⟨t4, h4e, h4, h4c⟩ := clampSavedCol_ok h3
  simp only [h4e]
  exact clampSavedRow_ok h4 h4c

theorem reflow_ok (hR : ResizeOK) {t : Terminal} (h : PreReflow t) : Pres t.reflow := by
  obtain ⟨b', ⟨col', row'⟩, hres, hb', hc', hr', hl', hrow', hcol'⟩ :=
    hR t.buffer t.cols t.rows (t.cursor.col, t.cursor.row) h.bok.BInv h.c1 h.r1 h.crow
  simp only [] at hrow' hcol'
  rw [reflow_eq]
  split
  · rename_i hne
    simp only []
    rw [hres]
    simp only []
    rw [if_neg hne] at hcol'
    exact reflowTail_ok
      { bcols := hc', brows := hr', bok := .of_BInv hb', ook := h.ook, crow := hrow',
        ccol := .inr ⟨rfl, hcol'⟩, marg := h.marg, tabs := h.tabs, actx := h.actx,
        dirty := Dirty.resize_length _ _, cs := h.cs, xt := h.xt,
        lim := by
          rcases h.lim with ⟨h1, h2⟩ | ⟨h1, h2, h3⟩
          · exact .inl ⟨h1, hl'.trans h2⟩
          · exact .inr ⟨h1, hl'.trans h2, h3⟩ }
  · rename_i heq
    have heq : t.cols = t.buffer.cols := Decidable.not_not.1 heq
    simp only []
    rw [hres]
    simp only []
    rw [if_pos heq] at hcol'
    exact reflowTail_ok
      { bcols := hc', brows := hr', bok := .of_BInv hb', ook := h.ook, crow := hrow',
        ccol := by
          show (t.pendingWrap = true ∧ col' = t.cols) ∨ (t.pendingWrap = false ∧ col' < t.cols)
          rw [hcol']; exact h.ccol heq
        marg := h.marg, tabs := h.tabs, actx := h.actx,
        dirty := Dirty.resize_length _ _, cs := h.cs, xt := h.xt,
        lim := by
          rcases h.lim with ⟨h1, h2⟩ | ⟨h1, h2, h3⟩
          · exact .inl ⟨h1, hl'.trans h2⟩
          · exact .inr ⟨h1, hl'.trans h2, h3⟩ }

theorem switchToAlternateBuffer_ok {t : Terminal} (h : TOK t) :
    ∃ t', t.switchToAlternateBuffer = some t' ∧ PreReflow t' := by
  unfold switchToAlternateBuffer
  split
  · rename_i hp
    obtain ⟨d, hd1, hd2⟩ := Dirty.extend_ok (d := t.dirtyLines) (a := 0) (b := t.rows) (Nat.zero_le _)
      (by rw [h.dirty]; exact Nat.le_refl _)
    simp only [markDirtyRange, hd1, Option.map_some]
    refine ⟨_, rfl, ?_⟩
    exact
      { c1 := h.c1, r1 := h.r1, bok := Buffer.new_ok _ _ h.c1 h.r1, ook := h.bok,
        crow := .inr h.crow, ccol := fun _ => h.ccol, marg := h.marg, tabs := h.tabs,
        actx := .inr ⟨by show t.savedCtx.cursorCol < t.buffer.cols; rw [h.bcols]; exact h.sctx.1,
                      by show t.savedCtx.cursorRow < t.buffer.rows; rw [h.brows]; exact h.sctx.2⟩,
        cs := h.cs, xt := h.xt,
        lim := by
          rcases h.lim with ⟨h1, h2⟩ | ⟨h1, h2, h3⟩
          · exact .inr ⟨rfl, rfl, h2⟩
          · rw [hp] at h1; cases h1 }
  · exact ⟨t, rfl, h.pre⟩

theorem switchToPrimaryBuffer_ok {t : Terminal} (h : TOK t) :
    ∃ t', t.switchToPrimaryBuffer = some t' ∧ PreReflow t'
      ∧ t'.savedCtx.cursorCol < t'.buffer.cols ∧ t'.savedCtx.cursorRow < t'.buffer.rows := by
  unfold switchToPrimaryBuffer
  split
  · rename_i hp
    obtain ⟨d, hd1, hd2⟩ := Dirty.extend_ok (d := t.dirtyLines) (a := 0) (b := t.rows) (Nat.zero_le _)
      (by rw [h.dirty]; exact Nat.le_refl _)
    have hact : t.alternateSavedCtx.cursorCol < t.otherBuffer.cols
        ∧ t.alternateSavedCtx.cursorRow < t.otherBuffer.rows := by
      rcases h.actx with h1 | h1
      · rw [hp] at h1; cases h1
      · exact h1
    simp only [markDirtyRange, hd1, Option.map_some]
    refine ⟨_, rfl, ?_, hact.1, hact.2⟩
    exact
      { c1 := h.c1, r1 := h.r1, bok := h.ook, ook := h.bok,
        crow := .inr h.crow, ccol := fun _ => h.ccol, marg := h.marg, tabs := h.tabs,
        actx := .inl rfl, cs := h.cs, xt := h.xt,
        lim := by
          rcases h.lim with ⟨h1, h2⟩ | ⟨h1, h2, h3⟩
          · rw [hp] at h1; cases h1
          · exact .inl ⟨rfl, h3⟩ }
  · exact ⟨t, rfl, h.pre, by rw [h.bcols]; exact h.sctx.1, by rw [h.brows]; exact h.sctx.2⟩

theorem PreReflow.restoreCursor {t : Terminal} (h : PreReflow t)
    (hc : t.savedCtx.cursorCol < t.buffer.cols) (hr : t.savedCtx.cursorRow < t.buffer.rows) :
    PreReflow t.restoreCursor :=
  { h with crow := .inl hr,
           ccol := fun heq => by
             have heq : t.cols = t.buffer.cols := heq
             exact .inr ⟨rfl, by show t.savedCtx.cursorCol < t.cols; rw [heq]; exact hc⟩ }

/-- the state `Terminal.resize` hands to `reflow` -/
theorem pre_resize {t : Terminal} (h : TOK t) {cols rows : Nat} (hc : 1 ≤ cols) (hr : 1 ≤ rows)
    {tb : List Nat} {tm bm : Nat} (htb : TabsOK tb cols)
    (hm : tm ≤ bm ∧ bm < rows ∧ (tm < bm ∨ (tm = 0 ∧ bm + 1 = rows))) :
    PreReflow { t with tabs := tb, topMargin := tm, bottomMargin := bm, cols := cols, rows := rows } :=
  { c1 := hc, r1 := hr, bok := h.bok, ook := h.ook, crow := .inl h.brow,
    ccol := fun heq => by
      have heq : cols = t.buffer.cols := heq
      show (t.pendingWrap = true ∧ t.cursor.col = cols) ∨ (t.pendingWrap = false ∧ t.cursor.col < cols)
      rw [heq, h.bcols]; exact h.ccol
    marg := hm, tabs := htb, actx := h.actx, cs := h.cs, lim := h.lim, xt := h.xt }

/-- the tab stops after a width change -/
def resizeTabs (t : Terminal) (cols : Nat) : List Nat :=
  if cols < t.cols then Tabs.contract t.tabs cols
  else if cols > t.cols then Tabs.expand t.tabs t.cols cols else t.tabs

theorem resize_eq (t : Terminal) (cols rows : Nat) :
    t.resize cols rows =
      if rows ≠ t.rows then
        match csub rows 1 with
        | none => none
        | some r1 =>
          ({ t with tabs := t.resizeTabs cols, topMargin := 0, bottomMargin := r1, cols := cols,
                    rows := rows } : Terminal).reflow
      else ({ t with tabs := t.resizeTabs cols, cols := cols, rows := rows } : Terminal).reflow := by
  unfold resize resizeTabs
  by_cases h1 : cols < t.cols <;> by_cases h2 : cols > t.cols <;> by_cases h3 : rows = t.rows <;>
    simp only [h1, h2, h3, if_true, if_false, ne_eq, not_true_eq_false, not_false_eq_true] <;>
    (try cases csub rows 1 <;> rfl)

theorem resizeTabs_ok {t : Terminal} (h : TOK t) (cols : Nat) : TabsOK (t.resizeTabs cols) cols := by
  unfold resizeTabs
  split
  · exact Tabs.contract_ok h.tabs
  · split
    · rename_i hgt; exact Tabs.expand_ok h.tabs h.c1 hgt
    · have hce : cols = t.cols := by omega
      exact hce ▸ h.tabs

theorem resize_ok (hR : ResizeOK) {t : Terminal} {cols rows : Nat} (h : TOK t) (hc : 1 ≤ cols)
    (hr : 1 ≤ rows) : Pres (t.resize cols rows) := by
  have hm0 : (0 : Nat) ≤ rows - 1 ∧ rows - 1 < rows ∧ (0 < rows - 1 ∨ ((0 : Nat) = 0 ∧ rows - 1 + 1 = rows)) := by
    omega
  rw [resize_eq]
  split
  · simp only [csub_eq_some hr]
    exact reflow_ok hR (pre_resize h hc hr (resizeTabs_ok h cols) hm0)
  · rename_i heq
    have heq : rows = t.rows := Decidable.not_not.1 heq
    exact reflow_ok hR (pre_resize h hc hr (resizeTabs_ok h cols) (heq ▸ h.marg))

theorem xtwinopsF_ok {t : Terminal} (cols rows : Nat) (h : TOK t) : Pres (t.xtwinopsF cols rows) := by
  unfold xtwinopsF
  rw [h.xt]
  exact .ret h

/-! ### DECSET / DECRST -/

theorem decsetOne_ok (hR : ResizeOK) {t : Terminal} (m : DecMode) (h : TOK t) :
    Pres (t.decsetOne m) := by
  cases m with
  | cursorKeys => exact ⟨_, rfl, { h with }⟩
  | origin => exact moveCursorHome_ok (t := { t with originMode := true }) { h with }
  | autoWrap => exact ⟨_, rfl, { h with }⟩
  | textCursorEnable => exact ⟨_, rfl, { h with }⟩
  | altScreenBuffer =>
    obtain ⟨t', h1, h2⟩ := switchToAlternateBuffer_ok h
    simp only [decsetOne, h1]
    exact reflow_ok hR h2
  | saveCursor => exact saveCursor_ok h
  | saveCursorAltScreenBuffer =>
    obtain ⟨t1, h0, h0'⟩ := saveCursor_ok h
    obtain ⟨t', h1, h2⟩ := switchToAlternateBuffer_ok h0'
    simp only [decsetOne, h0, h1]
    exact reflow_ok hR h2

theorem decrstOne_ok (hR : ResizeOK) {t : Terminal} (m : DecMode) (h : TOK t) :
    Pres (t.decrstOne m) := by
  cases m with
  | cursorKeys => exact ⟨_, rfl, { h with }⟩
  | origin => exact moveCursorHome_ok (t := { t with originMode := false }) { h with }
  | autoWrap => exact ⟨_, rfl, { h with }⟩
  | textCursorEnable => exact ⟨_, rfl, { h with }⟩
  | altScreenBuffer =>
    obtain ⟨t', h1, h2, _, _⟩ := switchToPrimaryBuffer_ok h
    simp only [decrstOne, h1]
    exact reflow_ok hR h2
  | saveCursor => exact ⟨_, rfl, restoreCursor_ok h⟩
  | saveCursorAltScreenBuffer =>
    obtain ⟨t', h1, h2, h3, h4⟩ := switchToPrimaryBuffer_ok h
    simp only [decrstOne, h1]
    exact reflow_ok hR (h2.restoreCursor h3 h4)

theorem foldM'_ok {α} {f : Terminal → α → Option Terminal}
    (hf : ∀ t a, TOK t → Pres (f t a)) (as : List α) : ∀ {t : Terminal}, TOK t → Pres (foldM' f as t) := by
  induction as with
  | nil => intro t h; exact .ret h
  | cons a as ih =>
    intro t h
    obtain ⟨t', h1, h2⟩ := hf t a h
    simp only [foldM', h1]
    exact ih h2

/-! ### execute -/

/-- every control function succeeds under the invariant and preserves it -/
theorem execute_ok (hR : ResizeOK) {t : Terminal} (f : Function) (h : TOK t) : Pres (t.execute f) := by
  have one : ∀ n, 1 ≤ asUsize n 1 := fun n => by unfold asUsize; split <;> omega
  cases f with
  | bs => exact bs_ok h
  | cbt n => exact moveCursorToPrevTab_ok h (one n)
  | cha n => exact moveCursorToCol_ok _ h
  | cht n => exact moveCursorToNextTab_ok h (one n)
  | cnl n => exact (cursorDown_ok _ h).map fun _ h' => doMoveCursorToCol_ok h' h'.c1
  | cpl n => exact (cursorUp_ok _ h).map fun _ h' => doMoveCursorToCol_ok h' h'.c1
  | cr => exact ⟨_, rfl, doMoveCursorToCol_ok h h.c1⟩
  | ctc op => exact ⟨_, rfl, ctc_ok op h⟩
  | cub n => exact cub_ok n h
  | cud n => exact cursorDown_ok _ h
  | cuf n => exact moveCursorToRelCol_ok ((asUsize n 1 : Nat) : Int) h
  | cup r c => exact cup_ok r c h
  | cuu n => exact cursorUp_ok _ h
  | dch n => exact dch_ok n h
  | decaln => exact decaln_ok h
  | decrc => exact ⟨_, rfl, restoreCursor_ok h⟩
  | decrst ms => exact foldM'_ok (fun _ m h' => decrstOne_ok hR m h') ms h
  | decsc => exact saveCursor_ok h
  | decset ms => exact foldM'_ok (fun _ m h' => decsetOne_ok hR m h') ms h
  | decstbm a b => exact decstbm_ok a b h
  | decstr => exact softReset_ok h
  | dl n => exact dl_ok n h
  | ech n => exact ech_ok n h
  | ed s => exact ed_ok s h
  | el s => exact el_ok s h
  | g1d4 c => exact ⟨_, rfl, { h with }⟩
  | gzd4 c => exact ⟨_, rfl, { h with }⟩
  | ht => exact moveCursorToNextTab_ok h (Nat.le_refl 1)
  | hts => exact ⟨_, rfl, setTab_ok h⟩
  | ich n => exact ich_ok n h
  | il n => exact il_ok n h
  | lf => exact lf_ok h
  | nel => exact nel_ok h
  | print ch => exact print_ok ch h
  | rep n => exact rep_ok n h
  | ri => exact ri_ok h
  | ris => exact hardReset_ok h
  | rm ms => exact ⟨_, rfl, rm_ok ms h⟩
  | scorc => exact ⟨_, rfl, restoreCursor_ok h⟩
  | scosc => exact saveCursor_ok h
  | sd n => exact scrollDownInRegion_ok _ h
  | sgr ops => exact ⟨_, rfl, sgr_ok ops h⟩
  | si => exact ⟨_, rfl, { h with cs := by show 0 < 2; omega }⟩
  | sm ms => exact ⟨_, rfl, sm_ok ms h⟩
  | so => exact ⟨_, rfl, { h with cs := by show 1 < 2; omega }⟩
  | su n => exact scrollUpInRegion_ok _ h
  | tbc s => exact ⟨_, rfl, tbc_ok s h⟩
  | vpa n => exact moveCursorToRow_ok _ h
  | vpr n => exact cursorDown_ok _ h
  | xtwinops c r => exact xtwinopsF_ok c r h

/-! ### gc, changes, new -/

theorem gc_ok {t : Terminal} (h : TOK t) : TOK t.gc.1 := by
  obtain ⟨h1, h2, _, _, _⟩ := Buffer.gc_ok h.bok
  exact h.withBuffer h1 h2

theorem changes_ok {t : Terminal} (h : TOK t) : TOK t.changes.1 :=
  h.withDirty ((Dirty.clear_length _).trans h.dirty)

theorem new_ok {cols rows : Nat} (limit : Option Nat) (hc : 1 ≤ cols) (hr : 1 ≤ rows) :
    Pres (Terminal.new cols rows limit) := by
  refine Pres.of_csub_map hr
    { bcols := rfl, brows := rfl, bok := Buffer.new_ok _ _ hc hr, ook := Buffer.new_ok _ _ hc hr,
      crow := ?_, ccol := .inr ⟨rfl, ?_⟩, marg := ?_, tabs := Tabs.new_ok _, sctx := ?_,
      actx := .inl rfl, dirty := Dirty.new_length _, cs := ?_, lim := .inl ⟨rfl, rfl⟩, xt := rfl }
  · show 0 < rows; omega
  · show 0 < cols; omega
  · show 0 ≤ rows - 1 ∧ rows - 1 < rows ∧ (0 < rows - 1 ∨ (0 = 0 ∧ rows - 1 + 1 = rows))
    omega
  · show 0 < 2
    omega
  · show 0 < cols ∧ 0 < rows
    omega

end Terminal
end Avt
