/-
  Avt.Lemmas.C11Steps4 — `Terminal.dump` replayed in general: the stages of the replay for BOTH screens.

  `stageG T abt B O sc asc k aw c r pw p d` is the replaying terminal: size, tab stops and the "late"
  fields (origin mode, margins, visibility, character sets, modes) are those of the dumped terminal `T`
  as far as step `k` has restored them and those of the fresh terminal otherwise; the active screen
  `abt`, the two buffers `B`, `O` and the two saved contexts `sc`, `asc` are explicit (they change in
  steps 1–6); auto-wrap before step 12 is `aw` (the `CSI u` of step 9 may switch it off early);
  cursor position, pending wrap, pen and dirty flags are the junk `c r pw p d`.

  This file: tab stops, the saved-context block (steps 3 and 5) for ANY context (clamped into the screen
  by CUP, as `normT` clamps the parked one), the switches `?1047h` / `?1047l` in closed form on stages.
-/
import Avt.Lemmas.C11Sound2
import Avt.Props.C05

namespace Avt
namespace Lemmas.C11
open Avt.Spec.C11 Avt.Spec.C04 Avt.C04L Avt.Terminal

def stageG (T : Terminal) (abt : BufferType) (B O : Buffer) (sc asc : SavedCtx) (k : Nat) (aw : Bool)
    (c r : Nat) (pw : Bool) (p : Pen) (d : List Bool) : Terminal :=
  { cols := T.cols, rows := T.rows, buffer := B, otherBuffer := O, activeBufferType := abt,
    scrollbackLimit := none,
    cursor := ⟨c, r, if 10 ≤ k then T.cursor.visible else true⟩,
    pen := p,
    charsets := (if 11 ≤ k then T.charsets.1 else .ascii, if 12 ≤ k then T.charsets.2 else .ascii),
    activeCharset := if 13 ≤ k then T.activeCharset else 0,
    tabs := if 2 ≤ k then T.tabs else Tabs.new T.cols,
    insertMode := if 14 ≤ k then T.insertMode else false,
    originMode := if 7 ≤ k then T.originMode else false,
    autoWrapMode := if 15 ≤ k then T.autoWrapMode else aw,
    newLineMode := if 16 ≤ k then T.newLineMode else false,
    cursorKeysMode := if 17 ≤ k then T.cursorKeysMode else .normal,
    pendingWrap := pw,
    topMargin := if 8 ≤ k then T.topMargin else 0,
    bottomMargin := if 8 ≤ k then T.bottomMargin else T.rows - 1,
    savedCtx := sc, alternateSavedCtx := asc, dirtyLines := d, xtwinops := false }

/-- what the generic step lemmas assume of the dumped terminal -/
structure GenOK (T : Terminal) : Prop where
  inv : TInv T = true
  pen : PenOK T.pen
  cols : T.cols < 65535
  rows : T.rows ≤ 65535

section steps
set_option linter.unusedSectionVars false
variable {T : Terminal} (h : GenOK T) (abt : BufferType) (B O : Buffer) (sc asc : SavedCtx)
include h

/-! ### step 2: tab stops -/

theorem g_tabs (c r : Nat) (pw : Bool) (p : Pen) (d : List Bool) :
    ∃ c' pw', Feeds (if T.tabs ≠ Tabs.new T.cols then
        [csi, 0x35, 0x57] ++ (T.tabs.map fun tb => csi :: renderDec (tb + 1) ++ [0x60, 0x1b, 0x5b, 0x57]).flatten
      else []) (stageG T abt B O sc asc 1 true c r pw p d) (stageG T abt B O sc asc 2 true c' r pw' p d) := by
  have ht := TOK.of_TInv h.inv
  by_cases hne : T.tabs ≠ Tabs.new T.cols
  · rw [if_pos hne]
    have htabs : tabsOK T.tabs T.cols = true := by
      have := h.inv
      simp only [TInv, Bool.and_eq_true] at this
      exact this.1.1.1.1.1.1.1.2
    obtain ⟨c', pw', f⟩ := feeds_tabs (stageG T abt B O sc asc 1 true c r pw p d) T.tabs htabs
      (by have := h.cols; show T.cols ≤ 65535; omega)
    exact ⟨c', pw', f⟩
  · rw [if_neg hne]
    have he : T.tabs = Tabs.new T.cols := by simpa using hne
    refine ⟨c, pw, ?_⟩
    have : stageG T abt B O sc asc 2 true c r pw p d = stageG T abt B O sc asc 1 true c r pw p d := by
      simp only [stageG, he]; rfl
    rw [this]; exact Feeds.nil _

/-! ### steps 3 and 5: a saved-context block -/

/-- stage 2 with auto-wrap and origin mode overridden (switched temporarily while a context is
    configured and saved) -/
def stageY (T : Terminal) (abt : BufferType) (B O : Buffer) (sc asc : SavedCtx) (aw om : Bool)
    (c r : Nat) (pw : Bool) (p : Pen) (d : List Bool) : Terminal :=
  { stageG T abt B O sc asc 2 aw c r pw p d with originMode := om }

omit h in
theorem stageY_2 (c r : Nat) (pw : Bool) (p : Pen) (d : List Bool) :
    stageG T abt B O sc asc 2 true c r pw p d = stageY T abt B O sc asc true false c r pw p d := rfl

omit h in
theorem y_awOff (aw' om : Bool) (c r : Nat) (pw : Bool) (p : Pen) (d : List Bool) :
    Feeds (if !aw' then [csi, 0x3f, 0x37, 0x6c] else []) (stageY T abt B O sc asc true om c r pw p d)
      (stageY T abt B O sc asc aw' om c r pw p d) := by
  cases aw' with
  | false => exact (feeds_autoWrapOff _).to rfl
  | true => exact Feeds.nil _

omit h in
theorem y_awOn (aw' om : Bool) (c r : Nat) (pw : Bool) (p : Pen) (d : List Bool) :
    Feeds (if !aw' then [csi, 0x3f, 0x37, 0x68] else []) (stageY T abt B O sc asc aw' om c r pw p d)
      (stageY T abt B O sc asc true om c r pw p d) := by
  cases aw' with
  | false => exact (feeds_autoWrapOn _).to rfl
  | true => exact Feeds.nil _

theorem y_omOn (aw om' : Bool) (c r : Nat) (pw : Bool) (p : Pen) (d : List Bool) :
    ∃ c' r' pw', Feeds (if om' then [csi, 0x3f, 0x36, 0x68] else []) (stageY T abt B O sc asc aw false c r pw p d)
      (stageY T abt B O sc asc aw om' c' r' pw' p d) := by
  have ht := TOK.of_TInv h.inv
  cases om' with
  | true => exact ⟨0, 0, false, (feeds_originOn (stageY T abt B O sc asc aw false c r pw p d) ht.c1).to rfl⟩
  | false => exact ⟨c, r, pw, Feeds.nil _⟩

theorem y_omOff (aw om' : Bool) (c r : Nat) (pw : Bool) (p : Pen) (d : List Bool) :
    ∃ c' r' pw', Feeds (if om' then [csi, 0x3f, 0x36, 0x6c] else []) (stageY T abt B O sc asc aw om' c r pw p d)
      (stageY T abt B O sc asc aw false c' r' pw' p d) := by
  have ht := TOK.of_TInv h.inv
  cases om' with
  | true => exact ⟨0, 0, false, (feeds_originOff (stageY T abt B O sc asc aw true c r pw p d) ht.c1).to rfl⟩
  | false => exact ⟨c, r, pw, Feeds.nil _⟩

/-- CUP to any position `< 65535`: clamped into the screen (the margins are still the full screen, so
    origin mode makes no difference) -/
theorem y_cup (aw om : Bool) (c r : Nat) (pw : Bool) (p : Pen) (d : List Bool) (col row : Nat)
    (hcol : col < 65535) (hrow : row < 65535) :
    Feeds (cupSeq (row + 1) (col + 1)) (stageY T abt B O sc asc aw om c r pw p d)
      (stageY T abt B O sc asc aw om (min col (T.cols - 1)) (min row (T.rows - 1)) false p d) := by
  have ht := TOK.of_TInv h.inv
  have f := feeds_cup (stageY T abt B O sc asc aw om c r pw p d) row col ht.c1 ht.r1 hrow hcol
  refine f.to ?_
  cases om <;> simp [stageY, stageG]

theorem y_decsc (aw om : Bool) (col row : Nat) (pw : Bool) (p : Pen) (d : List Bool)
    (hcol : col < T.cols) :
    Feeds [0x1b, 0x37] (stageY T abt B O sc asc aw om col row pw p d)
      (stageY T abt B O ⟨col, row, p, om, aw⟩ asc aw om col row pw p d) := by
  have ht := TOK.of_TInv h.inv
  refine (feeds_decsc (stageY T abt B O sc asc aw om col row pw p d) ht.c1).to ?_
  have e1 : min col (T.cols - 1) = col := by omega
  simp [stageY, stageG, e1]

/-- **a saved-context block** (dump steps 3 and 5) for ANY context with a pen `Pen::dump` can write and a
    position below the 16-bit parameter range: temporary modes, CUP, pen, `ESC 7`, modes back.  The active
    saved context becomes the dumped one, CLAMPED into the screen (nothing is emitted for the default
    context: the active one is untouched). -/
theorem g_ctx (ctx : SavedCtx) (hp : PenOK ctx.pen) (hpos : ctx.cursorCol < 65535 ∧ ctx.cursorRow < 65535)
    (c r : Nat) (pw : Bool) (p : Pen) (d : List Bool) :
    ∃ s c' r' pw' p', dumpCtx ctx = some s
      ∧ Feeds s (stageG T abt B O sc asc 2 true c r pw p d)
          (stageG T abt B O (if ctx.isDefault then sc else clampCtx ctx T.cols T.rows) asc 2 true c' r' pw' p' d) := by
  have ht := TOK.of_TInv h.inv
  by_cases hdef : ctx.isDefault = true
  · refine ⟨[], c, r, pw, p, by simp [dumpCtx, hdef], ?_⟩
    rw [if_pos hdef]; exact Feeds.nil _
  · rw [if_neg hdef]
    have hc1 := ht.c1
    have hr1 := ht.r1
    have f1 := y_awOff (T := T) abt B O sc asc ctx.autoWrapMode false c r pw p d
    obtain ⟨c2, r2, pw2, f2⟩ := y_omOn h abt B O sc asc ctx.autoWrapMode ctx.originMode c r pw p d
    have f3 := y_cup h abt B O sc asc ctx.autoWrapMode ctx.originMode c2 r2 pw2 p d _ _ hpos.1 hpos.2
    obtain ⟨pd, hpd, f4⟩ := feeds_pen ctx.pen hp
      (stageY T abt B O sc asc ctx.autoWrapMode ctx.originMode (min ctx.cursorCol (T.cols - 1))
        (min ctx.cursorRow (T.rows - 1)) false p d)
    have f5 := y_decsc h abt B O sc asc ctx.autoWrapMode ctx.originMode (min ctx.cursorCol (T.cols - 1))
      (min ctx.cursorRow (T.rows - 1)) false ctx.pen d (by omega)
    have esc : (⟨min ctx.cursorCol (T.cols - 1), min ctx.cursorRow (T.rows - 1), ctx.pen, ctx.originMode,
        ctx.autoWrapMode⟩ : SavedCtx) = clampCtx ctx T.cols T.rows := rfl
    rw [esc] at f5
    have f6 := y_awOn (T := T) abt B O (clampCtx ctx T.cols T.rows) asc ctx.autoWrapMode ctx.originMode
      (min ctx.cursorCol (T.cols - 1)) (min ctx.cursorRow (T.rows - 1)) false ctx.pen d
    obtain ⟨c7, r7, pw7, f7⟩ := y_omOff h abt B O (clampCtx ctx T.cols T.rows) asc true ctx.originMode
      (min ctx.cursorCol (T.cols - 1)) (min ctx.cursorRow (T.rows - 1)) false ctx.pen d
    refine ⟨(if !ctx.autoWrapMode then [csi, 0x3f, 0x37, 0x6c] else [])
        ++ (if ctx.originMode then [csi, 0x3f, 0x36, 0x68] else [])
        ++ cupSeq (ctx.cursorRow + 1) (ctx.cursorCol + 1) ++ pd ++ [0x1b, 0x37]
        ++ (if !ctx.autoWrapMode then [csi, 0x3f, 0x37, 0x68] else [])
        ++ (if ctx.originMode then [csi, 0x3f, 0x36, 0x6c] else []), c7, r7, pw7, ctx.pen, ?_, ?_⟩
    · simp only [dumpCtx, hdef, Bool.false_eq_true, if_false, hpd]
    · rw [stageY_2, stageY_2]
      have f4' : Feeds pd (stageY T abt B O sc asc ctx.autoWrapMode ctx.originMode (min ctx.cursorCol (T.cols - 1))
          (min ctx.cursorRow (T.rows - 1)) false p d) (stageY T abt B O sc asc ctx.autoWrapMode ctx.originMode
          (min ctx.cursorCol (T.cols - 1)) (min ctx.cursorRow (T.rows - 1)) false ctx.pen d) := f4.to rfl
      exact Feeds.cast (f1.append (f2.append (f3.append (f4'.append (f5.append (f6.append f7))))))
        (by simp [List.append_assoc])

omit h in
theorem g_sgr0 (k : Nat) (aw : Bool) (c r : Nat) (pw : Bool) (p : Pen) (d : List Bool) :
    Feeds [0x1b, 0x5b, 0x6d] (stageG T abt B O sc asc k aw c r pw p d) (stageG T abt B O sc asc k aw c r pw {} d) :=
  feeds_sgr0 _

end steps

end Lemmas.C11
end Avt
