/-
  Avt.Lemmas.C04Term — helper lemmas for property C04 (terminal level): `Terminal.print` split
  into its two phases (deferred wrap, cell write), each phase equal to the corresponding step of
  the specification, and preservation of `TInv` by both steps.
-/
import Avt.Lemmas.C04Inv

namespace Avt.C04L
open Avt Avt.Spec Avt.Spec.C04

/-! ### the two phases of the model's `print` (text copied from `Terminal.print`) -/

/-- the deferred wrap of `Terminal.print` -/
def wrapPhase (t : Terminal) : Option Terminal :=
  if t.autoWrapMode && t.pendingWrap then
    let t := t.doMoveCursorToCol 0
    if t.cursor.row = t.bottomMargin then
      match t.buffer.wrap t.cursor.row with
      | none => none
      | some b =>
        match ({ t with buffer := b } : Terminal).scrollUpInRegion 1 with
        | none => none
        | some t =>
          match csub t.rows 1 with
          | none => none
          | some r1 =>
            if t.bottomMargin < r1 then
              match csub t.bottomMargin 1 with
              | none => none
              | some bm1 => (t.buffer.wrap bm1).map fun b => { t with buffer := b }
            else some t
    else
      match csub t.rows 1 with
      | none => none
      | some r1 =>
        if t.cursor.row < r1 then
          match t.buffer.wrap t.cursor.row with
          | none => none
          | some b => ({ t with buffer := b } : Terminal).doMoveCursorToRow (t.cursor.row + 1)
        else some t
  else some t

/-- the cell write of `Terminal.print` -/
def putPhase (t : Terminal) (cell : Cell) : Option Terminal :=
  let nextCol := t.cursor.col + 1
  let t2 : Option Terminal :=
    if nextCol ≥ t.cols then
      match csub t.cols 1 with
      | none => none
      | some c1 =>
        match t.buffer.print c1 t.cursor.row cell with
        | none => none
        | some b =>
          let t := { t with buffer := b }
          if t.autoWrapMode then some { t.doMoveCursorToCol t.cols with pendingWrap := true }
          else some t
    else
      let b := if t.insertMode then t.buffer.insert t.cursor.col t.cursor.row 1 cell
               else t.buffer.print t.cursor.col t.cursor.row cell
      match b with
      | none => none
      | some b => some (({ t with buffer := b } : Terminal).doMoveCursorToCol nextCol)
  match t2 with
  | none => none
  | some t => t.markDirty t.cursor.row

theorem print_factor (t : Terminal) (ch : Nat) :
    t.print ch =
      match t.activeCharsetValue with
      | none => none
      | some cs =>
        match cs.translate ch with
        | none => none
        | some g =>
          match wrapPhase t with
          | none => none
          | some t' => putPhase t' ⟨g, t.pen⟩ := rfl

/-! ### the deferred wrap -/

theorem dirtyExtend_eq (d : List Bool) (a b : Nat) (h1 : a ≤ b) (h2 : b < d.length) :
    Dirty.extend d a (b + 1) = some (dirtyRange d a b) := by
  unfold Dirty.extend
  rw [fillRange_eq _ _ _ _ (by omega) (by omega)]
  rfl

theorem wrapPhase_bottom (t : Terminal) (p : Pre t) (hr : t.cursor.row = t.bottomMargin) :
    (let t := t.doMoveCursorToCol 0
     match t.buffer.wrap t.cursor.row with
      | none => none
      | some b =>
        match ({ t with buffer := b } : Terminal).scrollUpInRegion 1 with
        | none => none
        | some t =>
          match csub t.rows 1 with
          | none => none
          | some r1 =>
            if t.bottomMargin < r1 then
              match csub t.bottomMargin 1 with
              | none => none
              | some bm1 => (t.buffer.wrap bm1).map fun b => { t with buffer := b }
            else some t) = some (wrapStep t) := by
  obtain ⟨b', hb1, hb2⟩ := scrollWrap t.buffer t.topMargin t.bottomMargin t.pen
    (by rw [p.vlen, p.brows]) p.m1 (by rw [p.brows]; exact p.m2) (by rw [p.brows]; exact p.m3)
  simp only [Terminal.doMoveCursorToCol, hr]
  rw [wrap_eq _ _ (by rw [p.vlen]; exact p.m2)]
  simp only [Terminal.scrollUpInRegion, hb1]
  rw [dirtyExtend_eq _ _ _ p.m1 (by rw [p.dlen]; exact p.m2)]
  simp only [Option.map_some]
  rw [csub_eq t.rows 1 p.rows_pos]
  simp only []
  rw [p.brows] at hb2
  by_cases hlt : t.bottomMargin < t.rows - 1
  · rw [if_pos hlt] at hb2
    have hb : 1 ≤ t.bottomMargin := by have := p.m3; omega
    simp only [if_pos hlt]
    rw [csub_eq t.bottomMargin 1 hb]
    simp only [hb2, Option.map_some, wrapStep, hr, if_true]
  · rw [if_neg hlt] at hb2
    cases hb2
    simp only [if_neg hlt, wrapStep, hr, if_true]

theorem wrapPhase_other (t : Terminal) (p : Pre t) (hr : ¬ t.cursor.row = t.bottomMargin) :
    (let t := t.doMoveCursorToCol 0
     match csub t.rows 1 with
      | none => none
      | some r1 =>
        if t.cursor.row < r1 then
          match t.buffer.wrap t.cursor.row with
          | none => none
          | some b => ({ t with buffer := b } : Terminal).doMoveCursorToRow (t.cursor.row + 1)
        else some t) = some (wrapStep t) := by
  have e1 : csub (t.doMoveCursorToCol 0).rows 1 = some (t.rows - 1) := csub_eq t.rows 1 p.rows_pos
  have e2 : (t.doMoveCursorToCol 0).buffer.wrap (t.doMoveCursorToCol 0).cursor.row
      = some (bufOnRow t.buffer t.cursor.row markWrapped) :=
    wrap_eq t.buffer t.cursor.row (by rw [p.vlen]; exact p.row_lt)
  simp only [e1, e2]
  split
  · rename_i hlt
    have hlt : t.cursor.row < t.rows - 1 := hlt
    have h2 : t.cursor.row + 1 < t.rows := by omega
    simp only [Terminal.doMoveCursorToRow, Terminal.doMoveCursorToCol]
    rw [csub_eq t.cols 1 p.cols_pos]
    simp only [Option.map_some, wrapStep, if_neg hr, if_pos h2, Nat.zero_min]
  · rename_i hlt
    have hlt : ¬ t.cursor.row < t.rows - 1 := hlt
    have h2 : ¬ (t.cursor.row + 1 < t.rows) := by omega
    simp only [wrapStep, if_neg hr, if_neg h2, Terminal.doMoveCursorToCol]

theorem wrapPhase_eq (t : Terminal) (p : Pre t) :
    wrapPhase t = some (if t.autoWrapMode && t.pendingWrap then wrapStep t else t) := by
  unfold wrapPhase
  by_cases hc : (t.autoWrapMode && t.pendingWrap) = true
  · simp only [hc, if_true]
    by_cases hr : t.cursor.row = t.bottomMargin
    · have hr' : (t.doMoveCursorToCol 0).cursor.row = (t.doMoveCursorToCol 0).bottomMargin := hr
      simp only [if_pos hr']
      exact wrapPhase_bottom t p hr
    · have hr' : ¬ (t.doMoveCursorToCol 0).cursor.row = (t.doMoveCursorToCol 0).bottomMargin := hr
      simp only [if_neg hr']
      exact wrapPhase_other t p hr
  · simp only [hc]
    rfl

/-! ### the cell write -/

theorem markDirty_eq (t : Terminal) (r : Nat) (h : r < t.dirtyLines.length) :
    t.markDirty r = some { t with dirtyLines := t.dirtyLines.set r true } := by
  simp only [Terminal.markDirty, Dirty.add, setAt_eq _ _ _ h, Option.map_some]

theorem putPhase_eq (t : Terminal) (p : Pre t) (g : Nat) :
    putPhase t ⟨g, t.pen⟩ = some (putStep t g) := by
  have hrow : t.cursor.row < t.buffer.view.length := by rw [p.vlen]; exact p.row_lt
  have hl : t.buffer.view[t.cursor.row]? = some t.buffer.view[t.cursor.row] := List.getElem?_eq_getElem hrow
  have hlen := p.clen _ _ hl
  have hd : t.cursor.row < t.dirtyLines.length := by rw [p.dlen]; exact p.row_lt
  unfold putPhase
  simp only []
  by_cases hc : t.cursor.col + 1 ≥ t.cols
  · rw [if_pos hc, csub_eq t.cols 1 p.cols_pos]
    simp only []
    rw [print_eq t.buffer (t.cols - 1) t.cursor.row _ _ hl (by have := p.cols_pos; omega)]
    simp only []
    by_cases ha : t.autoWrapMode = true
    · rw [if_pos ha]
      simp only [Terminal.doMoveCursorToCol]
      simp only [Terminal.markDirty, Dirty.add, setAt_eq _ _ _ hd, Option.map_some]
      simp only [putStep, if_pos hc, if_pos ha]
    · rw [if_neg ha]
      simp only []
      simp only [Terminal.markDirty, Dirty.add, setAt_eq _ _ _ hd, Option.map_some]
      simp only [putStep, if_pos hc, if_neg ha]
  · have hcol : t.cursor.col < t.buffer.cols := by rw [p.bcols]; omega
    rw [if_neg hc]
    by_cases hi : t.insertMode = true
    · rw [if_pos hi, insert_eq t.buffer t.cursor.col t.cursor.row _ _ hl (by rw [hlen, p.bcols]) hcol]
      simp only [Terminal.doMoveCursorToCol]
      simp only [Terminal.markDirty, Dirty.add, setAt_eq _ _ _ hd, Option.map_some]
      simp only [putStep, if_neg hc, if_pos hi]
    · rw [if_neg hi, print_eq t.buffer t.cursor.col t.cursor.row _ _ hl (by rw [hlen]; omega)]
      simp only [Terminal.doMoveCursorToCol]
      simp only [Terminal.markDirty, Dirty.add, setAt_eq _ _ _ hd, Option.map_some]
      simp only [putStep, if_neg hc, if_neg hi]

/-! ### both steps keep the terminal invariant -/

theorem dirtyRange_length (d : List Bool) (a b : Nat) (h1 : a ≤ b) (h2 : b < d.length) :
    (dirtyRange d a b).length = d.length := by
  simp only [dirtyRange, List.length_append, List.length_take, List.length_drop, List.length_replicate]
  omega

theorem wrapStep_TInv (t : Terminal) (h : TInv t = true) : TInv (wrapStep t) = true := by
  have p := Pre_of_TInv t h
  unfold wrapStep
  simp only []
  split
  · rename_i hr
    exact TInv_upd t h _ _ _ _
      (by rw [hr]; exact BInv_scroll t.buffer t.topMargin t.bottomMargin t.pen p.binv p.m1 (by rw [p.brows]; exact p.m2))
      p.bcols p.brows rfl p.row_lt (Or.inr ⟨rfl, p.cols_pos⟩)
      (by rw [dirtyRange_length _ _ _ p.m1 (by rw [p.dlen]; exact p.m2)]; exact p.dlen)
  · split
    · rename_i hr h2
      exact TInv_upd t h _ _ _ _
        (BInv_onRow t.buffer t.cursor.row markWrapped p.binv (fun l hl => hl) (Or.inl (by rw [p.brows]; exact h2)))
        p.bcols p.brows rfl h2 (Or.inr ⟨rfl, p.cols_pos⟩) p.dlen
    · exact TInv_upd t h t.buffer _ _ t.dirtyLines p.binv p.bcols p.brows rfl p.row_lt
        (Or.inr ⟨rfl, p.cols_pos⟩) p.dlen

theorem putCell_len (c : Nat) (cell : Cell) (l : Line) : (putCell c cell l).cells.length = l.cells.length := by
  simp [putCell]

theorem insertCell_len (c : Nat) (cell : Cell) (l : Line) (h : c < l.cells.length) :
    (insertCell c cell l).cells.length = l.cells.length := by
  simp only [insertCell, List.length_append, List.length_take, List.length_dropLast, List.length_drop,
    List.length_cons, List.length_nil]
  omega

theorem putStep_TInv (t : Terminal) (h : TInv t = true) (g : Nat) : TInv (putStep t g) = true := by
  have p := Pre_of_TInv t h
  have hd : (t.dirtyLines.set t.cursor.row true).length = t.rows := by rw [List.length_set]; exact p.dlen
  unfold putStep
  simp only []
  split
  · rename_i hc
    have hb : BInv (bufOnRow t.buffer t.cursor.row (putCell (t.cols - 1) ⟨g, t.pen⟩)) = true :=
      BInv_onRow _ _ _ p.binv (fun l hl => by rw [putCell_len]; exact hl) (Or.inr (fun l => rfl))
    split
    · exact TInv_upd t h _ _ _ _ hb p.bcols p.brows rfl p.row_lt (Or.inl ⟨rfl, rfl⟩) hd
    · exact TInv_upd t h _ t.cursor t.pendingWrap _ hb p.bcols p.brows rfl p.row_lt p.col hd
  · rename_i hc
    have hb : BInv (bufOnRow t.buffer t.cursor.row
        (if t.insertMode then insertCell t.cursor.col ⟨g, t.pen⟩ else putCell t.cursor.col ⟨g, t.pen⟩)) = true := by
      apply BInv_onRow _ _ _ p.binv _ (Or.inr _)
      · intro l hl
        split
        · rw [insertCell_len _ _ _ (by rw [hl, p.bcols]; omega)]; exact hl
        · rw [putCell_len]; exact hl
      · intro l
        split <;> rfl
    exact TInv_upd t h _ _ _ _ hb p.bcols p.brows rfl p.row_lt (Or.inr ⟨rfl, by show t.cursor.col + 1 < t.cols; omega⟩) hd

theorem printSpec_TInv (t : Terminal) (h : TInv t = true) (ch : Nat) : TInv (printSpec t ch) = true := by
  unfold printSpec
  split
  · exact putStep_TInv _ (wrapStep_TInv t h) _
  · exact putStep_TInv _ h _

/-! ### character sets -/

theorem gfxRef_outside (c : Nat) (h : c < 0x60 ∨ 0x7E < c) : gfxRef c = c := by
  unfold gfxRef
  split <;> first | rfl | omega

theorem translate_drawing (c : Nat) : Charset.translate .drawing c = some (gfxRef c) := by
  by_cases h : c < 96 ∨ 126 < c
  · rw [gfxRef_outside c h]
    have h' : ¬ (Gen.gfxLo ≤ c ∧ c ≤ Gen.gfxHi) := by
      simp only [Gen.gfxLo, Gen.gfxHi]; omega
    simp only [Charset.translate, if_neg h']
  · have h' : c = 96 ∨ c = 97 ∨ c = 98 ∨ c = 99 ∨ c = 100 ∨ c = 101 ∨ c = 102 ∨ c = 103 ∨ c = 104
        ∨ c = 105 ∨ c = 106 ∨ c = 107 ∨ c = 108 ∨ c = 109 ∨ c = 110 ∨ c = 111 ∨ c = 112 ∨ c = 113
        ∨ c = 114 ∨ c = 115 ∨ c = 116 ∨ c = 117 ∨ c = 118 ∨ c = 119 ∨ c = 120 ∨ c = 121 ∨ c = 122
        ∨ c = 123 ∨ c = 124 ∨ c = 125 ∨ c = 126 := by omega
    rcases h' with rfl | rfl | rfl | rfl | rfl | rfl | rfl | rfl | rfl | rfl | rfl | rfl | rfl | rfl
      | rfl | rfl | rfl | rfl | rfl | rfl | rfl | rfl | rfl | rfl | rfl | rfl | rfl | rfl | rfl | rfl
      | rfl <;> rfl

/-- translation through either set agrees with the reference table -/
theorem translate_eq (cs : Charset) (c : Nat) : cs.translate c = some (translateRef cs c) := by
  cases cs
  · rfl
  · exact translate_drawing c

/-! ### `Terminal.print` = `printSpec`, `Terminal.printN` = `printTimes` -/

theorem wrapStep_pen (t : Terminal) : (wrapStep t).pen = t.pen := by
  unfold wrapStep
  simp only []
  split
  · rfl
  · split <;> rfl

theorem print_spec (t : Terminal) (ch : Nat) (h : TInv t = true) :
    t.print ch = some (printSpec t ch) := by
  have p := Pre_of_TInv t h
  rw [print_factor]
  have hcs : t.activeCharsetValue = some (activeSet t) := by
    have hc : t.activeCharset = 0 ∨ t.activeCharset = 1 := by have := p.cs; omega
    unfold Terminal.activeCharsetValue activeSet
    rcases hc with e | e <;> simp [e]
  simp only [hcs, translate_eq, wrapPhase_eq t p]
  unfold printSpec
  split
  · have p' := Pre_of_TInv _ (wrapStep_TInv t h)
    have := putPhase_eq (wrapStep t) p' (glyph t ch)
    rw [wrapStep_pen] at this
    exact this
  · exact putPhase_eq t p (glyph t ch)

theorem printN_eq (ch : Nat) : ∀ (k : Nat) (t : Terminal), TInv t = true →
    t.printN ch k = some (printTimes ch k t)
  | 0, _, _ => rfl
  | k + 1, t, h => by
    have h1 : t.print ch = some (printSpec t ch) := print_spec t ch h
    simp only [Terminal.printN, h1, printTimes]
    exact printN_eq ch k _ (printSpec_TInv t h ch)

theorem asUsize_one (n : Nat) : asUsize n 1 = max n 1 := by
  unfold asUsize
  split <;> omega

/-! ### helpers for the corollaries -/

theorem printSpec_nowrap (t : Terminal) (ch : Nat) (hw : (t.autoWrapMode && t.pendingWrap) = false) :
    printSpec t ch = putStep t (glyph t ch) := by
  unfold printSpec
  rw [hw]
  rfl

theorem nowrap_of_off (t : Terminal) (ha : t.autoWrapMode = false) :
    (t.autoWrapMode && t.pendingWrap) = false := by rw [ha]; rfl

/-- the state the cell write starts from -/
theorem pre_put (t : Terminal) (h : TInv t = true) :
    TInv (if t.autoWrapMode && t.pendingWrap then wrapStep t else t) = true := by
  split
  · exact wrapStep_TInv t h
  · exact h

theorem onRow_get_self (v : List Line) (r : Nat) (f : Line → Line) (l : Line) (h : v[r]? = some l) :
    (onRow v r f)[r]? = some (f l) := by
  rw [getElem?_onRow, if_pos rfl, h]; rfl

/-- the cell written by `putStep` sits in the cursor's row at column `min col (cols-1)` and
    carries the glyph and the current pen -/
theorem putStep_cell (u : Terminal) (hu : TInv u = true) (g : Nat) :
    ∃ l, (putStep u g).buffer.view[(putStep u g).cursor.row]? = some l
      ∧ l.cells[min u.cursor.col (u.cols - 1)]? = some ⟨g, u.pen⟩ := by
  have p := Pre_of_TInv u hu
  have hrow : u.cursor.row < u.buffer.view.length := by rw [p.vlen]; exact p.row_lt
  have hl : u.buffer.view[u.cursor.row]? = some u.buffer.view[u.cursor.row] := List.getElem?_eq_getElem hrow
  have hlen := p.clen _ _ hl
  have hcp := p.cols_pos
  unfold putStep
  simp only []
  by_cases hc : u.cursor.col + 1 ≥ u.cols
  · have hm : min u.cursor.col (u.cols - 1) = u.cols - 1 := by omega
    rw [if_pos hc, hm]
    split
    all_goals
      refine ⟨_, onRow_get_self _ _ _ _ hl, ?_⟩
      simp only [putCell]
      rw [List.getElem?_set_self (by omega)]
  · have hm : min u.cursor.col (u.cols - 1) = u.cursor.col := by omega
    rw [if_neg hc, hm]
    refine ⟨_, onRow_get_self _ _ _ _ hl, ?_⟩
    split
    · simp only [insertCell]
      rw [List.getElem?_append_left (by simp; omega),
        List.getElem?_append_right (by simp only [List.length_take]; omega)]
      simp only [List.length_take]
      have : u.cursor.col - min u.cursor.col u.buffer.view[u.cursor.row].cells.length = 0 := by omega
      rw [this]; rfl
    · simp only [putCell]
      rw [List.getElem?_set_self (by omega)]

theorem wrapStep_col (t : Terminal) : (wrapStep t).cursor.col = 0 ∧ (wrapStep t).cols = t.cols := by
  unfold wrapStep
  simp only []
  split
  · exact ⟨rfl, rfl⟩
  · split <;> exact ⟨rfl, rfl⟩

theorem printSpec_wrap (t : Terminal) (ch : Nat) (hw : (t.autoWrapMode && t.pendingWrap) = true) :
    printSpec t ch = putStep (wrapStep t) (glyph t ch) := by
  unfold printSpec
  rw [hw]
  rfl

/-- `putStep` touches only the cursor's row; it keeps the scrollback, the cursor's row number and
    every wrap mark -/
theorem putStep_frame (u : Terminal) (g : Nat) :
    (putStep u g).buffer.sb = u.buffer.sb ∧ (putStep u g).cursor.row = u.cursor.row
      ∧ (∀ i : Nat, i ≠ u.cursor.row → (putStep u g).buffer.view[i]? = u.buffer.view[i]?) := by
  simp only [putStep]
  split
  · split
    all_goals
      refine ⟨rfl, rfl, ?_⟩
      intro i hi
      simp only [bufOnRow, getElem?_onRow, if_neg hi]
  · refine ⟨rfl, rfl, ?_⟩
    intro i hi
    simp only [bufOnRow, getElem?_onRow, if_neg hi]


end Avt.C04L
