/-
  Avt.Lemmas.C10Pending — the wrap-pending cursor across a resize (C10's clause "pending-place").

  A wrap-pending cursor (column = `cols`) at the end of a soft-wrapped row names a character of the
  text: the first cell of the next row.  A width-changing resize puts the cursor ON that character
  (`onCharOK`, because `width_rel` holds for either value of its `pending` argument and the translated
  cursor is never wrap-pending); a height-only resize keeps the cursor's offset, and the character is
  the same one unless the cursor's line was cut exactly at the cursor (`pendingPlaceOK`).
-/
import Avt.Lemmas.C10Width3

namespace Avt.Lemmas
open Avt Avt.Spec.C10

/-- the new first line of `keptOrCut` is a prefix of the old first line -/
theorem keptOrCut_head_prefix {a b : List Cell} {as bs : List (List Cell)}
    (h : keptOrCut (a :: as) (b :: bs) = true) : b <+: a := by
  simp only [keptOrCut, Bool.or_eq_true, Bool.and_eq_true, beq_iff_eq] at h
  rcases h with ⟨h1, -⟩ | ⟨h1, -⟩
  · rw [h1]; exact List.prefix_refl _
  · exact List.isPrefixOf_iff_prefix.1 h1

/-- the relation at `pending = false` says: whenever the offset is inside the text, the cursor is on
    that character afterwards — whatever the cursor's real wrap-pending flag was -/
theorem onCharOK_of_rel_false {L L' : List (List Cell)} {i o i' o' : Nat} {p : Bool}
    (h : resizeRel L L' i o i' o' false = true) (hp : pendingOnChar L i o p = true) :
    onCharOK L L' i o o' = true := by
  simp only [resizeRel, onChar, Bool.and_eq_true, Bool.or_eq_true, Bool.not_eq_true',
    Bool.not_false, Bool.true_and] at h
  obtain ⟨⟨-, hchar⟩, -⟩ := h
  simp only [pendingOnChar, Bool.and_eq_true] at hp
  rcases hchar with hc | hc
  · rw [hc] at hp; exact absurd hp.2 (by simp)
  · exact hc

theorem pendingPlaceOK_of_onCharOK {L L' : List (List Cell)} {i o o' : Nat}
    (h : onCharOK L L' i o o' = true) : pendingPlaceOK L L' i o o' = true := by
  simp only [onCharOK, Bool.and_eq_true] at h
  simp only [pendingPlaceOK, Bool.and_eq_true]
  refine ⟨h.1, ?_⟩
  have h2 := h.2
  cases ha : L[i]? with
  | none => simp [ha] at h2
  | some a =>
    cases hb : L'[i]? with
    | none => simp [ha, hb] at h2
    | some b =>
      simp only [ha, hb] at h2
      simp only [h2, Bool.true_or]

/-- from the whole relation and "same offset": the character at the offset is the same one, or the
    cursor's line was cut at (or before) the offset -/
theorem pendingPlaceOK_of_rel {L L' : List (List Cell)} {i o i' o' : Nat} {p : Bool}
    (h : resizeRel L L' i o i' o' p = true) (ho : o' = o) : pendingPlaceOK L L' i o o' = true := by
  simp only [resizeRel, afterOK, Bool.and_eq_true, beq_iff_eq, decide_eq_true_eq] at h
  obtain ⟨⟨⟨⟨⟨⟨-, hiL⟩, hiL'⟩, -⟩, -⟩, -⟩, hafter⟩ := h
  have ha : L[i]? = some L[i] := List.getElem?_eq_getElem hiL
  have hb : L'[i]? = some L'[i] := List.getElem?_eq_getElem hiL'
  rw [List.drop_eq_getElem_cons hiL, List.drop_eq_getElem_cons hiL'] at hafter
  obtain ⟨s, hs⟩ := keptOrCut_head_prefix hafter
  simp only [pendingPlaceOK, ha, hb, Bool.and_eq_true, beq_iff_eq, Bool.or_eq_true,
    decide_eq_true_eq]
  refine ⟨ho, ?_⟩
  by_cases hlt : o < L'[i].length
  · left
    rw [← hs, List.getElem?_append_left hlt]
    exact cellEq_refl _
  · right; omega

/-- `Buffer.resize` sets the width it was asked for -/
theorem buffer_resize_cols {b b' : Buffer} {c r : Nat} {cur cur' : Nat × Nat}
    (h : b.resize c r cur = some (b', cur')) : b'.cols = c := by
  rw [Buffer.resize_eq] at h
  cases h0 : Buffer.logicalPosition b.lines cur b.cols b.rows with
  | none => simp [h0] at h
  | some lp =>
    simp only [h0] at h
    cases h1 : Buffer.rsStep1 b.lines b.cols b.rows c cur lp with
    | none => simp [h1] at h
    | some s1 =>
      obtain ⟨ls1, cur1, oR⟩ := s1
      simp only [h1] at h
      cases h2 : Buffer.rsStep2 c r ls1 cur1 oR with
      | none => simp [h2] at h
      | some s2 =>
        obtain ⟨ls2, cur2⟩ := s2
        simp only [h2] at h
        cases h3 : csub ls2.length r with
        | none => simp [h3] at h
        | some k =>
          simp only [h3, Option.some.injEq, Prod.mk.injEq] at h
          rw [← h.1]

/-- a height-only resize keeps the cursor's logical position (line and offset): the rows above the
    cursor row are untouched, the cursor keeps its column and its absolute row -/
theorem rows_only_cursor {b b' : Buffer} {r' : Nat} {cur cur' : Nat × Nat}
    (hview : b.view.length = b.rows) (hcur : cur.2 < b.rows)
    (h : b.resize b.cols r' cur = some (b', cur')) :
    cursorLogical b' cur' = cursorLogical b cur := by
  obtain ⟨hok, -, hrows'⟩ := resize_rows_only hview hcur h
  simp only [rowsOnlyOK, Bool.and_eq_true, beq_iff_eq] at hok
  obtain ⟨⟨hl', hc1⟩, hc2⟩ := hok
  have hlen : b.lines.length = b.sb.length + b.rows := by simp [Buffer.lines, hview]
  have hcases : (b'.lines = b.lines ++ List.replicate ((r' - b.rows) - min (b.lines.length - b.rows) (r' - b.rows)) (Line.blank b.cols Pen.default))
      ∨ (∃ k, b.sb.length + cur.2 < k ∧ k ≤ b.lines.length ∧ b'.lines = unwrapLast (b.lines.take k)) := by
    rw [hl', hrows']
    unfold rowsOnlyLines
    by_cases hlt : r' < b.rows
    · simp only [hlt, if_true]
      by_cases hex : min (b.rows - r') (b.rows - 1 - cur.2) = 0
      · left
        have : r' - b.rows = 0 := by omega
        simp [hex, this]
      · right
        simp only [hex, if_false]
        exact ⟨_, by omega, by omega, rfl⟩
    · left; simp only [hlt, if_false]
  have htake : b'.lines.take (b.sb.length + cur.2) = b.lines.take (b.sb.length + cur.2) := by
    rcases hcases with e | ⟨k, hk1, hk2, e⟩
    · rw [e, List.take_append_of_le_length (by omega)]
    · rw [e, unwrapLast_take (by simp; omega), List.take_take]
      congr 1; omega
  simp only [cursorLogical, hc2, htake, hc1]

/-- **the wrap-pending cursor across a width-changing resize of a buffer**: when its logical offset
    names a character of the text, the cursor is on that character afterwards -/
theorem width_pending {b b' : Buffer} {c r : Nat} {cur cur' : Nat × Nat} (pending : Bool)
    (hview : b.view.length = b.rows) (hrows : 1 ≤ b.rows) (hlens : ∀ l ∈ b.lines, l.len = b.cols)
    (hlu : lastUnwrapped b.lines = true) (hcur : cur.2 < b.rows) (hc : 1 ≤ c) (hr : 1 ≤ r)
    (hne : c ≠ b.cols) (h : b.resize c r cur = some (b', cur'))
    (hp : pendingOnChar (logicalLines b.lines) (cursorLogical b cur).1 (cursorLogical b cur).2 pending = true) :
    onCharOK (logicalLines b.lines) (logicalLines b'.lines)
      (cursorLogical b cur).1 (cursorLogical b cur).2 (cursorLogical b' cur').2 = true :=
  onCharOK_of_rel_false (width_rel false hview hrows hlens hlu hcur hc hr hne h) hp

/-- **the cursor across a height-only resize of a buffer** (wrap-pending or not): same logical
    offset, and the character there is the same one unless the line was cut at the cursor -/
theorem rows_only_pending {b b' : Buffer} {r' : Nat} {cur cur' : Nat × Nat}
    (hview : b.view.length = b.rows) (hlens : ∀ l ∈ b.lines, l.len = b.cols)
    (hcur : cur.2 < b.rows) (hcol : cur.1 ≤ b.cols)
    (h : b.resize b.cols r' cur = some (b', cur')) :
    pendingPlaceOK (logicalLines b.lines) (logicalLines b'.lines)
      (cursorLogical b cur).1 (cursorLogical b cur).2 (cursorLogical b' cur').2 = true :=
  pendingPlaceOK_of_rel
    (rows_only_rel true hview hlens hcur hcol (fun h0 => by cases h0) h)
    (by rw [rows_only_cursor hview hcur h])

end Avt.Lemmas
