/-
  Avt.Lemmas.C11Params — the parameter registers of the parser as an abstract value, and the round
  trip "render the registers as `p;p:q;…`, feed the characters to `Parser::param`, get the registers
  back" (`feed_renderAll`).  Used for the `CsiParam`/`DcsParam` cases of the `Parser.dump` round trip
  and for every numeric CSI sequence `dump()` emits.
-/
import Avt.Lemmas.C11

namespace Avt
namespace Lemmas.C11
open Avt.Spec.C11

/-! ### abstract registers -/

/-- the parameters in use, each as the list of its parts in use -/
abbrev Regs := List (List Nat)

def encParam (ps : List Nat) : Param :=
  { curPart := ps.length - 1, parts := ps ++ List.replicate (6 - ps.length) 0 }

def dflt : Param := {}

def encParams (A : Regs) : List Param := A.map encParam ++ List.replicate (32 - A.length) dflt

/-- the parser in state `st` whose registers hold `A` -/
def conc (st : PState) (im : Option Nat) (A : Regs) : Parser :=
  { state := st, params := encParams A, curParam := A.length - 1, intermediate := im }

def PartsOK (ps : List Nat) : Prop := 1 ≤ ps.length ∧ ps.length ≤ 6 ∧ ∀ x ∈ ps, x < 65536

def RegsOK (A : Regs) : Prop := 1 ≤ A.length ∧ A.length ≤ 32 ∧ ∀ ps ∈ A, PartsOK ps

theorem encParams_zero : encParams [[0]] = Parser.new.params := by decide

theorem conc_zero (st : PState) (im : Option Nat) : conc st im [[0]] = clean st im := by
  simp only [conc, clean, encParams_zero]
  rfl

/-! ### list helpers -/

theorem set_append_cons {α} (l₁ : List α) (x y : α) (l₂ : List α) :
    (l₁ ++ x :: l₂).set l₁.length y = l₁ ++ y :: l₂ := by
  induction l₁ with
  | nil => rfl
  | cons a l ih => simp [ih]

theorem getElem?_append_cons {α} (l₁ : List α) (x : α) (l₂ : List α) :
    (l₁ ++ x :: l₂)[l₁.length]? = some x := by
  simp

/-! ### the three kinds of character `Parser::param` accepts -/

theorem encParams_snoc (S : Regs) (ps : List Nat) (h : S.length < 32) :
    encParams (S ++ [ps]) = S.map encParam ++ encParam ps :: List.replicate (31 - S.length) dflt := by
  have : 32 - (S ++ [ps]).length = 31 - S.length := by
    simp only [List.length_append, List.length_cons, List.length_nil]; omega
  simp only [encParams, this]
  simp

/-- `;` opens a new parameter -/
theorem param_semi (st : PState) (im : Option Nat) (A : Regs) (h1 : 1 ≤ A.length) (h2 : A.length < 32) :
    (conc st im A).param 0x3b = some (conc st im (A ++ [[0]])) := by
  have hp : encParams (A ++ [[0]]) = encParams A := by
    rw [encParams_snoc A [0] h2]
    simp only [encParams]
    congr 1
    have : 32 - A.length = (31 - A.length) + 1 := by omega
    rw [this, List.replicate_succ]
    rfl
  have e : A.length - 1 + 1 = A.length := by omega
  have hne : ¬ (A.length = Gen.paramsLen) := by
    show ¬ (A.length = 32)
    omega
  simp only [Parser.param, conc, hp, if_true, e, hne, if_false, List.length_append, List.length_cons,
    List.length_nil, Nat.zero_add, Nat.add_sub_cancel]

/-- `:` opens a new part of the current parameter -/
theorem param_colon (st : PState) (im : Option Nat) (S : Regs) (ps : List Nat)
    (hS : S.length < 32) (h1 : 1 ≤ ps.length) (h2 : ps.length < 6) :
    (conc st im (S ++ [ps])).param 0x3a = some (conc st im (S ++ [ps ++ [0]])) := by
  have hadd : (encParam ps).addPart = encParam (ps ++ [0]) := by
    simp only [Param.addPart, encParam, List.length_append, List.length_cons, List.length_nil,
      List.append_assoc, List.cons_append, List.nil_append]
    have e1 : min (ps.length - 1 + 1) (Gen.maxParamLen - 1) = ps.length + 1 - 1 := by
      show min (ps.length - 1 + 1) (6 - 1) = ps.length + 1 - 1
      omega
    have e2 : 6 - ps.length = (6 - (ps.length + 1)) + 1 := by omega
    rw [e1, e2, List.replicate_succ]
  have hlen : (S ++ [ps]).length - 1 = (S.map encParam).length := by simp
  simp only [Parser.param, conc, show (0x3a : Nat) ≠ 0x3b by decide, if_false, if_true, modAt]
  rw [encParams_snoc S ps hS, hlen, getElem?_append_cons]
  simp only [set_append_cons, hadd]
  rw [encParams_snoc S (ps ++ [0]) hS]
  simp

/-- what `Param::add_digit` makes of the current value and a digit character -/
def accum (v c : Nat) : Nat := (10 * v + (c - 0x30)) % 65536

/-- a digit extends the current part -/
theorem param_digit (st : PState) (im : Option Nat) (S : Regs) (P : List Nat) (v c : Nat)
    (hS : S.length < 32) (_hP : P.length < 6) (hv : v < 65536) (hc1 : 0x30 ≤ c) (hc2 : c ≤ 0x39) :
    (conc st im (S ++ [P ++ [v]])).param c = some (conc st im (S ++ [P ++ [accum v c]])) := by
  have hne1 : c ≠ 0x3b := by omega
  have hne2 : c ≠ 0x3a := by omega
  have hsub : csub (c % 256) 0x30 = some (c - 0x30) := by
    have : c % 256 = c := Nat.mod_eq_of_lt (by omega)
    simp only [csub, this]
    rw [if_pos hc1]
  have hdig : (encParam (P ++ [v])).addDigit (c - 0x30) = some (encParam (P ++ [accum v c])) := by
    simp only [Param.addDigit, encParam, List.length_append, List.length_cons, List.length_nil,
      Nat.add_sub_cancel, List.append_assoc, List.cons_append, List.nil_append]
    rw [getElem?_append_cons]
    simp only
    rw [if_pos (by omega), set_append_cons]
    rfl
  have hlen : (S ++ [P ++ [v]]).length - 1 = (S.map encParam).length := by simp
  simp only [Parser.param, conc, hne1, hne2, if_false, hsub, modAtM]
  rw [encParams_snoc S _ hS, hlen, getElem?_append_cons]
  simp only [hdig, set_append_cons]
  rw [encParams_snoc S _ hS]
  simp

/-! ### feeding the characters -/

/-- in state `st` the characters satisfying `okc` are handed to `Parser::param` and nothing else
    happens (`CsiParam`: `0`–`9`, `:`, `;`;  `DcsParam`: `0`–`9`, `;`) -/
def ParamState (st : PState) (okc : Nat → Prop) : Prop :=
  ∀ (p : Parser) (c : Nat), p.state = st → okc c →
    p.feed c = match p.param c with | some p' => some (p', none) | none => none

theorem paramState_csi : ParamState .CsiParam (fun c => 0x30 ≤ c ∧ c ≤ 0x3b) := by
  intro p c hs hc
  have harm : ∀ c, c < 60 → 48 ≤ c → Parser.findArm Gen.feedArms .CsiParam (Parser.premap c)
      = some ⟨[⟨some PState.CsiParam, 48, 59⟩], [Act.param]⟩ := by decide
  unfold Parser.feed
  rw [hs, harm c (by omega) hc.1]
  simp only [Parser.runActs]
  cases p.param c <;> rfl

theorem paramState_dcs : ParamState .DcsParam (fun c => (0x30 ≤ c ∧ c ≤ 0x39) ∨ c = 0x3b) := by
  intro p c hs hc
  have harm : ∀ c, c < 60 → 48 ≤ c → c ≠ 58 → Parser.findArm Gen.feedArms .DcsParam (Parser.premap c)
      = some ⟨[⟨some PState.DcsParam, 48, 57⟩, ⟨some PState.DcsParam, 59, 59⟩], [Act.param]⟩ := by decide
  unfold Parser.feed
  rw [hs, harm c (by omega) (by omega) (by omega)]
  simp only [Parser.runActs]
  cases p.param c <;> rfl

section feeding
variable {st : PState} {okc : Nat → Prop} (H : ParamState st okc)
include H

theorem pfeed_step (im : Option Nat) (A B : Regs) (c : Nat) (cs : List Nat) (hc : okc c)
    (hp : (conc st im A).param c = some (conc st im B)) :
    pfeedAll (conc st im A) (c :: cs) = pfeedAll (conc st im B) cs := by
  apply pfeedAll_cons_silent
  rw [H _ c rfl hc, hp]

/-- a run of digits accumulates into the current part -/
theorem pfeed_digits (im : Option Nat) (S : Regs) (P : List Nat) (hS : S.length < 32) (hP : P.length < 6) :
    ∀ (ds : List Nat) (v : Nat), v < 65536 → (∀ d ∈ ds, 0x30 ≤ d ∧ d ≤ 0x39) → (∀ d ∈ ds, okc d) →
      ∀ rest, pfeedAll (conc st im (S ++ [P ++ [v]])) (ds ++ rest)
        = pfeedAll (conc st im (S ++ [P ++ [ds.foldl accum v]])) rest
  | [], v, _, _, _, rest => rfl
  | d :: ds, v, hv, hd, hok, rest => by
    have h1 := hd d (List.mem_cons_self ..)
    rw [List.cons_append, pfeed_step H im _ _ d _ (hok d (List.mem_cons_self ..))
      (param_digit st im S P v d hS hP hv h1.1 h1.2)]
    rw [pfeed_digits im S P hS hP ds (accum v d) (Nat.mod_lt _ (by decide))
      (fun x hx => hd x (List.mem_cons_of_mem _ hx)) (fun x hx => hok x (List.mem_cons_of_mem _ hx)) rest]
    rfl

end feeding

/-- the digits of `x < 65536` accumulate to `x` -/
theorem foldl_accum_digits (x : Nat) (hx : x < 65536) : (digits x).foldl accum 0 = x := by
  induction x using Nat.strongRecOn with
  | _ x ih =>
    rw [digits]
    split
    · simp only [List.foldl_cons, List.foldl_nil, accum]
      omega
    · rw [List.foldl_append, ih (x / 10) (by omega) (by omega)]
      simp only [List.foldl_cons, List.foldl_nil, accum]
      omega

/-! ### rendering -/

/-- `Param::to_string` on the parts in use: `a:b:c` -/
def renderParts : List Nat → List Nat
  | [] => []
  | x :: xs => renderDec x ++ (xs.map fun y => 0x3a :: renderDec y).flatten

/-- the parameter list as `dump()` writes it: `p;p:q;…` -/
def renderAll (A : Regs) : List Nat := List.intercalate [0x3b] (A.map renderParts)

theorem renderParts_cons₂ (x y : Nat) (ys : List Nat) :
    renderParts (x :: y :: ys) = renderDec x ++ 0x3a :: renderParts (y :: ys) := by
  simp [renderParts]

theorem renderAll_cons₂ (ps qs : List Nat) (A : Regs) :
    renderAll (ps :: qs :: A) = renderParts ps ++ 0x3b :: renderAll (qs :: A) := by
  simp [renderAll, List.intercalate]

theorem renderAll_single (ps : List Nat) : renderAll [ps] = renderParts ps := by
  simp [renderAll, List.intercalate]

section feeding2
variable {st : PState} {okc : Nat → Prop} (H : ParamState st okc)
include H

/-- feeding `a:b:c` into a fresh part fills in the parts -/
theorem pfeed_renderParts (im : Option Nat) (S : Regs) (hS : S.length < 32) :
    ∀ (xs : List Nat) (x : Nat) (P : List Nat), (P ++ x :: xs).length ≤ 6 → (∀ y ∈ x :: xs, y < 65536) →
      (∀ c ∈ renderParts (x :: xs), okc c) →
      ∀ rest, pfeedAll (conc st im (S ++ [P ++ [0]])) (renderParts (x :: xs) ++ rest)
        = pfeedAll (conc st im (S ++ [P ++ x :: xs])) rest
  | [], x, P, hlen, hx, hok, rest => by
    have hx' := hx x (List.mem_cons_self ..)
    simp only [renderParts, List.map_nil, List.flatten_nil, List.append_nil] at hok ⊢
    rw [renderDec_eq_digits] at hok ⊢
    rw [pfeed_digits H im S P hS (by simp at hlen; omega) (digits x) 0 (by decide)
      (digits_isDigit x) hok rest, foldl_accum_digits x hx']
  | y :: ys, x, P, hlen, hx, hok, rest => by
    have hx' := hx x (List.mem_cons_self ..)
    rw [renderParts_cons₂] at hok ⊢
    rw [renderDec_eq_digits] at hok ⊢
    have hPlen : P.length + 2 ≤ 6 := by simp at hlen; omega
    rw [List.append_assoc, pfeed_digits H im S P hS (by omega) (digits x) 0 (by decide)
      (digits_isDigit x) (fun d hd => hok d (List.mem_append_left _ hd)) _, foldl_accum_digits x hx']
    rw [List.cons_append, pfeed_step H im _ _ 0x3a _
      (hok 0x3a (List.mem_append_right _ (List.mem_cons_self ..)))
      (param_colon st im S (P ++ [x]) hS (by simp) (by simp; omega))]
    have := pfeed_renderParts im S hS ys y (P ++ [x]) (by simp at hlen ⊢; omega)
      (fun z hz => hx z (List.mem_cons_of_mem _ hz))
      (fun c hc => hok c (List.mem_append_right _ (List.mem_cons_of_mem _ hc))) rest
    rw [this]
    simp

/-- feeding `p;p:q;…` into a fresh parameter fills in the registers -/
theorem pfeed_renderAll (im : Option Nat) :
    ∀ (A : Regs) (ps : List Nat) (S : Regs), (S ++ ps :: A).length ≤ 32 → (∀ qs ∈ ps :: A, PartsOK qs) →
      (∀ c ∈ renderAll (ps :: A), okc c) →
      ∀ rest, pfeedAll (conc st im (S ++ [[0]])) (renderAll (ps :: A) ++ rest)
        = pfeedAll (conc st im (S ++ ps :: A)) rest
  | [], ps, S, hlen, hok, hc, rest => by
    obtain ⟨h1, h2, h3⟩ := hok ps (List.mem_cons_self ..)
    rw [renderAll_single] at hc ⊢
    cases ps with
    | nil => simp at h1
    | cons x xs =>
      have := pfeed_renderParts H im S (by simp at hlen; omega) xs x [] (by simpa using h2) h3 hc rest
      simpa using this
  | qs :: A, ps, S, hlen, hok, hc, rest => by
    obtain ⟨h1, h2, h3⟩ := hok ps (List.mem_cons_self ..)
    have hS : S.length + 2 ≤ 32 := by simp at hlen; omega
    rw [renderAll_cons₂] at hc ⊢
    cases ps with
    | nil => simp at h1
    | cons x xs =>
      have e1 := pfeed_renderParts H im S (by omega) xs x [] (by simpa using h2) h3
        (fun c hcc => hc c (List.mem_append_left _ hcc)) (0x3b :: renderAll (qs :: A) ++ rest)
      simp only [List.nil_append] at e1
      rw [List.append_assoc, e1, List.cons_append]
      rw [pfeed_step H im _ _ 0x3b _ (hc 0x3b (List.mem_append_right _ (List.mem_cons_self ..)))
        (param_semi st im (S ++ [x :: xs]) (by simp) (by simp; omega))]
      have := pfeed_renderAll im A qs (S ++ [x :: xs]) (by simp at hlen ⊢; omega)
        (fun z hz => hok z (List.mem_cons_of_mem _ hz))
        (fun c hcc => hc c (List.mem_append_right _ (List.mem_cons_of_mem _ hcc))) rest
      rw [this]
      simp

end feeding2

/-! ### which characters a rendered parameter list consists of -/

theorem renderParts_chars : ∀ (ps : List Nat), ∀ c ∈ renderParts ps, 0x30 ≤ c ∧ c ≤ 0x3a
  | [], c, h => by simp [renderParts] at h
  | [x], c, h => by
    simp only [renderParts, List.map_nil, List.flatten_nil, List.append_nil] at h
    have := renderDec_isDigit x c h
    omega
  | x :: y :: ys, c, h => by
    rw [renderParts_cons₂] at h
    simp only [List.mem_append, List.mem_cons] at h
    rcases h with h | h | h
    · have := renderDec_isDigit x c h; omega
    · omega
    · exact renderParts_chars (y :: ys) c h

theorem renderAll_chars : ∀ (A : Regs), ∀ c ∈ renderAll A, 0x30 ≤ c ∧ c ≤ 0x3b
  | [], c, h => by simp [renderAll, List.intercalate] at h
  | [ps], c, h => by
    rw [renderAll_single] at h
    have := renderParts_chars ps c h; omega
  | ps :: qs :: A, c, h => by
    rw [renderAll_cons₂] at h
    simp only [List.mem_append, List.mem_cons] at h
    rcases h with h | h | h
    · have := renderParts_chars ps c h; omega
    · omega
    · exact renderAll_chars (qs :: A) c h

/-- without sub-parameters (`DCS`): digits and `;` only -/
theorem renderAll_chars_single : ∀ (A : Regs), (∀ ps ∈ A, ps.length = 1) →
    ∀ c ∈ renderAll A, (0x30 ≤ c ∧ c ≤ 0x39) ∨ c = 0x3b
  | [], _, c, h => by simp [renderAll, List.intercalate] at h
  | [ps], h1, c, h => by
    rw [renderAll_single] at h
    have hl := h1 ps (List.mem_cons_self ..)
    match ps, hl with
    | [x], _ =>
      simp only [renderParts, List.map_nil, List.flatten_nil, List.append_nil] at h
      exact Or.inl (renderDec_isDigit x c h)
  | ps :: qs :: A, h1, c, h => by
    rw [renderAll_cons₂] at h
    simp only [List.mem_append, List.mem_cons] at h
    rcases h with h | h | h
    · have hl := h1 ps (List.mem_cons_self ..)
      match ps, hl with
      | [x], _ =>
        simp only [renderParts, List.map_nil, List.flatten_nil, List.append_nil] at h
        exact Or.inl (renderDec_isDigit x c h)
    · exact Or.inr h
    · exact renderAll_chars_single (qs :: A) (fun r hr => h1 r (List.mem_cons_of_mem _ hr)) c h

/-! ### reading the abstract registers off a parser satisfying `PInv` -/

def decParam (q : Param) : List Nat := q.parts.take (q.curPart + 1)

def decode (p : Parser) : Regs := (p.params.take (p.curParam + 1)).map decParam

theorem encParam_decParam (q : Param) (h : Param.ok q = true) : encParam (decParam q) = q := by
  obtain ⟨cp, parts⟩ := q
  simp only [Param.ok, Bool.and_eq_true, beq_iff_eq, decide_eq_true_eq] at h
  obtain ⟨⟨⟨hlen, hcp⟩, hdrop⟩, _⟩ := h
  have hlen' : parts.length = 6 := hlen
  have hcp' : cp < 6 := hcp
  have hd := Lemmas.C19.all_zero_eq_replicate _ hdrop
  simp only [List.length_drop] at hd
  simp only [encParam, decParam, List.length_take]
  have e1 : min (cp + 1) parts.length - 1 = cp := by omega
  have e2 : 6 - min (cp + 1) parts.length = parts.length - (cp + 1) := by omega
  rw [e1, e2, ← hd, List.take_append_drop]

theorem partsOK_decParam (q : Param) (h : Param.ok q = true) : PartsOK (decParam q) := by
  obtain ⟨cp, parts⟩ := q
  simp only [Param.ok, Bool.and_eq_true, beq_iff_eq, decide_eq_true_eq, List.all_eq_true] at h
  obtain ⟨⟨⟨hlen, hcp⟩, _⟩, hlt⟩ := h
  have hlen' : parts.length = 6 := hlen
  have hcp' : cp < 6 := hcp
  refine ⟨?_, ?_, ?_⟩
  · simp only [decParam, List.length_take]; omega
  · simp only [decParam, List.length_take]; omega
  · intro x hx
    exact hlt x (List.mem_of_mem_take hx)

theorem map_enc_dec : ∀ (qs : List Param), qs.all Param.ok = true → (qs.map decParam).map encParam = qs
  | [], _ => rfl
  | q :: qs, h => by
    simp only [List.all_cons, Bool.and_eq_true] at h
    simp only [List.map_cons, encParam_decParam q h.1, map_enc_dec qs h.2]

/-- under `PInv` the parser *is* the encoding of its abstract registers -/
theorem eq_conc_decode (p : Parser) (h : PInv p = true) :
    p = conc p.state p.intermediate (decode p) ∧ RegsOK (decode p) := by
  simp only [PInv, Bool.and_eq_true, beq_iff_eq, decide_eq_true_eq] at h
  obtain ⟨⟨⟨hlen, hcp⟩, hok⟩, hz⟩ := h
  have hlen' : p.params.length = 32 := hlen
  have hcp' : p.curParam < 32 := hcp
  have hdl : (decode p).length = p.curParam + 1 := by
    simp only [decode, List.length_map, List.length_take]; omega
  have h2 := Lemmas.C19.eq_replicate_default (p.params.drop (p.curParam + 1))
    (Lemmas.C19.all_drop _ _ _ hok) hz
  have h1 := map_enc_dec (p.params.take (p.curParam + 1)) (Lemmas.C19.all_take _ _ _ hok)
  constructor
  · obtain ⟨st, ps, cp, im⟩ := p
    simp only [conc, Parser.mk.injEq, true_and, and_true]
    simp only at hdl hlen' hcp' h1 h2
    constructor
    · simp only [encParams, hdl]
      simp only [decode, h1]
      have : 32 - (cp + 1) = (ps.drop (cp + 1)).length := by simp only [List.length_drop]; omega
      rw [this]
      conv => lhs; rw [← List.take_append_drop (cp + 1) ps, h2]
      rfl
    · omega
  · refine ⟨by omega, by omega, ?_⟩
    intro ps hps
    simp only [decode, List.mem_map] at hps
    obtain ⟨q, hq, rfl⟩ := hps
    have : Param.ok q = true := by
      simp only [List.all_eq_true] at hok
      exact hok q (List.mem_of_mem_take hq)
    exact partsOK_decParam q this

theorem render_eq_renderParts (q : Param) (h : Param.ok q = true) :
    Parser.Param.render q = some (renderParts (decParam q)) := by
  obtain ⟨cp, parts⟩ := q
  simp only [Param.ok, Bool.and_eq_true, beq_iff_eq, decide_eq_true_eq] at h
  obtain ⟨⟨⟨hlen, hcp⟩, _⟩, _⟩ := h
  have hlen' : parts.length = 6 := hlen
  simp only [Parser.Param.render, Param.partsSlice, decParam]
  rw [if_pos (by omega)]
  match hm : parts.take (cp + 1) with
  | [] =>
    have := congrArg List.length hm
    simp only [List.length_take, List.length_nil] at this
    omega
  | first :: rest => simp [renderParts]

theorem mapM_render : ∀ (qs : List Param), qs.all Param.ok = true →
    qs.mapM Parser.Param.render = some ((qs.map decParam).map renderParts)
  | [], _ => rfl
  | q :: qs, h => by
    simp only [List.all_cons, Bool.and_eq_true] at h
    simp [List.mapM_cons, render_eq_renderParts q h.1, mapM_render qs h.2]

/-- `Parser::dump`'s parameter string is the rendering of the abstract registers -/
theorem renderParams_eq (p : Parser) (h : PInv p = true) :
    Parser.renderParams p = some (renderAll (decode p)) := by
  simp only [PInv, Bool.and_eq_true, beq_iff_eq, decide_eq_true_eq] at h
  obtain ⟨⟨⟨hlen, hcp⟩, hok⟩, _⟩ := h
  have hlen' : p.params.length = 32 := hlen
  have hcp' : p.curParam < 32 := hcp
  simp only [Parser.renderParams, Parser.activeParams]
  rw [if_pos (by omega)]
  simp only [mapM_render _ (Lemmas.C19.all_take _ _ (p.curParam + 1) hok)]
  rfl

end Lemmas.C11
end Avt
