/-
  Avt.Lemmas.C10Terminal — from `Buffer.resize` to `Terminal.resize` and `Vt.resize`.
-/
import Avt.Lemmas.C10Lines

namespace Avt.Lemmas
open Avt Avt.Spec.C10

/-- `Terminal.reflow` changes the buffer only through `Buffer.resize` at the terminal's size, and puts
    the cursor where `Buffer.resize` says -/
theorem terminal_reflow_buffer {t t' : Terminal} (h : t.reflow = some t') :
    ∃ cur', t.buffer.resize t.cols t.rows (t.cursor.col, t.cursor.row) = some (t'.buffer, cur')
      ∧ t'.cursor.col = cur'.1 ∧ t'.cursor.row = cur'.2
      ∧ t'.pendingWrap = (if t.cols ≠ t.buffer.cols then false else t.pendingWrap)
      ∧ t'.activeBufferType = t.activeBufferType ∧ t'.scrollbackLimit = t.scrollbackLimit := by
  unfold Terminal.reflow at h
  simp only at h
  generalize ht0 : (if t.cols ≠ t.buffer.cols then { t with pendingWrap := false } else t) = t0 at h
  have e1 : t0.buffer = t.buffer ∧ t0.cols = t.cols ∧ t0.rows = t.rows ∧ t0.cursor = t.cursor
      ∧ t0.activeBufferType = t.activeBufferType ∧ t0.scrollbackLimit = t.scrollbackLimit
      ∧ t0.pendingWrap = (if t.cols ≠ t.buffer.cols then false else t.pendingWrap) := by
    rw [← ht0]; split <;> simp_all
  obtain ⟨eb, ec, er, ecur, eabt, esl, epw⟩ := e1
  rw [eb, ec, er, ecur] at h
  cases hr : t.buffer.resize t.cols t.rows (t.cursor.col, t.cursor.row) with
  | none => simp [hr] at h
  | some res =>
    obtain ⟨b, col, row⟩ := res
    simp only [hr, Terminal.markDirtyRange] at h
    refine ⟨(col, row), ?_⟩
    cases hd : Dirty.extend (Dirty.resize t0.dirtyLines t.rows) 0 t.rows with
    | none => simp [hd] at h
    | some d =>
      simp only [hd, Option.map_some] at h
      split at h
      · simp at h
      · rename_i t2 ht2
        have e2 : t2.buffer = b ∧ t2.cursor.col = col ∧ t2.cursor.row = row
            ∧ t2.pendingWrap = t0.pendingWrap ∧ t2.activeBufferType = t0.activeBufferType
            ∧ t2.scrollbackLimit = t0.scrollbackLimit := by
          split at ht2
          · cases hc : csub t.cols 1 with
            | none => simp [hc] at ht2
            | some c1 => simp [hc] at ht2; subst ht2; simp
          · simp at ht2; subst ht2; simp
        obtain ⟨f1, f2, f3, f4, f5, f6⟩ := e2
        have e3 : t'.buffer = t2.buffer ∧ t'.cursor = t2.cursor ∧ t'.pendingWrap = t2.pendingWrap
            ∧ t'.activeBufferType = t2.activeBufferType ∧ t'.scrollbackLimit = t2.scrollbackLimit := by
          split at h
          · cases hc : csub t2.rows 1 with
            | none => simp [hc] at h
            | some r1 => simp [hc] at h; subst h; simp
          · simp at h; subst h; simp
        obtain ⟨g1, g2, g3, g4, g5⟩ := e3
        refine ⟨by rw [g1, f1], by rw [g2, f2], by rw [g2, f3], by rw [g3, f4, epw],
          by rw [g4, f5, eabt], by rw [g5, f6, esl]⟩

/-- `Terminal.resize` changes the buffer only through `Buffer.resize` -/
theorem terminal_resize_buffer {t t' : Terminal} {c r : Nat} (h : t.resize c r = some t') :
    ∃ cur', t.buffer.resize c r (t.cursor.col, t.cursor.row) = some (t'.buffer, cur')
      ∧ t'.cursor.col = cur'.1 ∧ t'.cursor.row = cur'.2
      ∧ t'.pendingWrap = (if c ≠ t.buffer.cols then false else t.pendingWrap)
      ∧ t'.activeBufferType = t.activeBufferType ∧ t'.scrollbackLimit = t.scrollbackLimit := by
  unfold Terminal.resize at h
  simp only at h
  generalize ht0 : (if c < t.cols then { t with tabs := Tabs.contract t.tabs c }
      else if c > t.cols then { t with tabs := Tabs.expand t.tabs t.cols c } else t) = t0 at h
  have e1 : t0.buffer = t.buffer ∧ t0.cursor = t.cursor ∧ t0.pendingWrap = t.pendingWrap
      ∧ t0.activeBufferType = t.activeBufferType ∧ t0.scrollbackLimit = t.scrollbackLimit := by
    rw [← ht0]; split
    · simp
    · split <;> simp
  obtain ⟨eb, ecur, epw, eabt, esl⟩ := e1
  split at h
  · simp at h
  · rename_i t1 ht1
    have e2 : t1.buffer = t0.buffer ∧ t1.cursor = t0.cursor ∧ t1.pendingWrap = t0.pendingWrap
        ∧ t1.activeBufferType = t0.activeBufferType ∧ t1.scrollbackLimit = t0.scrollbackLimit := by
      split at ht1
      · cases hc : csub r 1 with
        | none => simp [hc] at ht1
        | some r1 => simp [hc] at ht1; subst ht1; simp
      · simp at ht1; subst ht1; simp
    obtain ⟨f1, f2, f3, f4, f5⟩ := e2
    obtain ⟨cur', h1, h2, h3, h4, h5, h6⟩ := terminal_reflow_buffer h
    simp only at h1 h4 h5 h6
    rw [f1, eb, f2, ecur] at h1
    refine ⟨cur', h1, h2, h3, ?_, by rw [h5, f4, eabt], by rw [h6, f5, esl]⟩
    rw [h4, f1, eb, f3, epw]

/-- with an unlimited scrollback `gc` keeps every line -/
theorem gc_lines_unlimited {b : Buffer} (h : b.limit = none) : b.gc.1.lines = b.lines := by
  unfold Buffer.gc
  split
  · simp [h, Buffer.lines]
  · rfl

/-- `Vt.resize` (= `Terminal.resize`, then `changes()` and `gc()`) on an unlimited buffer -/
theorem vt_resize_buffer {v v' : Vt} {c r : Nat} {ch : Changes}
    (hlim : v.terminal.buffer.limit = none) (h : v.resize c r = some (v', ch)) :
    ∃ b' cur', v.terminal.buffer.resize c r (v.terminal.cursor.col, v.terminal.cursor.row) = some (b', cur')
      ∧ v'.terminal.buffer.lines = b'.lines
      ∧ v'.terminal.buffer.sb.length = b'.sb.length
      ∧ v'.terminal.buffer.cols = b'.cols ∧ v'.terminal.buffer.rows = b'.rows
      ∧ v'.terminal.cursor.col = cur'.1 ∧ v'.terminal.cursor.row = cur'.2 := by
  unfold Vt.resize at h
  cases ht : v.terminal.resize c r with
  | none => simp [ht] at h
  | some t' =>
    simp only [ht, Option.map_some, Option.some.injEq] at h
    obtain ⟨cur', h1, h2, h3, -, -, -⟩ := terminal_resize_buffer ht
    have hlim' : t'.buffer.limit = none := by
      unfold Buffer.resize at h1
      simp only at h1
      split at h1
      · simp at h1
      · split at h1
        · simp at h1
        · split at h1
          · simp at h1
          · split at h1
            · simp at h1
            · simp only [Option.some.injEq, Prod.mk.injEq] at h1
              rw [← h1.1]; exact hlim
    refine ⟨t'.buffer, cur', h1, ?_⟩
    have hv : v'.terminal = ((Terminal.changes t').1.gc).1 := by
      simp only [Vt.finish] at h
      rw [← (Prod.mk.inj h).1]
    have hb : v'.terminal.buffer = t'.buffer.gc.1 := by
      rw [hv]; simp [Terminal.gc, Terminal.changes]
    have hcur : v'.terminal.cursor = t'.cursor := by
      rw [hv]; simp [Terminal.gc, Terminal.changes]
    have hgc : t'.buffer.gc.1 = { t'.buffer with trimNeeded := false } ∨ t'.buffer.gc.1 = t'.buffer := by
      unfold Buffer.gc
      split
      · left; simp [hlim']
      · right; rfl
    rw [hb, hcur]
    refine ⟨gc_lines_unlimited hlim', ?_, ?_, ?_, h2, h3⟩ <;>
      rcases hgc with e | e <;> rw [e]

end Avt.Lemmas
