/-
  Avt.Lemmas.C09Text — characterisation of `Buffer.text` (`textGo`) and of `TextUnwrapper`
  (`unwrapPush` / `unwrapMany`), and the `trimEnd` lemmas they need.
-/
import Avt.Spec.C09
import Avt.Lemmas.C09Rstrip

namespace Avt.Lemmas
open Avt

/-! ### general list facts -/

theorem exists_snoc {α} : ∀ {xs : List α}, xs ≠ [] → ∃ ini l, xs = ini ++ [l]
  | [], h => absurd rfl h
  | [x], _ => ⟨[], x, rfl⟩
  | x :: y :: t, _ => by
    obtain ⟨ini, l, h⟩ := exists_snoc (xs := y :: t) (by simp)
    exact ⟨x :: ini, l, by rw [h]; rfl⟩

theorem lastUnwrapped_append {xs ys : List Line} (hy : ys ≠ []) :
    lastUnwrapped (xs ++ ys) = lastUnwrapped ys := by
  induction xs with
  | nil => rfl
  | cons l t ih =>
    cases htl : t ++ ys with
    | nil => simp at htl; exact absurd htl.2 hy
    | cons z zs =>
      rw [List.cons_append, htl]
      simp only [lastUnwrapped]
      rw [← htl, ih]

theorem lastUnwrapped_snoc (ini : List Line) (l : Line) :
    lastUnwrapped (ini ++ [l]) = !l.wrapped := by
  rw [lastUnwrapped_append (by simp)]; rfl

/-! ### trimEnd -/

theorem trimEnd_eq (s : List Nat) : trimEnd s = rstrip isWhitespace s := rfl

theorem trimEnd_nil : trimEnd [] = [] := rfl

theorem trimEnd_idem (s : List Nat) : trimEnd (trimEnd s) = trimEnd s := rstrip_idem _ s

/-- a line ending in a non-white-space character is left alone -/
theorem trimEnd_append_singleton {xs : List Nat} {c : Nat} (h : isWhitespace c = false) :
    trimEnd (xs ++ [c]) = xs ++ [c] := rstrip_append_singleton_neg _ h

/-- trailing white space goes away -/
theorem trimEnd_append_ws {xs ws : List Nat} (h : ∀ c ∈ ws, isWhitespace c = true) :
    trimEnd (xs ++ ws) = trimEnd xs := rstrip_append_of_all _ h

theorem trimEnd_append_spaces (xs : List Nat) (k : Nat) :
    trimEnd (xs ++ List.replicate k 0x20) = trimEnd xs :=
  trimEnd_append_ws (by intro c hc; rw [(List.mem_replicate.1 hc).2]; decide)

theorem trimEnd_append_trimEnd (a b : List Nat) : trimEnd (a ++ trimEnd b) = trimEnd (a ++ b) :=
  rstrip_append_rstrip _ a b

theorem trimEnd_prefix (s : List Nat) : trimEnd s <+: s := rstrip_prefix _ s

theorem trimEnd_append_of_ne {a b : List Nat} (h : trimEnd b ≠ []) :
    trimEnd (a ++ b) = a ++ trimEnd b := rstrip_append_of_ne _ h

theorem trimEnd_eq_nil_iff {b : List Nat} : trimEnd b = [] ↔ ∀ c ∈ b, isWhitespace c = true :=
  rstrip_eq_nil_iff _

/-- `trimEnd` splits a string into itself and a white-space tail -/
theorem trimEnd_decomp (s : List Nat) : ∃ ws, s = trimEnd s ++ ws ∧ ∀ c ∈ ws, isWhitespace c = true :=
  rstrip_decomp _ s

/-! ### Buffer.text -/

/-- the texts of the rows joined along wrap marks, starting from an open text `cur` (the shape of
    `textGo` without the trimming: a trailing open text is emitted only when it is non-empty, as the
    Rust code does) -/
def joinText : List Line → List Nat → List (List Nat)
  | [], cur => if cur.isEmpty then [] else [cur]
  | l :: ls, cur => if l.wrapped then joinText ls (cur ++ l.text) else (cur ++ l.text) :: joinText ls []

/-- `Buffer::text` of a list of rows = for each maximal group of rows joined along wrap marks,
    `trimEnd` of the concatenated characters -/
theorem textGo_spec (ls : List Line) (cur : List Nat) :
    Buffer.textGo ls cur = (joinText ls cur).map trimEnd := by
  induction ls generalizing cur with
  | nil =>
    simp only [Buffer.textGo, joinText]
    split <;> simp
  | cons l t ih =>
    simp only [Buffer.textGo, joinText]
    cases hw : l.wrapped with
    | true => simp [ih]
    | false => simp [ih]

theorem text_spec (b : Buffer) : b.text = (joinText b.lines []).map trimEnd := textGo_spec _ _

theorem joinText_cons_unwrapped {l : Line} (h : l.wrapped = false) (t : List Line) (cur : List Nat) :
    joinText (l :: t) cur = (cur ++ l.text) :: joinText t [] := by
  simp [joinText, h]

theorem joinText_cons_wrapped {l : Line} (h : l.wrapped = true) (t : List Line) (cur : List Nat) :
    joinText (l :: t) cur = joinText t (cur ++ l.text) := by
  simp [joinText, h]

/-- rows up to and including an unwrapped row close their logical lines: the text of what follows
    starts afresh -/
theorem joinText_append {xs : List Line} (h : lastUnwrapped xs = true) (hne : xs ≠ []) (ys : List Line)
    (cur : List Nat) : joinText (xs ++ ys) cur = joinText xs cur ++ joinText ys [] := by
  induction xs generalizing cur with
  | nil => exact absurd rfl hne
  | cons l t ih =>
    cases t with
    | nil =>
      have hl : l.wrapped = false := by simpa [lastUnwrapped] using h
      simp [joinText, hl]
    | cons l2 t2 =>
      have h' : lastUnwrapped (l2 :: t2) = true := by simpa [lastUnwrapped] using h
      cases hw : l.wrapped with
      | false =>
        rw [List.cons_append, joinText_cons_unwrapped hw, joinText_cons_unwrapped hw,
          ih h' (by simp)]
        rfl
      | true =>
        rw [List.cons_append, joinText_cons_wrapped hw, joinText_cons_wrapped hw, ih h' (by simp)]

theorem textGo_append {xs : List Line} (h : lastUnwrapped xs = true) (hne : xs ≠ []) (ys : List Line)
    (cur : List Nat) : Buffer.textGo (xs ++ ys) cur = Buffer.textGo xs cur ++ Buffer.textGo ys [] := by
  rw [textGo_spec, textGo_spec, textGo_spec, joinText_append h hne, List.map_append]

/-! ### TextUnwrapper -/

/-- what `TextUnwrapper` emits for a list of rows, starting from accumulator `acc`: the wrapped rows
    are accumulated untrimmed, the closing row is trimmed on its own -/
def unwrapOut : List Line → List Nat → List (List Nat)
  | [], _ => []
  | l :: ls, acc =>
    if l.wrapped then unwrapOut ls (acc ++ l.text) else (acc ++ trimEnd l.text) :: unwrapOut ls []

/-- the accumulator `TextUnwrapper` is left with -/
def unwrapAcc : List Line → List Nat → List Nat
  | [], acc => acc
  | l :: ls, acc => if l.wrapped then unwrapAcc ls (acc ++ l.text) else unwrapAcc ls []

theorem unwrapMany_spec (ls : List Line) (acc : List Nat) :
    unwrapMany acc ls = (unwrapAcc ls acc, unwrapOut ls acc) := by
  induction ls generalizing acc with
  | nil => rfl
  | cons l t ih =>
    simp only [unwrapMany, unwrapPush, unwrapAcc, unwrapOut]
    cases hw : l.wrapped with
    | true => simp [ih]
    | false => simp [ih]

/-- `TextUnwrapper` is a fold that commutes with list append -/
theorem unwrapMany_append (xs ys : List Line) (acc : List Nat) :
    unwrapMany acc (xs ++ ys) =
      ((unwrapMany (unwrapMany acc xs).1 ys).1,
       (unwrapMany acc xs).2 ++ (unwrapMany (unwrapMany acc xs).1 ys).2) := by
  induction xs generalizing acc with
  | nil => simp [unwrapMany]
  | cons l t ih =>
    simp only [List.cons_append, unwrapMany, unwrapPush]
    cases hw : l.wrapped with
    | true => simp [ih]
    | false => simp [ih]

theorem unwrapOut_cons_wrapped {l : Line} (h : l.wrapped = true) (t : List Line) (acc : List Nat) :
    unwrapOut (l :: t) acc = unwrapOut t (acc ++ l.text) := by
  simp [unwrapOut, h]

theorem unwrapOut_cons_unwrapped {l : Line} (h : l.wrapped = false) (t : List Line) (acc : List Nat) :
    unwrapOut (l :: t) acc = (acc ++ trimEnd l.text) :: unwrapOut t [] := by
  simp [unwrapOut, h]

theorem textGo_cons_wrapped {l : Line} (h : l.wrapped = true) (t : List Line) (cur : List Nat) :
    Buffer.textGo (l :: t) cur = Buffer.textGo t (cur ++ l.text) := by
  simp [Buffer.textGo, h]

theorem textGo_cons_unwrapped {l : Line} (h : l.wrapped = false) (t : List Line) (cur : List Nat) :
    Buffer.textGo (l :: t) cur = trimEnd (cur ++ l.text) :: Buffer.textGo t [] := by
  simp [Buffer.textGo, h]

/-- each emitted unwrapped line is the text of the joined rows with the *final row* trimmed: it
    agrees with `Buffer::text` up to trailing white space -/
theorem unwrapOut_trimEnd (ls : List Line) (acc : List Nat) (h : lastUnwrapped ls = true) :
    (unwrapOut ls acc).map trimEnd = Buffer.textGo ls acc ∨ ls = [] := by
  induction ls generalizing acc with
  | nil => exact Or.inr rfl
  | cons l t ih =>
    left
    cases t with
    | nil =>
      have hl : l.wrapped = false := by simpa [lastUnwrapped] using h
      rw [unwrapOut_cons_unwrapped hl, textGo_cons_unwrapped hl]
      simp [unwrapOut, Buffer.textGo, trimEnd_append_trimEnd]
    | cons l2 t2 =>
      have h' : lastUnwrapped (l2 :: t2) = true := by simpa [lastUnwrapped] using h
      cases hw : l.wrapped with
      | true =>
        rcases ih (acc ++ l.text) h' with h1 | h1
        · rw [unwrapOut_cons_wrapped hw, textGo_cons_wrapped hw, h1]
        · simp at h1
      | false =>
        rcases ih [] h' with h1 | h1
        · rw [unwrapOut_cons_unwrapped hw, textGo_cons_unwrapped hw, List.map_cons, h1,
            trimEnd_append_trimEnd]
        · simp at h1

theorem unwrapOut_append {xs : List Line} (h : lastUnwrapped xs = true) (hne : xs ≠ []) (ys : List Line)
    (acc : List Nat) : unwrapOut (xs ++ ys) acc = unwrapOut xs acc ++ unwrapOut ys [] := by
  induction xs generalizing acc with
  | nil => exact absurd rfl hne
  | cons l t ih =>
    cases t with
    | nil =>
      have hl : l.wrapped = false := by simpa [lastUnwrapped] using h
      rw [List.cons_append, unwrapOut_cons_unwrapped hl, unwrapOut_cons_unwrapped hl]
      simp [unwrapOut]
    | cons l2 t2 =>
      have h' : lastUnwrapped (l2 :: t2) = true := by simpa [lastUnwrapped] using h
      cases hw : l.wrapped with
      | false =>
        rw [List.cons_append, unwrapOut_cons_unwrapped hw, unwrapOut_cons_unwrapped hw, ih h' (by simp)]
        rfl
      | true =>
        rw [List.cons_append, unwrapOut_cons_wrapped hw, unwrapOut_cons_wrapped hw, ih h' (by simp)]

open Avt.Spec.C09 in
theorem prefixwise_append {A B : List (List Nat)} (hlen : A.length = B.length)
    (h : prefixwise A B = true) {A' B' : List (List Nat)} (h' : prefixwise A' B' = true) :
    prefixwise (A ++ A') (B ++ B') = true := by
  induction A generalizing B with
  | nil =>
    cases B with
    | nil => exact h'
    | cons _ _ => simp at hlen
  | cons a as ih =>
    cases B with
    | nil => simp at hlen
    | cons b bs =>
      simp only [prefixwise, Bool.and_eq_true] at h
      simp only [List.cons_append, prefixwise, Bool.and_eq_true]
      exact ⟨h.1, ih (by simpa using hlen) h.2⟩

/-- `TextUnwrapper` over all rows of a buffer whose last row is unwrapped gives `text()` up to
    trailing white space (C09, second clause, as a statement about any buffer) -/
theorem unwrap_text (ls : List Line) (h : lastUnwrapped ls = true) :
    (unwrapMany [] ls).2.map trimEnd = Buffer.textGo ls [] := by
  rw [unwrapMany_spec]
  rcases unwrapOut_trimEnd ls [] h with h1 | h1
  · exact h1
  · subst h1; rfl

end Avt.Lemmas
