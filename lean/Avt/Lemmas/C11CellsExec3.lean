/-
  Avt.Lemmas.C11CellsExec3 — what the parser guarantees about the function it emits (`FnOK`):
  `Print` only for printable characters, SGR colours inside `u8`.
-/
import Avt.Lemmas.C11CellsDef
import Avt.Lemmas.C11StepsBase

namespace Avt
namespace Lemmas.C11
open Avt.Spec.C11 Avt.Spec.C08

theorem lookup_mem' {α : Type} : ∀ (l : List (Nat × α)) (k : Nat) (v : α), l.lookup k = some v → (k, v) ∈ l
  | [], _, _, h => by cases h
  | (a, b) :: l, k, v, h => by
    rw [List.lookup_cons] at h
    split at h
    · rename_i hk
      have : k = a := by simpa using hk
      cases h; subst this; exact List.mem_cons_self
    · exact List.mem_cons_of_mem _ (lookup_mem' l k v h)

theorem execTable_fnOK : ∀ x ∈ Gen.execTable, FnOK x.2 := by
  intro x hx
  simp only [Gen.execTable, List.mem_cons, List.not_mem_nil, or_false] at hx
  rcases hx with rfl | rfl | rfl | rfl | rfl | rfl | rfl | rfl | rfl | rfl | rfl | rfl <;> trivial

theorem execute_fnOK {c : Nat} {f : Function} (h : Parser.execute c = some f) : FnOK f :=
  execTable_fnOK _ (lookup_mem' _ _ _ h)

theorem u8_lt (n : Nat) : Parser.u8 n < 256 := Nat.mod_lt _ (by decide)

theorem sgrColour_ok (mk : Color → SgrOp) (hmk : ∀ c, ColorOK c → SgrOpOK (mk c)) (rest : List Param)
    {op : SgrOp} {k : Nat}
    (h : (match rest with
      | [] => some (none, 0)
      | q :: _ =>
        match q.partsSlice with
        | none => none
        | some [2] =>
          match rest[3]?, rest[1]?, rest[2]? with
          | some b, some r, some g =>
            match r.asU16, g.asU16, b.asU16 with
            | some r, some g, some b => some (some (mk (.rgb (Parser.u8 r) (Parser.u8 g) (Parser.u8 b))), 4)
            | _, _, _ => none
          | none, _, _ => some (none, 1)
          | _, _, _ => none
        | some [5] =>
          match rest[1]? with
          | some i =>
            match i.asU16 with
            | some i => some (some (mk (.indexed (Parser.u8 i))), 2)
            | none => none
          | none => some (none, 1)
        | some _ => some (none, 0) : Option (Option SgrOp × Nat)) = some (some op, k)) : SgrOpOK op := by
  repeat' split at h
  all_goals first
    | (cases h; done)
    | (simp only [Option.some.injEq, Prod.mk.injEq] at h
       obtain ⟨rfl, _⟩ := h
       apply hmk
       first | exact ⟨u8_lt _, u8_lt _, u8_lt _⟩ | exact u8_lt _)

theorem sgrStep_ok {p : Param} {rest : List Param} {op : SgrOp} {k : Nat}
    (h : Parser.sgrStep p rest = some (some op, k)) : SgrOpOK op := by
  unfold Parser.sgrStep at h
  split at h
  · cases h
  · simp only at h
    split at h
    all_goals first
      | (simp only [Option.some.injEq, Prod.mk.injEq] at h
         obtain ⟨rfl, _⟩ := h
         first | trivial | exact ⟨u8_lt _, u8_lt _, u8_lt _⟩ | exact u8_lt _)
      | exact sgrColour_ok SgrOp.setFg (fun c hc => hc) _ h
      | exact sgrColour_ok SgrOp.setBg (fun c hc => hc) _ h
      | (cases h; done)
      | (repeat' split at h
         all_goals first
           | (cases h; done)
           | (simp only [Option.some.injEq, Prod.mk.injEq] at h
              obtain ⟨rfl, _⟩ := h
              exact u8_lt _))

theorem sgrGo_ok : ∀ (ps : List Param) (skip : Nat) (ops : List SgrOp),
    Parser.sgrGo skip ps = some ops → ∀ op ∈ ops, SgrOpOK op
  | [], skip, ops, h => by
    have : ops = [] := by cases skip <;> simpa [Parser.sgrGo] using h.symm
    subst this
    intro op hop; cases hop
  | _ :: rest, skip + 1, ops, h => by
    rw [Parser.sgrGo] at h
    exact sgrGo_ok rest skip ops h
  | p :: rest, 0, ops, h => by
    rw [Parser.sgrGo] at h
    split at h
    · cases h
    · rename_i o sk hs
      split at h
      · cases h
      · rename_i ops' hg
        have ih := sgrGo_ok rest sk ops' hg
        cases h
        cases o with
        | none => exact ih
        | some o =>
          intro op hop
          rcases List.mem_cons.1 hop with rfl | hop
          · exact sgrStep_ok hs
          · exact ih _ hop

/-- what every right-hand side of the `csi_dispatch` table produces, apart from the collecting arms -/
def CsiRhsOK : CsiRhs → Prop
  | .f1 g => ∀ n, FnOK (g n)
  | .f2 g => ∀ a b, FnOK (g a b)
  | .sel cases => ∀ x ∈ cases, FnOK x.2
  | .const f => FnOK f
  | _ => True

theorem csiArms_ok : ∀ a ∈ Gen.csiArms, CsiRhsOK a.rhs := by
  intro a ha
  simp only [Gen.csiArms, List.mem_cons, List.not_mem_nil, or_false] at ha
  rcases ha with rfl | rfl | rfl | rfl | rfl | rfl | rfl | rfl | rfl | rfl | rfl | rfl | rfl | rfl | rfl
    | rfl | rfl | rfl | rfl | rfl | rfl | rfl | rfl | rfl | rfl | rfl | rfl | rfl | rfl | rfl | rfl | rfl
    | rfl | rfl | rfl | rfl | rfl
  all_goals simp [CsiRhsOK, FnOK]

theorem csiDispatch_fnOK {p : Parser} {c : Nat} {f : Function}
    (h : p.csiDispatch c = some (some f)) : FnOK f := by
  unfold Parser.csiDispatch at h
  split at h
  · cases h
  · rename_i a ha
    have hok := csiArms_ok a (List.mem_of_find?_eq_some ha)
    split at h
    · rename_i g hr
      rw [hr] at hok
      cases hp : p.paramU16 0 <;> simp [hp] at h
      subst h; exact hok _
    · rename_i g hr
      rw [hr] at hok
      split at h
      · simp only [Option.some.injEq] at h
        subst h; exact hok _ _
      · cases h
    · rename_i cs hr
      rw [hr] at hok
      cases hp : p.paramU16 0 <;> simp [hp] at h
      exact hok _ (lookup_mem' _ _ _ h)
    · rename_i g hr
      rw [hr] at hok
      simp only [Option.some.injEq] at h
      subst h; exact hok
    · cases hp : p.collectModes Parser.ansiMode <;> simp [hp] at h
      subst h; trivial
    · cases hp : p.collectModes Parser.ansiMode <;> simp [hp] at h
      subst h; trivial
    · cases hp : p.collectModes Parser.decMode <;> simp [hp] at h
      subst h; trivial
    · cases hp : p.collectModes Parser.decMode <;> simp [hp] at h
      subst h; trivial
    · split at h
      · cases h
      · rename_i ps _
        cases hs : Parser.sgrOps ps <;> simp [hs] at h
        subst h
        exact sgrGo_ok _ _ _ hs
    · split at h
      · simp only [Option.some.injEq] at h
        split at h
        · simp only [Option.some.injEq] at h
          subst h; trivial
        · cases h
      · cases h

def EscRhsOK : EscRhs → Prop
  | .execPlus _ => True
  | .fn f => FnOK f
  | .fnGround f => FnOK f

theorem escArms_ok : ∀ a ∈ Gen.escArms, EscRhsOK a.rhs := by
  intro a ha
  simp only [Gen.escArms, List.mem_cons, List.not_mem_nil, or_false] at ha
  rcases ha with rfl | rfl | rfl | rfl | rfl | rfl | rfl | rfl | rfl <;> trivial

theorem escDispatch_fnOK {p p' : Parser} {c : Nat} {f : Function}
    (h : p.escDispatch c = some (p', some f)) : FnOK f := by
  unfold Parser.escDispatch at h
  split at h
  · cases h
  · rename_i a ha
    have hok := escArms_ok a (List.mem_of_find?_eq_some ha)
    split at h
    · simp only at h
      split at h
      · simp only [Option.some.injEq, Prod.mk.injEq] at h
        exact execute_fnOK h.2
      · cases h
    · rename_i g hr
      rw [hr] at hok
      simp only [Option.some.injEq, Prod.mk.injEq] at h
      obtain ⟨_, rfl⟩ := h; exact hok
    · rename_i g hr
      rw [hr] at hok
      simp only [Option.some.injEq, Prod.mk.injEq] at h
      obtain ⟨_, rfl⟩ := h; exact hok

theorem runActs_fnOK {input : Nat} {p' : Parser} {f : Function} :
    ∀ (acts : List Act) (p : Parser), (Act.retPrint ∈ acts → printableCh input = true) →
      Parser.runActs acts p input = some (p', some f) → FnOK f
  | [], p, _, h => by simp [Parser.runActs] at h
  | a :: as, p, hpr, h => by
    have hpr' : Act.retPrint ∈ as → printableCh input = true := fun hm => hpr (List.mem_cons_of_mem _ hm)
    cases a with
    | setState s => exact runActs_fnOK as _ hpr' (by simpa [Parser.runActs] using h)
    | clear =>
      simp only [Parser.runActs] at h
      split at h
      · exact runActs_fnOK as _ hpr' h
      · cases h
    | collect => exact runActs_fnOK as _ hpr' (by simpa [Parser.runActs] using h)
    | param =>
      simp only [Parser.runActs] at h
      split at h
      · exact runActs_fnOK as _ hpr' h
      · cases h
    | put => exact runActs_fnOK as _ hpr' (by simpa [Parser.runActs] using h)
    | oscPut => exact runActs_fnOK as _ hpr' (by simpa [Parser.runActs] using h)
    | retExecute =>
      simp only [Parser.runActs, Option.some.injEq, Prod.mk.injEq] at h
      exact execute_fnOK h.2
    | retCsiDispatch =>
      simp only [Parser.runActs] at h
      cases hc : p.csiDispatch input <;> simp [hc] at h
      obtain ⟨_, rfl⟩ := h
      exact csiDispatch_fnOK hc
    | retEscDispatch =>
      simp only [Parser.runActs] at h
      exact escDispatch_fnOK h
    | retPrint =>
      simp only [Parser.runActs, Option.some.injEq, Prod.mk.injEq] at h
      obtain ⟨_, rfl⟩ := h
      exact hpr List.mem_cons_self

theorem feedArms_retPrint : ∀ a ∈ Gen.feedArms, Act.retPrint ∈ a.acts →
    a = ⟨[⟨some PState.Ground, 32, 127⟩], [Act.retPrint]⟩ := by decide

theorem premap_printable {st : PState} {c : Nat}
    (h : Parser.Arm.matches ⟨[⟨some PState.Ground, 32, 127⟩], [Act.retPrint]⟩ st (Parser.premap c) = true) :
    printableCh c = true := by
  have e1 : Gen.premapFrom = 160 := rfl
  have e2 : Gen.premapTo = 65 := rfl
  simp only [Parser.Arm.matches, Parser.Pat.matches, List.any_cons, List.any_nil, Bool.or_false,
    Bool.and_eq_true, decide_eq_true_eq, Parser.premap, e1, e2] at h
  simp only [printableCh, Bool.or_eq_true, Bool.and_eq_true, decide_eq_true_eq]
  split at h <;> omega

set_option linter.unusedVariables false in
/-- the parser emits `Print` only for printable characters and SGR colours inside u8 -/
theorem parser_emits_fnOK {p p' : Parser} {c : Nat} {f : Function} (hp : PInv p = true)
    (h : p.feed c = some (p', some f)) : FnOK f := by
  unfold Parser.feed at h
  split at h
  · cases h
  · rename_i arm ha
    unfold Parser.findArm at ha
    have hmem := List.mem_of_find?_eq_some ha
    have hmatch := List.find?_some ha
    refine runActs_fnOK arm.acts p (fun hr => ?_) h
    have := feedArms_retPrint arm hmem hr
    subst this
    exact premap_printable hmatch

end Lemmas.C11
end Avt
