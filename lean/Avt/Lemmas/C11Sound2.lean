/-
  Avt.Lemmas.C11Sound2 — soundness of the normal form `normT` for the alternate-screen switches, RIS and
  XTWINOPS, and for `Terminal.execute` as a whole.

  The switches are given in closed form under the invariant (`enterAlt`, `leaveAlt`): `reflow` at an
  unchanged geometry only sets `trim_needed`, flags every row as changed and clamps the saved context.
  Leaving the alternate screen READS the parked primary buffer; the closed form needs the parked buffer
  to have the terminal's geometry (`resizedOnAlt = false`) — otherwise `Buffer.resize` reflows it and
  reads its scrollback, which `normT` erases (this is why `C11_norm_sound` needs that hypothesis).
-/
import Avt.Lemmas.C11Sound1
import Avt.Props.C16
import Avt.Lemmas.C11ParserNorm

namespace Avt
namespace Lemmas.C11
open Avt.Spec.C11 Avt.Terminal Avt.C04L

/-! ### `reflow` at an unchanged geometry -/

/-- what `reflow` does when the active buffer already has the terminal's size -/
def reflowSame (t : Terminal) : Terminal :=
  { t with buffer := { t.buffer with trimNeeded := true }, dirtyLines := List.replicate t.rows true,
           savedCtx := clampCtx t.savedCtx t.cols t.rows }

theorem reflow_same_full (t : Terminal) (hc : t.buffer.cols = t.cols) (hr : t.buffer.rows = t.rows)
    (hb : BInv t.buffer = true) (hrow : t.cursor.row < t.rows) (hd : t.dirtyLines.length = t.rows) :
    t.reflow = some (reflowSame t) := by
  have hB := (Avt.C04L.BInv_iff t.buffer).1 hb
  have hc1 : 1 ≤ t.cols := hc ▸ hB.1
  have hr1 : 1 ≤ t.rows := hr ▸ hB.2.1
  have e : t.buffer.resize t.cols t.rows (t.cursor.col, t.cursor.row)
      = some ({ t.buffer with trimNeeded := true }, (t.cursor.col, t.cursor.row)) := by
    rw [← hc, ← hr]
    exact Buffer.resize_same t.buffer (t.cursor.col, t.cursor.row) hb (by rw [hr]; exact hrow)
  have hdr : Dirty.resize t.dirtyLines t.rows = t.dirtyLines := by
    unfold Dirty.resize
    rw [if_pos (by omega)]
    exact List.take_of_length_le (by omega)
  have hfill : fillRange t.dirtyLines 0 t.rows true = some (List.replicate t.rows true) := by
    rw [fillRange_eq _ _ _ _ (Nat.zero_le _) (by omega)]
    simp [← hd]
  have hne : ¬ (t.cols ≠ t.buffer.cols) := by rw [hc]; simp
  unfold Terminal.reflow
  simp only [hne, if_false, e, hdr, markDirtyRange, Dirty.extend, hfill, Option.map_some]
  simp only [reflowSame, clampCtx]
  by_cases h1 : t.savedCtx.cursorCol ≥ t.cols
  · by_cases h2 : t.savedCtx.cursorRow ≥ t.rows
    · simp [h1, h2, csub1 hc1, csub1 hr1, show min t.savedCtx.cursorCol (t.cols - 1) = t.cols - 1 by omega,
        show min t.savedCtx.cursorRow (t.rows - 1) = t.rows - 1 by omega]
    · simp [h1, h2, csub1 hc1, show min t.savedCtx.cursorCol (t.cols - 1) = t.cols - 1 by omega,
        show min t.savedCtx.cursorRow (t.rows - 1) = t.savedCtx.cursorRow by omega]
  · by_cases h2 : t.savedCtx.cursorRow ≥ t.rows
    · simp [h1, h2, csub1 hr1, show min t.savedCtx.cursorCol (t.cols - 1) = t.savedCtx.cursorCol by omega,
        show min t.savedCtx.cursorRow (t.rows - 1) = t.rows - 1 by omega]
    · simp [h1, h2, show min t.savedCtx.cursorCol (t.cols - 1) = t.savedCtx.cursorCol by omega,
        show min t.savedCtx.cursorRow (t.rows - 1) = t.savedCtx.cursorRow by omega]

/-! ### the switches in closed form -/

/-- `switch_to_alternate_buffer` from the primary screen -/
def parkPrimary (t : Terminal) : Terminal :=
  { t with activeBufferType := .alternate, savedCtx := t.alternateSavedCtx, alternateSavedCtx := t.savedCtx,
           otherBuffer := t.buffer, buffer := Buffer.new t.cols t.rows (some 0) (some t.pen),
           dirtyLines := List.replicate t.rows true }

/-- `switch_to_primary_buffer` from the alternate screen -/
def unparkPrimary (t : Terminal) : Terminal :=
  { t with activeBufferType := .primary, savedCtx := t.alternateSavedCtx, alternateSavedCtx := t.savedCtx,
           buffer := t.otherBuffer, otherBuffer := t.buffer, dirtyLines := List.replicate t.rows true }

theorem fill_all (d : List Bool) (n : Nat) (h : d.length = n) : fillRange d 0 n true = some (List.replicate n true) := by
  rw [fillRange_eq _ _ _ _ (Nat.zero_le _) (by omega)]
  simp [← h]

theorem switchToAlt_eq (t : Terminal) (hd : t.dirtyLines.length = t.rows) :
    t.switchToAlternateBuffer = some (if t.activeBufferType = .primary then parkPrimary t else t) := by
  unfold switchToAlternateBuffer
  cases hp : t.activeBufferType with
  | primary => simp [markDirtyRange, Dirty.extend, fill_all _ _ hd, parkPrimary]
  | alternate => simp

theorem switchToPrim_eq (t : Terminal) (hd : t.dirtyLines.length = t.rows) :
    t.switchToPrimaryBuffer = some (if t.activeBufferType = .alternate then unparkPrimary t else t) := by
  unfold switchToPrimaryBuffer
  cases hp : t.activeBufferType with
  | alternate => simp [markDirtyRange, Dirty.extend, fill_all _ _ hd, unparkPrimary]
  | primary => simp

/-- DECSET 47 / 1047 -/
def enterAlt (t : Terminal) : Terminal := reflowSame (if t.activeBufferType = .primary then parkPrimary t else t)

/-- DECRST 47 / 1047 (`restore = false`), 1049 (`restore = true`) -/
def leaveAlt (t : Terminal) (restore : Bool) : Terminal :=
  let t1 := if t.activeBufferType = .alternate then unparkPrimary t else t
  reflowSame (if restore then t1.restoreCursor else t1)

theorem decset_alt_eq (t : Terminal) (h : TInv t = true) : t.decsetOne .altScreenBuffer = some (enterAlt t) := by
  have ht := TOK.of_TInv h
  simp only [decsetOne, switchToAlt_eq t ht.dirty, enterAlt]
  cases hp : t.activeBufferType with
  | primary =>
    simp only [if_true]
    exact reflow_same_full (parkPrimary t) rfl rfl (C16.binv_new ht.c1 ht.r1) ht.crow (by simp [parkPrimary])
  | alternate =>
    simp only [reduceCtorEq, if_false]
    exact reflow_same_full t ht.bcols ht.brows ht.bok.BInv ht.crow ht.dirty

theorem saveCursor_closed (t : Terminal) (hc : 1 ≤ t.cols) :
    t.saveCursor = some { t with savedCtx := Spec.C16.entryCtx t } := by
  simp [saveCursor, csub1 hc, Spec.C16.entryCtx]

theorem TInv_saveCursor (t : Terminal) (h : TInv t = true) :
    TInv { t with savedCtx := Spec.C16.entryCtx t } = true := by
  have ht := TOK.of_TInv h
  obtain ⟨t', h1, h2⟩ := Props.Closed.C02_execute .decsc h
  simp only [Terminal.execute, saveCursor_closed t ht.c1, Option.some.injEq] at h1
  rw [h1]; exact h2

theorem decset_1049_eq (t : Terminal) (h : TInv t = true) :
    t.decsetOne .saveCursorAltScreenBuffer = some (enterAlt { t with savedCtx := Spec.C16.entryCtx t }) := by
  have ht := TOK.of_TInv h
  have := decset_alt_eq _ (TInv_saveCursor t h)
  simp only [decsetOne] at this ⊢
  rw [saveCursor_closed t ht.c1]
  exact this

theorem decrst_alt_eq (t : Terminal) (h : TInv t = true) (hg : resizedOnAlt t = false) (restore : Bool) :
    (if restore then (if t.activeBufferType = .alternate then unparkPrimary t else t).restoreCursor
      else (if t.activeBufferType = .alternate then unparkPrimary t else t)).reflow = some (leaveAlt t restore) := by
  have ht := TOK.of_TInv h
  simp only [leaveAlt]
  cases hp : t.activeBufferType with
  | alternate =>
    simp only [if_true]
    have hgeo : t.otherBuffer.cols = t.cols ∧ t.otherBuffer.rows = t.rows := by
      simpa [resizedOnAlt, hp] using hg
    have hactx : t.alternateSavedCtx.cursorRow < t.rows := by
      rcases ht.actx with h1 | h1
      · rw [hp] at h1; cases h1
      · rw [← hgeo.2]; exact h1.2
    cases restore with
    | false =>
      exact reflow_same_full (unparkPrimary t) hgeo.1 hgeo.2 ht.ook.BInv ht.crow (by simp [unparkPrimary])
    | true =>
      exact reflow_same_full (unparkPrimary t).restoreCursor hgeo.1 hgeo.2 ht.ook.BInv hactx (by simp [unparkPrimary, restoreCursor])
  | primary =>
    simp only [reduceCtorEq, if_false]
    cases restore with
    | false => exact reflow_same_full t ht.bcols ht.brows ht.bok.BInv ht.crow ht.dirty
    | true => exact reflow_same_full t.restoreCursor ht.bcols ht.brows ht.bok.BInv ht.sctx.2 ht.dirty

theorem decrst_alt_eq' (t : Terminal) (h : TInv t = true) (hg : resizedOnAlt t = false) :
    t.decrstOne .altScreenBuffer = some (leaveAlt t false) := by
  have := decrst_alt_eq t h hg false
  simp only [decrstOne, switchToPrim_eq t (TOK.of_TInv h).dirty]
  simpa using this

theorem decrst_1049_eq (t : Terminal) (h : TInv t = true) (hg : resizedOnAlt t = false) :
    t.decrstOne .saveCursorAltScreenBuffer = some (leaveAlt t true) := by
  have := decrst_alt_eq t h hg true
  simp only [decrstOne, switchToPrim_eq t (TOK.of_TInv h).dirty]
  simpa using this

/-! ### the closed forms respect the normal form -/

theorem enterAlt_neq {u v : Terminal} (h : NEq u v) : NEq (enterAlt u) (enterAlt v) := by
  refine h.elim (motive := fun u v => NEq (enterAlt u) (enterAlt v)) ?_
  intro c r sb1 sb2 vw bc br l1 l2 t1 t2 ob1 ob2 abt sl1 sl2 cur pen cs acs tabs im om aw nl ck pw tm bm sc asc1 asc2 d1 d2 xt ho ha hd
  cases abt with
  | primary =>
    simp only [enterAlt, reflowSame, parkPrimary, Buffer.new, if_true]
    neq_close
  | alternate =>
    simp only [enterAlt, reflowSame, reduceCtorEq, if_false]
    neq_close

/-- leaving READS the parked saved context unclamped (1049 restores the cursor from it): under the
    invariant and with the parked primary at the terminal's geometry it is inside the screen, so equal
    clamped contexts are equal -/
theorem leaveAlt_neq {u v : Terminal} (h : NEq u v) (restore : Bool)
    (hctx : u.activeBufferType = .alternate → u.alternateSavedCtx = v.alternateSavedCtx) :
    NEq (leaveAlt u restore) (leaveAlt v restore) := by
  revert hctx
  refine h.elim (motive := fun u v => (u.activeBufferType = .alternate → u.alternateSavedCtx = v.alternateSavedCtx) →
    NEq (leaveAlt u restore) (leaveAlt v restore)) ?_
  intro c r sb1 sb2 vw bc br l1 l2 t1 t2 ob1 ob2 abt sl1 sl2 cur pen cs acs tabs im om aw nl ck pw tm bm sc asc1 asc2 d1 d2 xt ho ha hd hctx
  cases abt with
  | alternate =>
    have e := hctx rfl
    simp only at e
    subst e
    have ho' : ob1.view = ob2.view ∧ ob1.cols = ob2.cols ∧ ob1.rows = ob2.rows := by
      rcases ho with ho | ho
      · cases ho
      · exact ho
    obtain ⟨o1, o2, o3⟩ := ho'
    cases restore <;> simp only [leaveAlt, reflowSame, unparkPrimary, restoreCursor, if_true, Bool.false_eq_true, if_false] <;>
      neq_close
  | primary =>
    cases restore <;> simp only [leaveAlt, reflowSame, restoreCursor, reduceCtorEq, if_true, Bool.false_eq_true, if_false] <;>
      neq_close

theorem clampCtx_id (c : SavedCtx) (cols rows : Nat) (h1 : c.cursorCol < cols) (h2 : c.cursorRow < rows) :
    clampCtx c cols rows = c := by
  obtain ⟨cc, cr, p, o, a⟩ := c
  simp only at h1 h2
  simp only [clampCtx, SavedCtx.mk.injEq, and_true, true_and]
  exact ⟨by omega, by omega⟩

/-- the side condition of `leaveAlt_neq` from the invariant -/
theorem parkedCtx_eq {u v : Terminal} (h : NEq u v) (hu : TInv u = true) (hv : TInv v = true)
    (gu : resizedOnAlt u = false) (gv : resizedOnAlt v = false) :
    u.activeBufferType = .alternate → u.alternateSavedCtx = v.alternateSavedCtx := by
  intro ha
  have tu := TOK.of_TInv hu
  have tv := TOK.of_TInv hv
  have hav : v.activeBufferType = .alternate := h.abt ▸ ha
  have g1 : u.otherBuffer.cols = u.cols ∧ u.otherBuffer.rows = u.rows := by simpa [resizedOnAlt, ha] using gu
  have g2 : v.otherBuffer.cols = v.cols ∧ v.otherBuffer.rows = v.rows := by simpa [resizedOnAlt, hav] using gv
  have a1 : u.alternateSavedCtx.cursorCol < u.cols ∧ u.alternateSavedCtx.cursorRow < u.rows := by
    rcases tu.actx with h1 | h1
    · rw [ha] at h1; cases h1
    · rw [← g1.1, ← g1.2]; exact h1
  have a2 : v.alternateSavedCtx.cursorCol < v.cols ∧ v.alternateSavedCtx.cursorRow < v.rows := by
    rcases tv.actx with h1 | h1
    · rw [hav] at h1; cases h1
    · rw [← g2.1, ← g2.2]; exact h1
  have := h.actx
  rwa [clampCtx_id _ _ _ a1.1 a1.2, clampCtx_id _ _ _ a2.1 a2.2] at this

/-! ### DECSET / DECRST, one mode -/

theorem decsetOne_sound (m : DecMode) (u v : Terminal) (hu : TInv u = true) (hv : TInv v = true)
    (e : normT u = normT v) : (u.decsetOne m).map normT = (v.decsetOne m).map normT := by
  by_cases hm : simpleDecMode m = true
  · exact (c_decsetOne m hm).sound u v e
  · have h := NEq.of_norm e
    cases m <;> simp only [simpleDecMode, not_true_eq_false] at hm
    · rw [decset_alt_eq u hu, decset_alt_eq v hv]
      exact congrArg some (enterAlt_neq h).norm
    · rw [decset_1049_eq u hu, decset_1049_eq v hv]
      refine congrArg some (enterAlt_neq ?_).norm
      have hc : Spec.C16.entryCtx u = Spec.C16.entryCtx v := by
        simp only [Spec.C16.entryCtx, h.cursor, h.cols, h.pen, h.originMode, h.autoWrapMode]
      exact { h with savedCtx := hc }

theorem decrstOne_sound (m : DecMode) (u v : Terminal) (hu : TInv u = true) (hv : TInv v = true)
    (gu : resizedOnAlt u = false) (gv : resizedOnAlt v = false)
    (e : normT u = normT v) : (u.decrstOne m).map normT = (v.decrstOne m).map normT := by
  by_cases hm : simpleDecMode m = true
  · exact (c_decrstOne m hm).sound u v e
  · have h := NEq.of_norm e
    have hctx := parkedCtx_eq h hu hv gu gv
    cases m <;> simp only [simpleDecMode, not_true_eq_false] at hm
    · rw [decrst_alt_eq' u hu gu, decrst_alt_eq' v hv gv]
      exact congrArg some (leaveAlt_neq h false hctx).norm
    · rw [decrst_1049_eq u hu gu, decrst_1049_eq v hv gv]
      exact congrArg some (leaveAlt_neq h true hctx).norm

/-! ### the invariant of the continuation: `TInv` and "the parked primary has the terminal's geometry" -/

def Pre (t : Terminal) : Prop := TInv t = true ∧ resizedOnAlt t = false

theorem roa_of_fr_geo {t t' : Terminal} (h1 : C16.fr t' = C16.fr t) (h2 : C16.geo t' = C16.geo t) :
    resizedOnAlt t' = resizedOnAlt t := by
  simp only [C16.fr, C16.geo, Prod.mk.injEq] at h1 h2
  simp only [resizedOnAlt, h1.1, h1.2.2, h2.1, h2.2.1]

theorem roa_enterAlt (t : Terminal) (h : Pre t) : resizedOnAlt (enterAlt t) = false := by
  have ht := TOK.of_TInv h.1
  cases hp : t.activeBufferType with
  | primary => simp [enterAlt, hp, reflowSame, parkPrimary, resizedOnAlt, ht.bcols, ht.brows]
  | alternate =>
    have := h.2
    simp only [resizedOnAlt, hp] at this
    simpa [enterAlt, hp, reflowSame, resizedOnAlt] using this

theorem roa_leaveAlt (t : Terminal) (restore : Bool) : resizedOnAlt (leaveAlt t restore) = false := by
  cases hp : t.activeBufferType <;> cases restore <;>
    simp [leaveAlt, hp, reflowSame, unparkPrimary, restoreCursor, resizedOnAlt]

theorem pre_decsetOne {t t' : Terminal} {m : DecMode} (h : Pre t) (hs : t.decsetOne m = some t') : Pre t' := by
  obtain ⟨t2, e2, i2⟩ := Props.Closed.Terminal_decsetOne_ok m (TOK.of_TInv h.1)
  rw [hs] at e2; cases e2
  refine ⟨i2.TInv, ?_⟩
  cases m
  case altScreenBuffer =>
    rw [decset_alt_eq t h.1] at hs; cases hs; exact roa_enterAlt t h
  case saveCursorAltScreenBuffer =>
    rw [decset_1049_eq t h.1] at hs; cases hs
    exact roa_enterAlt _ ⟨TInv_saveCursor t h.1, h.2⟩
  all_goals
    have hg := C16.geo_decsetOne hs
    simp only [decsetOne] at hs
  · simp only [Option.some.injEq] at hs; subst hs; exact h.2
  · rw [roa_of_fr_geo (C16.fr_moveCursorHome hs) hg]; exact h.2
  · simp only [Option.some.injEq] at hs; subst hs; exact h.2
  · simp only [Option.some.injEq] at hs; subst hs; exact h.2
  · rw [roa_of_fr_geo (C16.fr_saveCursor hs) hg]; exact h.2

theorem pre_decrstOne {t t' : Terminal} {m : DecMode} (h : Pre t) (hs : t.decrstOne m = some t') : Pre t' := by
  obtain ⟨t2, e2, i2⟩ := Props.Closed.Terminal_decrstOne_ok m (TOK.of_TInv h.1)
  rw [hs] at e2; cases e2
  refine ⟨i2.TInv, ?_⟩
  cases m
  case altScreenBuffer =>
    rw [decrst_alt_eq' t h.1 h.2] at hs; cases hs; exact roa_leaveAlt t false
  case saveCursorAltScreenBuffer =>
    rw [decrst_1049_eq t h.1 h.2] at hs; cases hs; exact roa_leaveAlt t true
  all_goals
    have hg := C16.geo_decrstOne hs
    simp only [decrstOne] at hs
  · simp only [Option.some.injEq] at hs; subst hs; exact h.2
  · rw [roa_of_fr_geo (C16.fr_moveCursorHome hs) hg]; exact h.2
  · simp only [Option.some.injEq] at hs; subst hs; exact h.2
  · simp only [Option.some.injEq] at hs; subst hs; exact h.2
  · simp only [Option.some.injEq] at hs; subst hs; exact h.2

/-- every function other than DECSET / DECRST / RIS leaves the parked buffer, the parked context and
    the active screen alone (from either screen) -/
def plainFn : Function → Bool
  | .decset _ | .decrst _ | .ris => false
  | _ => true

theorem fr_execute_plain {t t' : Terminal} {f : Function} (hf : plainFn f = true)
    (h : t.execute f = some t') : C16.fr t' = C16.fr t := by
  cases f <;> simp only [plainFn, Bool.false_eq_true] at hf <;> simp only [Terminal.execute] at h
  all_goals grind [C16.fr, C16.fr_ctc, C16.fr_tbc, C16.fr_sm, C16.fr_rm, Terminal.setTab, Terminal.restoreCursor,
    Terminal.doMoveCursorToCol, Terminal.sgr]

theorem pre_execute {t t' : Terminal} {f : Function} (h : Pre t) (hs : t.execute f = some t') : Pre t' := by
  obtain ⟨t2, e2, i2⟩ := Props.Closed.C02_execute f h.1
  rw [hs] at e2; cases e2
  refine ⟨i2, ?_⟩
  have hx : t.xtwinops = false := (TOK.of_TInv h.1).xt
  by_cases hf : plainFn f = true
  · rw [roa_of_fr_geo (fr_execute_plain hf hs) (C16.geo_execute hx hs)]; exact h.2
  · cases f <;> simp only [plainFn, not_true_eq_false, Bool.false_eq_true, not_false_eq_true] at hf
    case decset ms =>
      exact (C16.foldM'_inv (f := Terminal.decsetOne) Pre (ms := ms)
        (fun b a b' _ hb hs' => pre_decsetOne hb hs') h hs).2
    case decrst ms =>
      exact (C16.foldM'_inv (f := Terminal.decrstOne) Pre (ms := ms)
        (fun b a b' _ hb hs' => pre_decrstOne hb hs') h hs).2
    case ris =>
      simp only [Terminal.execute, hardReset, Option.map_eq_some_iff] at hs
      obtain ⟨r1, _, rfl⟩ := hs
      rfl

/-! ### mode lists, RIS, XTWINOPS -/

theorem foldM_sound {g : Terminal → DecMode → Option Terminal}
    (hstep : ∀ m u v, Pre u → Pre v → normT u = normT v → (g u m).map normT = (g v m).map normT)
    (hpre : ∀ {t t' : Terminal} {m}, Pre t → g t m = some t' → Pre t') :
    ∀ (ms : List DecMode) (u v : Terminal), Pre u → Pre v → normT u = normT v →
      (foldM' g ms u).map normT = (foldM' g ms v).map normT
  | [], u, v, _, _, e => by simp [foldM', e]
  | m :: ms, u, v, hu, hv, e => by
    have st := hstep m u v hu hv e
    simp only [foldM']
    cases h1 : g u m with
    | none =>
      cases h2 : g v m with
      | none => rfl
      | some v' => simp [h1, h2] at st
    | some u' =>
      cases h2 : g v m with
      | none => simp [h1, h2] at st
      | some v' =>
        simp only [h1, h2, Option.map_some, Option.some.injEq] at st
        exact foldM_sound hstep hpre ms u' v' (hpre hu h1) (hpre hv h2) st

def hardResetT (t : Terminal) (r1 : Nat) : Terminal :=
  { t with buffer := Buffer.new t.cols t.rows t.scrollbackLimit none,
           otherBuffer := Buffer.new t.cols t.rows (some 0) none,
           activeBufferType := .primary, tabs := Tabs.new t.cols, cursor := {}, pen := {},
           charsets := (.ascii, .ascii), activeCharset := 0, insertMode := false,
           originMode := false, autoWrapMode := true, newLineMode := false, cursorKeysMode := .normal,
           pendingWrap := false, topMargin := 0, bottomMargin := r1, savedCtx := {},
           alternateSavedCtx := {}, dirtyLines := Dirty.new t.rows }

theorem hardResetT_neq {u v : Terminal} (h : NEq u v) (r1 : Nat) : NEq (hardResetT u r1) (hardResetT v r1) := by
  refine h.elim (motive := fun u v => NEq (hardResetT u r1) (hardResetT v r1)) ?_
  intro c r sb1 sb2 vw bc br l1 l2 t1 t2 ob1 ob2 abt sl1 sl2 cur pen cs acs tabs im om aw nl ck pw tm bm sc asc1 asc2 d1 d2 xt ho ha hd
  simp only [hardResetT, Buffer.new]
  neq_close

theorem hardReset_sound {u v : Terminal} (e : normT u = normT v) :
    (u.hardReset).map normT = (v.hardReset).map normT := by
  have h := NEq.of_norm e
  have e1 : ∀ t : Terminal, t.hardReset = (csub t.rows 1).map (hardResetT t) := fun t => rfl
  rw [e1, e1, h.rows]
  cases csub v.rows 1 with
  | none => rfl
  | some r1 => exact congrArg some (hardResetT_neq h r1).norm

/-- every function is simple, buffer-touching, a mode list, RIS or XTWINOPS -/
theorem fn_cases (f : Function) : simpleFn f = true ∨ bufferFn f = true
    ∨ (∃ ms, f = .decset ms) ∨ (∃ ms, f = .decrst ms) ∨ f = .ris ∨ (∃ a b, f = .xtwinops a b) := by
  cases f <;> simp [simpleFn, bufferFn, Spec.C04.covered, scrollFn, Spec.C07.coveredEdit]

/-- **normal-form soundness, every function**: two terminals satisfying the invariant, neither resized
    while on the alternate screen, with equal normal forms: every control function maps them to terminals
    with equal normal forms (and panics on both or on neither) -/
theorem norm_sound_execute_all (f : Function) (u v : Terminal) (hu : Pre u) (hv : Pre v)
    (e : normT u = normT v) : (u.execute f).map normT = (v.execute f).map normT := by
  rcases fn_cases f with h | h | ⟨ms, rfl⟩ | ⟨ms, rfl⟩ | rfl | ⟨a, b, rfl⟩
  · exact norm_sound_execute f h u v e
  · exact norm_sound_buffer f h u v hu.1 hv.1 e
  · exact foldM_sound (fun m u v hu hv e => decsetOne_sound m u v hu.1 hv.1 e) pre_decsetOne ms u v hu hv e
  · exact foldM_sound (fun m u v hu hv e => decrstOne_sound m u v hu.1 hv.1 hu.2 hv.2 e) pre_decrstOne ms u v hu hv e
  · exact hardReset_sound e
  · have x1 : u.xtwinops = false := (TOK.of_TInv hu.1).xt
    have x2 : v.xtwinops = false := (TOK.of_TInv hv.1).xt
    simp [Terminal.execute, xtwinopsF, x1, x2, e]

end Lemmas.C11
end Avt
