/-
  Avt.Lemmas.C05 — helper lemmas for the cursor-movement theorems (Props/C05.lean): what the
  invariant supplies, and the model's cursor primitives rewritten as `cursorAt` with closed-form
  coordinates.
-/
import Avt.Spec.C05
import Avt.Lemmas.C18

namespace Avt.Lemmas.C05
open Avt Avt.Spec Avt.Spec.C05

/-- the clauses of the invariant that cursor movement relies on -/
structure Facts (t : Terminal) : Prop where
  cols : 1 ≤ t.cols
  rows : 1 ≤ t.rows
  row : t.cursor.row < t.rows
  col : (t.pendingWrap = true ∧ t.cursor.col = t.cols) ∨ (t.pendingWrap = false ∧ t.cursor.col < t.cols)
  tb : t.topMargin ≤ t.bottomMargin
  br : t.bottomMargin < t.rows

theorem facts {t : Terminal} (h : TInv t = true) : Facts t := by
  simp only [TInv, BInv, Bool.and_eq_true, Bool.or_eq_true, beq_iff_eq, decide_eq_true_eq,
    Bool.not_eq_true'] at h
  obtain ⟨⟨⟨⟨⟨⟨⟨⟨⟨⟨⟨⟨⟨⟨⟨⟨hbc, hbr⟩, hb⟩, _⟩, hrow⟩, hcol⟩, htb⟩, hbrr⟩, _⟩, _⟩, _⟩, _⟩, _⟩, _⟩, _⟩, _⟩, _⟩ := h
  refine ⟨by omega, by omega, hrow, hcol, htb, hbrr⟩

theorem csub_one {n : Nat} (h : 1 ≤ n) : csub n 1 = some (n - 1) := by simp [csub]; omega

theorem cursorAt_congr (t : Terminal) {c c' r r' : Nat} (hc : c = c') (hr : r = r') :
    cursorAt t c r = cursorAt t c' r' := by subst hc hr; rfl

theorem some_cursorAt_congr (t : Terminal) {c c' r r' : Nat} (hc : c = c') (hr : r = r') :
    some (cursorAt t c r) = some (cursorAt t c' r') := by subst hc hr; rfl

theorem arg_eq (n : Nat) : asUsize n 1 = arg n := rfl
theorem arg_pos (n : Nat) : 0 < arg n := by unfold arg; split <;> omega

section
variable {t : Terminal}

theorem toCol_eq (c : Nat) : t.doMoveCursorToCol c = cursorAt t c t.cursor.row := rfl

theorem toRow_eq (hc : 1 ≤ t.cols) (r : Nat) :
    t.doMoveCursorToRow r = some (cursorAt t (realCol t) r) := by
  simp only [Terminal.doMoveCursorToRow, csub_one hc, Option.map_some]
  rfl

theorem moveToCol_eq (hc : 1 ≤ t.cols) (c : Nat) :
    t.moveCursorToCol c = some (cursorAt t (absCol t c) t.cursor.row) := by
  unfold Terminal.moveCursorToCol
  split
  · simp only [csub_one hc, Option.map_some, toCol_eq]
    apply some_cursorAt_congr _ _ rfl
    simp only [absCol, lastCol]; omega
  · simp only [toCol_eq]
    apply some_cursorAt_congr _ _ rfl
    simp only [absCol, lastCol]; omega

theorem relCol_eq (hc : 1 ≤ t.cols) (rel : Int) (c : Nat)
    (h : (c : Int) = min (max ((t.cursor.col : Int) + rel) 0) ((t.cols : Int) - 1)) :
    t.moveCursorToRelCol rel = some (cursorAt t c t.cursor.row) := by
  unfold Terminal.moveCursorToRelCol
  simp only
  split
  · simp only [toCol_eq]
    apply some_cursorAt_congr _ _ rfl
    omega
  · split
    · simp only [csub_one hc, Option.map_some, toCol_eq]
      apply some_cursorAt_congr _ _ rfl
      omega
    · simp only [toCol_eq]
      apply some_cursorAt_congr _ _ rfl
      omega

theorem moveToRow_eq (hc : 1 ≤ t.cols) (hr : 1 ≤ t.rows) (hm : t.topMargin ≤ t.bottomMargin) (r : Nat) :
    t.moveCursorToRow r = some (cursorAt t (realCol t) (absRow t r)) := by
  unfold Terminal.moveCursorToRow Terminal.actualBottomMargin Terminal.actualTopMargin
  simp only
  cases ho : t.originMode
  · simp only [Bool.false_eq_true, if_false, csub_one hr, toRow_eq hc]
    apply some_cursorAt_congr _ rfl
    simp only [absRow, ho, Bool.false_eq_true, if_false, lastRow]; omega
  · simp only [if_true, toRow_eq hc]
    apply some_cursorAt_congr _ rfl
    simp only [absRow, ho, if_true]; omega

theorem home_eq (hc : 1 ≤ t.cols) :
    t.moveCursorHome = some (cursorAt t 0 (if t.originMode then t.topMargin else 0)) := by
  unfold Terminal.moveCursorHome
  simp only [toCol_eq]
  rw [toRow_eq (t := cursorAt t 0 t.cursor.row) hc]
  rfl

theorem cursorUp_eq (hc : 1 ≤ t.cols) (n : Nat) :
    t.cursorUp n = some (cursorAt t (realCol t) (up t n)) := by
  unfold Terminal.cursorUp
  simp only [toRow_eq hc]
  apply some_cursorAt_congr _ rfl
  unfold up
  by_cases h : t.cursor.row < t.topMargin <;> simp only [h, if_true, if_false] <;> omega

theorem cursorDown_eq (hc : 1 ≤ t.cols) (hr : 1 ≤ t.rows) (n : Nat) :
    t.cursorDown n = some (cursorAt t (realCol t) (down t n)) := by
  unfold Terminal.cursorDown down
  by_cases h : t.cursor.row > t.bottomMargin
  · simp only [h, if_true, csub_one hr, toRow_eq hc, lastRow]
  · simp only [h, if_false, toRow_eq hc]

theorem downWithScroll_eq (hc : 1 ≤ t.cols) (hr : 1 ≤ t.rows) (h : t.cursor.row ≠ t.bottomMargin) :
    t.moveCursorDownWithScroll = some (oneDown t) := by
  unfold Terminal.moveCursorDownWithScroll oneDown
  simp only [h, if_false, csub_one hr, lastRow]
  by_cases h' : t.cursor.row < t.rows - 1
  · simp only [h', if_true]; exact toRow_eq hc _
  · simp only [h', if_false]

end

/-- setting origin mode homes the cursor to the top margin -/
def originOn (t : Terminal) : Terminal := cursorAt { t with originMode := true } 0 t.topMargin
/-- resetting origin mode homes the cursor to the top-left corner of the screen -/
def originOff (t : Terminal) : Terminal := cursorAt { t with originMode := false } 0 0

theorem decsetOne_origin {t : Terminal} (hc : 1 ≤ t.cols) :
    Terminal.decsetOne t .origin = some (originOn t) := by
  simp only [Terminal.decsetOne]
  rw [home_eq (t := { t with originMode := true }) hc]
  rfl

theorem decrstOne_origin {t : Terminal} (hc : 1 ≤ t.cols) :
    Terminal.decrstOne t .origin = some (originOff t) := by
  simp only [Terminal.decrstOne]
  rw [home_eq (t := { t with originMode := false }) hc]
  rfl

theorem decset_origins : ∀ (ms : List DecMode) (t : Terminal), 1 ≤ t.cols →
    ms.all (· == DecMode.origin) = true →
    Terminal.foldM' Terminal.decsetOne ms t = some (if ms.isEmpty then t else originOn t)
  | [], t, _, _ => rfl
  | m :: ms, t, hc, h => by
    simp only [List.all_cons, Bool.and_eq_true, beq_iff_eq] at h
    obtain ⟨rfl, h⟩ := h
    unfold Terminal.foldM'
    rw [decsetOne_origin hc]
    simp only
    rw [decset_origins ms (originOn t) hc h]
    cases ms <;> rfl

theorem decrst_origins : ∀ (ms : List DecMode) (t : Terminal), 1 ≤ t.cols →
    ms.all (· == DecMode.origin) = true →
    Terminal.foldM' Terminal.decrstOne ms t = some (if ms.isEmpty then t else originOff t)
  | [], t, _, _ => rfl
  | m :: ms, t, hc, h => by
    simp only [List.all_cons, Bool.and_eq_true, beq_iff_eq] at h
    obtain ⟨rfl, h⟩ := h
    unfold Terminal.foldM'
    rw [decrstOne_origin hc]
    simp only
    rw [decrst_origins ms (originOff t) hc h]
    cases ms <;> rfl

/-- HT / CHT / CBT: `moveSpec` delegates to C18's `tabSpec` -/
theorem tab_bridge {t : Terminal} (h : TInv t = true) (f : Function) (hf : C18.isTabOp f = true)
    (e : moveSpec t f = C18.tabSpec t f) : t.execute f = some (moveSpec t f) := by
  rw [e]; exact Avt.Lemmas.C18.tabop_eq h hf

end Avt.Lemmas.C05
