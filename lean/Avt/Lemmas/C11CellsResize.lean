/-
  Avt.Lemmas.C11CellsResize — the cell / pen invariant `CellsInv` along `resize`, `reflow`, `gc`,
  `changes`, `new`, `finish`.

  Resize / reflow only MOVE cells between lines, drop cells, or fill with `Cell.blank Pen.default`,
  so the buffer-level statements hold for an arbitrary cell predicate `Q` with
  `Q (Cell.blank Pen.default)` and need no structural invariant.
-/
import Avt.Lemmas.C11CellsDef
import Avt.Lemmas.InvVt

namespace Avt
namespace Lemmas.C11
open Avt.Spec.C11 Avt.Spec.C08

/-! ### lines -/

section Lines
variable {Q : Cell → Prop}

theorem lineTrim_ok {l : Line} (hl : LineOK Q l) : LineOK Q l.trim := by
  intro c hc
  exact hl c (List.mem_of_mem_take hc)

theorem lineExpand_ok {l l' : Line} {len : Nat} {pen : Pen} (hb : Q (Cell.blank pen)) (hl : LineOK Q l)
    (h : l.expand len pen = some l') : LineOK Q l' := by
  unfold Line.expand at h
  cases hk : csub len l.len with
  | none => simp [hk] at h
  | some k =>
    simp only [hk, Option.map_some, Option.some.injEq] at h
    subst h
    intro c hc
    simp only [List.mem_append, List.mem_replicate] at hc
    rcases hc with hc | hc
    · exact hl c hc
    · rw [hc.2]; exact hb

theorem optLineOK_none : ∀ l, (none : Option Line) = some l → LineOK Q l := by
  intro l h; cases h

theorem optLineOK_some {x : Line} (hx : LineOK Q x) : ∀ l, some x = some l → LineOK Q l := by
  intro l h; cases h; exact hx

theorem lineContract_ok {l : Line} {len : Nat} (hl : LineOK Q l) :
    LineOK Q (l.contract len).1 ∧ ∀ r, (l.contract len).2 = some r → LineOK Q r := by
  have hcells : ∀ c ∈ (if !l.wrapped then l.cells.take (max len (l.len - l.trailers)) else l.cells), Q c := by
    intro c hc
    split at hc
    · exact hl c (List.mem_of_mem_take hc)
    · exact hl c hc
  unfold Line.contract
  simp only []
  generalize (if !l.wrapped then l.cells.take (max len (l.len - l.trailers)) else l.cells) = cells
    at hcells
  have hrest : LineOK Q ({ cells := cells.drop len, wrapped := l.wrapped } : Line) :=
    fun c hc => hcells c (List.mem_of_mem_drop hc)
  have hrest' : LineOK Q (if !l.wrapped then ({ cells := cells.drop len, wrapped := l.wrapped } : Line).trim
      else { cells := cells.drop len, wrapped := l.wrapped }) := by
    split
    · exact lineTrim_ok hrest
    · exact hrest
  have htake : ∀ w, LineOK Q ({ cells := cells.take len, wrapped := w } : Line) :=
    fun w c hc => hcells c (List.mem_of_mem_take hc)
  generalize (if !l.wrapped then ({ cells := cells.drop len, wrapped := l.wrapped } : Line).trim
      else { cells := cells.drop len, wrapped := l.wrapped }) = rest at hrest'
  split
  · split
    · exact ⟨htake _, optLineOK_none⟩
    · exact ⟨htake _, optLineOK_some hrest'⟩
  · exact ⟨fun c hc => hcells c hc, optLineOK_none⟩

theorem lineExtend_ok (hQ : Q (Cell.blank Pen.default)) {l other l' : Line} {len : Nat} {e : Bool}
    {r : Option Line} (hl : LineOK Q l) (ho : LineOK Q other)
    (h : l.extend other len = some (l', e, r)) :
    LineOK Q l' ∧ ∀ x, r = some x → LineOK Q x := by
  unfold Line.extend at h
  cases hk : csub len l.len with
  | none => simp [hk] at h
  | some needed =>
    simp only [hk] at h
    split at h
    · cases h; exact ⟨hl, optLineOK_some ho⟩
    · split at h
      · cases hx : l.expand len Pen.default with
        | none => simp [hx] at h
        | some l1 =>
          simp only [hx, Option.map_some, Option.some.injEq, Prod.mk.injEq] at h
          obtain ⟨h1, _, h3⟩ := h
          subst h1; subst h3
          exact ⟨lineExpand_ok hQ hl hx, optLineOK_some ho⟩
      · have ho' : LineOK Q (if !other.wrapped then other.trim else other) := by
          split
          · exact lineTrim_ok ho
          · exact ho
        generalize (if !other.wrapped then other.trim else other) = o at h ho'
        have happ : ∀ w, LineOK Q ({ cells := l.cells ++ o.cells, wrapped := w } : Line) := by
          intro w c hc
          simp only [List.mem_append] at hc
          rcases hc with hc | hc
          · exact hl c hc
          · exact ho' c hc
        split at h
        · simp only [Option.some.injEq, Prod.mk.injEq] at h
          obtain ⟨h1, _, h3⟩ := h
          subst h1; subst h3
          refine ⟨?_, optLineOK_some (fun c hc => ho' c (List.mem_of_mem_drop hc))⟩
          intro c hc
          simp only [List.mem_append] at hc
          rcases hc with hc | hc
          · exact hl c hc
          · exact ho' c (List.mem_of_mem_take hc)
        · split at h
          · split at h
            · cases hx : Line.expand { cells := l.cells ++ o.cells, wrapped := false } len Pen.default with
              | none => simp [hx] at h
              | some l3 =>
                simp only [hx, Option.map_some, Option.some.injEq, Prod.mk.injEq] at h
                obtain ⟨h1, _, h3⟩ := h
                subst h1; subst h3
                exact ⟨lineExpand_ok hQ (happ false) hx, optLineOK_none⟩
            · simp only [Option.some.injEq, Prod.mk.injEq] at h
              obtain ⟨h1, _, h3⟩ := h
              subst h1; subst h3
              exact ⟨happ false, optLineOK_none⟩
          · simp only [Option.some.injEq, Prod.mk.injEq] at h
            obtain ⟨h1, _, h3⟩ := h
            subst h1; subst h3
            exact ⟨happ _, optLineOK_none⟩

/-! ### reflow -/

theorem allCells_nil : AllCells Q [] := by
  intro l hl; cases hl

theorem allCells_cons {l : Line} {ls : List Line} (h1 : LineOK Q l) (h2 : AllCells Q ls) :
    AllCells Q (l :: ls) := by
  intro x hx
  rcases List.mem_cons.1 hx with hx | hx
  · rw [hx]; exact h1
  · exact h2 x hx

theorem allCells_head {l : Line} {ls : List Line} (h : AllCells Q (l :: ls)) : LineOK Q l :=
  h l (List.mem_cons_self)

theorem allCells_tail {l : Line} {ls : List Line} (h : AllCells Q (l :: ls)) : AllCells Q ls :=
  fun x hx => h x (List.mem_cons_of_mem _ hx)

theorem allCells_append {a b : List Line} (h1 : AllCells Q a) (h2 : AllCells Q b) :
    AllCells Q (a ++ b) := by
  intro x hx
  rcases List.mem_append.1 hx with hx | hx
  · exact h1 x hx
  · exact h2 x hx

theorem allCells_take {a : List Line} (n : Nat) (h : AllCells Q a) : AllCells Q (a.take n) :=
  fun x hx => h x (List.mem_of_mem_take hx)

theorem allCells_drop {a : List Line} (n : Nat) (h : AllCells Q a) : AllCells Q (a.drop n) :=
  fun x hx => h x (List.mem_of_mem_drop hx)

theorem allCells_replicate {n : Nat} {l : Line} (h : LineOK Q l) : AllCells Q (List.replicate n l) := by
  intro x hx
  rw [(List.mem_replicate.1 hx).2]; exact h

theorem mapCons_ok {o : Option (List Line)} {l : Line} {out : List Line} (hl : LineOK Q l)
    (ih : ∀ out', o = some out' → AllCells Q out')
    (h : o.map (fun out => l :: out) = some out) : AllCells Q out := by
  cases o with
  | none => simp at h
  | some o' =>
    simp only [Option.map_some, Option.some.injEq] at h
    subst h
    exact allCells_cons hl (ih o' rfl)

theorem reflowGo_ok (hQ : Q (Cell.blank Pen.default)) (cols : Nat) :
    ∀ (fuel : Nat) (rest : Option Line) (iter out : List Line),
      (∀ l, rest = some l → LineOK Q l) → AllCells Q iter →
      Buffer.reflowGo cols fuel rest iter = some out → AllCells Q out := by
  intro fuel
  induction fuel with
  | zero => intro rest iter out _ _ h; simp [Buffer.reflowGo] at h
  | succ fuel ih =>
    intro rest iter out hrest hiter h
    -- the current line and remaining iterator
    have key : ∀ (line : Line) (iter : List Line) (out : List Line), LineOK Q line → AllCells Q iter →
        (if cols < line.len then
          (Buffer.reflowGo cols fuel (line.contract cols).2 iter).map fun out => (line.contract cols).1 :: out
        else if cols = line.len then
          (Buffer.reflowGo cols fuel none iter).map fun out => line :: out
        else
          match iter with
          | next :: iter' =>
            match line.extend next cols with
            | none => none
            | some (line', true, some r) => (Buffer.reflowGo cols fuel (some r) iter').map fun out => line' :: out
            | some (line', true, none) => (Buffer.reflowGo cols fuel none iter').map fun out => line' :: out
            | some (line', false, _) => Buffer.reflowGo cols fuel (some line') iter'
          | [] =>
            match line.expand cols Pen.default with
            | none => none
            | some l' => (Buffer.reflowGo cols fuel none []).map fun out => { l' with wrapped := false } :: out)
          = some out → AllCells Q out := by
      intro line iter out hline hiter h
      split at h
      · have hc := lineContract_ok (len := cols) hline
        exact mapCons_ok hc.1 (fun o ho => ih _ _ _ hc.2 hiter ho) h
      · split at h
        · exact mapCons_ok hline (fun o ho => ih _ _ _ optLineOK_none hiter ho) h
        · split at h
          · rename_i next iter'
            have hn := allCells_head hiter
            have ht := allCells_tail hiter
            split at h
            · cases h
            · rename_i line' r he
              have hx := lineExtend_ok hQ hline hn he
              exact mapCons_ok hx.1 (fun o ho => ih _ _ _ (optLineOK_some (hx.2 r rfl)) ht ho) h
            · rename_i line' he
              have hx := lineExtend_ok hQ hline hn he
              exact mapCons_ok hx.1 (fun o ho => ih _ _ _ optLineOK_none ht ho) h
            · rename_i line' r he
              have hx := lineExtend_ok hQ hline hn he
              exact ih _ _ _ (optLineOK_some hx.1) ht h
          · split at h
            · cases h
            · rename_i l' he
              have hx : LineOK Q l' := lineExpand_ok hQ hline he
              exact mapCons_ok (l := { l' with wrapped := false }) hx
                (fun o ho => ih _ _ _ optLineOK_none allCells_nil ho) h
    unfold Buffer.reflowGo at h
    cases rest with
    | some l =>
      simp only [] at h
      exact key l iter out (hrest l rfl) hiter h
    | none =>
      cases iter with
      | nil =>
        simp only [Option.some.injEq] at h
        subst h; exact allCells_nil
      | cons l ls =>
        simp only [] at h
        exact key l ls out (allCells_head hiter) (allCells_tail hiter) h

theorem reflow_ok (hQ : Q (Cell.blank Pen.default)) {ls out : List Line} {cols : Nat}
    (hl : AllCells Q ls) (h : Buffer.reflow ls cols = some out) : AllCells Q out := by
  unfold Buffer.reflow at h
  split at h
  · cases h
  · cases hg : Buffer.reflowGo cols (Buffer.reflowFuel ls) none ls with
    | none => simp [hg] at h
    | some o =>
      simp only [hg] at h
      split at h
      · cases h
        exact reflowGo_ok hQ cols _ _ _ _ optLineOK_none hl hg
      · cases h

theorem setLastUnwrapped_ok : ∀ {ls out : List Line}, AllCells Q ls →
    Buffer.setLastUnwrapped ls = some out → AllCells Q out := by
  intro ls
  induction ls with
  | nil => intro out _ h; simp [Buffer.setLastUnwrapped] at h
  | cons l ls ih =>
    intro out hl h
    cases ls with
    | nil =>
      simp only [Buffer.setLastUnwrapped, Option.some.injEq] at h
      subst h
      have hl' : LineOK Q l := allCells_head hl
      exact allCells_cons (fun c hc => hl' c hc) allCells_nil
    | cons l2 ls2 =>
      simp only [Buffer.setLastUnwrapped] at h
      exact mapCons_ok (allCells_head hl) (fun o ho => ih (allCells_tail hl) ho) h

end Lines

/-! ### Buffer.resize / Buffer.gc -/

/-- first phase of `Buffer.resize` (reflow when the width changes) -/
def rzStep1 (lines : List Line) (cursor : Nat × Nat) (oldCols oldRows newCols : Nat) (logPos : Nat × Nat) :
    Option (List Line × (Nat × Nat) × Nat) :=
  if newCols ≠ oldCols then
    match Buffer.reflow lines newCols with
    | none => none
    | some ls =>
      let ls := if ls.length < oldRows
        then ls ++ List.replicate (oldRows - ls.length) (Line.blank newCols Pen.default) else ls
      match Buffer.relativePosition ls logPos newCols oldRows with
      | none => none
      | some (rc, rr) =>
        if rr ≥ 0 then some (ls, (rc, rr.toNat), oldRows)
        else some (ls, (rc, 0), oldRows + (-rr).toNat)
  else some (lines, cursor, oldRows)

/-- second phase (height change) -/
def rzStep2 (lines : List Line) (cursor : Nat × Nat) (oldRows newCols newRows : Nat) :
    Option (List Line × (Nat × Nat)) :=
  let lineCount := lines.length
  if newRows < oldRows then
    let heightDelta := oldRows - newRows
    match csub oldRows 1 with
    | none => none
    | some o1 =>
      match csub o1 cursor.2 with
      | none => none
      | some inv =>
        let excess := min heightDelta inv
        let lines' : Option (List Line) :=
          if excess > 0 then
            match csub lineCount excess with
            | none => none
            | some k => Buffer.setLastUnwrapped (lines.take k)
          else some lines
        match lines', csub cursor.2 (heightDelta - excess) with
        | some ls, some row => some (ls, (cursor.1, row))
        | _, _ => none
  else if newRows > oldRows then
    let heightDelta := newRows - oldRows
    let sbSize := lineCount - min oldRows lineCount
    let shift := min sbSize heightDelta
    let heightDelta := heightDelta - shift
    let cursor := if cursor.2 < oldRows then (cursor.1, cursor.2 + shift) else cursor
    let lines := if heightDelta > 0
      then lines ++ List.replicate heightDelta (Line.blank newCols Pen.default) else lines
    some (lines, cursor)
  else some (lines, cursor)

theorem bufResize_eq (b : Buffer) (newCols newRows : Nat) (cursor : Nat × Nat) :
    b.resize newCols newRows cursor =
      match Buffer.logicalPosition b.lines cursor b.cols b.rows with
      | none => none
      | some logPos =>
        match rzStep1 b.lines cursor b.cols b.rows newCols logPos with
        | none => none
        | some (lines, cursor, oldRows) =>
          match rzStep2 lines cursor oldRows newCols newRows with
          | none => none
          | some (lines, cursor) =>
            match csub lines.length newRows with
            | none => none
            | some k =>
              some ({ b with sb := lines.take k, view := lines.drop k, cols := newCols, rows := newRows,
                             trimNeeded := true }, cursor) := rfl

section Buf
variable {Q : Cell → Prop}

theorem rzStep1_ok (hQ : Q (Cell.blank Pen.default)) {lines ls : List Line} {cursor cur' logPos : Nat × Nat}
    {oldCols oldRows newCols o' : Nat} (hl : AllCells Q lines)
    (h : rzStep1 lines cursor oldCols oldRows newCols logPos = some (ls, cur', o')) : AllCells Q ls := by
  unfold rzStep1 at h
  split at h
  · cases hr : Buffer.reflow lines newCols with
    | none => simp [hr] at h
    | some out =>
      simp only [hr] at h
      have hout := reflow_ok hQ hl hr
      have hls : AllCells Q (if out.length < oldRows
          then out ++ List.replicate (oldRows - out.length) (Line.blank newCols Pen.default) else out) := by
        split
        · exact allCells_append hout (allCells_replicate (blank_ok hQ))
        · exact hout
      generalize (if out.length < oldRows
          then out ++ List.replicate (oldRows - out.length) (Line.blank newCols Pen.default) else out) = x
        at h hls
      split at h
      · cases h
      · split at h <;> (cases h; exact hls)
  · cases h; exact hl

theorem rzStep2_ok (hQ : Q (Cell.blank Pen.default)) {lines ls : List Line} {cursor cur' : Nat × Nat}
    {oldRows newCols newRows : Nat} (hl : AllCells Q lines)
    (h : rzStep2 lines cursor oldRows newCols newRows = some (ls, cur')) : AllCells Q ls := by
  unfold rzStep2 at h
  simp only [] at h
  split at h
  · split at h
    · cases h
    · split at h
      · cases h
      · split at h
        · rename_i ls' row hls' _
          cases h
          split at hls'
          · split at hls'
            · cases hls'
            · exact setLastUnwrapped_ok (allCells_take _ hl) hls'
          · cases hls'; exact hl
        · cases h
  · split at h
    · cases h
      split
      · exact allCells_append hl (allCells_replicate (blank_ok hQ))
      · exact hl
    · cases h; exact hl

open Avt.Spec.C08 in
theorem bufResize_cells {Q : Cell → Prop} (hQ : Q (Cell.blank Pen.default)) {b b' : Buffer} {c r : Nat}
    {cur cur' : Nat × Nat} (hsb : AllCells Q b.sb) (hv : AllCells Q b.view)
    (h : b.resize c r cur = some (b', cur')) : AllCells Q b'.sb ∧ AllCells Q b'.view := by
  rw [bufResize_eq] at h
  have hl : AllCells Q b.lines := allCells_append hsb hv
  split at h
  · cases h
  · split at h
    · cases h
    · rename_i ls1 cur1 o1 h1
      have hl1 := rzStep1_ok hQ hl h1
      split at h
      · cases h
      · rename_i ls2 cur2 h2
        have hl2 := rzStep2_ok hQ hl1 h2
        split at h
        · cases h
        · cases h
          exact ⟨allCells_take _ hl2, allCells_drop _ hl2⟩

theorem bufGc_cells {Q : Cell → Prop} {b : Buffer} (hsb : AllCells Q b.sb) (hv : AllCells Q b.view) :
    AllCells Q b.gc.1.sb ∧ AllCells Q b.gc.1.view := by
  unfold Buffer.gc
  split
  · simp only []
    split
    · split
      · exact ⟨allCells_drop _ hsb, hv⟩
      · exact ⟨hsb, hv⟩
    · exact ⟨hsb, hv⟩
  · exact ⟨hsb, hv⟩

end Buf

/-! ### Terminal -/

/-- what `CellsInv` looks at, apart from the active buffer, is unchanged -/
def SameRest (t t' : Terminal) : Prop :=
  t'.pen = t.pen ∧ t'.savedCtx.pen = t.savedCtx.pen ∧ t'.alternateSavedCtx.pen = t.alternateSavedCtx.pen
    ∧ t'.otherBuffer = t.otherBuffer

theorem SameRest.cells {t t' : Terminal} (hc : CellsInv t) (hs : SameRest t t')
    (hsb : LinesOK t'.buffer.sb) (hv : LinesOK t'.buffer.view) : CellsInv t' :=
  { pen := hs.1 ▸ hc.pen, sctx := hs.2.1 ▸ hc.sctx, actx := hs.2.2.1 ▸ hc.actx, sb := hsb, view := hv,
    osb := hs.2.2.2 ▸ hc.osb, oview := hs.2.2.2 ▸ hc.oview }

theorem clampSavedCol_same {t t' : Terminal} (h : t.clampSavedCol = some t') :
    SameRest t t' ∧ t'.buffer = t.buffer := by
  unfold Terminal.clampSavedCol at h
  split at h
  · cases hc : csub t.cols 1 <;> simp [hc] at h
    subst h; exact ⟨⟨rfl, rfl, rfl, rfl⟩, rfl⟩
  · cases h; exact ⟨⟨rfl, rfl, rfl, rfl⟩, rfl⟩

theorem clampSavedRow_same {t t' : Terminal} (h : t.clampSavedRow = some t') :
    SameRest t t' ∧ t'.buffer = t.buffer := by
  unfold Terminal.clampSavedRow at h
  split at h
  · cases hc : csub t.rows 1 <;> simp [hc] at h
    subst h; exact ⟨⟨rfl, rfl, rfl, rfl⟩, rfl⟩
  · cases h; exact ⟨⟨rfl, rfl, rfl, rfl⟩, rfl⟩

theorem SameRest.trans {a b c : Terminal} (h1 : SameRest a b) (h2 : SameRest b c) : SameRest a c :=
  ⟨h2.1.trans h1.1, h2.2.1.trans h1.2.1, h2.2.2.1.trans h1.2.2.1, h2.2.2.2.trans h1.2.2.2⟩

theorem reflowTail_same {t t' : Terminal} (h : t.reflowTail = some t') :
    SameRest t t' ∧ t'.buffer = t.buffer := by
  unfold Terminal.reflowTail at h
  cases h1 : t.markDirtyRange 0 t.rows with
  | none => simp [h1] at h
  | some t1 =>
    have e1 : SameRest t t1 ∧ t1.buffer = t.buffer := by
      simp only [Terminal.markDirtyRange] at h1
      cases hd : Dirty.extend t.dirtyLines 0 t.rows <;> simp [hd] at h1
      subst h1; exact ⟨⟨rfl, rfl, rfl, rfl⟩, rfl⟩
    simp only [h1] at h
    cases h2 : t1.clampSavedCol with
    | none => simp [h2] at h
    | some t2 =>
      simp only [h2] at h
      have e2 := clampSavedCol_same h2
      have e3 := clampSavedRow_same h
      exact ⟨e1.1.trans (e2.1.trans e3.1), e3.2.trans (e2.2.trans e1.2)⟩

/-- `Terminal.reflow` swaps in the resized active buffer and touches nothing else `CellsInv` sees -/
theorem reflow_frame {t t' : Terminal} (h : t.reflow = some t') :
    SameRest t t' ∧ ∃ cur', t.buffer.resize t.cols t.rows (t.cursor.col, t.cursor.row) = some (t'.buffer, cur') := by
  rw [Terminal.reflow_eq] at h
  split at h
  · simp only [] at h
    split at h
    · cases h
    · rename_i b col row hres
      have e := reflowTail_same h
      exact ⟨e.1, (col, row), by rw [e.2]; exact hres⟩
  · simp only [] at h
    split at h
    · cases h
    · rename_i b col row hres
      have e := reflowTail_same h
      exact ⟨e.1, (col, row), by rw [e.2]; exact hres⟩

theorem reflow_cells {t t' : Terminal} (hc : CellsInv t) (h : t.reflow = some t') : CellsInv t' := by
  obtain ⟨hs, cur', hres⟩ := reflow_frame h
  have hb := bufResize_cells (Q := CellOK) (cellOK_blank penOK_default) hc.sb hc.view hres
  exact hs.cells hc hb.1 hb.2

theorem resize_cells {t t' : Terminal} {c r : Nat} (hc : CellsInv t) (h : t.resize c r = some t') :
    CellsInv t' := by
  rw [Terminal.resize_eq] at h
  split at h
  · split at h
    · cases h
    · exact reflow_cells (by exact ⟨hc.pen, hc.sctx, hc.actx, hc.sb, hc.view, hc.osb, hc.oview⟩) h
  · exact reflow_cells (by exact ⟨hc.pen, hc.sctx, hc.actx, hc.sb, hc.view, hc.osb, hc.oview⟩) h

theorem gc_cells {t : Terminal} (hc : CellsInv t) : CellsInv t.gc.1 := by
  have hb := bufGc_cells (Q := CellOK) hc.sb hc.view
  exact { hc with sb := hb.1, view := hb.2 }

theorem changes_cells {t : Terminal} (hc : CellsInv t) : CellsInv t.changes.1 := { hc with }

theorem bufNew_cells (cols rows : Nat) (lim : Option Nat) :
    LinesOK (Buffer.new cols rows lim none).sb ∧ LinesOK (Buffer.new cols rows lim none).view :=
  ⟨allCells_nil, allCells_replicate (blank_ok (cellOK_blank penOK_default))⟩

theorem new_cells {cols rows : Nat} {lim : Option Nat} {t : Terminal} (h : Terminal.new cols rows lim = some t) :
    CellsInv t := by
  unfold Terminal.new at h
  cases hr : csub rows 1 with
  | none => simp [hr] at h
  | some r1 =>
    simp only [hr, Option.map_some, Option.some.injEq] at h
    subst h
    exact { pen := penOK_default, sctx := penOK_default, actx := penOK_default,
            sb := (bufNew_cells cols rows lim).1, view := (bufNew_cells cols rows lim).2,
            osb := (bufNew_cells cols rows (some 0)).1, oview := (bufNew_cells cols rows (some 0)).2 }

theorem finish_cells {v : Vt} (hc : CellsInv v.terminal) : CellsInv (Vt.finish v).1.terminal :=
  gc_cells (changes_cells hc)

theorem vtResize_cells {v v' : Vt} {c r : Nat} {ch : Changes} (hc : CellsInv v.terminal)
    (h : v.resize c r = some (v', ch)) : CellsInv v'.terminal := by
  unfold Vt.resize at h
  cases hr : v.terminal.resize c r with
  | none => simp [hr] at h
  | some t =>
    simp only [hr, Option.map_some, Option.some.injEq] at h
    have h1 : v' = (Vt.finish { v with terminal := t }).1 := by rw [h]
    rw [h1]
    exact finish_cells (v := { v with terminal := t }) (resize_cells hc hr)

end Lemmas.C11
end Avt
