/-
  Avt.Lemmas.C19 — helper lemmas for property C19 (RIS returns the terminal to its power-on state).

  * `Parser.clear` under the register invariant `PInv` returns the registers of `Parser::new`;
  * `ESC` from every parser state enters `Escape` with cleared registers, `c` then dispatches `Ris`
    and leaves the power-on parser (`escAborts`);
  * `hard_reset` is `Terminal::new` of the current size and limit (`hardReset_eq_new`).
-/
import Avt.Spec.C19

namespace Avt
namespace Lemmas.C19

/-! ### registers -/

theorem all_zero_eq_replicate : ∀ (l : List Nat), l.all (· == 0) = true → l = List.replicate l.length 0
  | [], _ => rfl
  | x :: xs, h => by
    simp only [List.all_cons, Bool.and_eq_true, beq_iff_eq] at h
    simp only [List.length_cons, List.replicate_succ]
    rw [h.1, ← all_zero_eq_replicate xs h.2]

/-- a parameter register satisfying the invariant is cleared to the default register -/
theorem Param.clear_of_ok (q : Param) (h : Param.ok q = true) : q.clear = some {} := by
  obtain ⟨cp, parts⟩ := q
  simp only [Param.ok, Bool.and_eq_true, beq_iff_eq, decide_eq_true_eq] at h
  obtain ⟨⟨⟨hlen, hcp⟩, hdrop⟩, _⟩ := h
  have hd := all_zero_eq_replicate _ hdrop
  simp only [List.length_drop] at hd
  have hlen' : parts.length = 6 := hlen
  have hcp' : cp < 6 := hcp
  have hfill : fillRange parts 0 (cp + 1) 0 = some (List.replicate 6 0) := by
    unfold fillRange
    rw [if_pos (by omega)]
    congr 1
    rw [hd]
    simp only [List.take_zero, List.nil_append, Nat.sub_zero, List.replicate_append_replicate]
    congr 1; omega
  simp only [Param.clear, hfill]
  rfl

/-- a register that is `ok` and zero is the default register -/
theorem Param.eq_default_of_zero (q : Param) (hok : Param.ok q = true) (hz : Param.isZero q = true) : q = {} := by
  obtain ⟨cp, parts⟩ := q
  simp only [Param.isZero, Bool.and_eq_true, beq_iff_eq] at hz
  simp only [Param.ok, Bool.and_eq_true, beq_iff_eq, decide_eq_true_eq] at hok
  have hlen : parts.length = 6 := hok.1.1.1
  have := all_zero_eq_replicate _ hz.2
  rw [hlen] at this
  obtain ⟨h1, _⟩ := hz
  subst h1
  subst this
  rfl

theorem mapM_clear_of_ok : ∀ (l : List Param), l.all Param.ok = true →
    l.mapM Param.clear = some (List.replicate l.length {})
  | [], _ => rfl
  | q :: qs, h => by
    simp only [List.all_cons, Bool.and_eq_true] at h
    simp [List.mapM_cons, Param.clear_of_ok q h.1, mapM_clear_of_ok qs h.2, List.replicate_succ]

theorem eq_replicate_default : ∀ (l : List Param), l.all Param.ok = true → l.all Param.isZero = true →
    l = List.replicate l.length {}
  | [], _, _ => rfl
  | q :: qs, h, hz => by
    simp only [List.all_cons, Bool.and_eq_true] at h hz
    simp only [List.length_cons, List.replicate_succ]
    rw [← eq_replicate_default qs h.2 hz.2, Param.eq_default_of_zero q h.1 hz.1]

theorem all_take {α} (p : α → Bool) (l : List α) (n : Nat) (h : l.all p = true) : (l.take n).all p = true := by
  simp only [List.all_eq_true] at *
  exact fun x hx => h x (List.mem_of_mem_take hx)

theorem all_drop {α} (p : α → Bool) (l : List α) (n : Nat) (h : l.all p = true) : (l.drop n).all p = true := by
  simp only [List.all_eq_true] at *
  exact fun x hx => h x (List.mem_of_mem_drop hx)

/-- `Parser::clear` under the register invariant: every register becomes that of `Parser::new` -/
theorem Parser.clear_of_PInv (p : Parser) (h : PInv p = true) :
    p.clear = some { state := p.state, params := Parser.new.params, curParam := 0, intermediate := none } := by
  simp only [PInv, Bool.and_eq_true, beq_iff_eq, decide_eq_true_eq] at h
  obtain ⟨⟨⟨hlen, hcp⟩, hok⟩, hz⟩ := h
  have hlen' : p.params.length = 32 := hlen
  have hcp' : p.curParam < 32 := hcp
  have h1 := mapM_clear_of_ok (p.params.take (p.curParam + 1)) (all_take _ _ _ hok)
  have h2 := eq_replicate_default (p.params.drop (p.curParam + 1)) (all_drop _ _ _ hok) hz
  unfold Parser.clear
  rw [if_pos (by omega), h1]
  simp only
  rw [h2]
  simp only [List.length_take, List.length_drop, List.replicate_append_replicate]
  have : min (p.curParam + 1) p.params.length + (p.params.length - (p.curParam + 1)) = 32 := by omega
  rw [this]
  rfl

/-! ### ESC aborts everything, `c` dispatches RIS -/

/-- the parser right after `ESC` (from any state, under the register invariant) -/
def afterEsc : Parser := { state := .Escape, params := Parser.new.params, curParam := 0, intermediate := none }

/-- `(_, ESC)` is matched before every arm that could consume it, in every state
    (over the table regenerated from `Parser::feed`) -/
theorem findArm_esc (st : PState) :
    Parser.findArm Gen.feedArms st (Parser.premap 0x1b)
      = some ⟨[⟨none, 27, 27⟩], [Act.setState PState.Escape, Act.clear]⟩ := by
  cases st <;> decide

theorem feed_esc (p : Parser) (h : PInv p = true) : p.feed 0x1b = some (afterEsc, none) := by
  have hc : ({ p with state := PState.Escape } : Parser).clear = some afterEsc := by
    rw [Parser.clear_of_PInv _ (by simpa [PInv] using h)]
    rfl
  unfold Parser.feed
  rw [findArm_esc]
  simp only [Parser.runActs, hc]

/-- `c` in `Escape` (no intermediate) dispatches `Ris` and leaves exactly the power-on parser -/
theorem feed_c_afterEsc : afterEsc.feed 0x63 = some (Parser.new, some Function.ris) := by decide

/-- the content of `C19_esc_aborts`: from every parser state satisfying the register invariant,
    `ESC` then `c` emits nothing, then `Ris`, and leaves the parser of `Parser::new` -/
def EscAborts : Prop :=
  ∀ p : Parser, PInv p = true →
    ∃ p1, p.feed 0x1b = some (p1, none) ∧ p1.feed 0x63 = some (Parser.new, some Function.ris)

theorem escAborts : EscAborts := fun p h => ⟨afterEsc, feed_esc p h, feed_c_afterEsc⟩

/-! ### hard_reset -/

/-- `hard_reset` re-initialises every field `Terminal::new` initialises, with the same values; the
    only fields it does not assign are `cols`, `rows`, `scrollback_limit` (the configuration) and
    `xtwinops` (constant `false`) -/
theorem hardReset_eq_new (t : Terminal) (hx : t.xtwinops = false) :
    t.hardReset = Terminal.new t.cols t.rows t.scrollbackLimit := by
  unfold Terminal.hardReset Terminal.new
  cases csub t.rows 1 <;> simp [hx]

theorem xtwinops_of_TInv (t : Terminal) (h : TInv t = true) : t.xtwinops = false := by
  unfold TInv at h
  simp only [Bool.and_eq_true, Bool.not_eq_true'] at h
  exact h.2

/-! ### Vt level -/

theorem feedAll_append (v : Vt) (xs ys : List Nat) :
    v.feedAll (xs ++ ys) = (v.feedAll xs).bind (fun v' => v'.feedAll ys) := by
  induction xs generalizing v with
  | nil => rfl
  | cons x xs ih =>
    simp only [List.cons_append, Vt.feedAll]
    cases v.feed x with
    | none => rfl
    | some v' => exact ih v'

/-- `ESC c` from any state satisfying the invariant: exactly the power-on `Vt` of the current
    configuration (or a panic exactly when `Vt::new` would panic, i.e. never for `rows ≥ 1`) -/
theorem feedAll_ris (v : Vt) (h : Inv v = true) :
    v.feedAll [0x1b, 0x63] = Vt.new v.terminal.cols v.terminal.rows v.terminal.scrollbackLimit := by
  simp only [Inv, Bool.and_eq_true] at h
  have hx := xtwinops_of_TInv _ h.2
  simp only [Vt.feedAll, Vt.feed, feed_esc _ h.1, feed_c_afterEsc, Terminal.execute,
    hardReset_eq_new _ hx, Vt.new]
  cases Terminal.new v.terminal.cols v.terminal.rows v.terminal.scrollbackLimit <;> rfl

/-- the tail of a finishing call on a power-on terminal only clears the dirty flags -/
theorem finish_new (cols rows : Nat) (lim : Option Nat) (f : Vt) (hf : Vt.new cols rows lim = some f) :
    (Vt.finish f).1 = Spec.C19.normR f := by
  simp only [Vt.new, Terminal.new] at hf
  cases hr : csub rows 1 with
  | none => simp [hr] at hf
  | some r1 =>
    simp only [hr, Option.map_some, Option.some.injEq] at hf
    subst hf
    rfl

end Lemmas.C19
end Avt
