/-
  Avt.Lemmas.C11Full — the hypotheses of the general dump replay (`DumpOK`) from decidable predicates and
  from reachability.
-/
import Avt.Lemmas.C11Steps6
import Avt.Lemmas.C11CellsReach

namespace Avt
namespace Lemmas.C11
open Avt.Spec.C11 Avt.Spec.C08

theorem colorOKb_of {c : Color} (h : ColorOK c) : colorOKb c = true := by
  cases c with
  | indexed n => simpa [colorOKb, ColorOK] using h
  | rgb r g b => simpa [colorOKb, ColorOK, and_assoc] using h

theorem penOKb_of {p : Pen} (h : PenOK p) : penOKb p = true := by
  obtain ⟨h1, h2, h3⟩ := h
  simp only [penOKb, Bool.and_eq_true, decide_eq_true_eq]
  refine ⟨⟨h1, ?_⟩, ?_⟩
  · cases hf : p.fg with
    | none => rfl
    | some c => exact colorOKb_of (h2 c hf)
  · cases hb : p.bg with
    | none => rfl
    | some c => exact colorOKb_of (h3 c hb)

theorem viewOKb_of {v : List Line} (h : LinesOK v) : viewOKb v = true := by
  simp only [viewOKb, List.all_eq_true]
  intro l hl c hc
  have := h l hl c hc
  simp only [cellOKb, Bool.and_eq_true]
  exact ⟨this.1, penOKb_of this.2⟩

theorem linesOK_of_b {v : List Line} (h : viewOKb v = true) : LinesOK v :=
  fun l hl c hc => viewOK_of_b h l hl c hc

/-- the decidable side conditions give `DumpOK` -/
theorem dumpOK_of (T : Terminal) (hinv : TInv T = true) (hc : CellsInv T)
    (h2 : resizedOnAlt T = false) (h1 : cursorStepFaithful T = true) (h6 : sizeExceedsU16 T = false)
    (h7 : parkedCtxExceedsU16 T = false) : DumpOK T := by
  simp only [sizeExceedsU16, Bool.or_eq_false_iff, decide_eq_false_iff_not, Nat.not_le, Nat.not_lt] at h6
  refine ⟨⟨hinv, hc.pen, by omega, by omega⟩, h2, hc.view, fun _ => hc.oview, hc.sctx, hc.actx, ?_, h1⟩
  intro hp
  simp only [parkedCtxExceedsU16, hp, beq_self_eq_true, Bool.true_and, Bool.and_eq_false_iff, Bool.not_eq_false',
    Bool.or_eq_false_iff, decide_eq_false_iff_not, Nat.not_le] at h7
  rcases h7 with h7 | h7
  · exact Or.inl h7
  · exact Or.inr h7

/-- **restore half, general**: invariant + register shape + cell/pen invariant + the four exceptions -/
theorem restore_general (s : Vt) (hinv : Inv s = true) (hreg : PRegOK s.parser = true) (hc : CellsInv s.terminal)
    (h2 : resizedOnAlt s.terminal = false) (h1 : cursorStepFaithful s.terminal = true)
    (h6 : sizeExceedsU16 s.terminal = false) (h7 : parkedCtxExceedsU16 s.terminal = false) :
    ∃ r, restoreOf s = some r ∧ normD r = normD s := by
  have hi := hinv
  simp only [Inv, Bool.and_eq_true] at hi
  exact restore_of_dump s hinv hreg (dump_general s.terminal (dumpOK_of s.terminal hi.2 hc h2 h1 h6 h7))

end Lemmas.C11
end Avt
