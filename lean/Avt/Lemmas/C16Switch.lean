/-
  Avt.Lemmas.C16Switch — entering and leaving the alternate screen at unchanged geometry.
-/
import Avt.Lemmas.C16Geo

namespace Avt.C16
open Avt Avt.Spec.C16

/-- the cursor context and the active buffer -/
def sc (t : Terminal) : Buffer × Cursor × Pen × Bool × Bool × Bool :=
  (t.buffer, t.cursor, t.pen, t.originMode, t.autoWrapMode, t.pendingWrap)

theorem sc_markDirtyRange {t t' : Terminal} {a b} (h : t.markDirtyRange a b = some t') : sc t' = sc t := by
  unfold Terminal.markDirtyRange at h
  simp only [Option.map_eq_some_iff] at h
  obtain ⟨_, _, rfl⟩ := h; rfl

theorem sc_clampCol {t2 t3 : Terminal}
    (h3 : (if t2.savedCtx.cursorCol ≥ t2.cols
             then (csub t2.cols 1).map fun c1 => { t2 with savedCtx := { t2.savedCtx with cursorCol := c1 } }
             else some t2) = some t3) : sc t3 = sc t2 := by
  split at h3
  · simp only [Option.map_eq_some_iff] at h3; obtain ⟨_, _, rfl⟩ := h3; rfl
  · simp only [Option.some.injEq] at h3; subst h3; rfl

theorem sc_clampRow {t2 t3 : Terminal}
    (h3 : (if t2.savedCtx.cursorRow ≥ t2.rows
             then (csub t2.rows 1).map fun c1 => { t2 with savedCtx := { t2.savedCtx with cursorRow := c1 } }
             else some t2) = some t3) : sc t3 = sc t2 := by
  split at h3
  · simp only [Option.map_eq_some_iff] at h3; obtain ⟨_, _, rfl⟩ := h3; rfl
  · simp only [Option.some.injEq] at h3; subst h3; rfl

/-- `reflow` when the active buffer already has the terminal's size: only `trim_needed` is set -/
theorem reflow_same (hRS : ResizeSame) {t t' : Terminal} (hc : t.buffer.cols = t.cols)
    (hr : t.buffer.rows = t.rows) (hb : BInv t.buffer = true) (hrow : t.cursor.row < t.rows)
    (h : t.reflow = some t') :
    sc t' = ({ t.buffer with trimNeeded := true }, t.cursor, t.pen, t.originMode, t.autoWrapMode, t.pendingWrap) := by
  have e : t.buffer.resize t.cols t.rows (t.cursor.col, t.cursor.row)
      = some ({ t.buffer with trimNeeded := true }, (t.cursor.col, t.cursor.row)) := by
    rw [← hc, ← hr]
    exact hRS t.buffer (t.cursor.col, t.cursor.row) hb (by rw [hr]; exact hrow)
  unfold Terminal.reflow at h
  simp only [hc, ne_eq, not_true_eq_false, ↓reduceIte, e] at h
  split at h
  · simp at h
  · rename_i t2 h2
    split at h
    · simp at h
    · rename_i t3 h3
      rw [sc_clampRow h, sc_clampCol h3, sc_markDirtyRange h2]
      simp [sc, hc]

/-! ### what the proofs need from the invariant -/

theorem binv_parts {b : Buffer} (h : BInv b = true) : 1 ≤ b.cols ∧ 1 ≤ b.rows ∧ b.view.length = b.rows := by
  simp only [BInv, Bool.and_eq_true, decide_eq_true_eq, beq_iff_eq] at h
  exact ⟨h.1.1.1.1.1.1.1, h.1.1.1.1.1.1.2, h.1.1.1.1.1.2⟩

theorem tinv_parts {t : Terminal} (h : TInv t = true) :
    t.buffer.cols = t.cols ∧ t.buffer.rows = t.rows ∧ BInv t.buffer = true ∧ BInv t.otherBuffer = true
      ∧ t.cursor.row < t.rows
      ∧ (t.activeBufferType = .primary ∨ (t.alternateSavedCtx.cursorCol < t.otherBuffer.cols
            ∧ t.alternateSavedCtx.cursorRow < t.otherBuffer.rows))
      ∧ t.xtwinops = false := by
  simp only [TInv, Bool.and_eq_true, decide_eq_true_eq, beq_iff_eq, Bool.or_eq_true, Bool.not_eq_true'] at h
  obtain ⟨⟨⟨⟨⟨⟨⟨⟨⟨⟨⟨⟨⟨⟨⟨⟨h1, h2⟩, h3⟩, h4⟩, h5⟩, _⟩, _⟩, _⟩, _⟩, _⟩, _⟩, _⟩, h13⟩, _⟩, _⟩, _⟩, h17⟩ := h
  exact ⟨h1, h2, h3, h4, h5, h13, h17⟩

theorem lastUnwrapped_replicate (n : Nat) (l : Line) (hl : l.wrapped = false) :
    lastUnwrapped (List.replicate n l) = true := by
  induction n with
  | zero => rfl
  | succ n ih =>
    cases n with
    | zero => simp [List.replicate, lastUnwrapped, hl]
    | succ k => simpa [List.replicate, lastUnwrapped] using ih

theorem binv_new {c r : Nat} {pen : Option Pen} (hc : 1 ≤ c) (hr : 1 ≤ r) :
    BInv (Buffer.new c r (some 0) pen) = true := by
  have hl := lastUnwrapped_replicate r (Line.blank c (pen.getD Pen.default)) rfl
  have hw : ∀ n, (List.replicate n (Line.blank c (pen.getD Pen.default))).all
      (fun l => l.cells.length == c) = true := by
    intro n; simp [Line.blank]
  simp [BInv, Buffer.new, hl, hw, Buffer.mkLimit, hc, hr]

/-! ### entering -/

theorem switchToAlternate_primary {t t' : Terminal} (hp : t.activeBufferType = .primary)
    (h : t.switchToAlternateBuffer = some t') :
    fr t' = (t.buffer, t.savedCtx, .alternate) ∧ geo t' = geo t
      ∧ sc t' = (Buffer.new t.cols t.rows (some 0) (some t.pen), t.cursor, t.pen, t.originMode,
                 t.autoWrapMode, t.pendingWrap)
      ∧ t'.savedCtx = t.alternateSavedCtx := by
  unfold Terminal.switchToAlternateBuffer at h
  rw [hp] at h
  simp only [Terminal.markDirtyRange, Option.map_eq_some_iff] at h
  obtain ⟨d, _, rfl⟩ := h
  exact ⟨rfl, rfl, rfl, rfl⟩

theorem switchToPrimary_alternate {t t' : Terminal} (ha : t.activeBufferType = .alternate)
    (h : t.switchToPrimaryBuffer = some t') :
    fr t' = (t.buffer, t.savedCtx, .primary) ∧ geo t' = geo t
      ∧ sc t' = (t.otherBuffer, t.cursor, t.pen, t.originMode, t.autoWrapMode, t.pendingWrap)
      ∧ t'.savedCtx = t.alternateSavedCtx := by
  unfold Terminal.switchToPrimaryBuffer at h
  rw [ha] at h
  simp only [Terminal.markDirtyRange, Option.map_eq_some_iff] at h
  obtain ⟨d, _, rfl⟩ := h
  exact ⟨rfl, rfl, rfl, rfl⟩

theorem sc_buffer {t : Terminal} {b c p o a w} (h : sc t = (b, c, p, o, a, w)) :
    t.buffer = b ∧ t.cursor = c ∧ t.pen = p ∧ t.originMode = o ∧ t.autoWrapMode = a ∧ t.pendingWrap = w := by
  simp only [sc, Prod.mk.injEq] at h; exact h

theorem geo_parts {t t' : Terminal} (h : geo t' = geo t) : t'.cols = t.cols ∧ t'.rows = t.rows := by
  simp only [geo, Prod.mk.injEq] at h; exact ⟨h.1, h.2.1⟩

/-- the state right after `switch_to_alternate_buffer` + `reflow`, entered from `t0` -/
theorem enter_core (hRS : ResizeSame) {t0 t' : Terminal} (hc : 1 ≤ t0.cols) (hr : 1 ≤ t0.rows)
    (hrow : t0.cursor.row < t0.rows) (hp : t0.activeBufferType = .primary)
    (h : (match t0.switchToAlternateBuffer with | none => none | some t => t.reflow) = some t') :
    fr t' = (t0.buffer, t0.savedCtx, .alternate) ∧ geo t' = geo t0
      ∧ sc t' = ({ Buffer.new t0.cols t0.rows (some 0) (some t0.pen) with trimNeeded := true },
                 t0.cursor, t0.pen, t0.originMode, t0.autoWrapMode, t0.pendingWrap) := by
  split at h
  · simp at h
  · rename_i t1 h1
    obtain ⟨e1, e2, e3, _⟩ := switchToAlternate_primary hp h1
    obtain ⟨hb, hcur, hpen, ho, ha, hw⟩ := sc_buffer e3
    obtain ⟨hc1, hr1⟩ := geo_parts e2
    refine ⟨?_, ?_, ?_⟩
    · rw [fr_reflow h, e1]
    · rw [geo_reflow h, e2]
    · have hbi : BInv t1.buffer = true := by rw [hb]; exact binv_new hc hr
      have := reflow_same hRS (by rw [hb, hc1]; rfl) (by rw [hb, hr1]; rfl) hbi (by rw [hcur, hr1]; exact hrow) h
      rw [this, hb, hcur, hpen, ho, ha, hw]

theorem saveCursor_eq {t t' : Terminal} (h : t.saveCursor = some t') :
    t' = { t with savedCtx := entryCtx t } := by
  unfold Terminal.saveCursor at h
  simp only [Option.map_eq_some_iff, csub] at h
  obtain ⟨c1, hc1, rfl⟩ := h
  split at hc1
  · simp only [Option.some.injEq] at hc1; subst hc1; rfl
  · simp at hc1

/-- `DECSET 47/1047/1049` from the primary screen -/
theorem enter_spec (hRS : ResizeSame) {t t' : Terminal} {m : DecMode} (hinv : TInv t = true)
    (hp : t.activeBufferType = .primary) (hm : isAltScreenMode m = true) (h : t.decsetOne m = some t') :
    fr t' = (t.buffer, parkedCtx t (m == .saveCursorAltScreenBuffer), .alternate) ∧ geo t' = geo t
      ∧ sc t' = ({ Buffer.new t.cols t.rows (some 0) (some t.pen) with trimNeeded := true },
                 t.cursor, t.pen, t.originMode, t.autoWrapMode, t.pendingWrap) := by
  obtain ⟨hbc, hbr, hb, _, hrow, _, _⟩ := tinv_parts hinv
  obtain ⟨hc, hr, _⟩ := binv_parts hb
  rw [hbc] at hc; rw [hbr] at hr
  cases m <;> simp only [isAltScreenMode, Bool.false_eq_true] at hm <;> simp only [Terminal.decsetOne] at h
  · exact enter_core hRS hc hr hrow hp h
  · split at h
    · simp at h
    · rename_i t0 h0
      have e0 := saveCursor_eq h0
      subst e0
      exact enter_core hRS (t0 := { t with savedCtx := entryCtx t }) hc hr hrow hp h

/-- `DECRST 47/1047/1049` from the alternate screen when the parked primary still has the terminal's size -/
theorem leave_spec (hRS : ResizeSame) {t t' : Terminal} {m : DecMode} (hinv : TInv t = true)
    (ha : t.activeBufferType = .alternate) (hm : isAltScreenMode m = true)
    (hg1 : t.otherBuffer.cols = t.cols) (hg2 : t.otherBuffer.rows = t.rows) (h : t.decrstOne m = some t') :
    t'.activeBufferType = .primary ∧ geo t' = geo t ∧ t'.buffer = { t.otherBuffer with trimNeeded := true }
      ∧ (m = .saveCursorAltScreenBuffer → ctxRestored t.alternateSavedCtx t' = true) := by
  obtain ⟨_, _, _, hob, hrow, hactx, _⟩ := tinv_parts hinv
  have hactx : t.alternateSavedCtx.cursorRow < t.rows := by
    rcases hactx with h1 | h1
    · rw [ha] at h1; cases h1
    · rw [← hg2]; exact h1.2
  cases m <;> simp only [isAltScreenMode, Bool.false_eq_true] at hm <;> simp only [Terminal.decrstOne] at h
  · split at h
    · simp at h
    · rename_i t1 h1
      obtain ⟨e1, e2, e3, _⟩ := switchToPrimary_alternate ha h1
      obtain ⟨hb, hcur, hpen, ho, haw, hw⟩ := sc_buffer e3
      obtain ⟨hc1, hr1⟩ := geo_parts e2
      have hbi : BInv t1.buffer = true := by rw [hb]; exact hob
      have hs := reflow_same hRS (by rw [hb, hc1]; exact hg1) (by rw [hb, hr1]; exact hg2) hbi
        (by rw [hcur, hr1]; exact hrow) h
      obtain ⟨hb', _⟩ := sc_buffer hs
      refine ⟨?_, ?_, ?_, ?_⟩
      · have := fr_reflow h; rw [e1] at this
        exact congrArg (·.2.2) this
      · rw [geo_reflow h, e2]
      · rw [hb', hb]
      · intro hm; cases hm
  · split at h
    · simp at h
    · rename_i t1 h1
      obtain ⟨e1, e2, e3, e4⟩ := switchToPrimary_alternate ha h1
      obtain ⟨hb, hcur, hpen, ho, haw, hw⟩ := sc_buffer e3
      obtain ⟨hc1, hr1⟩ := geo_parts e2
      have hbi : BInv t1.restoreCursor.buffer = true := by
        show BInv t1.buffer = true; rw [hb]; exact hob
      have hs := reflow_same hRS (t := t1.restoreCursor) (by show t1.buffer.cols = t1.cols; rw [hb, hc1]; exact hg1)
        (by show t1.buffer.rows = t1.rows; rw [hb, hr1]; exact hg2) hbi
        (by show t1.savedCtx.cursorRow < t1.rows; rw [e4, hr1]; exact hactx) h
      obtain ⟨hb', hcur', hpen', ho', haw', hw'⟩ := sc_buffer hs
      refine ⟨?_, ?_, ?_, ?_⟩
      · have := fr_reflow h
        have e1' : fr t1.restoreCursor = fr t1 := rfl
        rw [e1', e1] at this
        exact congrArg (·.2.2) this
      · rw [geo_reflow h]; exact e2
      · rw [hb']; show { t1.buffer with trimNeeded := true } = _; rw [hb]
      · intro _
        simp only [ctxRestored, Bool.and_eq_true, beq_iff_eq, Bool.not_eq_true', hcur', hpen', ho', haw', hw',
          Terminal.restoreCursor, e4]
        simp
