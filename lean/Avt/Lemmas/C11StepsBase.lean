/-
  Avt.Lemmas.C11StepsBase — the compositional interface for the restore half of C11.

  `Feeds s t t'`: from ANY parser resting in `Ground` (registers arbitrary but satisfying `PInv`),
  feeding the string `s` to a `Vt` whose terminal is `t` succeeds, leaves terminal `t'`, and the parser
  is again resting in `Ground`.  `Feeds` composes under concatenation, so `Terminal.dump` can be
  replayed fragment by fragment.

  `Emits s fs`: the parser half — `s` makes the parser emit exactly the functions `fs`.
  Basic emitters: a printable character, CR, LF, SO, closed strings that begin with an introducer
  (memoryless: evaluated once on `Parser.new`), numeric CSI sequences, `Pen.dump`.
-/
import Avt.Lemmas.C11Blank
import Avt.Props.C03
import Avt.Props.C04
import Avt.Props.Closed
import Avt.Lemmas.C09Vt

namespace Avt
namespace Lemmas.C11
open Avt.Spec.C11 Avt.Spec.C04

/-! ### parser resting in Ground -/

def GP (q : Parser) : Prop := q.state = .Ground ∧ PInv q = true

theorem GP_new : GP Parser.new := ⟨rfl, by decide⟩

theorem GP_conc (A : Regs) (hA : RegsOK A) : GP (conc .Ground none A) := ⟨rfl, PInv_conc _ _ _ hA⟩

/-- `s` makes a resting parser emit exactly `fs` and rest again -/
def Emits (s : List Nat) (fs : List Function) : Prop :=
  ∀ q, GP q → ∃ q', pfeedAll q s = some (q', fs) ∧ GP q'

theorem Emits.nil : Emits [] [] := fun q hq => ⟨q, rfl, hq⟩

theorem Emits.append {s1 s2 : List Nat} {f1 f2 : List Function} (h1 : Emits s1 f1) (h2 : Emits s2 f2) :
    Emits (s1 ++ s2) (f1 ++ f2) := by
  intro q hq
  obtain ⟨q1, e1, g1⟩ := h1 q hq
  obtain ⟨q2, e2, g2⟩ := h2 q1 g1
  exact ⟨q2, by rw [pfeedAll_append, e1]; simp [e2], g2⟩

theorem run_eq_pfeedAll : ∀ (p : Parser) (s : List Nat), Spec.C03.run p s = pfeedAll p s
  | _, [] => rfl
  | p, c :: cs => by
    simp only [Spec.C03.run, pfeedAll]
    cases p.feed c with
    | none => rfl
    | some r => obtain ⟨p', f⟩ := r; simp only [run_eq_pfeedAll p' cs]; rfl

/-- a closed string that begins with ESC / CSI / DCS: evaluate it once, on `Parser.new` -/
theorem emits_fixed (c : Nat) (rest : List Nat) (fs : List Function)
    (hc : c = 0x1B ∨ c = 0x9B ∨ c = 0x90)
    (h : (pfeedAll Parser.new (c :: rest)).map (fun r => (r.2, decide (r.1.state = .Ground) && PInv r.1))
      = some (fs, true)) : Emits (c :: rest) fs := by
  intro q hq
  have := Props.C03.C03_memoryless_intro hq.2 GP_new.2 c hc rest
  rw [run_eq_pfeedAll, run_eq_pfeedAll] at this
  rw [this]
  cases hr : pfeedAll Parser.new (c :: rest) with
  | none => simp [hr] at h
  | some r =>
    simp only [hr, Option.map_some, Option.some.injEq, Prod.mk.injEq, Bool.and_eq_true, decide_eq_true_eq] at h
    obtain ⟨q', fs'⟩ := r
    simp only at h
    exact ⟨q', by rw [h.1], h.2.1, h.2.2⟩

/-! ### printable characters, CR, LF, SO -/

/-- what the resting parser prints: 0x20..0x7F and everything from 0xA0 on -/
def printableCh (c : Nat) : Bool := (0x20 ≤ c && c ≤ 0x7F) || 0xA0 ≤ c

theorem feed_printableCh (p : Parser) (hp : p.state = .Ground) {ch : Nat} (h : printableCh ch = true) :
    p.feed ch = some (p, some (.print ch)) := by
  obtain ⟨rest, hrest⟩ := Lemmas.feedArms_head
  simp only [printableCh, Bool.or_eq_true, Bool.and_eq_true, decide_eq_true_eq] at h
  have hm : Parser.Arm.matches ⟨[⟨some PState.Ground, 32, 127⟩], [Act.retPrint]⟩ PState.Ground
      (Parser.premap ch) = true := by
    simp only [Parser.Arm.matches, Parser.Pat.matches, List.any_cons, List.any_nil, Bool.or_false,
      beq_self_eq_true, Bool.true_and, Bool.and_eq_true, Parser.premap]
    have e1 : Gen.premapFrom = 160 := rfl
    have e2 : Gen.premapTo = 65 := rfl
    split
    · rw [e2]; simp
    · rename_i hc; rw [e1] at hc; simp only [decide_eq_true_eq]; omega
  unfold Parser.feed Parser.findArm
  rw [hrest, hp, List.find?_cons, hm]
  rfl

theorem emits_print {c : Nat} (h : printableCh c = true) : Emits [c] [.print c] := by
  intro q hq
  exact ⟨q, by simp [pfeedAll, feed_printableCh q hq.1 h], hq⟩

theorem emits_cr : Emits [0x0d] [.cr] := by
  intro q hq
  exact ⟨q, by simp [pfeedAll, Lemmas.feed_cr q hq.1], hq⟩

theorem emits_lf : Emits [0x0a] [.lf] := by
  intro q hq
  exact ⟨q, by simp [pfeedAll, Lemmas.feed_lf q hq.1], hq⟩

theorem feed_so (p : Parser) (hp : p.state = .Ground) : p.feed 0x0e = some (p, some .so) := by
  unfold Parser.feed
  rw [hp]
  have : Parser.findArm Gen.feedArms PState.Ground (Parser.premap 0x0e)
      = some ⟨[⟨some PState.Ground, 0, 23⟩, ⟨some PState.Ground, 25, 25⟩, ⟨some PState.Ground, 28, 31⟩],
          [Act.retExecute]⟩ := by decide
  rw [this]
  rfl

theorem emits_so : Emits [0x0e] [.so] := by
  intro q hq
  exact ⟨q, by simp [pfeedAll, feed_so q hq.1], hq⟩

/-! ### numeric CSI sequences -/

theorem emits_csi (A : Regs) (hA : RegsOK A) (fin : Nat) (h1 : 64 ≤ fin) (h2 : fin ≤ 126) (f : Function)
    (hd : Parser.csiDispatch (conc .Ground none A) fin = some (some f)) :
    Emits (0x9b :: renderAll A ++ [fin]) [f] := by
  intro q hq
  obtain ⟨_, hC, _⟩ := feed_clearing q hq.1 hq.2
  refine ⟨conc .Ground none A, ?_, GP_conc A hA⟩
  rw [List.cons_append, pfeedAll_cons_silent _ _ _ _ hC, pfeed_csi_body A hA fin h1 h2, hd]
  rfl

theorem emits_esc_csi (A : Regs) (hA : RegsOK A) (fin : Nat) (h1 : 64 ≤ fin) (h2 : fin ≤ 126) (f : Function)
    (hd : Parser.csiDispatch (conc .Ground none A) fin = some (some f)) :
    Emits (0x1b :: 0x5b :: renderAll A ++ [fin]) [f] := by
  intro q hq
  obtain ⟨hE, _, _⟩ := feed_clearing q hq.1 hq.2
  refine ⟨conc .Ground none A, ?_, GP_conc A hA⟩
  rw [List.cons_append, List.cons_append, pfeedAll_cons_silent _ _ _ _ hE,
    pfeedAll_cons_silent _ _ _ _ escape_bracket, pfeed_csi_body A hA fin h1 h2, hd]
  rfl

theorem regsOK_one (n : Nat) (h : n < 65536) : RegsOK [[n]] := by
  refine ⟨by simp, by simp, ?_⟩
  intro ps hps
  simp only [List.mem_singleton] at hps
  subst hps
  exact ⟨by simp, by simp, by simpa using h⟩

theorem regsOK_two (a b : Nat) (ha : a < 65536) (hb : b < 65536) : RegsOK [[a], [b]] := by
  refine ⟨by simp, by simp, ?_⟩
  intro ps hps
  simp only [List.mem_cons, List.not_mem_nil, or_false] at hps
  rcases hps with rfl | rfl
  · exact ⟨by simp, by simp, by simpa using ha⟩
  · exact ⟨by simp, by simp, by simpa using hb⟩

theorem renderAll_one (n : Nat) : renderAll [[n]] = renderDec n := by
  simp [renderAll_single, renderParts]

theorem renderAll_two (a b : Nat) : renderAll [[a], [b]] = renderDec a ++ 0x3b :: renderDec b := by
  simp [renderAll_cons₂, renderAll_single, renderParts]

theorem paramU16_conc0 (st : PState) (im : Option Nat) (n : Nat) (A : Regs) :
    (conc st im ([n] :: A)).paramU16 0 = some n := by
  simp [Parser.paramU16, conc, encParams, encParam, Param.asU16]

theorem paramU16_conc1 (st : PState) (im : Option Nat) (a n : Nat) (A : Regs) :
    (conc st im ([a] :: [n] :: A)).paramU16 1 = some n := by
  simp [Parser.paramU16, conc, encParams, encParam, Param.asU16]

/-- `CSI n F` for the one-parameter functions -/
theorem emits_csi1 (n : Nat) (hn : n < 65536) (fin : Nat) (g : Nat → Function)
    (harm : Gen.csiArms.find? (fun a => Parser.CsiArm.matches a none fin) = some ⟨none, fin, CsiRhs.f1 g⟩)
    (h1 : 64 ≤ fin) (h2 : fin ≤ 126) :
    Emits (0x9b :: renderDec n ++ [fin]) [g n] := by
  have := emits_csi [[n]] (regsOK_one n hn) fin h1 h2 (g n) (by
    simp only [Parser.csiDispatch, conc]
    have e := paramU16_conc0 .Ground none n []
    simp only [conc] at e
    rw [harm]
    simp only [e, Option.map_some])
  rwa [renderAll_one] at this

theorem emits_esc_csi1 (n : Nat) (hn : n < 65536) (fin : Nat) (g : Nat → Function)
    (harm : Gen.csiArms.find? (fun a => Parser.CsiArm.matches a none fin) = some ⟨none, fin, CsiRhs.f1 g⟩)
    (h1 : 64 ≤ fin) (h2 : fin ≤ 126) :
    Emits (0x1b :: 0x5b :: renderDec n ++ [fin]) [g n] := by
  have := emits_esc_csi [[n]] (regsOK_one n hn) fin h1 h2 (g n) (by
    simp only [Parser.csiDispatch, conc]
    have e := paramU16_conc0 .Ground none n []
    simp only [conc] at e
    rw [harm]
    simp only [e, Option.map_some])
  rwa [renderAll_one] at this

/-- `CSI a;b F` for the two-parameter functions -/
theorem emits_csi2 (a b : Nat) (ha : a < 65536) (hb : b < 65536) (fin : Nat) (g : Nat → Nat → Function)
    (harm : Gen.csiArms.find? (fun a => Parser.CsiArm.matches a none fin) = some ⟨none, fin, CsiRhs.f2 g⟩)
    (h1 : 64 ≤ fin) (h2 : fin ≤ 126) :
    Emits (0x9b :: renderDec a ++ 0x3b :: renderDec b ++ [fin]) [g a b] := by
  have := emits_csi [[a], [b]] (regsOK_two a b ha hb) fin h1 h2 (g a b) (by
    simp only [Parser.csiDispatch, conc]
    have e0 := paramU16_conc0 .Ground none a [[b]]
    have e1 := paramU16_conc1 .Ground none a b []
    simp only [conc] at e0 e1
    rw [harm]
    simp only [e0, e1])
  rw [renderAll_two] at this
  simpa using this

/-- REP: `ESC [ n b` -/
theorem emits_rep (n : Nat) (hn : n < 65536) : Emits ([0x1b, 0x5b] ++ renderDec n ++ [0x62]) [.rep n] :=
  emits_esc_csi1 n hn 0x62 Function.rep rfl (by decide) (by decide)

/-- `Pen.dump p` emits one SGR whose execution sets the pen to `p` -/
theorem emits_pen (p : Pen) (h : PenOK p) :
    ∃ d, p.dump = some d ∧ Emits d [.sgr (penOps p)] := by
  refine ⟨_, pen_dump_eq p h, ?_⟩
  intro q hq
  exact ⟨_, pfeed_sgr q hq.1 hq.2 _ (regsOK_penRegs p h) _ (sgrOps_penRegs p h), GP_conc _ (regsOK_penRegs p h)⟩

theorem exec_sgr_pen (p : Pen) (h : PenOK p) (t : Terminal) :
    t.execute (.sgr (penOps p)) = some { t with pen := p } := by
  simp [Terminal.execute, Terminal.sgr, apply_penOps p t.pen h]

/-! ### Feeds -/

def Feeds (s : List Nat) (t t' : Terminal) : Prop :=
  ∀ q, GP q → ∃ q', Vt.feedAll ⟨q, t⟩ s = some ⟨q', t'⟩ ∧ GP q'

theorem Feeds.nil (t : Terminal) : Feeds [] t t := fun q hq => ⟨q, rfl, hq⟩

theorem Feeds.append {s1 s2 : List Nat} {t t1 t2 : Terminal} (h1 : Feeds s1 t t1) (h2 : Feeds s2 t1 t2) :
    Feeds (s1 ++ s2) t t2 := by
  intro q hq
  obtain ⟨q1, e1, g1⟩ := h1 q hq
  obtain ⟨q2, e2, g2⟩ := h2 q1 g1
  exact ⟨q2, by rw [Lemmas.C19.feedAll_append, e1]; exact e2, g2⟩

theorem Feeds.of_emits {s : List Nat} {fs : List Function} {t t' : Terminal} (h : Emits s fs)
    (he : Terminal.foldM' Terminal.execute fs t = some t') : Feeds s t t' := by
  intro q hq
  obtain ⟨q', e, g⟩ := h q hq
  refine ⟨q', ?_, g⟩
  rw [feedAll_eq_pfeedAll]
  simp [e, he]

theorem Feeds.one {s : List Nat} {f : Function} {t t' : Terminal} (h : Emits s [f])
    (he : t.execute f = some t') : Feeds s t t' :=
  Feeds.of_emits h (by simp [Terminal.foldM', he])

theorem Feeds.cast {s s' : List Nat} {t t' : Terminal} (h : Feeds s t t') (e : s = s') : Feeds s' t t' := e ▸ h

/-- conditional fragment: `if c then s else []` -/
theorem Feeds.ite {c : Prop} [Decidable c] {s : List Nat} {t t' : Terminal}
    (h1 : c → Feeds s t t') (h2 : ¬ c → t' = t) : Feeds (if c then s else []) t t' := by
  split
  · exact h1 ‹_›
  · rw [h2 ‹_›]; exact Feeds.nil t

/-! ### print / rep under the invariant -/

theorem feeds_print {c : Nat} (hc : printableCh c = true) (t : Terminal) (h : TInv t = true) :
    Feeds [c] t (printSpec t c) :=
  Feeds.one (emits_print hc) (Props.C04.C04_print t c h)

theorem feeds_rep (n : Nat) (hn : n < 65536) (t : Terminal) (h : TInv t = true) :
    Feeds ([0x1b, 0x5b] ++ renderDec n ++ [0x62]) t (repSpec t n) :=
  Feeds.one (emits_rep n hn) (Props.C04.C04_rep t n h)

theorem feeds_pen (p : Pen) (hp : PenOK p) (t : Terminal) :
    ∃ d, p.dump = some d ∧ Feeds d t { t with pen := p } := by
  obtain ⟨d, hd, he⟩ := emits_pen p hp
  exact ⟨d, hd, Feeds.one he (exec_sgr_pen p hp t)⟩

end Lemmas.C11
end Avt
