/-
  Avt.Lemmas.ParserSem — from the table equality to the semantics of `Parser.feed`:
  `feed p c = sem (williams p.state c) p c`, the register invariant, `clear`, `param`.
-/
import Avt.Lemmas.ParserTable

namespace Avt.ParserSem
open Avt Avt.Lookup Avt.Spec.C03 Avt.ParserTable

/-- what `Parser.feed` does for a transition of kind `w.1` into state `w.2` -/
def sem (w : Kind × PState) (p : Parser) (c : Nat) : Option (Parser × Option Function) :=
  match w.1 with
  | .ignore | .put | .oscPut => some ({ p with state := w.2 }, none)
  | .print => some ({ p with state := w.2 }, some (.print c))
  | .execute => some ({ p with state := w.2 }, Parser.execute c)
  | .collect => some ({ p with state := w.2, intermediate := some c }, none)
  | .clear => p.clear.map fun p' => ({ p' with state := w.2 }, none)
  | .param => (p.param c).map fun p' => ({ p' with state := w.2 }, none)
  | .dispatchCsi => (p.csiDispatch c).map fun f => ({ p with state := w.2 }, f)
  | .dispatchEsc => ({ p with state := w.2 } : Parser).escDispatch c

theorem clear_state {p p' : Parser} (h : p.clear = some p') : p'.state = p.state := by
  unfold Parser.clear at h
  split at h
  · split at h
    · cases h; rfl
    · cases h
  · cases h

theorem param_state {p p' : Parser} {c : Nat} (h : p.param c = some p') : p'.state = p.state := by
  unfold Parser.param at h
  split at h
  · cases h; rfl
  · split at h
    · split at h
      · cases h; rfl
      · cases h
    · split at h
      · cases h
      · split at h
        · cases h; rfl
        · cases h

theorem clear_setState (p : Parser) (s : PState) :
    ({ p with state := s } : Parser).clear = p.clear.map fun p' => { p' with state := s } := by
  unfold Parser.clear
  simp only
  split
  · split <;> rfl
  · rfl

theorem param_setState (p : Parser) (s : PState) (c : Nat) :
    ({ p with state := s } : Parser).param c = (p.param c).map fun p' => { p' with state := s } := by
  unfold Parser.param
  simp only
  split
  · rfl
  · split
    · split <;> rfl
    · split
      · rfl
      · split <;> rfl

theorem sem_setState (w : Kind × PState) (p : Parser) (s : PState) (c : Nat) :
    sem w { p with state := s } c = sem w p c := by
  obtain ⟨k, st⟩ := w
  cases k <;> simp only [sem] <;> try rfl
  · rw [param_setState]; cases p.param c <;> rfl
  · rw [clear_setState]; cases p.clear <;> rfl

theorem runActs_onlySetStates (as : List Act) (p : Parser) (c : Nat) (s : PState)
    (h : onlySetStates as p.state = some s) : Parser.runActs as p c = some ({ p with state := s }, none) := by
  induction as generalizing p with
  | nil => simp only [onlySetStates] at h; cases h; rfl
  | cons a as ih =>
    cases a <;> simp only [onlySetStates] at h <;> try cases h
    rename_i s'
    simp only [Parser.runActs]
    exact ih { p with state := s' } h

theorem runActs_classify (as : List Act) (p : Parser) (c : Nat) (w : Kind × PState)
    (h : classify as p.state = some w) : Parser.runActs as p c = sem w p c := by
  induction as generalizing p with
  | nil => simp only [classify] at h; cases h; rfl
  | cons a as ih =>
    cases a with
    | setState s =>
      simp only [classify] at h
      simp only [Parser.runActs]
      rw [ih { p with state := s } h, sem_setState]
    | retPrint => simp only [classify] at h; cases h; rfl
    | retExecute => simp only [classify] at h; cases h; rfl
    | retCsiDispatch => simp only [classify] at h; cases h; rfl
    | retEscDispatch => simp only [classify] at h; cases h; rfl
    | clear =>
      simp only [classify, Option.map_eq_some_iff] at h
      obtain ⟨s, hs, rfl⟩ := h
      simp only [Parser.runActs, sem]
      cases hc : p.clear with
      | none => rfl
      | some p' =>
        simp only [Option.map_some]
        exact runActs_onlySetStates as p' c s (by rw [clear_state hc]; exact hs)
    | collect =>
      simp only [classify, Option.map_eq_some_iff] at h
      obtain ⟨s, hs, rfl⟩ := h
      simp only [Parser.runActs, sem]
      exact runActs_onlySetStates as (p.collect c) c s hs
    | param =>
      simp only [classify, Option.map_eq_some_iff] at h
      obtain ⟨s, hs, rfl⟩ := h
      simp only [Parser.runActs, sem]
      cases hc : p.param c with
      | none => rfl
      | some p' =>
        simp only [Option.map_some]
        exact runActs_onlySetStates as p' c s (by rw [param_state hc]; exact hs)
    | put =>
      simp only [classify, Option.map_eq_some_iff] at h
      obtain ⟨s, hs, rfl⟩ := h
      simp only [Parser.runActs, sem]
      exact runActs_onlySetStates as p c s hs
    | oscPut =>
      simp only [classify, Option.map_eq_some_iff] at h
      obtain ⟨s, hs, rfl⟩ := h
      simp only [Parser.runActs, sem]
      exact runActs_onlySetStates as p c s hs

/-- **Semantics of `Parser::feed` through the diagram**: for every register file and every code point,
    `feed` performs the action Williams' table names and moves to the state it names. -/
theorem feed_eq_sem (p : Parser) (c : Nat) : p.feed c = sem (williams p.state c) p c := by
  have h := table_eq p.state c
  unfold kindAndNext at h
  unfold Parser.feed
  cases hf : Parser.findArm Gen.feedArms p.state (Parser.premap c) with
  | none =>
    rw [hf] at h
    simp only [Option.some.injEq] at h
    rw [← h]; rfl
  | some arm =>
    rw [hf] at h
    exact runActs_classify _ _ _ _ h

/-! ### the register invariant, unpacked -/

theorem ok_iff (q : Param) : Param.ok q = true ↔
    q.parts.length = 6 ∧ q.curPart < 6 ∧ (∀ x ∈ q.parts.drop (q.curPart + 1), x = 0) ∧ (∀ x ∈ q.parts, x < 65536) := by
  simp only [Param.ok, Bool.and_eq_true, beq_iff_eq, List.all_eq_true, and_assoc, decide_eq_true_iff]
  exact Iff.rfl

theorem isZero_iff (q : Param) : Param.isZero q = true ↔ q.curPart = 0 ∧ ∀ x ∈ q.parts, x = 0 := by
  simp [Param.isZero]

theorem pinv_iff (p : Parser) : PInv p = true ↔
    p.params.length = 32 ∧ p.curParam < 32 ∧ (∀ q ∈ p.params, Param.ok q = true)
      ∧ (∀ q ∈ p.params.drop (p.curParam + 1), Param.isZero q = true) := by
  simp only [PInv, Bool.and_eq_true, beq_iff_eq, List.all_eq_true, and_assoc, decide_eq_true_iff]
  exact Iff.rfl

theorem eq_replicate_of_all {α : Type} (l : List α) (d : α) (h : ∀ x ∈ l, x = d) : l = List.replicate l.length d :=
  List.eq_replicate_iff.2 ⟨rfl, h⟩

theorem zero_param {q : Param} (hok : Param.ok q = true) (hz : Param.isZero q = true) : q = {} := by
  obtain ⟨cp, parts⟩ := q
  rw [ok_iff] at hok
  rw [isZero_iff] at hz
  simp only at hok hz
  obtain ⟨rfl, hz⟩ := hz
  have := eq_replicate_of_all parts 0 hz
  rw [hok.1] at this
  subst this
  rfl

theorem ok_default : Param.ok {} = true := by decide

theorem param_clear {q : Param} (hok : Param.ok q = true) : q.clear = some {} := by
  obtain ⟨cp, parts⟩ := q
  rw [ok_iff] at hok
  simp only at hok
  obtain ⟨hlen, hcp, hdrop, -⟩ := hok
  have hd := eq_replicate_of_all _ 0 hdrop
  simp only [List.length_drop, hlen] at hd
  unfold Param.clear fillRange
  simp only [Nat.zero_le, true_and, hlen, Nat.sub_zero, List.take_zero, List.nil_append]
  rw [if_pos (by omega), hd, List.replicate_append_replicate]
  have : cp + 1 + (6 - (cp + 1)) = 6 := by omega
  rw [this]
  rfl

theorem mapM_const {α β : Type} (f : α → Option β) (d : β) (l : List α) (h : ∀ x ∈ l, f x = some d) :
    l.mapM f = some (List.replicate l.length d) := by
  induction l with
  | nil => rfl
  | cons a as ih =>
    rw [List.mapM_cons, h a List.mem_cons_self, ih (fun x hx => h x (List.mem_cons_of_mem _ hx))]
    rfl

/-- under the register invariant `clear` yields the all-zero register file -/
theorem clear_eq {p : Parser} (hp : PInv p = true) : p.clear = some { state := p.state } := by
  rw [pinv_iff] at hp
  obtain ⟨hlen, hcp, hok, hz⟩ := hp
  unfold Parser.clear
  rw [if_pos (by omega)]
  have h1 : (p.params.take (p.curParam + 1)).mapM Param.clear
      = some (List.replicate (p.curParam + 1) {}) := by
    have := mapM_const Param.clear {} (p.params.take (p.curParam + 1))
      (fun q hq => param_clear (hok q (List.mem_of_mem_take hq)))
    rw [this, List.length_take, hlen]
    congr 2; omega
  rw [h1]
  simp only
  have h2 : p.params.drop (p.curParam + 1) = List.replicate (32 - (p.curParam + 1)) {} := by
    have := eq_replicate_of_all (p.params.drop (p.curParam + 1)) {}
      (fun q hq => zero_param (hok q (List.mem_of_mem_drop hq)) (hz q hq))
    rw [this, List.length_drop, hlen]
  rw [h2, List.replicate_append_replicate]
  have : p.curParam + 1 + (32 - (p.curParam + 1)) = 32 := by omega
  rw [this]
  rfl

theorem pinv_zero (s : PState) : PInv { state := s } = true := by cases s <;> decide

theorem written_zero (s : PState) : written { state := s } = [[0]] := by cases s <;> decide

/-! ### `param`: the register machine against the text-level `stepW` -/

theorem modLast_append {α : Type} (xs : List α) (x : α) (f : α → α) : modLast (xs ++ [x]) f = xs ++ [f x] := by
  induction xs with
  | nil => rfl
  | cons a as ih =>
    cases as with
    | nil => rfl
    | cons b bs =>
      show a :: modLast (b :: bs ++ [x]) f = _
      rw [ih]; rfl

/-- the sub-parts of one parameter that were written -/
def wparts (q : Param) : List Nat := q.parts.take (q.curPart + 1)

theorem written_eq (p : Parser) (h : p.curParam < p.params.length) :
    written p = (p.params.take p.curParam).map wparts ++ [wparts p.params[p.curParam]] := by
  unfold written
  rw [List.take_succ_eq_append_getElem h, List.map_append]
  rfl

theorem written_set (p : Parser) (h : p.curParam < p.params.length) (q' : Param) :
    written { p with params := p.params.set p.curParam q' }
      = (p.params.take p.curParam).map wparts ++ [wparts q'] := by
  have h' : p.curParam < (p.params.set p.curParam q').length := by simpa using h
  rw [written_eq _ h']
  simp only [List.take_set_of_le (Nat.le_refl _), List.getElem_set_self]

theorem pinv_set {p : Parser} (hp : PInv p = true) {q' : Param} (hq : Param.ok q' = true) :
    PInv { p with params := p.params.set p.curParam q' } = true := by
  rw [pinv_iff] at hp ⊢
  obtain ⟨hlen, hcp, hok, hz⟩ := hp
  refine ⟨by simpa using hlen, hcp, ?_, ?_⟩
  · intro q hq'
    rcases List.mem_or_eq_of_mem_set hq' with h | h
    · exact hok q h
    · rw [h]; exact hq
  · intro q hq'
    simp only at hq'
    rw [List.drop_set_of_lt (Nat.lt_succ_self _)] at hq'
    exact hz q hq'

theorem wparts_default : wparts {} = [0] := by decide

/-- one parameter character: `param` succeeds, keeps the invariant, and the parameters encoded by the
    registers change exactly as the text-level `stepW` says -/
theorem param_spec {p : Parser} (hp : PInv p = true) {c : Nat} (h1 : 0x30 ≤ c) (h2 : c ≤ 0x3B) :
    ∃ p', p.param c = some p' ∧ PInv p' = true ∧ p'.state = p.state ∧ p'.intermediate = p.intermediate
      ∧ written p' = stepW (written p) c := by
  have hp' := hp
  rw [pinv_iff] at hp'
  obtain ⟨hlen, hcp, hok, hz⟩ := hp'
  have hcpl : p.curParam < p.params.length := by omega
  have hwl : (written p).length = p.curParam + 1 := by
    unfold written; rw [List.length_map, List.length_take]; omega
  unfold Parser.param
  rw [show Gen.paramsLen = 32 from rfl]
  by_cases hsemi : c = 0x3B
  · -- `;`
    subst hsemi
    simp only [if_true]
    refine ⟨_, rfl, ?_, rfl, rfl, ?_⟩
    · rw [pinv_iff]
      refine ⟨hlen, ?_, hok, ?_⟩
      · show (if p.curParam + 1 = 32 then 32 - 1 else p.curParam + 1) < 32
        split <;> omega
      · intro q hq
        simp only at hq
        apply hz q
        split at hq
        · have : p.curParam = 31 := by omega
          simpa [this] using hq
        · have := List.drop_drop (i := 1) (j := p.curParam + 1) (l := p.params)
          rw [← this] at hq
          exact List.mem_of_mem_drop hq
    · unfold stepW
      simp only [if_true, hwl]
      by_cases h31 : p.curParam + 1 = 32
      · rw [if_pos h31, if_neg (by omega)]
        have : p.curParam = 31 := by omega
        unfold written
        simp only [this]
      · rw [if_neg h31, if_pos (by omega)]
        have hlt : p.curParam + 1 < p.params.length := by omega
        unfold written
        simp only
        rw [List.take_succ_eq_append_getElem hlt, List.map_append]
        congr 1
        have hmem : p.params[p.curParam + 1] ∈ p.params.drop (p.curParam + 1) :=
          List.mem_drop_iff_getElem.2 ⟨0, by simpa using hlt, rfl⟩
        have := zero_param (hok _ (List.getElem_mem hlt)) (hz _ hmem)
        simp only [List.map_cons, List.map_nil, this]
        rfl
  · rw [if_neg hsemi]
    have hq := hok _ (List.getElem_mem hcpl)
    have hq' := hq
    rw [ok_iff] at hq'
    obtain ⟨qlen, qcp, qdrop, qlt⟩ := hq'
    by_cases hcolon : c = 0x3A
    · -- `:`
      subst hcolon
      simp only [if_true]
      unfold modAt
      rw [List.getElem?_eq_getElem hcpl]
      simp only
      have hok' : Param.ok (Param.addPart p.params[p.curParam]) = true := by
        rw [ok_iff]
        unfold Param.addPart
        rw [show Gen.maxParamLen = 6 from rfl]
        refine ⟨qlen, by simp only; omega, ?_, qlt⟩
        intro x hx
        apply qdrop x
        have hle : p.params[p.curParam].curPart + 1 ≤ min (p.params[p.curParam].curPart + 1) (6 - 1) + 1 := by omega
        obtain ⟨k, hk⟩ := Nat.exists_eq_add_of_le hle
        rw [hk, ← List.drop_drop] at hx
        exact List.mem_of_mem_drop hx
      refine ⟨_, rfl, pinv_set hp hok', rfl, rfl, ?_⟩
      rw [written_set p hcpl, written_eq p hcpl]
      unfold stepW
      simp only [if_true, show (0x3A : Nat) ≠ 0x3B by decide, if_false, modLast_append]
      congr 2
      unfold wparts
      unfold Param.addPart
      rw [show Gen.maxParamLen = 6 from rfl]
      simp only [List.length_take, qlen]
      by_cases h5 : p.params[p.curParam].curPart + 1 < 6
      · rw [if_pos (by omega)]
        have e : min (p.params[p.curParam].curPart + 1) (6 - 1) = p.params[p.curParam].curPart + 1 := by omega
        rw [e]
        have hlt : p.params[p.curParam].curPart + 1 < p.params[p.curParam].parts.length := by omega
        rw [List.take_succ_eq_append_getElem hlt]
        congr 2
        apply qdrop
        exact List.mem_drop_iff_getElem.2 ⟨0, by simpa using hlt, rfl⟩
      · rw [if_neg (by omega)]
        have e : min (p.params[p.curParam].curPart + 1) (6 - 1) = p.params[p.curParam].curPart := by omega
        rw [e]
    · -- a digit
      rw [if_neg hcolon]
      have hc256 : c % 256 = c := Nat.mod_eq_of_lt (by omega)
      unfold csub
      rw [hc256, if_pos h1]
      simp only
      unfold modAtM
      rw [List.getElem?_eq_getElem hcpl]
      simp only
      have hcur : p.params[p.curParam].curPart < p.params[p.curParam].parts.length := by omega
      unfold Param.addDigit
      rw [List.getElem?_eq_getElem hcur]
      simp only
      have hn := qlt _ (List.getElem_mem hcur)
      rw [if_pos (by omega)]
      simp only
      have hok' : Param.ok { p.params[p.curParam] with
          parts := p.params[p.curParam].parts.set p.params[p.curParam].curPart
            ((10 * p.params[p.curParam].parts[p.params[p.curParam].curPart] + (c - 48)) % 65536) } = true := by
        rw [ok_iff]
        refine ⟨by simpa using qlen, qcp, ?_, ?_⟩
        · intro x hx
          simp only at hx
          rw [List.drop_set_of_lt (Nat.lt_succ_self _)] at hx
          exact qdrop x hx
        · intro x hx
          rcases List.mem_or_eq_of_mem_set hx with h | h
          · exact qlt x h
          · rw [h]; exact Nat.mod_lt _ (by decide)
      refine ⟨_, rfl, pinv_set hp hok', rfl, rfl, ?_⟩
      rw [written_set p hcpl, written_eq p hcpl]
      unfold stepW
      rw [if_neg hsemi, if_neg hcolon, modLast_append]
      congr 2
      unfold wparts
      simp only
      have hcur' : p.params[p.curParam].curPart
          < (p.params[p.curParam].parts.set p.params[p.curParam].curPart
              ((10 * p.params[p.curParam].parts[p.params[p.curParam].curPart] + (c - 48)) % 65536)).length := by
        simpa using hcur
      rw [List.take_succ_eq_append_getElem hcur', List.take_succ_eq_append_getElem hcur, modLast_append]
      simp only [List.take_set_of_le (Nat.le_refl _), List.getElem_set_self]

/-! ### small association tables: `execute`, modes -/

theorem lookup_none_of_not_mem {β : Type} (t : List (Nat × β)) (c : Nat) (h : c ∉ t.map (·.1)) :
    t.lookup c = none := by
  induction t with
  | nil => rfl
  | cons kv t ih =>
    obtain ⟨k, v⟩ := kv
    simp only [List.map_cons, List.mem_cons, not_or] at h
    rw [List.lookup_cons]
    have : (c == k) = false := by simpa using h.1
    rw [this]
    exact ih h.2

/-- two association tables agree everywhere when they agree on all their keys -/
theorem lookup_ext {β : Type} [DecidableEq β] (t1 t2 : List (Nat × β))
    (h : (t1.map (·.1) ++ t2.map (·.1)).all (fun k => decide (t1.lookup k = t2.lookup k)) = true) (c : Nat) :
    t1.lookup c = t2.lookup c := by
  by_cases hc : c ∈ t1.map (·.1) ++ t2.map (·.1)
  · simpa using List.all_eq_true.1 h c hc
  · rw [List.mem_append, not_or] at hc
    rw [lookup_none_of_not_mem t1 c hc.1, lookup_none_of_not_mem t2 c hc.2]

theorem execute_eq (c : Nat) : Parser.execute c = refExecute c :=
  lookup_ext Gen.execTable refExecTable (by decide) c

theorem ansiModes_eq (n : Nat) : Gen.ansiModes.lookup n = refAnsiMode n :=
  lookup_ext Gen.ansiModes refAnsiModes (by decide) n

theorem decModes_eq (n : Nat) : Gen.decModes.lookup n = refDecMode n :=
  lookup_ext Gen.decModes refDecModes (by decide) n

/-! ### `esc_dispatch` -/

/-- what the generated arm list of `esc_dispatch` selects; `none`: a shape the reference cannot express
    (`execute(input + k)` with `k ≠ 0x40`, or an arm on which `(input as u8) + k` could overflow) -/
def modelEscSel (interm : Option Nat) (c : Nat) : Option EscSel :=
  match Gen.escArms.find? (fun a => Parser.EscArm.matches a interm c) with
  | none => some .none
  | some a =>
    match a.rhs with
    | .execPlus k => if k = 0x40 ∧ a.hi + k < 256 then some .fe else none
    | .fn f => some (.fn f)
    | .fnGround f => some (.fn f)

def escB : List Nat := escBounds Gen.escArms ++ [0x40, 0x60, 0x37, 0x38, 0x39, 0x63, 0x64, 0x30, 0x31, 0, 0x110000]

theorem stable_modelEscSel (interm : Option Nat) : Stable escB (fun c => modelEscSel interm c) := by
  have h := (stable_findEsc Gen.escArms interm).mono (B' := escB) (by intro b hb; simp [escB, hb])
  intro c d a
  have := h c d a
  simp only at this
  simp only [modelEscSel, this]

theorem stable_refEscSel (interm : Option Nat) : Stable escB (fun c => refEscSel interm c) := by
  intro c d a
  have h1 := stable_inR (B := escB) (lo := 0x40) (hi := 0x5F) (by decide) (by decide) c d a
  have h2 := stable_inR (B := escB) (lo := 0x37) (hi := 0x37) (by decide) (by decide) c d a
  have h3 := stable_inR (B := escB) (lo := 0x38) (hi := 0x38) (by decide) (by decide) c d a
  have h4 := stable_inR (B := escB) (lo := 0x63) (hi := 0x63) (by decide) (by decide) c d a
  have h5 := stable_inR (B := escB) (lo := 0x30) (hi := 0x30) (by decide) (by decide) c d a
  simp only at h1 h2 h3 h4 h5
  unfold refEscSel
  simp only [h1, h2, h3, h4, h5]

/-- the intermediates for which some ESC sequence is implemented -/
def escKeys : List (Option Nat) := [none, some 0x23, some 0x28, some 0x29]

theorem escSel_check : (escKeys.all fun i => (0 :: escB).all fun c =>
    !inR 0 0x10FFFF c || decide (modelEscSel i c = some (refEscSel i c))) = true := by
  decide +kernel

theorem escArms_keys : (Gen.escArms.all fun a => escKeys.contains a.interm) = true := by decide

theorem refEscSel_other (interm : Option Nat) (h : interm ∉ escKeys) (c : Nat) : refEscSel interm c = .none := by
  unfold refEscSel
  split <;> simp_all [escKeys]

theorem modelEscSel_eq (interm : Option Nat) (c : Nat) (hc : c < 0x110000) :
    modelEscSel interm c = some (refEscSel interm c) := by
  by_cases hk : interm ∈ escKeys
  · have hall := List.all_eq_true.1 escSel_check interm hk
    have hP : Stable escB (fun c => !inR 0 0x10FFFF c || decide (modelEscSel interm c = some (refEscSel interm c))) :=
      Stable.map2 (stable_inR (lo := 0) (hi := 0x10FFFF) (by decide) (by decide))
        (Stable.map2 (stable_modelEscSel interm) (stable_refEscSel interm) (fun x y => decide (x = some y)))
        (fun x y => !x || y)
    have := forall_of_reps hP hall c
    have hr : inR 0 0x10FFFF c = true := by simp [inR]; omega
    simpa [hr] using this
  · rw [refEscSel_other interm hk]
    unfold modelEscSel
    have : Gen.escArms.find? (fun a => Parser.EscArm.matches a interm c) = none := by
      rw [List.find?_eq_none]
      intro a ha hm
      have hin := List.all_eq_true.1 escArms_keys a ha
      simp only [Parser.EscArm.matches, Bool.and_eq_true, beq_iff_eq] at hm
      rw [hm.1.1] at hin
      exact hk (by simpa using hin)
    rw [this]

/-- `esc_dispatch` in state Ground (where `Parser::feed` calls it) returns the reference's function and
    leaves the parser alone -/
theorem escDispatch_eq (p : Parser) (c : Nat) (hc : c < 0x110000) (hs : p.state = .Ground) :
    p.escDispatch c = some (p, refDispatchEsc p.intermediate c) := by
  have h := modelEscSel_eq p.intermediate c hc
  unfold modelEscSel at h
  unfold Parser.escDispatch refDispatchEsc
  cases hf : Gen.escArms.find? (fun a => Parser.EscArm.matches a p.intermediate c) with
  | none =>
    rw [hf] at h
    simp only [Option.some.injEq] at h
    rw [← h]
  | some a =>
    rw [hf] at h
    simp only at h ⊢
    have hm := List.find?_some hf
    simp only [Parser.EscArm.matches, Bool.and_eq_true, decide_eq_true_eq] at hm
    cases hr : a.rhs with
    | execPlus k =>
      rw [hr] at h
      simp only at h
      split at h
      · rename_i hk
        simp only [Option.some.injEq] at h
        rw [← h]
        simp only
        have hc : c % 256 = c := Nat.mod_eq_of_lt (by omega)
        rw [hc, if_pos (by omega), hk.1, execute_eq]
      · cases h
    | fn f =>
      rw [hr] at h
      simp only [Option.some.injEq] at h
      rw [← h]
    | fnGround f =>
      rw [hr] at h
      simp only [Option.some.injEq] at h
      rw [← h]
      simp only
      rw [← hs]

/-! ### SGR decoding never panics on well-formed registers -/

theorem partsSlice_ok {q : Param} (hq : Param.ok q = true) : q.partsSlice = some (wparts q) := by
  rw [ok_iff] at hq
  unfold Param.partsSlice wparts
  rw [if_pos (by omega)]

theorem asU16_ok {q : Param} (hq : Param.ok q = true) : q.asU16 = some (q.parts.headD 0) := by
  rw [ok_iff] at hq
  unfold Param.asU16
  obtain ⟨cp, parts⟩ := q
  cases parts with
  | nil => simp at hq
  | cons x xs => rfl

theorem colour_isSome (mk : Color → SgrOp) (rest : List Param) (hr : ∀ q ∈ rest, Param.ok q = true) :
    (match rest with
      | [] => some ((none : Option SgrOp), 0)
      | q :: _ =>
        match q.partsSlice with
        | none => none
        | some [2] =>
          match rest[3]?, rest[1]?, rest[2]? with
          | some b, some r, some g =>
            match r.asU16, g.asU16, b.asU16 with
            | some r, some g, some b =>
              some (some (mk (Color.rgb (Parser.u8 r) (Parser.u8 g) (Parser.u8 b))), 4)
            | _, _, _ => none
          | none, _, _ => some (none, 1)
          | _, _, _ => none
        | some [5] =>
          match rest[1]? with
          | some i =>
            match i.asU16 with
            | some i => some (some (mk (Color.indexed (Parser.u8 i))), 2)
            | none => none
          | none => some (none, 1)
        | some _ => some (none, 0)).isSome = true := by
  cases rest with
  | nil => rfl
  | cons q tail =>
    simp only
    rw [partsSlice_ok (hr q List.mem_cons_self)]
    split
    · rename_i h; cases h
    · -- [2]
      match tail, hr with
      | [], _ => rfl
      | [_], _ => rfl
      | [_, _], _ => rfl
      | a :: b :: c :: _, hr =>
        simp only [List.getElem?_cons_succ, List.getElem?_cons_zero]
        rw [asU16_ok (hr a (by simp)), asU16_ok (hr b (by simp)), asU16_ok (hr c (by simp))]
        rfl
    · -- [5]
      match tail, hr with
      | [], _ => rfl
      | a :: _, hr =>
        simp only [List.getElem?_cons_succ, List.getElem?_cons_zero]
        rw [asU16_ok (hr a (by simp))]
        rfl
    · rfl

theorem sgrStep_isSome (p : Param) (rest : List Param) (hp : Param.ok p = true)
    (hr : ∀ q ∈ rest, Param.ok q = true) : (Parser.sgrStep p rest).isSome = true := by
  unfold Parser.sgrStep
  rw [partsSlice_ok hp]
  simp only
  split
  all_goals try rfl
  · exact colour_isSome _ rest hr
  · exact colour_isSome _ rest hr
  · repeat (first | rfl | split)

theorem sgrGo_isSome (l : List Param) (hl : ∀ q ∈ l, Param.ok q = true) (skip : Nat) :
    (Parser.sgrGo skip l).isSome = true := by
  induction l generalizing skip with
  | nil => cases skip <;> rfl
  | cons p rest ih =>
    have hr : ∀ q ∈ rest, Param.ok q = true := fun q hq => hl q (List.mem_cons_of_mem _ hq)
    cases skip with
    | succ k => exact ih hr k
    | zero =>
      unfold Parser.sgrGo
      have h1 := sgrStep_isSome p rest (hl p List.mem_cons_self) hr
      cases hs : Parser.sgrStep p rest with
      | none => rw [hs] at h1; cases h1
      | some r =>
        obtain ⟨op, sk⟩ := r
        simp only
        have h2 := ih hr sk
        cases hg : Parser.sgrGo sk rest with
        | none => rw [hg] at h2; cases h2
        | some ops => rfl

theorem sgrOps_isSome (l : List Param) (hl : ∀ q ∈ l, Param.ok q = true) : (Parser.sgrOps l).isSome = true :=
  sgrGo_isSome l hl 0

/-! ### `csi_dispatch` -/

/-- the right-hand side of a `csi_dispatch` arm, evaluated on the register file -/
def evalRhs (rhs : CsiRhs) (p : Parser) : Option (Option Function) :=
  match rhs with
  | .f1 g => (p.paramU16 0).map fun n => some (g n)
  | .f2 g =>
    match p.paramU16 0, p.paramU16 1 with
    | some a, some b => some (some (g a b))
    | _, _ => none
  | .sel cases => (p.paramU16 0).map fun n => cases.lookup n
  | .const f => some (some f)
  | .sm => (p.collectModes Parser.ansiMode).map fun ms => some (.sm ms)
  | .rm => (p.collectModes Parser.ansiMode).map fun ms => some (.rm ms)
  | .decset => (p.collectModes Parser.decMode).map fun ms => some (.decset ms)
  | .decrst => (p.collectModes Parser.decMode).map fun ms => some (.decrst ms)
  | .sgr =>
    match p.activeParams with
    | none => none
    | some ps => (Parser.sgrOps ps).map fun ops => some (.sgr ops)
  | .xtwinops k =>
    match p.paramU16 0, p.paramU16 1, p.paramU16 2 with
    | some a, some rows, some cols => some (if a = k then some (.xtwinops cols rows) else none)
    | _, _, _ => none

theorem csiDispatch_unfold (p : Parser) (c : Nat) :
    p.csiDispatch c = match Gen.csiArms.find? (fun a => Parser.CsiArm.matches a p.intermediate c) with
      | none => some none
      | some a => evalRhs a.rhs p := by
  unfold Parser.csiDispatch evalRhs
  rfl

/-- the same right-hand side evaluated on the parameters as written -/
def evalRhsW (rhs : CsiRhs) (ps : List (List Nat)) : Option Function :=
  match rhs with
  | .f1 g => some (g (arg ps 0))
  | .f2 g => some (g (arg ps 0) (arg ps 1))
  | .sel cases => cases.lookup (arg ps 0)
  | .const f => some f
  | .sm => some (.sm (ps.filterMap fun q => refAnsiMode (q.headD 0)))
  | .rm => some (.rm (ps.filterMap fun q => refAnsiMode (q.headD 0)))
  | .decset => some (.decset (ps.filterMap fun q => refDecMode (q.headD 0)))
  | .decrst => some (.decrst (ps.filterMap fun q => refDecMode (q.headD 0)))
  | .sgr => (Parser.sgrOps (ps.map mkParam)).map .sgr
  | .xtwinops k => if arg ps 0 = k then some (.xtwinops (arg ps 2) (arg ps 1)) else none

theorem wparts_head {q : Param} (hq : Param.ok q = true) : (wparts q).headD 0 = q.parts.headD 0 := by
  rw [ok_iff] at hq
  obtain ⟨cp, parts⟩ := q
  cases parts with
  | nil => simp at hq
  | cons x xs => rfl

theorem wparts_cons {q : Param} (hq : Param.ok q = true) : ∃ r, wparts q = q.parts.headD 0 :: r := by
  rw [ok_iff] at hq
  obtain ⟨cp, parts⟩ := q
  cases parts with
  | nil => simp at hq
  | cons x xs => exact ⟨xs.take cp, rfl⟩

/-- a parameter register read by `as_u16` holds the first sub-part as written, and 0 when the
    parameter was not written (this is where the invariant "zero beyond `cur_param`" is used) -/
theorem paramU16_eq {p : Parser} (hp : PInv p = true) (i : Nat) (hi : i < 32) :
    p.paramU16 i = some (arg (written p) i) := by
  rw [pinv_iff] at hp
  obtain ⟨hlen, hcp, hok, hz⟩ := hp
  have hil : i < p.params.length := by omega
  have hqok := hok _ (List.getElem_mem hil)
  unfold Parser.paramU16
  rw [List.getElem?_eq_getElem hil]
  simp only
  rw [asU16_ok hqok]
  congr 1
  unfold arg written
  rw [List.getElem?_map, List.getElem?_take]
  by_cases hic : i < p.curParam + 1
  · rw [if_pos hic, List.getElem?_eq_getElem hil]
    obtain ⟨r, hr⟩ := wparts_cons hqok
    simp only [Option.map_some]
    unfold wparts at hr
    rw [hr]
  · rw [if_neg hic]
    simp only [Option.map_none]
    have hmem : p.params[i] ∈ p.params.drop (p.curParam + 1) :=
      List.mem_drop_iff_getElem.2 ⟨i - (p.curParam + 1), by omega, by congr 1; omega⟩
    have := zero_param hqok (hz _ hmem)
    rw [this]
    rfl

theorem mapM_eq_map {α β : Type} (f : α → Option β) (h : α → β) (l : List α) (hl : ∀ x ∈ l, f x = some (h x)) :
    l.mapM f = some (l.map h) := by
  induction l with
  | nil => rfl
  | cons a as ih =>
    rw [List.mapM_cons, hl a List.mem_cons_self, ih (fun x hx => hl x (List.mem_cons_of_mem _ hx))]
    rfl

theorem filterMap_congr' {α β : Type} (f g : α → Option β) (l : List α) (h : ∀ x ∈ l, f x = g x) :
    l.filterMap f = l.filterMap g := by
  induction l with
  | nil => rfl
  | cons a as ih =>
    rw [List.filterMap_cons, List.filterMap_cons, h a List.mem_cons_self,
      ih (fun x hx => h x (List.mem_cons_of_mem _ hx))]

theorem activeParams_eq {p : Parser} (hp : PInv p = true) :
    p.activeParams = some (p.params.take (p.curParam + 1)) := by
  rw [pinv_iff] at hp
  unfold Parser.activeParams
  rw [if_pos (by omega)]

theorem collectModes_eq {α : Type} {p : Parser} (hp : PInv p = true) (f : Param → Option (Option α))
    (g : Nat → Option α) (hf : ∀ q, f q = q.asU16.map g) :
    p.collectModes f = some ((written p).filterMap fun w => g (w.headD 0)) := by
  have hp' := hp
  rw [pinv_iff] at hp'
  obtain ⟨hlen, hcp, hok, hz⟩ := hp'
  unfold Parser.collectModes
  rw [activeParams_eq hp]
  simp only
  have hokt : ∀ q ∈ p.params.take (p.curParam + 1), Param.ok q = true :=
    fun q hq => hok q (List.mem_of_mem_take hq)
  rw [mapM_eq_map f (fun q => g (q.parts.headD 0)) _
    (fun q hq => by rw [hf, asU16_ok (hokt q hq)]; rfl)]
  simp only
  congr 1
  unfold written
  rw [List.filterMap_map, List.filterMap_map]
  apply filterMap_congr'
  intro q hq
  simp only [Function.comp, id]
  show g (q.parts.headD 0) = g ((wparts q).headD 0)
  rw [wparts_head (hokt q hq)]

theorem mkParam_wparts {q : Param} (hq : Param.ok q = true) : mkParam (wparts q) = q := by
  rw [ok_iff] at hq
  obtain ⟨qlen, qcp, qdrop, -⟩ := hq
  obtain ⟨cp, parts⟩ := q
  simp only at qlen qcp qdrop
  unfold mkParam wparts
  simp only [List.length_take, qlen]
  have e1 : min (cp + 1) 6 - 1 = cp := by omega
  have e2 : 6 - min (cp + 1) 6 = 6 - (cp + 1) := by omega
  rw [e1, e2]
  congr 1
  have hd := eq_replicate_of_all _ 0 qdrop
  rw [List.length_drop, qlen] at hd
  rw [← hd, List.take_append_drop]

theorem written_mkParam {p : Parser} (hp : PInv p = true) :
    (written p).map mkParam = p.params.take (p.curParam + 1) := by
  rw [pinv_iff] at hp
  obtain ⟨hlen, hcp, hok, hz⟩ := hp
  unfold written
  rw [List.map_map]
  conv => rhs; rw [← List.map_id (p.params.take (p.curParam + 1))]
  apply List.map_congr_left
  intro q hq
  exact mkParam_wparts (hok q (List.mem_of_mem_take hq))

/-- register-level evaluation = evaluation on the written parameters -/
theorem evalRhs_eq {p : Parser} (hp : PInv p = true) (rhs : CsiRhs) :
    evalRhs rhs p = some (evalRhsW rhs (written p)) := by
  have h0 := paramU16_eq hp 0 (by decide)
  have h1 := paramU16_eq hp 1 (by decide)
  have h2 := paramU16_eq hp 2 (by decide)
  have ha := collectModes_eq hp Parser.ansiMode refAnsiMode
    (fun q => by unfold Parser.ansiMode; rw [show (fun n => Gen.ansiModes.lookup n) = refAnsiMode from funext ansiModes_eq])
  have hd := collectModes_eq hp Parser.decMode refDecMode
    (fun q => by unfold Parser.decMode; rw [show (fun n => Gen.decModes.lookup n) = refDecMode from funext decModes_eq])
  cases rhs with
  | f1 g => simp only [evalRhs, evalRhsW, h0, Option.map_some]
  | f2 g => simp only [evalRhs, evalRhsW, h0, h1]
  | sel cases => simp only [evalRhs, evalRhsW, h0, Option.map_some]
  | const f => rfl
  | sm => simp only [evalRhs, evalRhsW, ha, Option.map_some]
  | rm => simp only [evalRhs, evalRhsW, ha, Option.map_some]
  | decset => simp only [evalRhs, evalRhsW, hd, Option.map_some]
  | decrst => simp only [evalRhs, evalRhsW, hd, Option.map_some]
  | sgr =>
    simp only [evalRhs, evalRhsW, activeParams_eq hp, written_mkParam hp]
    have hs := sgrOps_isSome (p.params.take (p.curParam + 1))
      (fun q hq => ((pinv_iff p).1 hp).2.2.1 q (List.mem_of_mem_take hq))
    cases hso : Parser.sgrOps (p.params.take (p.curParam + 1)) with
    | none => rw [hso] at hs; cases hs
    | some ops => rfl
  | xtwinops k => simp only [evalRhs, evalRhsW, h0, h1, h2]

/-- the (intermediate, final) pairs the generated `csi_dispatch` has an arm for -/
def csiKeys : List (Option Nat × Nat) := Gen.csiArms.map fun a => (a.interm, a.final)

/-- what the generated arm list of `csi_dispatch` yields on written parameters -/
def modelCsi (interm : Option Nat) (c : Nat) (ps : List (List Nat)) : Option Function :=
  match Gen.csiArms.find? (fun a => Parser.CsiArm.matches a interm c) with
  | none => none
  | some a => evalRhsW a.rhs ps

theorem refDispatchCsi_none (interm : Option Nat) (c : Nat) (ps : List (List Nat))
    (hk : (interm, c) ∉ csiKeys) : refDispatchCsi interm c ps = none := by
  unfold refDispatchCsi
  split
  all_goals first | rfl | (exfalso; apply hk; decide)

theorem modelCsi_eq (interm : Option Nat) (c : Nat) (ps : List (List Nat)) :
    modelCsi interm c ps = refDispatchCsi interm c ps := by
  by_cases hk : (interm, c) ∈ csiKeys
  · simp only [csiKeys, Gen.csiArms, List.map_cons, List.map_nil, List.mem_cons, Prod.mk.injEq,
      List.not_mem_nil] at hk
    repeat' (rcases hk with ⟨rfl, rfl⟩ | hk)
    all_goals first
      | exact hk.elim
      | rfl
      | (refine lookup_ext (β := Function) _ _ ?_ _; decide)
  · rw [refDispatchCsi_none interm c ps hk]
    unfold modelCsi
    have : Gen.csiArms.find? (fun a => Parser.CsiArm.matches a interm c) = none := by
      rw [List.find?_eq_none]
      intro a ha hm
      simp only [Parser.CsiArm.matches, Bool.and_eq_true, beq_iff_eq] at hm
      apply hk
      rw [← hm.1, ← hm.2]
      exact List.mem_map.2 ⟨a, ha, rfl⟩
    rw [this]

/-- **Dispatch exactness (table half)**: for every register file satisfying the invariant and every
    final character, `csi_dispatch` returns the reference function of the parameters as written. -/
theorem csiDispatch_eq {p : Parser} (hp : PInv p = true) (c : Nat) :
    p.csiDispatch c = some (refDispatchCsi p.intermediate c (written p)) := by
  rw [csiDispatch_unfold, ← modelCsi_eq]
  unfold modelCsi
  cases Gen.csiArms.find? (fun a => Parser.CsiArm.matches a p.intermediate c) with
  | none => rfl
  | some a => exact evalRhs_eq hp a.rhs

/-! ### the reference parser simulates `Parser.feed` -/

/-- facts about the diagram used below: parameter characters are `0`–`;`, and `esc_dispatch` always
    happens on the way to Ground -/
def wfact (st : PState) (c : Nat) : Bool :=
  let w := williams st c
  (w.1 != .param || inR 0x30 0x3B c) && (w.1 != .dispatchEsc || w.2 == .Ground)

theorem wfact_all (st : PState) (c : Nat) : wfact st c = true := by
  revert c
  apply williams_forall st [0x30, 0x3C]
  · intro c d a
    have hw := stable_williams' st c d (a.mono (by intro b hb; simp [hb]))
    have hr := stable_inR (B := [0x30, 0x3C] ++ wbounds st) (lo := 0x30) (hi := 0x3B) (by simp) (by simp) c d a
    simp only at hw hr
    simp only [wfact, hw, hr]
  · cases st <;> decide +kernel

theorem abs_setState (p : Parser) (s : PState) : abs { p with state := s } = { abs p with state := s } := rfl

/-- **One step.**  For every register file satisfying the invariant and every code point, `feed` does
    not panic, emits exactly the reference parser's function, ends in registers that encode the
    reference parser's abstract state, and re-establishes the invariant. -/
theorem feed_refStep {p : Parser} (hp : PInv p = true) (c : Nat) (hc : c < 0x110000) :
    ∃ p', p.feed c = some (p', (refStep (abs p) c).2) ∧ abs p' = (refStep (abs p) c).1 ∧ PInv p' = true := by
  rw [feed_eq_sem]
  have hf := wfact_all p.state c
  unfold wfact at hf
  unfold refStep sem
  simp only [show (abs p).state = p.state from rfl]
  generalize williams p.state c = w at hf ⊢
  obtain ⟨k, st'⟩ := w
  simp only [Bool.and_eq_true, Bool.or_eq_true, bne_iff_ne, ne_eq, beq_iff_eq] at hf
  cases k with
  | ignore => exact ⟨_, rfl, rfl, hp⟩
  | put => exact ⟨_, rfl, rfl, hp⟩
  | oscPut => exact ⟨_, rfl, rfl, hp⟩
  | print => exact ⟨_, rfl, rfl, hp⟩
  | execute =>
    dsimp only
    rw [execute_eq]
    exact ⟨_, rfl, rfl, hp⟩
  | collect => exact ⟨_, rfl, rfl, hp⟩
  | clear =>
    simp only [clear_eq hp, Option.map_some]
    refine ⟨_, rfl, ?_, pinv_zero st'⟩
    show abs { state := st' } = _
    unfold abs
    rw [written_zero]
  | param =>
    have hr : inR 0x30 0x3B c = true := by simpa using hf.1
    simp only [inR, Bool.and_eq_true, decide_eq_true_eq] at hr
    obtain ⟨p', h1, h2, h3, h4, h5⟩ := param_spec hp hr.1 hr.2
    simp only [h1, Option.map_some]
    refine ⟨_, rfl, ?_, ?_⟩
    · unfold abs; simp only [h4, ← h5]; rfl
    · exact h2
  | dispatchCsi =>
    simp only [csiDispatch_eq hp, Option.map_some]
    exact ⟨_, rfl, rfl, hp⟩
  | dispatchEsc =>
    have hg : st' = .Ground := by simpa using hf.2
    subst hg
    simp only
    rw [escDispatch_eq _ c hc rfl]
    exact ⟨_, rfl, rfl, hp⟩

/-- **Whole strings.**  `Parser.feed` folded over any string of code points equals the reference
    parser on the abstract registers: same functions, same final state, same encoded registers. -/
theorem run_refRun {p : Parser} (hp : PInv p = true) (s : List Nat) (hs : ∀ c ∈ s, c < 0x110000) :
    ∃ q, run p s = some (q, (refRun (abs p) s).2) ∧ abs q = (refRun (abs p) s).1 ∧ PInv q = true := by
  induction s generalizing p with
  | nil => exact ⟨p, rfl, rfl, hp⟩
  | cons c cs ih =>
    obtain ⟨p', h1, h2, h3⟩ := feed_refStep hp c (hs c List.mem_cons_self)
    obtain ⟨q, g1, g2, g3⟩ := ih h3 (fun x hx => hs x (List.mem_cons_of_mem _ hx))
    refine ⟨q, ?_, ?_, g3⟩
    · simp only [run, h1, g1, refRun, h2]
    · simp only [refRun, ← h2, g2]

end Avt.ParserSem
