/-
  Avt.Lemmas.C11 — helper lemmas for property C11 (dump() reproduces the terminal).

  * decimal rendering: `renderDec n = digits n`, digits only, parses back to `n`;
  * the parser run on a string (`pfeedAll`) and its relation to `Vt.feedAll`;
  * `Parser.dump` round trip for the twelve states without parameter lists.
-/
import Avt.Spec.C11
import Avt.Lemmas.C19

namespace Avt
namespace Lemmas.C11
open Avt.Spec.C11

/-! ### decimal rendering -/

/-- the decimal digits of `n`, most significant first, as code points -/
def digits (n : Nat) : List Nat :=
  if n < 10 then [0x30 + n] else digits (n / 10) ++ [0x30 + n % 10]
termination_by n
decreasing_by omega

theorem decDigitsAux_acc : ∀ (fuel n : Nat) (acc : List Nat),
    decDigitsAux fuel n acc = decDigitsAux fuel n [] ++ acc
  | 0, _, _ => by simp [decDigitsAux]
  | fuel + 1, n, acc => by
    simp only [decDigitsAux]
    split
    · simp
    · rw [decDigitsAux_acc fuel (n / 10) ((0x30 + n % 10) :: acc),
        decDigitsAux_acc fuel (n / 10) [0x30 + n % 10]]
      simp

theorem decDigitsAux_eq_digits : ∀ (fuel n : Nat), n < fuel → decDigitsAux fuel n [] = digits n
  | 0, _, h => by omega
  | fuel + 1, n, h => by
    simp only [decDigitsAux]
    rw [digits]
    by_cases h10 : n / 10 = 0
    · have : n < 10 := by omega
      simp only [h10, if_true, this]
      congr 2; omega
    · have : ¬ n < 10 := by omega
      simp only [h10, if_false, this]
      rw [decDigitsAux_acc, decDigitsAux_eq_digits fuel (n / 10) (by omega)]

theorem renderDec_eq_digits (n : Nat) : renderDec n = digits n :=
  decDigitsAux_eq_digits (n + 1) n (by omega)

/-- `renderDec` produces digits only, and at least one -/
theorem digits_isDigit : ∀ (n : Nat), ∀ d ∈ digits n, 0x30 ≤ d ∧ d ≤ 0x39 := by
  intro n
  induction n using Nat.strongRecOn with
  | _ n ih =>
    intro d hd
    rw [digits] at hd
    split at hd
    · simp only [List.mem_singleton] at hd; omega
    · simp only [List.mem_append, List.mem_singleton] at hd
      rcases hd with hd | hd
      · exact ih (n / 10) (by omega) d hd
      · omega

theorem digits_ne_nil (n : Nat) : digits n ≠ [] := by
  rw [digits]; split <;> simp

/-- reading a digit string back (what `Param::add_digit` computes, without the `u16` truncation) -/
def parseDec (ds : List Nat) : Nat := ds.foldl (fun a d => 10 * a + (d - 0x30)) 0

theorem parseDec_digits (n : Nat) : parseDec (digits n) = n := by
  induction n using Nat.strongRecOn with
  | _ n ih =>
    rw [digits]
    split
    · simp [parseDec]
    · have := ih (n / 10) (by omega)
      simp only [parseDec] at this ⊢
      rw [List.foldl_append, this]
      simp only [List.foldl_cons, List.foldl_nil]
      omega

theorem parseDec_renderDec (n : Nat) : parseDec (renderDec n) = n := by
  rw [renderDec_eq_digits, parseDec_digits]

theorem renderDec_isDigit (n : Nat) : ∀ d ∈ renderDec n, 0x30 ≤ d ∧ d ≤ 0x39 := by
  rw [renderDec_eq_digits]; exact digits_isDigit n

/-! ### running the parser over a string -/

/-- the parser alone: final parser state and the functions emitted, in order -/
def pfeedAll : Parser → List Nat → Option (Parser × List Function)
  | p, [] => some (p, [])
  | p, c :: cs =>
    match p.feed c with
    | none => none
    | some (p', f) =>
      match pfeedAll p' cs with
      | none => none
      | some (q, fs) => some (q, f.toList ++ fs)

theorem pfeedAll_append (p : Parser) (xs ys : List Nat) :
    pfeedAll p (xs ++ ys) =
      (pfeedAll p xs).bind fun r => (pfeedAll r.1 ys).map fun r' => (r'.1, r.2 ++ r'.2) := by
  induction xs generalizing p with
  | nil =>
    simp only [List.nil_append, pfeedAll, Option.bind_some, List.nil_append]
    cases pfeedAll p ys <;> rfl
  | cons x xs ih =>
    simp only [List.cons_append, pfeedAll]
    cases p.feed x with
    | none => rfl
    | some r =>
      obtain ⟨p', f⟩ := r
      simp only [ih p']
      cases pfeedAll p' xs with
      | none => rfl
      | some r1 =>
        obtain ⟨q, fs⟩ := r1
        simp only [Option.bind_some]
        cases pfeedAll q ys with
        | none => rfl
        | some r2 => simp [List.append_assoc]

/-- `Vt.feedAll` is the parser run followed by the execution of the emitted functions (the parser
    never looks at the terminal) -/
theorem feedAll_eq_pfeedAll (v : Vt) (xs : List Nat) :
    v.feedAll xs = (pfeedAll v.parser xs).bind fun r =>
      (Terminal.foldM' Terminal.execute r.2 v.terminal).map fun t => { parser := r.1, terminal := t } := by
  induction xs generalizing v with
  | nil => rfl
  | cons x xs ih =>
    simp only [Vt.feedAll, Vt.feed, pfeedAll]
    cases hf : v.parser.feed x with
    | none => rfl
    | some r =>
      obtain ⟨p', f⟩ := r
      cases f with
      | none =>
        simp only [ih, Option.toList_none, List.nil_append]
        cases pfeedAll p' xs with
        | none => rfl
        | some r1 => rfl
      | some f =>
        simp only [Option.toList_some]
        cases he : v.terminal.execute f with
        | none =>
          simp only [Option.map_none]
          cases pfeedAll p' xs with
          | none => rfl
          | some r1 => simp [Terminal.foldM', he]
        | some t =>
          simp only [Option.map_some, ih]
          cases pfeedAll p' xs with
          | none => rfl
          | some r1 => simp [Terminal.foldM', he]

/-- a string on which the parser emits nothing only moves the parser -/
theorem feedAll_of_silent (v : Vt) (xs : List Nat) (q : Parser) (h : pfeedAll v.parser xs = some (q, [])) :
    v.feedAll xs = some { v with parser := q } := by
  rw [feedAll_eq_pfeedAll, h]; rfl

/-! ### the first character of every `Parser.dump` prefix -/

/-- the parser in state `st` with the registers of `Parser::new` -/
def clean (st : PState) (im : Option Nat := none) : Parser :=
  { state := st, params := Parser.new.params, curParam := 0, intermediate := im }

theorem feed_clearing (q0 : Parser) (hG : q0.state = .Ground) (hP : PInv q0 = true) :
    q0.feed 0x1b = some (clean .Escape, none) ∧ q0.feed 0x9b = some (clean .CsiEntry, none)
      ∧ q0.feed 0x90 = some (clean .DcsEntry, none) := by
  have hc : ∀ st, ({ q0 with state := st } : Parser).clear = some (clean st) := by
    intro st
    rw [Lemmas.C19.Parser.clear_of_PInv _ (by simpa [PInv] using hP)]
    rfl
  refine ⟨?_, ?_, ?_⟩
  · unfold Parser.feed
    rw [hG, show Parser.findArm Gen.feedArms .Ground (Parser.premap 0x1b)
        = some ⟨[⟨none, 27, 27⟩], [Act.setState PState.Escape, Act.clear]⟩ by decide]
    simp only [Parser.runActs, hc]
  · unfold Parser.feed
    rw [hG, show Parser.findArm Gen.feedArms .Ground (Parser.premap 0x9b)
        = some ⟨[⟨none, 155, 155⟩], [Act.setState PState.CsiEntry, Act.clear]⟩ by decide]
    simp only [Parser.runActs, hc]
  · unfold Parser.feed
    rw [hG, show Parser.findArm Gen.feedArms .Ground (Parser.premap 0x90)
        = some ⟨[⟨none, 144, 144⟩], [Act.setState PState.DcsEntry, Act.clear]⟩ by decide]
    simp only [Parser.runActs, hc]

theorem feed_string_intro (q0 : Parser) (hG : q0.state = .Ground) :
    q0.feed 0x9d = some ({ q0 with state := .OscString }, none)
      ∧ q0.feed 0x98 = some ({ q0 with state := .SosPmApcString }, none) := by
  constructor
  · unfold Parser.feed
    rw [hG, show Parser.findArm Gen.feedArms .Ground (Parser.premap 0x9d)
        = some ⟨[⟨none, 157, 157⟩], [Act.setState PState.OscString]⟩ by decide]
    simp only [Parser.runActs]
  · unfold Parser.feed
    rw [hG, show Parser.findArm Gen.feedArms .Ground (Parser.premap 0x98)
        = some ⟨[⟨none, 152, 152⟩, ⟨none, 158, 158⟩, ⟨none, 159, 159⟩], [Act.setState PState.SosPmApcString]⟩ by decide]
    simp only [Parser.runActs]

/-! ### closed facts about the continuation of each prefix (kernel evaluation over the generated
    table; the collected character ranges are enumerated) -/

theorem esc_im : ∀ c, c < 48 → 32 ≤ c →
    pfeedAll (clean .Escape) [c] = some (clean .EscapeIntermediate (some c), []) := by decide

theorem csi_im : ∀ c, c < 48 → 32 ≤ c →
    pfeedAll (clean .CsiEntry) [c] = some (clean .CsiIntermediate (some c), []) := by decide

theorem csi_ignore : pfeedAll (clean .CsiEntry) [0x3a] = some (clean .CsiIgnore, []) := by decide

theorem dcs_im : ∀ c, c < 48 → 32 ≤ c →
    pfeedAll (clean .DcsEntry) [c] = some (clean .DcsIntermediate (some c), []) := by decide

theorem dcs_ignore : pfeedAll (clean .DcsEntry) [0x3a] = some (clean .DcsIgnore, []) := by decide

theorem dcs_pass_none : pfeedAll (clean .DcsEntry) [0x40] = some (clean .DcsPassthrough, []) := by decide

theorem dcs_pass_im : ∀ c, c < 48 → 32 ≤ c →
    pfeedAll (clean .DcsEntry) [c, 0x40] = some (clean .DcsPassthrough (some c), []) := by decide

theorem dcs_pass_marker : ∀ c, c < 64 → 60 ≤ c →
    pfeedAll (clean .DcsEntry) [c, 0x40] = some (clean .DcsPassthrough (some c), []) := by decide

theorem pfeedAll_cons_silent (p p' : Parser) (c : Nat) (cs : List Nat) (h : p.feed c = some (p', none)) :
    pfeedAll p (c :: cs) = pfeedAll p' cs := by
  simp only [pfeedAll, h]
  cases pfeedAll p' cs with
  | none => rfl
  | some r => rfl

theorem imIn_elim {lo hi : Nat} {im : Option Nat} (h : imIn lo hi im = true) :
    ∃ c, im = some c ∧ lo ≤ c ∧ c ≤ hi := by
  cases im with
  | none => simp [imIn] at h
  | some c =>
    simp only [imIn, Bool.and_eq_true, decide_eq_true_eq] at h
    exact ⟨c, rfl, h.1, h.2⟩

/-- `Parser.dump` round trip, the twelve states without a parameter list: feeding the dumped prefix
    to any parser resting in `Ground` (whatever its dead registers hold) emits nothing and yields a
    parser equal to the dumped one up to dead registers. -/
theorem parser_dump_easy (p q0 : Parser) (hreg : PRegOK p = true) (hG : q0.state = .Ground)
    (hP : PInv q0 = true) (hs : paramsLive p.state = false) :
    ∃ d q, p.dump = some d ∧ pfeedAll q0 d = some (q, []) ∧ normP q = normP p := by
  obtain ⟨hE, hC, hD⟩ := feed_clearing q0 hG hP
  obtain ⟨hO, hS⟩ := feed_string_intro q0 hG
  obtain ⟨st, ps, cp, im⟩ := p
  cases st
  case Ground =>
    exact ⟨[], q0, rfl, rfl, by simp [normP, hG, paramsLive, intermediateLive]⟩
  case Escape =>
    refine ⟨[0x1b], clean .Escape, rfl, ?_, by simp [normP, clean, paramsLive, intermediateLive]⟩
    rw [pfeedAll_cons_silent _ _ _ _ hE]; rfl
  case EscapeIntermediate =>
    obtain ⟨c, rfl, h1, h2⟩ := imIn_elim (by simpa [PRegOK] using hreg)
    refine ⟨[0x1b, c], clean .EscapeIntermediate (some c), rfl, ?_,
      by simp [normP, clean, paramsLive, intermediateLive]⟩
    rw [pfeedAll_cons_silent _ _ _ _ hE]
    exact esc_im c (by omega) h1
  case CsiEntry =>
    refine ⟨[0x9b], clean .CsiEntry, rfl, ?_, by simp [normP, clean, paramsLive, intermediateLive]⟩
    rw [pfeedAll_cons_silent _ _ _ _ hC]; rfl
  case CsiParam => simp [paramsLive] at hs
  case CsiIntermediate =>
    obtain ⟨c, rfl, h1, h2⟩ := imIn_elim (by simpa [PRegOK] using hreg)
    refine ⟨[0x9b, c], clean .CsiIntermediate (some c), rfl, ?_,
      by simp [normP, clean, paramsLive, intermediateLive]⟩
    rw [pfeedAll_cons_silent _ _ _ _ hC]
    exact csi_im c (by omega) h1
  case CsiIgnore =>
    refine ⟨[0x9b, 0x3a], clean .CsiIgnore, rfl, ?_, by simp [normP, clean, paramsLive, intermediateLive]⟩
    rw [pfeedAll_cons_silent _ _ _ _ hC]
    exact csi_ignore
  case DcsEntry =>
    refine ⟨[0x90], clean .DcsEntry, rfl, ?_, by simp [normP, clean, paramsLive, intermediateLive]⟩
    rw [pfeedAll_cons_silent _ _ _ _ hD]; rfl
  case DcsParam => simp [paramsLive] at hs
  case DcsIntermediate =>
    obtain ⟨c, rfl, h1, h2⟩ := imIn_elim (by simpa [PRegOK] using hreg)
    refine ⟨[0x90, c], clean .DcsIntermediate (some c), rfl, ?_,
      by simp [normP, clean, paramsLive, intermediateLive]⟩
    rw [pfeedAll_cons_silent _ _ _ _ hD]
    exact dcs_im c (by omega) h1
  case DcsPassthrough =>
    simp only [PRegOK, Bool.or_eq_true] at hreg
    rcases hreg with (hn | hi) | hm
    · cases im with
      | some c => simp at hn
      | none =>
        refine ⟨[0x90, 0x40], clean .DcsPassthrough, rfl, ?_,
          by simp [normP, clean, paramsLive, intermediateLive]⟩
        rw [pfeedAll_cons_silent _ _ _ _ hD]
        exact dcs_pass_none
    · obtain ⟨c, rfl, h1, h2⟩ := imIn_elim hi
      refine ⟨[0x90, c, 0x40], clean .DcsPassthrough (some c), rfl, ?_,
        by simp [normP, clean, paramsLive, intermediateLive]⟩
      rw [pfeedAll_cons_silent _ _ _ _ hD]
      exact dcs_pass_im c (by omega) h1
    · obtain ⟨c, rfl, h1, h2⟩ := imIn_elim hm
      refine ⟨[0x90, c, 0x40], clean .DcsPassthrough (some c), rfl, ?_,
        by simp [normP, clean, paramsLive, intermediateLive]⟩
      rw [pfeedAll_cons_silent _ _ _ _ hD]
      exact dcs_pass_marker c (by omega) h1
  case DcsIgnore =>
    refine ⟨[0x90, 0x3a], clean .DcsIgnore, rfl, ?_, by simp [normP, clean, paramsLive, intermediateLive]⟩
    rw [pfeedAll_cons_silent _ _ _ _ hD]
    exact dcs_ignore
  case OscString =>
    refine ⟨[0x9d], { q0 with state := .OscString }, rfl, ?_,
      by simp [normP, paramsLive, intermediateLive]⟩
    rw [pfeedAll_cons_silent _ _ _ _ hO]; rfl
  case SosPmApcString =>
    refine ⟨[0x98], { q0 with state := .SosPmApcString }, rfl, ?_,
      by simp [normP, paramsLive, intermediateLive]⟩
    rw [pfeedAll_cons_silent _ _ _ _ hS]; rfl

end Lemmas.C11
end Avt
