/-
  Avt.Driver.Codec — the canonical text form of states exchanged with the Rust harness
  (hook `Vt::verif_state`, src/verif.rs in /repo) ↔ model values.  Import-free.
-/
import Avt.Model.Vt

namespace Avt.Codec
open Avt

abbrev P := StateT (List String) Option

def tok : P String := do
  match (← get) with
  | [] => failure
  | t :: ts => set ts; pure t

def nat : P Nat := do
  let t ← tok
  match t.toNat? with
  | some n => pure n
  | none => failure

def bool : P Bool := do
  let t ← tok
  if t == "1" then pure true else if t == "0" then pure false else failure

def expect (s : String) : P Unit := do
  let t ← tok
  if t == s then pure () else failure

def optNat : P (Option Nat) := do
  let t ← tok
  if t == "-" then pure none else
  match t.toNat? with
  | some n => pure (some n)
  | none => failure

def many {α} (p : P α) : Nat → P (List α)
  | 0 => pure []
  | n + 1 => do
    let a ← p
    let as ← many p n
    pure (a :: as)

def ofOption {α} (o : Option α) : P α :=
  match o with
  | some a => pure a
  | none => failure

def parseColor (s : String) : Option (Option Color) :=
  if s == "-" then some none
  else
    match s.toList with
    | 'i' :: rest => (String.ofList rest).toNat?.map fun n => some (.indexed n)
    | 'r' :: rest =>
      match (String.ofList rest).splitOn "." with
      | [r, g, b] =>
        match r.toNat?, g.toNat?, b.toNat? with
        | some r, some g, some b => some (some (.rgb r g b))
        | _, _, _ => none
      | _ => none
    | _ => none

def parsePen (s : String) : Option Pen :=
  if s == "d" then some {}
  else
    match s.splitOn "/" with
    | [fg, bg, i, a] =>
      match parseColor fg, parseColor bg, i.toNat?, a.toNat? with
      | some fg, some bg, some i, some a =>
        let int : Option Intensity := match i with
          | 0 => some .normal | 1 => some .bold | 2 => some .faint | _ => none
        int.map fun int => { fg := fg, bg := bg, intensity := int, attrs := a }
      | _, _, _, _ => none
    | _ => none

def pen : P Pen := do ofOption (parsePen (← tok))

def parseRun (s : String) : Option (List Cell) :=
  match s.splitOn "@" with
  | [cc, p] =>
    match cc.splitOn "*", parsePen p with
    | [cp, n], some p =>
      match cp.toNat?, n.toNat? with
      | some cp, some n => some (List.replicate n ⟨cp, p⟩)
      | _, _ => none
    | _, _ => none
  | _ => none

def parseLine (s : String) : Option Line :=
  match s.splitOn "|" with
  | [w, runs] =>
    let wrapped : Option Bool := if w == "1" then some true else if w == "0" then some false else none
    match wrapped with
    | none => none
    | some wrapped =>
      if runs.isEmpty then some ⟨[], wrapped⟩
      else
        match (runs.splitOn ",").mapM parseRun with
        | some cs => some ⟨cs.flatten, wrapped⟩
        | none => none
  | _ => none

def line : P Line := do ofOption (parseLine (← tok))

def limit : P (Option Limit) := do
  let t ← tok
  if t == "-" then pure none
  else match t.splitOn ":" with
    | [s, h] =>
      match s.toNat?, h.toNat? with
      | some s, some h => pure (some ⟨s, h⟩)
      | _, _ => failure
    | _ => failure

/-- `=S:N` : the first N lines are the first N lines of slot S of the previous record -/
def prefixRef (prev : List (List Line)) : P (List Line) := do
  -- optional (uncompressed traces have no `=S:N` token)
  match (← get) with
  | [] => pure []
  | t0 :: _ =>
  if !(t0.startsWith "=") then pure [] else
  let t ← tok
  match t.toList with
  | '=' :: rest =>
    match (String.ofList rest).splitOn ":" with
    | [s, n] =>
      match s.toNat?, n.toNat? with
      | some s, some n =>
        if n = 0 then pure [] else
        match prev[s]? with
        | some ls => if n ≤ ls.length then pure (ls.take n) else failure
        | none => failure
      | _, _ => failure
    | _ => failure
  | _ => failure

/-- `B cols rows limit trim nlines =S:N line…`; the view is the last `rows` lines -/
def buffer (prev : List (List Line)) : P Buffer := do
  expect "B"
  let cols ← nat
  let rows ← nat
  let lim ← limit
  let trim ← bool
  let n ← nat
  let pre ← prefixRef prev
  let rest ← many line (n - pre.length)
  let ls := pre ++ rest
  if rows ≤ ls.length then
    let k := ls.length - rows
    pure { sb := ls.take k, view := ls.drop k, cols := cols, rows := rows, limit := lim, trimNeeded := trim }
  else failure

def ctx : P SavedCtx := do
  let c ← nat
  let r ← nat
  let p ← pen
  let om ← bool
  let aw ← bool
  pure { cursorCol := c, cursorRow := r, pen := p, originMode := om, autoWrapMode := aw }

def charset : P Charset := do
  let t ← tok
  if t == "0" then pure .ascii else if t == "1" then pure .drawing else failure

def dirtyBits : P (List Bool) := do
  expect "DIRTY"
  let n ← nat
  let bits ← tok
  let bs : List Bool := if bits == "-" then [] else bits.toList.map (· == '1')
  if bs.length = n then pure bs else failure

def parseParam (s : String) : Option (Nat × Param) :=
  match s.splitOn ":" with
  | [i, cp, parts] =>
    match i.toNat?, cp.toNat?, (parts.splitOn ".").mapM String.toNat? with
    | some i, some cp, some ps => some (i, { curPart := cp, parts := ps })
    | _, _, _ => none
  | _ => none

def pstateOfNat : Nat → Option PState
  | 0 => some .Ground | 1 => some .Escape | 2 => some .EscapeIntermediate | 3 => some .CsiEntry
  | 4 => some .CsiParam | 5 => some .CsiIntermediate | 6 => some .CsiIgnore | 7 => some .DcsEntry
  | 8 => some .DcsParam | 9 => some .DcsIntermediate | 10 => some .DcsPassthrough
  | 11 => some .DcsIgnore | 12 => some .OscString | 13 => some .SosPmApcString | _ => none

def pstateToNat : PState → Nat
  | .Ground => 0 | .Escape => 1 | .EscapeIntermediate => 2 | .CsiEntry => 3 | .CsiParam => 4
  | .CsiIntermediate => 5 | .CsiIgnore => 6 | .DcsEntry => 7 | .DcsParam => 8
  | .DcsIntermediate => 9 | .DcsPassthrough => 10 | .DcsIgnore => 11 | .OscString => 12
  | .SosPmApcString => 13

/-- `P state curParam interm nparams nlisted idx:curPart:p0.p1.… …` -/
def parser : P Parser := do
  expect "P"
  let st ← nat
  let cp ← nat
  let im ← optNat
  let np ← nat
  let nl ← nat
  let listed ← many (do ofOption (parseParam (← tok))) nl
  let st ← ofOption (pstateOfNat st)
  let params := (List.range np).map fun i => (listed.lookup i).getD {}
  pure { state := st, params := params, curParam := cp, intermediate := im }

/-- `T …` (see src/terminal/verif.rs) -/
def terminal (prev : List (List Line)) : P Terminal := do
  expect "T"
  let cols ← nat
  let rows ← nat
  let alt ← bool
  let lim ← optNat
  let ccol ← nat
  let crow ← nat
  let cvis ← bool
  let p ← pen
  let cs0 ← charset
  let cs1 ← charset
  let acs ← nat
  let im ← bool
  let om ← bool
  let aw ← bool
  let nl ← bool
  let ck ← bool
  let pw ← bool
  let tm ← nat
  let bm ← nat
  let xtw ← bool
  let sc ← ctx
  let asc ← ctx
  expect "TABS"
  let nt ← nat
  let tabs ← many nat nt
  let dirty ← dirtyBits
  let b ← buffer prev
  let ob ← buffer prev
  pure { cols := cols, rows := rows, buffer := b, otherBuffer := ob,
         activeBufferType := if alt then .alternate else .primary, scrollbackLimit := lim,
         cursor := ⟨ccol, crow, cvis⟩, pen := p, charsets := (cs0, cs1), activeCharset := acs,
         tabs := tabs, insertMode := im, originMode := om, autoWrapMode := aw, newLineMode := nl,
         cursorKeysMode := if ck then .application else .normal, pendingWrap := pw,
         topMargin := tm, bottomMargin := bm, savedCtx := sc, alternateSavedCtx := asc,
         dirtyLines := dirty, xtwinops := xtw }

/-- `prev` = the line lists of (buffer, other_buffer) in the previous record of this instance -/
def vt (prev : List (List Line)) : P Vt := do
  let t ← terminal prev
  let p ← parser
  pure { parser := p, terminal := t }

def run {α} (p : P α) (ts : List String) : Option α := (p.run ts).map (·.1)

/-! ### rendering (for diagnostics and for comparing API lines) -/

def colorTok : Option Color → String
  | none => "-"
  | some (.indexed n) => s!"i{n}"
  | some (.rgb r g b) => s!"r{r}.{g}.{b}"

def penTok (p : Pen) : String :=
  if p == ({} : Pen) then "d"
  else
    let i := match p.intensity with | .normal => 0 | .bold => 1 | .faint => 2
    s!"{colorTok p.fg}/{colorTok p.bg}/{i}/{p.attrs}"

/-- pen as seen through the public accessors (API record) -/
def penApiTok (p : Pen) : String :=
  let b (x : Bool) : String := if x then "1" else "0"
  s!"{colorTok p.fg}/{colorTok p.bg}/{b p.isBold}{b p.isFaint}{b p.isItalic}{b p.isUnderline}{b p.isStrikethrough}{b p.isBlink}{b p.isInverse}"

def runsGo (pt : Pen → String) : List Cell → Option Cell → Nat → List String → List String
  | [], none, _, acc => acc.reverse
  | [], some c, n, acc => (s!"{c.ch}*{n}@{pt c.pen}" :: acc).reverse
  | c :: cs, none, _, acc => runsGo pt cs (some c) 1 acc
  | c :: cs, some d, n, acc =>
    if c == d then runsGo pt cs (some d) (n + 1) acc
    else runsGo pt cs (some c) 1 (s!"{d.ch}*{n}@{pt d.pen}" :: acc)

def lineTokWith (pt : Pen → String) (l : Line) : String :=
  (if l.wrapped then "1|" else "0|") ++ ",".intercalate (runsGo pt l.cells none 0 [])

def lineTok (l : Line) : String := lineTokWith penTok l
def lineApiTok (l : Line) : String := lineTokWith penApiTok l

def hexOfNat (n : Nat) : String := String.ofList (Nat.toDigits 16 n)

def hexEncode (s : List Nat) : String :=
  if s.isEmpty then "-" else ".".intercalate (s.map hexOfNat)

def hexVal (c : Char) : Option Nat :=
  if '0' ≤ c ∧ c ≤ '9' then some (c.toNat - '0'.toNat)
  else if 'a' ≤ c ∧ c ≤ 'f' then some (c.toNat - 'a'.toNat + 10)
  else none

def parseHex (s : String) : Option Nat :=
  if s.isEmpty then none else
  s.toList.foldl (fun acc c => match acc, hexVal c with
    | some a, some d => some (16 * a + d)
    | _, _ => none) (some 0)

def hexDecode (s : String) : Option (List Nat) :=
  if s == "-" then some [] else (s.splitOn ".").mapM parseHex

def sgrOpTok : SgrOp → String
  | .reset => "0" | .setBold => "1" | .setFaint => "2" | .setItalic => "3" | .setUnderline => "4"
  | .setBlink => "5" | .setInverse => "7" | .setStrikethrough => "9" | .resetIntensity => "22"
  | .resetItalic => "23" | .resetUnderline => "24" | .resetBlink => "25" | .resetInverse => "27"
  | .resetStrikethrough => "29" | .setFg c => "fg:" ++ colorTok (some c) | .resetFg => "39"
  | .setBg c => "bg:" ++ colorTok (some c) | .resetBg => "49"

def decModeTok : DecMode → String
  | .cursorKeys => "1" | .origin => "6" | .autoWrap => "7" | .textCursorEnable => "25"
  | .altScreenBuffer => "1047" | .saveCursor => "1048" | .saveCursorAltScreenBuffer => "1049"

def ansiModeTok : AnsiMode → String
  | .insert => "4" | .newLine => "20"

def listTok {α} (f : α → String) (xs : List α) : String :=
  if xs.isEmpty then "-" else ",".intercalate (xs.map f)

/-- same text as `function_tok` in harness/src/main.rs -/
def functionTok : Function → String
  | .bs => "bs" | .cbt n => s!"cbt {n}" | .cha n => s!"cha {n}" | .cht n => s!"cht {n}"
  | .cnl n => s!"cnl {n}" | .cpl n => s!"cpl {n}" | .cr => "cr"
  | .ctc op => "ctc " ++ (match op with | .set => "0" | .clearCurrentColumn => "1" | .clearAll => "2")
  | .cub n => s!"cub {n}" | .cud n => s!"cud {n}" | .cuf n => s!"cuf {n}" | .cup r c => s!"cup {r} {c}"
  | .cuu n => s!"cuu {n}" | .dch n => s!"dch {n}" | .decaln => "decaln" | .decrc => "decrc"
  | .decrst ms => "decrst " ++ listTok decModeTok ms | .decsc => "decsc"
  | .decset ms => "decset " ++ listTok decModeTok ms | .decstbm t b => s!"decstbm {t} {b}"
  | .decstr => "decstr" | .dl n => s!"dl {n}" | .ech n => s!"ech {n}"
  | .ed s => "ed " ++ (match s with | .below => "0" | .above => "1" | .all => "2" | .savedLines => "3")
  | .el s => "el " ++ (match s with | .toRight => "0" | .toLeft => "1" | .all => "2")
  | .g1d4 c => "g1d4 " ++ (match c with | .ascii => "0" | .drawing => "1")
  | .gzd4 c => "gzd4 " ++ (match c with | .ascii => "0" | .drawing => "1")
  | .ht => "ht" | .hts => "hts" | .ich n => s!"ich {n}" | .il n => s!"il {n}" | .lf => "lf"
  | .nel => "nel" | .print c => s!"print {c}" | .rep n => s!"rep {n}" | .ri => "ri" | .ris => "ris"
  | .rm ms => "rm " ++ listTok ansiModeTok ms | .scorc => "scorc" | .scosc => "scosc"
  | .sd n => s!"sd {n}" | .sgr ops => "sgr " ++ listTok sgrOpTok ops | .si => "si"
  | .sm ms => "sm " ++ listTok ansiModeTok ms | .so => "so" | .su n => s!"su {n}"
  | .tbc s => "tbc " ++ (match s with | .currentColumn => "0" | .all => "1")
  | .vpa n => s!"vpa {n}" | .vpr n => s!"vpr {n}" | .xtwinops c r => s!"xtwinops {c} {r}"

end Avt.Codec
