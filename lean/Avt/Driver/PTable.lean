/-
  Avt.Driver.PTable — exhaustive comparison of the implementation's parser transition table with
  Williams' reference (`Spec.C03.williams` / `refStep`) and with the model (`Parser.feed`).

  Input (stdin): the output of `avt-harness ptable <bg>` — for each of the 14 states (entered from a
  fresh parser by a register background followed by a canonical prefix) and every Unicode scalar
  value, run-length encoded lines

      PT <bg> <state> <lo> <hi> <nextstate> <kind>

  (`lo`/`hi` hex; `kind` = `none`, `print`, or the emitted function with `_` for spaces).
  For every run the implementation's (next state, kind) is compared at `lo`, at `hi` and at every
  endpoint representative of the model/reference tables inside the run.  Since both the model's and
  the reference's lookups are constant between consecutive endpoints (`Avt.Lookup`), and the
  implementation is constant on the run by construction of the encoding, agreement at these points
  is agreement at every scalar value of the run.  The runs must tile 0 … 10FFFF minus the
  surrogates.

  usage:  avt-harness ptable 2 | lake env lean --run Avt/Driver/PTable.lean
-/
import Avt.Spec.C03
import Avt.Lemmas.ParserReps

namespace Avt.PTable
open Avt Avt.Spec.C03

def codes (s : String) : List Nat := s.toList.map Char.toNat

/-- the prefixes of `ptable` in harness/src/main.rs -/
def prefixes : List (List Nat) := [
  [], [0x1B], [0x1B, 0x20], [0x9B], [0x9B, 0x31], [0x9B, 0x20], [0x9B, 0x3A],
  [0x90], [0x90, 0x31], [0x90, 0x20], [0x90, 0x40], [0x90, 0x3A], [0x9D], [0x98] ]

/-- the register backgrounds of `ptable` -/
def backgrounds : List (List Nat) := [
  [],
  [0x9B] ++ codes "?12;34:5;6 " ++ [0x18],
  [0x9B] ++ codes "1;2;3;4;5;6;7;8;9;10;11;12;13;14;15;16;17;18;19;20;21;22;23;24;25;26;27;28;29;30;31;32;33:1:2:3:4:5:6:7" ++ [0x18],
  [0x1B] ++ codes "#" ++ [0x18, 0x90] ++ codes "?65535;99999" ++ [0x18] ]

def stateIndex (st : PState) : Nat := (PState.all.findIdx? (· == st)).getD 99

def hexVal (c : Char) : Option Nat :=
  if '0' ≤ c ∧ c ≤ '9' then some (c.toNat - '0'.toNat)
  else if 'a' ≤ c ∧ c ≤ 'f' then some (c.toNat - 'a'.toNat + 10)
  else none

def parseHex (s : String) : Option Nat :=
  if s.isEmpty then none else
  s.toList.foldl (fun acc c => match acc, hexVal c with
    | some a, some d => some (16 * a + d)
    | _, _ => none) (some 0)

def kindTok (c : Nat) (f : Option Function) : String :=
  match f with
  | none => "none"
  | some (.print x) => if x = c then "print" else (functionTok (.print x)).replace " " "_"
  | some f => (functionTok f).replace " " "_"

structure St where
  lines : Nat := 0
  points : Nat := 0
  bad : Nat := 0
  curBg : Nat := 0
  curState : Nat := 99
  expectLo : Nat := 0
  states : Nat := 0
  deriving Inhabited

def nextLo (hi : Nat) : Nat := if hi = 0xD7FF then 0xE000 else hi + 1

def complain (s : St) (msg : String) : IO St := do
  if s.bad < 40 then IO.println s!"PTFAIL {msg}"
  pure { s with bad := s.bad + 1 }

def handle (s : St) (line : String) : IO St := do
  let ts := (line.splitOn " ").filter (· ≠ "")
  match ts with
  | ["PT", bg, st, lo, hi, nx, kind] =>
    match bg.toNat?, st.toNat?, parseHex lo, parseHex hi, nx.toNat? with
    | some bg, some sti, some lo, some hi, some nx =>
      let mut s := { s with lines := s.lines + 1 }
      -- tiling
      if sti ≠ s.curState then
        if s.curState ≠ 99 ∧ s.expectLo ≠ 0x110000 then
          s ← complain s s!"state {s.curState}: runs end at {s.expectLo} instead of 110000"
        s := { s with curState := sti, curBg := bg, expectLo := 0, states := s.states + 1 }
      if lo ≠ s.expectLo then
        s ← complain s s!"bg={bg} state={sti}: run starts at {lo}, expected {s.expectLo}"
      s := { s with expectLo := nextLo hi }
      match run Parser.new ((backgrounds[bg]?.getD []) ++ (prefixes[sti]?.getD [])) with
      | none => complain s s!"bg={bg} state={sti}: model panics on the prefix"
      | some (p, _) =>
        if stateIndex p.state ≠ sti then
          complain s s!"bg={bg} state={sti}: prefix leads the model to state {stateIndex p.state}"
        else
          let pts := ([lo, hi] ++ (ParserTable.reps p.state).filter (fun b => lo < b ∧ b < hi)
                        ++ ((ParserTable.reps p.state).filter (fun b => lo < b ∧ b ≤ hi)).map (· - 1))
          let pts := pts.filter isScalar
          for c in pts do
            s := { s with points := s.points + 1 }
            -- the model
            match p.feed c with
            | none => s ← complain s s!"bg={bg} state={sti} c={c}: model panics"
            | some (p', f) =>
              if stateIndex p'.state ≠ nx ∨ kindTok c f ≠ kind then
                s ← complain s s!"bg={bg} state={sti} c={c}: impl=({nx},{kind}) model=({stateIndex p'.state},{kindTok c f})"
            -- Williams' diagram and the reference dispatch
            let w := williams p.state c
            let r := refStep (abs p) c
            if stateIndex w.2 ≠ nx ∨ kindTok c r.2 ≠ kind then
              s ← complain s s!"bg={bg} state={sti} c={c}: impl=({nx},{kind}) williams=({stateIndex w.2},{kindName w.1},{kindTok c r.2})"
          pure s
    | _, _, _, _, _ => complain s s!"unparsable line: {line}"
  | [] => pure s
  | _ => complain s s!"unknown line: {line}"

partial def loop (h : IO.FS.Stream) (s : St) : IO St := do
  let line ← h.getLine
  if line.isEmpty then pure s
  else
    let line := (line.dropEndWhile (fun c => c == '\n' || c == '\r')).toString
    let s ← handle s line
    loop h s

end Avt.PTable

def main (_args : List String) : IO UInt32 := do
  let stdin ← IO.getStdin
  let s ← Avt.PTable.loop stdin {}
  let s ← (if s.curState ≠ 99 ∧ s.expectLo ≠ 0x110000 then
      Avt.PTable.complain s s!"state {s.curState}: runs end at {s.expectLo} instead of 110000" else pure s)
  let s ← (if s.states ≠ 14 then Avt.PTable.complain s s!"{s.states} states seen instead of 14" else pure s)
  IO.println s!"PTABLE bg={s.curBg} states={s.states} runs={s.lines} points_checked={s.points} failures={s.bad}"
  pure (if s.bad = 0 then 0 else 1)
