/-
  Avt.Driver.Main — the model driver (`avtdrv`).

  Reads a trace written by the Rust harness (real crate, in-process) on stdin and, for every
  operation, (1) runs the *model* step from the implementation's own previous state and compares the
  complete resulting state, the returned changes and every queried output (correspondence), and
  (2) evaluates the decidable `Spec` predicates of the selected property — the very definitions the
  theorems are stated with — on the implementation's states (spec-on-impl).

  usage: avtdrv <property-id>      (trace on stdin; findings and a SUMMARY line on stdout)
-/
import Avt.Driver.Codec
import Avt.Spec.All
import Std.Data.HashSet

namespace Avt.Driver
open Avt Avt.Codec

structure Res where
  panic : Bool := false
  ch : Option (List Nat) := none
  sb : Option (List Line) := none
  deriving Inhabited

inductive OpKind where
  | feedStr | feedDrop | feedChars | resize
  deriving DecidableEq, Inhabited

structure Op where
  kind : OpKind
  input : List Nat := []
  cols : Nat := 0
  rows : Nat := 0
  deriving Inhabited

inductive Pending where
  | none
  | new (k cols rows : Nat) (lim : Option Nat)
  | op (k : Nat) (op : Op) (res : Option Res)
  | dumpTo (k j : Nat) (dump : Option (List Nat))
  deriving Inhabited

structure D where
  prop : String
  caseId : String := "?"
  lineNo : Nat := 0
  insts : List (Nat × Spec.Inst) := []
  pinsts : List (Nat × Parser) := []
  tcs : List (Nat × Option TextCollector) := []
  tcOut : List (Nat × List (List Nat)) := []
  pending : Pending := .none
  lastOp : String := ""
  cases : Nat := 0
  ops : Nat := 0
  mismatches : Nat := 0
  specfails : Nat := 0
  specEvals : Nat := 0
  nontrivial : Nat := 0
  panicsImpl : Nat := 0
  caseBad : Bool := false
  badCases : Nat := 0
  funHist : List (String × Nat) := []
  curFuns : List String := []             -- tags of the functions emitted by the op being checked
  curKind : String := "-"
  curAlt : Bool := false                  -- alternate screen active before the op
  hashes : List (Nat × UInt64) := []      -- per instance: hash of its latest ST record
  seen : Std.HashSet UInt64 := {}         -- (state, op) keys on which a non-trivial predicate was evaluated
  distinct : Nat := 0

def getInst (d : D) (k : Nat) : Option Spec.Inst := d.insts.lookup k

def setInst (d : D) (k : Nat) (i : Spec.Inst) : D :=
  { d with insts := (k, i) :: d.insts.filter (·.1 ≠ k) }

def report (d : D) (kind what : String) : IO D := do
  IO.println s!"{kind} prop={d.prop} case={d.caseId} line={d.lineNo} {what}"
  pure { d with caseBad := true }

/-- a correspondence disagreement; `comps` names the state components / outputs that differ so that
    the check script can decide whether it lies in the footprint of the property being checked -/
def mismatchC (d : D) (comps : List String) (what : String) : IO D := do
  let b (x : Bool) : String := if x then "1" else "0"
  let funs := if d.curFuns.isEmpty then "-" else ",".intercalate d.curFuns
  let d ← report d "MISMATCH" s!"comps={",".intercalate comps} funs={funs} kind={d.curKind} alt={b d.curAlt} {what}"
  pure { d with mismatches := d.mismatches + 1 }

def mismatch (d : D) (what : String) : IO D := mismatchC d ["protocol"] what

/-- key of "this operation applied to these states" for counting distinct non-trivial evaluations -/
def opKey (d : D) : UInt64 :=
  d.hashes.foldl (fun acc (k, h) => mixHash acc (mixHash (hash k) h)) (hash d.lastOp)

def noteNontrivial (d : D) (any : Bool) : D :=
  if !any then d else
  let key := opKey d
  if d.seen.contains key then d else { d with seen := d.seen.insert key, distinct := d.distinct + 1 }

def bump (h : List (String × Nat)) (k : String) : List (String × Nat) :=
  match h.lookup k with
  | some n => (k, n + 1) :: h.filter (·.1 ≠ k)
  | none => (k, 1) :: h

/-- first component in which two states differ (for diagnostics) -/
def diffVt (m i : Vt) : String :=
  let mt := m.terminal
  let it := i.terminal
  if m.parser ≠ i.parser then
    s!"parser model={pstateToNat m.parser.state},{m.parser.curParam},{repr m.parser.intermediate} impl={pstateToNat i.parser.state},{i.parser.curParam},{repr i.parser.intermediate}"
  else if (mt.cols, mt.rows) ≠ (it.cols, it.rows) then "size"
  else if mt.cursor ≠ it.cursor then s!"cursor model={mt.cursor.col},{mt.cursor.row},{mt.cursor.visible} impl={it.cursor.col},{it.cursor.row},{it.cursor.visible}"
  else if mt.pendingWrap ≠ it.pendingWrap then "pending_wrap"
  else if mt.pen ≠ it.pen then s!"pen model={penTok mt.pen} impl={penTok it.pen}"
  else if mt.activeBufferType ≠ it.activeBufferType then "active_buffer_type"
  else if mt.buffer.view ≠ it.buffer.view then
    s!"buffer.view model={" ".intercalate (mt.buffer.view.map lineTok)} impl={" ".intercalate (it.buffer.view.map lineTok)}"
  else if mt.buffer.sb ≠ it.buffer.sb then s!"buffer.scrollback model_len={mt.buffer.sb.length} impl_len={it.buffer.sb.length}"
  else if mt.buffer ≠ it.buffer then "buffer.meta(cols/rows/limit/trim_needed)"
  else if mt.otherBuffer ≠ it.otherBuffer then "other_buffer"
  else if mt.tabs ≠ it.tabs then s!"tabs model={mt.tabs} impl={it.tabs}"
  else if (mt.topMargin, mt.bottomMargin) ≠ (it.topMargin, it.bottomMargin) then "margins"
  else if mt.savedCtx ≠ it.savedCtx then "saved_ctx"
  else if mt.alternateSavedCtx ≠ it.alternateSavedCtx then "alternate_saved_ctx"
  else if mt.dirtyLines ≠ it.dirtyLines then "dirty_lines"
  else if mt.charsets ≠ it.charsets ∨ mt.activeCharset ≠ it.activeCharset then "charsets"
  else if mt.cursorKeysMode ≠ it.cursorKeysMode then "cursor_keys_mode"
  else "modes(insert/origin/auto_wrap/new_line)/scrollback_limit/xtwinops"

/-- every component in which two states differ -/
def compsOf (m i : Vt) : List String :=
  let mt := m.terminal
  let it := i.terminal
  let c (b : Bool) (n : String) : List String := if b then [n] else []
  c (m.parser ≠ i.parser) "parser" ++ c ((mt.cols, mt.rows) ≠ (it.cols, it.rows)) "size"
    ++ c (mt.cursor ≠ it.cursor) "cursor" ++ c (mt.pendingWrap ≠ it.pendingWrap) "pending_wrap"
    ++ c (mt.pen ≠ it.pen) "pen" ++ c (mt.activeBufferType ≠ it.activeBufferType) "active_buffer_type"
    ++ c (mt.buffer.view ≠ it.buffer.view) "buffer.view" ++ c (mt.buffer.sb ≠ it.buffer.sb) "buffer.scrollback"
    ++ c (mt.buffer.sb.length ≠ it.buffer.sb.length) "buffer.sb_len"
    ++ c ((mt.otherBuffer.sb.length, mt.otherBuffer.view.length) ≠ (it.otherBuffer.sb.length, it.otherBuffer.view.length)) "other_buffer.len"
    ++ c ((mt.buffer.cols, mt.buffer.rows, mt.buffer.limit, mt.buffer.trimNeeded)
          ≠ (it.buffer.cols, it.buffer.rows, it.buffer.limit, it.buffer.trimNeeded)) "buffer.meta"
    ++ c (mt.otherBuffer ≠ it.otherBuffer) "other_buffer" ++ c (mt.tabs ≠ it.tabs) "tabs"
    ++ c ((mt.topMargin, mt.bottomMargin) ≠ (it.topMargin, it.bottomMargin)) "margins"
    ++ c (mt.savedCtx ≠ it.savedCtx) "saved_ctx" ++ c (mt.alternateSavedCtx ≠ it.alternateSavedCtx) "alternate_saved_ctx"
    ++ c (mt.dirtyLines ≠ it.dirtyLines) "dirty_lines"
    ++ c (mt.charsets ≠ it.charsets ∨ mt.activeCharset ≠ it.activeCharset) "charsets"
    ++ c (mt.cursorKeysMode ≠ it.cursorKeysMode) "cursor_keys_mode"
    ++ c ((mt.insertMode, mt.originMode, mt.autoWrapMode, mt.newLineMode, mt.scrollbackLimit, mt.xtwinops)
          ≠ (it.insertMode, it.originMode, it.autoWrapMode, it.newLineMode, it.scrollbackLimit, it.xtwinops)) "modes"

def parseRes (ts : List String) : Option Res :=
  -- OK CH n i… SB m line…   |  OK CH - SB -  |  PANIC msg
  match ts with
  | "PANIC" :: _ => some { panic := true }
  | "OK" :: "CH" :: rest =>
    let p : Codec.P Res := do
      let t ← Codec.tok
      let ch ← (if t == "-" then pure none else do
        let n ← Codec.ofOption t.toNat?
        let xs ← Codec.many Codec.nat n
        pure (some xs))
      Codec.expect "SB"
      let t ← Codec.tok
      let sb ← (if t == "-" then pure none else do
        let n ← Codec.ofOption t.toNat?
        let xs ← Codec.many Codec.line n
        pure (some xs))
      pure { ch := ch, sb := sb }
    Codec.run p rest
  | _ => none

/-- the model's version of an operation, run from the implementation's previous state -/
def modelStep (v : Vt) (op : Op) : Option (Vt × Option Changes) :=
  match op.kind with
  | .feedStr => (v.feedStr op.input).map fun (v', c) => (v', some c)
  | .feedDrop => (v.feedStr op.input).map fun (v', c) => (v', some c)
  | .feedChars => (v.feedAll op.input).map fun v' => (v', none)
  | .resize => (v.resize op.cols op.rows).map fun (v', c) => (v', some c)

/-- functions the (model) parser emits for `input` from parser state `p` -/
def emitted : Parser → List Nat → List Function
  | _, [] => []
  | p, c :: cs =>
    match p.feed c with
    | none => []
    | some (p', none) => emitted p' cs
    | some (p', some f) => f :: emitted p' cs

def funTag (f : Function) : String := ((functionTok f).splitOn " ").headD "?"

/-- the functions whose outcome each step-level property specifies (mirrors FOOTPRINT in bin/check) -/
def specifiedFuns : String → List String
  | "C04" => ["print", "rep", "so", "si", "gzd4", "g1d4"]
  | "C05" => ["bs", "cr", "ht", "cht", "cbt", "cuu", "cud", "cuf", "cub", "cnl", "cpl", "vpr", "cha", "cup", "vpa",
              "lf", "nel", "ri", "decstbm", "decset", "decrst"]
  | "C06" => ["lf", "nel", "ri", "su", "sd", "il", "dl", "decstbm"]
  | "C07" => ["ed", "el", "ech", "ich", "dch", "decaln"]
  | "C08" => ["sgr"]
  | "C09" => ["print", "cr", "lf"]
  | "C16" => ["decset", "decrst"]
  | "C17" => ["decsc", "decrc", "scosc", "scorc", "decset", "decrst", "decstr"]
  | "C18" => ["ht", "cht", "cbt", "hts", "tbc", "ctc"]
  | "C19" => ["ris"]
  | _ => []

def finishOp (d : D) (k : Nat) (op : Op) (res : Res) (next : Option Vt) : IO D := do
  let some inst := getInst d k | mismatch d s!"op on unknown instance {k}"
  let prev := inst.st
  let d := { d with ops := d.ops + 1 }
  let model := modelStep prev op
  let funs := if op.kind = .resize then [] else emitted prev.parser op.input
  let d := { d with funHist := funs.foldl (fun h f => bump h (funTag f)) d.funHist,
                    curFuns := (funs.map funTag).eraseDups,
                    curKind := (match op.kind with | .feedStr => "feedStr" | .feedDrop => "feedDrop" | .feedChars => "feedChars" | .resize => "resize"),
                    curAlt := prev.terminal.activeBufferType == .alternate }
  match next with
  | none =>
    -- implementation panicked
    let d := { d with panicsImpl := d.panicsImpl + 1 }
    let d ← (if model.isSome then mismatchC d ["panic"] "impl=PANIC model=ok" else pure d)
    -- a panic where the (proved) model returns normally is a failure of totality (C01, C02) and of
    -- the property that specifies the outcome of this very call: every function the call executes
    -- is one the property's statement covers (`specifiedFuns`, the same attribution bin/check uses
    -- for correspondence mismatches), or - C10 - it is a resize the property speaks about
    let applies : Bool := match model with
      | some (m, mch) =>
        if op.kind = .resize then
          d.prop == "C10" &&
            (Spec.checkStep d.prop { prev := prev, next := m, funs := [], kind := .resize, input := [],
                                     cols := op.cols, rows := op.rows, ch := mch.map (·.lines),
                                     sb := mch.map (·.scrollback), inst := inst }).any
              (fun v => match v with | .pass nt => nt | .fail _ => true)
        else
          !funs.isEmpty && (funs.map funTag).all (fun t => (specifiedFuns d.prop).contains t)
      | none => false
    let d ← (if d.prop == "C01" ∨ d.prop == "C02" then do
        let d ← report d "SPECFAIL" s!"what=panic op={d.lastOp}"
        pure { d with specfails := d.specfails + 1 }
      else if applies then do
        let d ← report d "SPECFAIL" s!"what=panic-where-the-property-specifies-the-outcome op={d.lastOp}"
        pure { d with specfails := d.specfails + 1 }
      else pure d)
    pure (setInst d k { inst with dead := true, diedOn := op.input })
  | some next =>
    let d ← (match model with
      | none => mismatchC d ["panic"] "impl=ok model=PANIC"
      | some (m, mch) => do
        let d ← (if m ≠ next then mismatchC d (compsOf m next) s!"state {diffVt m next}" else pure d)
        match mch with
        | none => pure d
        | some mch =>
          let d ← (match res.ch with
            | some ch => if ch ≠ mch.lines then mismatchC d ["changes.lines"] s!"changes.lines model={mch.lines} impl={ch}" else pure d
            | none => pure d)
          match res.sb with
          | some sb => if sb ≠ mch.scrollback then mismatchC d ["changes.scrollback"] s!"changes.scrollback model_len={mch.scrollback.length} impl_len={sb.length}" else pure d
          | none => pure d)
    -- spec-on-impl
    let ev : Spec.StepEv := { prev := prev, next := next, funs := funs,
                              kind := (match op.kind with | .feedStr => .feedStr | .feedDrop => .feedDrop | .feedChars => .feedChars | .resize => .resize),
                              input := op.input, cols := op.cols, rows := op.rows,
                              ch := res.ch, sb := res.sb, inst := inst }
    let verdicts := Spec.checkStep d.prop ev
    let mut d := d
    for v in verdicts do
      d := { d with specEvals := d.specEvals + 1 }
      match v with
      | .pass nt => if nt then d := { d with nontrivial := d.nontrivial + 1 }
      | .fail what =>
        d ← report d "SPECFAIL" s!"what={what} op={d.lastOp}"
        d := { d with specfails := d.specfails + 1 }
    d := noteNontrivial d (verdicts.any fun v => match v with | .pass true => true | _ => false)
    let inst' : Spec.Inst := { inst with
      st := next,
      drained := inst.drained ++ (res.sb.getD []),
      sawRis := inst.sawRis || funs.any (· == .ris),
      sawResize := inst.sawResize || op.kind = .resize,
      sawDrop := inst.sawDrop || op.kind = .feedDrop,
      history := inst.history + 1 }
    pure (setInst d k inst')

def parseStrs (ts : List String) : Option (List (List Nat)) :=
  match ts with
  | n :: rest =>
    match n.toNat? with
    | some n => if rest.length = n then rest.mapM hexDecode else none
    | none => none
  | [] => none

def strsTok (ls : List (List Nat)) : String := " ".intercalate (ls.map hexEncode)

def applyVerdicts (d : D) (vs : List Spec.Verdict) : IO D := do
  let mut d := noteNontrivial d (vs.any fun v => match v with | .pass true => true | _ => false)
  for v in vs do
    d := { d with specEvals := d.specEvals + 1 }
    match v with
    | .pass nt => if nt then d := { d with nontrivial := d.nontrivial + 1 }
    | .fail what =>
      d ← report d "SPECFAIL" s!"what={what} op={d.lastOp}"
      d := { d with specfails := d.specfails + 1 }
  pure d

partial def handle (d : D) (line : String) : IO D := do
  let ts := (line.splitOn " ").filter (· ≠ "")
  let d := { d with lineNo := d.lineNo + 1 }
  let d := match ts.head? with
    | some "ST" | some "ST_" | some "RES" | some "API" | some "APIERR" => d
    | _ => { d with curFuns := [], curKind := "-", curAlt := false }
  match ts with
  | [] => pure d
  | "CASE" :: id :: _ =>
    pure { d with caseId := id, insts := [], pinsts := [], tcs := [], tcOut := [], pending := .none,
                  cases := d.cases + 1, caseBad := false }
  | "END" :: _ => pure (if d.caseBad then { d with badCases := d.badCases + 1 } else d)
  | ["N", k, cols, rows, lim] =>
    match k.toNat?, cols.toNat?, rows.toNat? with
    | some k, some cols, some rows =>
      let lim := if lim == "-" then none else lim.toNat?
      pure { d with pending := .new k cols rows lim, lastOp := line }
    | _, _, _ => mismatch d "bad N line"
  | "ST" :: k :: rest =>
    let some k := k.toNat? | mismatch d "bad ST line"
    let _ := rest
    let d ← handle { d with lineNo := d.lineNo - 1 } ("ST_" ++ (line.drop 2).toString)
    pure { d with hashes := (k, hash line) :: d.hashes.filter (·.1 ≠ k) }
  | "ST_" :: k :: rest =>
    let some k := k.toNat? | mismatch d "bad ST line"
    let prevLines : List (List Line) := match getInst d k with
      | some i => [i.st.terminal.buffer.lines, i.st.terminal.otherBuffer.lines]
      | none => []
    let prevLines := match d.pending with
      | .new _ _ _ _ => []
      | .dumpTo _ _ _ => []
      | _ => prevLines
    match Codec.run (Codec.vt prevLines) rest with
    | none => mismatch d s!"unparsable state (geometry broken?): {(line.take 200).toString}"
    | some st =>
      match d.pending with
      | .new k' cols rows lim =>
        if k ≠ k' then mismatch d "ST for wrong instance" else
        let d := { d with pending := .none }
        let d ← (match Vt.new cols rows lim with
          | none => mismatchC d ["new"] "Vt.new: impl=ok model=PANIC"
          | some m => if m ≠ st then mismatchC d ["new"] s!"Vt.new state {diffVt m st}" else pure d)
        let d ← applyVerdicts d (Spec.checkNew d.prop cols rows lim st)
        pure (setInst d k { st := st })
      | .op k' op (some res) =>
        if k ≠ k' then mismatch d "ST for wrong instance" else
        finishOp { d with pending := .none } k op res (some st)
      | .dumpTo k' j (some dump) =>
        if k ≠ j then mismatch d "ST for wrong instance (DUMPTO)" else
        let d := { d with pending := .none }
        let some src := getInst d k' | mismatch d "DUMPTO from unknown instance"
        let t := src.st.terminal
        let d ← (match Vt.new t.cols t.rows none with
          | none => mismatchC d ["dumpto"] "DUMPTO: model Vt.new failed"
          | some fresh =>
            match fresh.feedStr dump with
            | none => mismatchC d ["dumpto"] "DUMPTO: impl=ok model=PANIC while feeding the dump"
            | some (m, _) => if m ≠ st then mismatchC d ["dumpto"] s!"DUMPTO state {diffVt m st}" else pure d)
        pure (setInst d j { st := st })
      | _ => mismatch d "unexpected ST"
  | "RES" :: k :: rest =>
    let some k := k.toNat? | mismatch d "bad RES line"
    match d.pending with
    | .op k' op none =>
      if k ≠ k' then mismatch d "RES for wrong instance" else
      if rest.head? == some "DEAD" then pure { d with pending := .none } else
      match parseRes rest with
      | none => mismatch d "unparsable RES"
      | some res =>
        if res.panic then finishOp { d with pending := .none } k op res none
        else pure { d with pending := .op k op (some res) }
    | .new k' cols rows lim =>
      -- constructor panicked
      if k ≠ k' then mismatch d "RES for wrong instance" else
      let d := { d with pending := .none, panicsImpl := d.panicsImpl + 1 }
      let d ← (if (Vt.new cols rows lim).isSome then mismatchC d ["new"] "Vt.new: impl=PANIC model=ok" else pure d)
      if d.prop == "C01" then do
        let d ← report d "SPECFAIL" s!"what=panic-in-constructor op={d.lastOp}"
        pure { d with specfails := d.specfails + 1 }
      else pure d
    | _ => mismatch d "unexpected RES"
  | [op, k, arg] =>
    if op == "S" ∨ op == "D" ∨ op == "F" then
      match k.toNat?, hexDecode arg with
      | some k, some input =>
        let kind : OpKind := if op == "S" then .feedStr else if op == "D" then .feedDrop else .feedChars
        pure { d with pending := .op k { kind := kind, input := input } none, lastOp := line }
      | _, _ => mismatch d "bad feed line"
    else if op == "PF" then pure { d with lastOp := line }
    else if op == "DUMPTO" then
      match k.toNat?, arg.toNat? with
      | some k, some j => pure { d with pending := .dumpTo k j none, lastOp := line }
      | _, _ => mismatch d "bad DUMPTO"
    else if op == "TCS" then pure { d with lastOp := line, pending := .none }
    else if op == "CHUNKS" then pure { d with lastOp := line }
    else if op == "X" then applyDirective d ts
    else mismatch d s!"unknown line {op}"
  | ["R", k, cols, rows] =>
    match k.toNat?, cols.toNat?, rows.toNat? with
    | some k, some cols, some rows =>
      pure { d with pending := .op k { kind := .resize, cols := cols, rows := rows } none, lastOp := line }
    | _, _, _ => mismatch d "bad R line"
  | "API" :: k :: rest =>
    let some k := k.toNat? | mismatch d "bad API line"
    let some inst := getInst d k | mismatch d "API for unknown instance"
    let v := inst.st
    let t := v.terminal
    let b (x : Bool) : String := if x then "1" else "0"
    let nl := v.lines.length
    -- the record carries the last `rest.length - 8` lines (all of them in uncompressed traces)
    let shown := rest.length - 8
    let expect : List String :=
      [toString t.cols, toString t.rows, toString t.cursor.col, toString t.cursor.row, b t.cursor.visible,
       b v.cursorKeyAppMode, toString v.view.length, toString nl]
        ++ (v.lines.drop (nl - shown)).map lineApiTok
    if expect ≠ rest then mismatchC d ["api"] s!"public API disagrees with private state (size/cursor/cursor-key mode/lines/pens/wrap marks)"
    else pure d
  | "APIERR" :: rest => do
    let d ← report d "SPECFAIL" s!"what=api-self-consistency:{" ".intercalate rest}"
    pure { d with specfails := d.specfails + 1 }
  | "DUMPRES" :: k :: rest =>
    let some k := k.toNat? | mismatch d "bad DUMPRES"
    let some inst := getInst d k | mismatch d "DUMPRES for unknown instance"
    match rest with
    | ["OK", hex] =>
      let some dump := hexDecode hex | mismatch d "bad dump hex"
      let d ← (match inst.st.dump with
        | none => mismatchC d ["dump"] "dump: impl=ok model=PANIC"
        | some m => if m ≠ dump then mismatchC d ["dump"] s!"dump output model={hexEncode m} impl={hex}" else pure d)
      match d.pending with
      | .dumpTo k' j none => if k = k' then pure { d with pending := .dumpTo k' j (some dump) } else pure d
      | _ => pure d
    | "PANIC" :: _ =>
      let d := { d with panicsImpl := d.panicsImpl + 1, pending := .none }
      let d ← (if inst.st.dump.isSome then mismatchC d ["dump"] "dump: impl=PANIC model=ok" else pure d)
      if d.prop == "C01" ∨ d.prop == "C11" then do
        let d ← report d "SPECFAIL" "what=panic-in-dump"
        pure { d with specfails := d.specfails + 1 }
      else pure d
    | _ => pure { d with pending := .none }
  | "TEXTRES" :: k :: rest =>
    let some k := k.toNat? | mismatch d "bad TEXTRES"
    let some inst := getInst d k | mismatch d "TEXTRES for unknown instance"
    match rest with
    | "OK" :: strs =>
      let some t := parseStrs strs | mismatch d "bad TEXTRES strings"
      let m := inst.st.text
      let d ← (if m ≠ t then mismatchC d ["text"] s!"text() model={strsTok m} impl={strsTok t}" else pure d)
      pure (setInst d k { inst with lastText := some t })
    | "PANIC" :: _ =>
      let d := { d with panicsImpl := d.panicsImpl + 1 }
      if d.prop == "C01" ∨ d.prop == "C09" then do
        let d ← report d "SPECFAIL" "what=panic-in-text"
        pure { d with specfails := d.specfails + 1 }
      else pure d
    | _ => pure d
  | "UNWRAPRES" :: k :: rest =>
    let some k := k.toNat? | mismatch d "bad UNWRAPRES"
    let some inst := getInst d k | mismatch d "UNWRAPRES for unknown instance"
    match rest with
    | "OK" :: strs =>
      let some t := parseStrs strs | mismatch d "bad UNWRAPRES strings"
      let (acc, out) := unwrapMany [] inst.st.lines
      let m := out ++ (unwrapFlush acc).toList
      let d ← (if m ≠ t then mismatchC d ["unwrap"] s!"TextUnwrapper model={strsTok m} impl={strsTok t}" else pure d)
      pure (setInst d k { inst with lastUnwrap := some t })
    | "PANIC" :: _ =>
      let d := { d with panicsImpl := d.panicsImpl + 1 }
      if d.prop == "C01" ∨ d.prop == "C09" then do
        let d ← report d "SPECFAIL" "what=panic-in-unwrap"
        pure { d with specfails := d.specfails + 1 }
      else pure d
    | _ => pure d
  | "CHUNKSRES" :: k :: rest =>
    let some k := k.toNat? | mismatch d "bad CHUNKSRES"
    let some inst := getInst d k | mismatch d "CHUNKSRES for unknown instance"
    let lastTs := (d.lastOp.splitOn " ").filter (· ≠ "")
    let row := (lastTs[2]?.bind String.toNat?).getD 0
    match rest with
    | "OK" :: n :: lens =>
      let impl := lens.filterMap String.toNat?
      match inst.st.view[row]? with
      | none => mismatchC d ["chunks"] "Line::chunks: impl=ok model=row-out-of-range"
      | some l =>
        let m := (l.chunks fun c1 c2 => c1.pen ≠ c2.pen).map List.length
        if n.toNat? ≠ some m.length ∨ m ≠ impl then mismatchC d ["chunks"] s!"Line::chunks model={m} impl={impl}" else pure d
    | "PANIC" :: _ =>
      let d := { d with panicsImpl := d.panicsImpl + 1 }
      let d ← (if (inst.st.view[row]?).isSome then mismatchC d ["chunks"] "Line::chunks: impl=PANIC model=ok" else pure d)
      if d.prop == "C01" then do
        let d ← report d "SPECFAIL" "what=panic-in-chunks"
        pure { d with specfails := d.specfails + 1 }
      else pure d
    | _ => pure d
  | ["TCNEW", k, cols, rows, lim] =>
    match k.toNat?, cols.toNat?, rows.toNat? with
    | some k, some cols, some rows =>
      let lim := if lim == "-" then none else lim.toNat?
      let tc : Option TextCollector := (Vt.new cols rows lim).map fun v => { vt := v }
      pure { d with tcs := (k, tc) :: d.tcs.filter (·.1 ≠ k), tcOut := (k, []) :: d.tcOut.filter (·.1 ≠ k) }
    | _, _, _ => mismatch d "bad TCNEW"
  | ["TCR", _, _, _] => pure { d with lastOp := line }
  | ["TCFLUSH", _] => pure { d with lastOp := line }
  | "TCRES" :: k :: rest =>
    let some k := k.toNat? | mismatch d "bad TCRES"
    let lastTs := (d.lastOp.splitOn " ").filter (· ≠ "")
    let tc := (d.tcs.lookup k).getD none
    match rest with
    | "OK" :: strs =>
      let some out := parseStrs strs | mismatch d "bad TCRES strings"
      let prevOut := (d.tcOut.lookup k).getD []
      let d := { d with tcOut := (k, prevOut ++ out) :: d.tcOut.filter (·.1 ≠ k) }
      match tc, lastTs with
      | some tc, ["TCS", _, hex] =>
        let some input := hexDecode hex | mismatch d "bad TCS hex"
        match tc.feedStr input with
        | none => mismatchC d ["collector"] "TextCollector.feed_str: impl=ok model=PANIC"
        | some (tc', m) =>
          let d ← (if m ≠ out then mismatchC d ["collector"] s!"TextCollector.feed_str output model={strsTok m} impl={strsTok out}" else pure d)
          pure { d with tcs := (k, some tc') :: d.tcs.filter (·.1 ≠ k) }
      | some tc, ["TCR", _, c, r] =>
        match c.toNat?, r.toNat? with
        | some c, some r =>
          match tc.resize c r with
          | none => mismatchC d ["collector"] "TextCollector.resize: impl=ok model=PANIC"
          | some (tc', m) =>
            let d ← (if m ≠ out then mismatchC d ["collector"] s!"TextCollector.resize output" else pure d)
            pure { d with tcs := (k, some tc') :: d.tcs.filter (·.1 ≠ k) }
        | _, _ => mismatch d "bad TCR"
      | some tc, ["TCFLUSH", _] =>
        let m := tc.flush
        if m ≠ out then mismatchC d ["collector"] s!"TextCollector.flush output model={strsTok m} impl={strsTok out}" else pure d
      | _, _ => pure d
    | "PANIC" :: _ =>
      let d := { d with panicsImpl := d.panicsImpl + 1 }
      if d.prop == "C01" ∨ d.prop == "C14" then do
        let d ← report d "SPECFAIL" "what=panic-in-text-collector"
        pure { d with specfails := d.specfails + 1 }
      else pure d
    | _ => pure d
  | ["PN", _] => pure { d with lastOp := line }
  | "PST" :: k :: rest =>
    let some k := k.toNat? | mismatch d "bad PST"
    match Codec.run Codec.parser rest with
    | none => mismatch d "unparsable PST"
    | some p =>
      let d ← (if p ≠ Parser.new then mismatchC d ["parser"] "Parser::new differs from the model" else pure d)
      pure { d with pinsts := (k, p) :: d.pinsts.filter (·.1 ≠ k) }
  | "PRES" :: k :: ch :: rest =>
    let some k := k.toNat? | mismatch d "bad PRES"
    let some c := parseHex ch | mismatch d "bad PRES char"
    let some prev := d.pinsts.lookup k | mismatch d "PRES for unknown parser"
    let d := { d with ops := d.ops + 1 }
    if rest.head? == some "PANIC" then
      let d := { d with panicsImpl := d.panicsImpl + 1 }
      let d ← (if (prev.feed c).isSome then mismatchC d ["parser", "panic"] "Parser.feed: impl=PANIC model=ok" else pure d)
      if d.prop == "C01" ∨ d.prop == "C03" then do
        let d ← report d "SPECFAIL" s!"what=panic-in-parser char={ch}"
        pure { d with specfails := d.specfails + 1 }
      else pure d
    else
      -- split at FN
      let stToks := rest.takeWhile (· ≠ "FN")
      let fnTok := " ".intercalate ((rest.dropWhile (· ≠ "FN")).drop 1)
      match Codec.run Codec.parser stToks with
      | none => mismatch d "unparsable PRES state"
      | some next =>
        let d ← (match prev.feed c with
          | none => mismatchC d ["parser", "panic"] "Parser.feed: impl=ok model=PANIC"
          | some (m, f) =>
            let mf := match f with | some f => functionTok f | none => "-"
            if m ≠ next then mismatchC d ["parser"] s!"parser state after char {ch}: model={pstateToNat m.state} impl={pstateToNat next.state}"
            else if mf ≠ fnTok then mismatchC d ["parser"] s!"parser function for char {ch}: model={mf} impl={fnTok}"
            else pure d)
        let d ← applyVerdicts d (Spec.checkParserStep d.prop prev c next fnTok)
        let d := { d with funHist := if fnTok == "-" then d.funHist else bump d.funHist ((fnTok.splitOn " ").headD "?") }
        pure { d with pinsts := (k, next) :: d.pinsts.filter (·.1 ≠ k) }
  | "X" :: _ => applyDirective d ts
  | "TEXT" :: _ => pure { d with lastOp := line }
  | "UNWRAP" :: _ => pure { d with lastOp := line }
  | "DUMP" :: _ => pure { d with lastOp := line }
  | "#" :: _ => pure d
  | t :: _ => mismatch d s!"unknown trace line {t}"
where
  applyDirective (d : D) (ts : List String) : IO D := do
    match ts with
    | "X" :: name :: args =>
      let lookup (k : String) : Option Spec.Inst := k.toNat?.bind (getInst d)
      match Spec.checkDirective d.prop name args lookup (fun k => (d.tcOut.lookup k).getD []) with
      | (vs, upd) =>
        let d ← applyVerdicts { d with lastOp := " ".intercalate ts } vs
        pure (upd.foldl (fun d (k, i) => setInst d k i) d)
    | _ => pure d

partial def loop (h : IO.FS.Stream) (d : D) : IO D := do
  let line ← h.getLine
  if line.isEmpty then pure d
  else
    let line := (line.dropEndWhile (fun c => c == '\n' || c == '\r')).toString
    let d ← handle d line
    loop h d

def main (args : List String) : IO UInt32 := do
  let prop := args.headD "C01"
  let stdin ← IO.getStdin
  let d ← loop stdin { prop := prop }
  let hist := " ".intercalate ((d.funHist.map fun (k, n) => s!"{k}:{n}"))
  IO.println s!"SUMMARY prop={prop} cases={d.cases} ops={d.ops} mismatches={d.mismatches} specfails={d.specfails} spec_evals={d.specEvals} nontrivial={d.nontrivial} distinct={d.distinct} impl_panics={d.panicsImpl} bad_cases={d.badCases}"
  IO.println s!"FUNHIST {hist}"
  pure (if d.mismatches = 0 ∧ d.specfails = 0 then 0 else 1)

end Avt.Driver
