/-
  Avt.Model.Prim — checked primitives.  `none` always means "the Rust code panics here"
  (index out of range, `usize` underflow, failed slice bound, failed `unwrap`/`assert!`).
-/
namespace Avt

/-- `a - b` on `usize` with overflow checks on. -/
@[inline] def csub (a b : Nat) : Option Nat := if b ≤ a then some (a - b) else none

/-- `l[i]` -/
@[inline] def idx {α} (l : List α) (i : Nat) : Option α := l[i]?

/-- `l[i] = x` -/
@[inline] def setAt {α} (l : List α) (i : Nat) (x : α) : Option (List α) :=
  if i < l.length then some (l.set i x) else none

/-- `l[i] = f(l[i])` -/
@[inline] def modAt {α} (l : List α) (i : Nat) (f : α → α) : Option (List α) :=
  match l[i]? with
  | some x => some (l.set i (f x))
  | none => none

/-- `l[i] = f(l[i])?` where `f` itself may panic -/
@[inline] def modAtM {α} (l : List α) (i : Nat) (f : α → Option α) : Option (List α) :=
  match l[i]? with
  | some x => match f x with
    | some y => some (l.set i y)
    | none => none
  | none => none

/-- `l[a..b].fill(x)` -/
@[inline] def fillRange {α} (l : List α) (a b : Nat) (x : α) : Option (List α) :=
  if a ≤ b ∧ b ≤ l.length then some (l.take a ++ List.replicate (b - a) x ++ l.drop b) else none

/-- `l[a..b].rotate_left(n)` (the slice methods assert `n ≤ len`) -/
@[inline] def rotLRange {α} (l : List α) (a b n : Nat) : Option (List α) :=
  if a ≤ b ∧ b ≤ l.length ∧ n ≤ b - a then
    let mid := (l.take b).drop a
    some (l.take a ++ (mid.drop n ++ mid.take n) ++ l.drop b)
  else none

/-- `l[a..b].rotate_right(n)` -/
@[inline] def rotRRange {α} (l : List α) (a b n : Nat) : Option (List α) :=
  if a ≤ b ∧ b ≤ l.length ∧ n ≤ b - a then
    let mid := (l.take b).drop a
    let k := (b - a) - n
    some (l.take a ++ (mid.drop k ++ mid.take k) ++ l.drop b)
  else none

/-- decimal rendering of a number (what `format!("{}", n)` prints), as code points -/
def decDigitsAux : Nat → Nat → List Nat → List Nat
  | 0, _, acc => acc
  | fuel + 1, n, acc =>
    let acc' := (0x30 + n % 10) :: acc
    if n / 10 = 0 then acc' else decDigitsAux fuel (n / 10) acc'

def renderDec (n : Nat) : List Nat := decDigitsAux (n + 1) n []

def hexDigit (d : Nat) : Char :=
  if d < 10 then Char.ofNat (0x30 + d) else Char.ofNat (0x61 + d - 10)

end Avt
