/-
  Avt.Model.Vt — model of src/vt.rs, `Terminal::dump`, src/util.rs.
-/
import Avt.Model.Parser
import Avt.Model.Terminal

namespace Avt

/-! ### Terminal::dump -/

namespace Terminal

def csi : Nat := 0x9b

/-- `format!("\u{9b}{};{}H", a, b)` -/
def cupSeq (a b : Nat) : List Nat := csi :: renderDec a ++ [0x3b] ++ renderDec b ++ [0x48]

/-- steps 3 and 5: configure a saved context -/
def dumpCtx (c : SavedCtx) : Option (List Nat) :=
  if c.isDefault then some [] else
  match c.pen.dump with
  | none => none
  | some pd =>
    some ((if !c.autoWrapMode then [csi, 0x3f, 0x37, 0x6c] else [])
      ++ (if c.originMode then [csi, 0x3f, 0x36, 0x68] else [])
      ++ cupSeq (c.cursorRow + 1) (c.cursorCol + 1)
      ++ pd
      ++ [0x1b, 0x37]
      ++ (if !c.autoWrapMode then [csi, 0x3f, 0x37, 0x68] else [])
      ++ (if c.originMode then [csi, 0x3f, 0x36, 0x6c] else []))

/-- step 9: cursor position -/
def dumpCursor (t : Terminal) : List Nat :=
  let col := t.cursor.col
  let row := t.cursor.row
  if t.originMode then
    if row < t.topMargin || row > t.bottomMargin then
      [csi, 0x75]
        ++ (if col < t.savedCtx.cursorCol then csi :: renderDec (t.savedCtx.cursorCol - col) ++ [0x44]
            else if col > t.savedCtx.cursorCol then csi :: renderDec (col - t.savedCtx.cursorCol) ++ [0x43]
            else [])
        ++ (if row < t.savedCtx.cursorRow then csi :: renderDec (t.savedCtx.cursorRow - row) ++ [0x41]
            else if row > t.savedCtx.cursorRow then csi :: renderDec (row - t.savedCtx.cursorRow) ++ [0x42]
            else [])
    else cupSeq (row - t.topMargin + 1) (col + 1)
  else cupSeq (row + 1) (col + 1)

/-- `Terminal::dump` -/
def dump (t : Terminal) : Option (List Nat) :=
  let (primaryCtx, alternateCtx) := match t.activeBufferType with
    | .primary => (t.savedCtx, t.alternateSavedCtx)
    | .alternate => (t.alternateSavedCtx, t.savedCtx)
  let isAlt := t.activeBufferType = .alternate
  -- 1
  match t.primaryBuffer.dump, dumpCtx primaryCtx, dumpCtx alternateCtx, t.pen.dump, csub t.rows 1 with
  | some prim, some pctx, some actx, some pend, some r1 =>
    -- 2
    let tabs : List Nat :=
      if t.tabs ≠ Tabs.new t.cols then
        [csi, 0x35, 0x57] ++ (t.tabs.map fun tb => csi :: renderDec (tb + 1) ++ [0x60, 0x1b, 0x5b, 0x57]).flatten
      else []
    -- 4
    let altSwitch : List Nat := if isAlt || !alternateCtx.isDefault then [csi, 0x3f, 0x31, 0x30, 0x34, 0x37, 0x68] else []
    let altDump : Option (List Nat) :=
      if isAlt then (t.alternateBuffer.dump).map fun d => [csi, 0x31, 0x3b, 0x31, 0x48] ++ d else some []
    -- 9 (wrap-pending re-print)
    let pendingPrint : Option (List Nat) :=
      if t.cursor.col ≥ t.cols then
        match csub t.cols 1 with
        | none => none
        | some c1 =>
          match t.buffer.view[t.cursor.row]? with
          | none => none
          | some line =>
            match line.cells[c1]? with
            | none => none
            | some cell => (cell.pen.dump).map fun pd => pd ++ [cell.ch]
      else some []
    match altDump, pendingPrint with
    | some altDump, some pendingPrint =>
      some (prim ++ tabs ++ pctx ++ [0x1b, 0x5b, 0x6d] ++ altSwitch ++ altDump ++ actx
        -- 6
        ++ (if !isAlt && !alternateCtx.isDefault then [csi, 0x3f, 0x31, 0x30, 0x34, 0x37, 0x6c] else [])
        -- 7
        ++ (if t.originMode then [csi, 0x3f, 0x36, 0x68] else [])
        -- 8
        ++ (if t.topMargin > 0 || t.bottomMargin < r1
            then csi :: renderDec (t.topMargin + 1) ++ [0x3b] ++ renderDec (t.bottomMargin + 1) ++ [0x72] else [])
        -- 9
        ++ t.dumpCursor ++ pendingPrint ++ pend
        ++ (if !t.cursor.visible then [csi, 0x3f, 0x32, 0x35, 0x6c] else [])
        -- 10
        ++ (if t.charsets.1 = .drawing then [0x1b, 0x28, 0x30] else [])
        ++ (if t.charsets.2 = .drawing then [0x1b, 0x29, 0x30] else [])
        ++ (if t.activeCharset = 1 then [0x0e] else [])
        -- 11
        ++ (if t.insertMode then [csi, 0x34, 0x68] else [])
        -- 12
        ++ (if !t.autoWrapMode then [csi, 0x3f, 0x37, 0x6c] else [])
        -- 13
        ++ (if t.newLineMode then [csi, 0x32, 0x30, 0x68] else [])
        -- 14
        ++ (if t.cursorKeysMode = .application then [csi, 0x3f, 0x31, 0x68] else []))
    | _, _ => none
  | _, _, _, _, _ => none

end Terminal

/-! ### Vt -/

structure Vt where
  parser : Parser
  terminal : Terminal
  deriving DecidableEq, Repr, Inhabited

structure Changes where
  lines : List Nat
  scrollback : List Line
  deriving DecidableEq, Repr, Inhabited

namespace Vt

/-- `Vt::builder().size(cols, rows).scrollback_limit(l).build()` -/
def new (cols rows : Nat) (limit : Option Nat) : Option Vt :=
  (Terminal.new cols rows limit).map fun t => { parser := Parser.new, terminal := t }

/-- `Vt::feed` -/
def feed (v : Vt) (c : Nat) : Option Vt :=
  match v.parser.feed c with
  | none => none
  | some (p, none) => some { v with parser := p }
  | some (p, some f) => (v.terminal.execute f).map fun t => { parser := p, terminal := t }

/-- the fold inside `feed_str` -/
def feedAll : Vt → List Nat → Option Vt
  | v, [] => some v
  | v, c :: cs => match v.feed c with | some v' => feedAll v' cs | none => none

/-- the tail of `feed_str` / `resize`: `changes()` then `gc()` -/
def finish (v : Vt) : Vt × Changes :=
  let (t1, ls) := v.terminal.changes
  let (t2, sb) := t1.gc
  ({ v with terminal := t2 }, { lines := ls, scrollback := sb })

/-- `Vt::feed_str` -/
def feedStr (v : Vt) (s : List Nat) : Option (Vt × Changes) := (v.feedAll s).map finish

/-- `Vt::resize` -/
def resize (v : Vt) (cols rows : Nat) : Option (Vt × Changes) :=
  (v.terminal.resize cols rows).map fun t => finish { v with terminal := t }

def size (v : Vt) : Nat × Nat := (v.terminal.cols, v.terminal.rows)
def view (v : Vt) : List Line := v.terminal.view
def lines (v : Vt) : List Line := v.terminal.lines
def line (v : Vt) (n : Nat) : Option Line := v.terminal.buffer.view[n]?
def text (v : Vt) : List (List Nat) := v.terminal.text
def cursor (v : Vt) : Cursor := v.terminal.cursor
def cursorKeyAppMode (v : Vt) : Bool := v.terminal.cursorKeysMode = .application

/-- `Vt::dump` -/
def dump (v : Vt) : Option (List Nat) :=
  match v.terminal.dump, v.parser.dump with
  | some a, some b => some (a ++ b)
  | _, _ => none

end Vt

/-! ### util -/

/-- `TextUnwrapper::push` → (state', emitted) -/
def unwrapPush (acc : List Nat) (l : Line) : List Nat × Option (List Nat) :=
  if l.wrapped then (acc ++ l.text, none) else ([], some (acc ++ trimEnd l.text))

/-- push a sequence of lines, collecting what is emitted -/
def unwrapMany : List Nat → List Line → List Nat × List (List Nat)
  | acc, [] => (acc, [])
  | acc, l :: ls =>
    let (acc', out) := unwrapPush acc l
    let (acc'', outs) := unwrapMany acc' ls
    (acc'', match out with | some o => o :: outs | none => outs)

/-- `TextUnwrapper::flush` -/
def unwrapFlush (acc : List Nat) : Option (List Nat) := if acc.isEmpty then none else some acc

structure TextCollector where
  vt : Vt
  acc : List Nat := []

namespace TextCollector

def feedStr (tc : TextCollector) (s : List Nat) : Option (TextCollector × List (List Nat)) :=
  (tc.vt.feedStr s).map fun (v, ch) =>
    let (acc, out) := unwrapMany tc.acc ch.scrollback
    ({ vt := v, acc := acc }, out)

def resize (tc : TextCollector) (cols rows : Nat) : Option (TextCollector × List (List Nat)) :=
  (tc.vt.resize cols rows).map fun (v, ch) =>
    let (acc, out) := unwrapMany tc.acc ch.scrollback
    ({ vt := v, acc := acc }, out)

def dropTrailingEmpty (ls : List (List Nat)) : List (List Nat) :=
  (ls.reverse.dropWhile List.isEmpty).reverse

def flush (tc : TextCollector) : List (List Nat) :=
  let (acc, out) := unwrapMany tc.acc tc.vt.lines
  dropTrailingEmpty (out ++ (unwrapFlush acc).toList)

end TextCollector

end Avt
