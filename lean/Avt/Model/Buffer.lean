/-
  Avt.Model.Buffer — model of src/pen.rs, src/cell.rs, src/line.rs, src/buffer.rs, src/charset.rs,
  src/color.rs.

  Representation note (DESIGN.md §11): Rust keeps one `lines: Vec<Line>` whose last `rows` entries
  are the view.  The model keeps the same sequence split in two, `sb ++ view`, with
  `view.length = rows` a proven invariant (C02); every operation on `self[row]`/`view_mut()` acts on
  `view`, the three places that move the boundary (`scroll_up` from row 0, `resize`, `gc`) are
  written on the joined list exactly as the Rust code does.
-/
import Avt.Model.Types
import Avt.Model.Prim
import Avt.Gen.Tables

namespace Avt

/-! ### Pen, Color -/

namespace Pen

def default : Pen := {}

def isBold (p : Pen) : Bool := p.intensity == .bold
def isFaint (p : Pen) : Bool := p.intensity == .faint
def isItalic (p : Pen) : Bool := (p.attrs &&& Gen.italicMask) != 0
def isUnderline (p : Pen) : Bool := (p.attrs &&& Gen.underlineMask) != 0
def isStrikethrough (p : Pen) : Bool := (p.attrs &&& Gen.strikethroughMask) != 0
def isBlink (p : Pen) : Bool := (p.attrs &&& Gen.blinkMask) != 0
def isInverse (p : Pen) : Bool := (p.attrs &&& Gen.inverseMask) != 0

/-- `attrs |= m` on `u8` -/
def setBit (p : Pen) (m : Nat) : Pen := { p with attrs := p.attrs ||| m }
/-- `attrs &= !m` on `u8` -/
def unsetBit (p : Pen) (m : Nat) : Pen := { p with attrs := p.attrs &&& (255 - m % 256) }

def isDefault (p : Pen) : Bool :=
  p.fg.isNone && p.bg.isNone && p.intensity == .normal && !p.isItalic && !p.isUnderline
    && !p.isStrikethrough && !p.isBlink && !p.isInverse

end Pen

/-- `Color::sgr_params(base)`; `base + …` is `u8` arithmetic (checked) -/
def Color.sgrParams (c : Color) (base : Nat) : Option (List Nat) :=
  let u8 (n : Nat) : Option Nat := if n < 256 then some n else none
  match c with
  | .indexed n =>
    if n < Gen.colorLt1 then (u8 (base + n)).map renderDec
    else if n < Gen.colorLt2 then
      match u8 (base + Gen.colorBrightAdd) with
      | none => none
      | some b => (u8 (b + n)).map renderDec
    else (u8 (base + Gen.colorIdxAdd)).map fun b => renderDec b ++ [0x3a, 0x35, 0x3a] ++ renderDec n
  | .rgb r g b =>
    (u8 (base + Gen.colorRgbAdd)).map fun bb =>
      renderDec bb ++ [0x3a, 0x32, 0x3a] ++ renderDec r ++ [0x3a] ++ renderDec g ++ [0x3a] ++ renderDec b

/-- `Pen::dump` -/
def Pen.dump (p : Pen) : Option (List Nat) :=
  let s0 : List Nat := [0x1b, 0x5b, 0x30]
  let fgS : Option (List Nat) := match p.fg with
    | some c => (c.sgrParams 30).map fun x => 0x3b :: x
    | none => some []
  let bgS : Option (List Nat) := match p.bg with
    | some c => (c.sgrParams 40).map fun x => 0x3b :: x
    | none => some []
  match fgS, bgS with
  | some f, some b =>
    let i : List Nat := match p.intensity with
      | .normal => []
      | .bold => [0x3b, 0x31]
      | .faint => [0x3b, 0x32]
    some (s0 ++ f ++ b ++ i
      ++ (if p.isItalic then [0x3b, 0x33] else [])
      ++ (if p.isUnderline then [0x3b, 0x34] else [])
      ++ (if p.isBlink then [0x3b, 0x35] else [])
      ++ (if p.isInverse then [0x3b, 0x37] else [])
      ++ (if p.isStrikethrough then [0x3b, 0x39] else [])
      ++ [0x6d])
  | _, _ => none

/-- `Charset::translate` (table and range regenerated from the source) -/
def Charset.translate (cs : Charset) (input : Nat) : Option Nat :=
  match cs with
  | .ascii => some input
  | .drawing =>
    if Gen.gfxLo ≤ input ∧ input ≤ Gen.gfxHi then
      match csub input Gen.gfxBase with
      | some i => Gen.gfxChars[i]?
      | none => none
    else some input

/-! ### Cell, Line -/

structure Cell where
  ch : Nat
  pen : Pen
  deriving DecidableEq, Repr, Inhabited

def Cell.blank (pen : Pen) : Cell := ⟨0x20, pen⟩
def Cell.isDefault (c : Cell) : Bool := c.ch == 0x20 && c.pen.isDefault

structure Line where
  cells : List Cell
  wrapped : Bool
  deriving DecidableEq, Repr, Inhabited

namespace Line

def blank (cols : Nat) (pen : Pen) : Line := ⟨List.replicate cols (Cell.blank pen), false⟩

@[inline] def len (l : Line) : Nat := l.cells.length

/-- `Line::clear(range, pen)` -/
def clear (l : Line) (a b : Nat) (pen : Pen) : Option Line :=
  (fillRange l.cells a b (Cell.blank pen)).map fun cs => { l with cells := cs }

/-- `Line::print(col, cell)` -/
def print (l : Line) (col : Nat) (cell : Cell) : Option Line :=
  (setAt l.cells col cell).map fun cs => { l with cells := cs }

/-- `Line::insert(col, n, cell)`: `cells[col..].rotate_right(n); cells[col..col+n].fill(cell)` -/
def insert (l : Line) (col n : Nat) (cell : Cell) : Option Line :=
  match rotRRange l.cells col l.cells.length n with
  | none => none
  | some cs => (fillRange cs col (col + n) cell).map fun cs' => { l with cells := cs' }

/-- `Line::delete(col, n, pen)` -/
def delete (l : Line) (col n : Nat) (pen : Pen) : Option Line :=
  match rotLRange l.cells col l.cells.length n with
  | none => none
  | some cs =>
    match csub cs.length n with
    | none => none
    | some start => (fillRange cs start cs.length (Cell.blank pen)).map fun cs' => { l with cells := cs' }

/-- `trailers()`: number of trailing default cells -/
def trailers (l : Line) : Nat := (l.cells.reverse.takeWhile Cell.isDefault).length

/-- `trim()` -/
def trim (l : Line) : Line := { l with cells := l.cells.take (l.cells.length - l.trailers) }

/-- `expand(len, pen)`: `len - self.len()` is a checked subtraction -/
def expand (l : Line) (len : Nat) (pen : Pen) : Option Line :=
  (csub len l.len).map fun k => { l with cells := l.cells ++ List.replicate k (Cell.blank pen) }

/-- `Line::extend(other, len)` → (self', (emit?, rest)) -/
def extend (l : Line) (other : Line) (len : Nat) : Option (Line × Bool × Option Line) :=
  match csub len l.len with
  | none => none
  | some needed =>
    if needed = 0 then some (l, true, some other)
    else if !l.wrapped then (l.expand len Pen.default).map fun l' => (l', true, some other)
    else
      let other := if !other.wrapped then other.trim else other
      if needed < other.len then
        some ({ l with cells := l.cells ++ other.cells.take needed }, true,
              some { cells := other.cells.drop needed, wrapped := other.wrapped })
      else
        let l1 : Line := { l with cells := l.cells ++ other.cells }
        if !other.wrapped then
          let l2 : Line := { l1 with wrapped := false }
          if l2.len < len then (l2.expand len Pen.default).map fun l3 => (l3, true, none)
          else some (l2, true, none)
        else some (l1, false, none)

/-- `Line::contract(len)` → (self', rest) -/
def contract (l : Line) (len : Nat) : Line × Option Line :=
  let cells := if !l.wrapped then l.cells.take (max len (l.len - l.trailers)) else l.cells
  if cells.length > len then
    let rest : Line := { cells := cells.drop len, wrapped := l.wrapped }
    let rest := if !l.wrapped then rest.trim else rest
    if rest.cells.isEmpty then ({ cells := cells.take len, wrapped := l.wrapped }, none)
    else ({ cells := cells.take len, wrapped := true }, some rest)
  else ({ cells := cells, wrapped := l.wrapped }, none)

def isBlank (l : Line) : Bool := l.cells.all Cell.isDefault

def text (l : Line) : List Nat := l.cells.map Cell.ch

/-- `Chunks`: split where `pred last next` holds -/
def chunksGo (pred : Cell → Cell → Bool) : List Cell → List Cell → List (List Cell)
  | [], cur => if cur.isEmpty then [] else [cur.reverse]
  | c :: cs, [] => chunksGo pred cs [c]
  | c :: cs, last :: cur =>
    if pred last c then (last :: cur).reverse :: chunksGo pred cs [c]
    else chunksGo pred cs (c :: last :: cur)

def chunks (l : Line) (pred : Cell → Cell → Bool) : List (List Cell) := chunksGo pred l.cells []

end Line

/-! ### Buffer -/

structure Limit where
  soft : Nat
  hard : Nat
  deriving DecidableEq, Repr, Inhabited

structure Buffer where
  sb : List Line          -- lines above the view, oldest first
  view : List Line        -- the last `rows` lines
  cols : Nat
  rows : Nat
  limit : Option Limit
  trimNeeded : Bool
  deriving DecidableEq, Repr, Inhabited

/-- Unicode `White_Space` (what `str::trim_end` strips) -/
def isWhitespace (c : Nat) : Bool :=
  (9 ≤ c && c ≤ 13) || c == 0x20 || c == 0x85 || c == 0xA0 || c == 0x1680
    || (0x2000 ≤ c && c ≤ 0x200A) || c == 0x2028 || c == 0x2029 || c == 0x202F || c == 0x205F
    || c == 0x3000

def trimEnd (s : List Nat) : List Nat := (s.reverse.dropWhile isWhitespace).reverse

namespace Buffer

def mkLimit (l : Nat) : Limit := { soft := l, hard := l + l / Gen.hardDiv }

/-- `Buffer::new` -/
def new (cols rows : Nat) (limit : Option Nat) (pen : Option Pen) : Buffer :=
  let pen := pen.getD Pen.default
  { sb := [], view := List.replicate rows (Line.blank cols pen), cols := cols, rows := rows,
    limit := limit.map mkLimit, trimNeeded := false }

def lines (b : Buffer) : List Line := b.sb ++ b.view

/-- `Buffer::text` (over any list of lines) -/
def textGo : List Line → List Nat → List (List Nat)
  | [], cur => if cur.isEmpty then [] else [trimEnd cur]
  | l :: ls, cur =>
    let cur := cur ++ l.text
    if !l.wrapped then trimEnd cur :: textGo ls [] else textGo ls cur

def text (b : Buffer) : List (List Nat) := textGo b.lines []

/-- `self[row] = f(self[row])` -/
@[inline] def updRow (b : Buffer) (row : Nat) (f : Line → Option Line) : Option Buffer :=
  (modAtM b.view row f).map fun v => { b with view := v }

/-- `Buffer::print` -/
def print (b : Buffer) (col row : Nat) (cell : Cell) : Option Buffer :=
  b.updRow row fun l => l.print col cell

/-- `Buffer::wrap` -/
def wrap (b : Buffer) (row : Nat) : Option Buffer :=
  b.updRow row fun l => some { l with wrapped := true }

def unwrapRow (b : Buffer) (row : Nat) : Option Buffer :=
  b.updRow row fun l => some { l with wrapped := false }

/-- `Buffer::insert` -/
def insert (b : Buffer) (col row n : Nat) (cell : Cell) : Option Buffer :=
  match csub b.cols col with
  | none => none
  | some room => b.updRow row fun l => l.insert col (min n room) cell

/-- `Buffer::delete` -/
def delete (b : Buffer) (col row n : Nat) (pen : Pen) : Option Buffer :=
  match csub b.cols col with
  | none => none
  | some room => b.updRow row fun l => (l.delete col (min n room) pen).map fun l' => { l' with wrapped := false }

/-- `Buffer::clear(range, pen)`: `view_mut()[range].fill(blank)` -/
def clear (b : Buffer) (a c : Nat) (pen : Pen) : Option Buffer :=
  (fillRange b.view a c (Line.blank b.cols pen)).map fun v => { b with view := v }

inductive EraseMode where
  | nextChars (n : Nat) | fromCursorToEndOfView | fromStartOfViewToCursor | wholeView
  | fromCursorToEndOfLine | fromStartOfLineToCursor | wholeLine
  deriving DecidableEq, Repr

/-- `Buffer::erase` -/
def erase (b : Buffer) (col row : Nat) (mode : EraseMode) (pen : Pen) : Option Buffer :=
  match mode with
  | .nextChars n =>
    match csub b.cols col with
    | none => none
    | some room =>
      let n := min n room
      let e := col + n
      let clearWrap := e == b.cols
      b.updRow row fun l =>
        (l.clear col e pen).map fun l' => if clearWrap then { l' with wrapped := false } else l'
  | .fromCursorToEndOfView =>
    match b.updRow row fun l => ({ l with wrapped := false } : Line).clear col b.cols pen with
    | none => none
    | some b' => b'.clear (row + 1) b'.rows pen
  | .fromStartOfViewToCursor =>
    match b.updRow row fun l => l.clear 0 (min (col + 1) b.cols) pen with
    | none => none
    | some b' => b'.clear 0 row pen
  | .wholeView => b.clear 0 b.rows pen
  | .fromCursorToEndOfLine =>
    b.updRow row fun l => (l.clear col b.cols pen).map fun l' => { l' with wrapped := false }
  | .fromStartOfLineToCursor => b.updRow row fun l => l.clear 0 (min (col + 1) b.cols) pen
  | .wholeLine =>
    b.updRow row fun l => (l.clear 0 b.cols pen).map fun l' => { l' with wrapped := false }

/-- `Buffer::scroll_up(range s..e, n, pen)` -/
def scrollUp (b : Buffer) (s e n : Nat) (pen : Pen) : Option Buffer :=
  match csub e s, csub e 1, csub b.rows 1 with
  | some h, some e1, some r1 =>
    let n := min n h
    match (if e1 < r1 then b.unwrapRow e1 else some b) with
    | none => none
    | some b1 =>
      if s = 0 then
        if e = b1.rows then
          -- `self.extend(n, cols, pen)`
          let all := b1.view ++ List.replicate n (Line.blank b1.cols pen)
          some { b1 with sb := b1.sb ++ all.take n, view := all.drop n, trimNeeded := true }
        else
          -- `self.lines.insert(len - rows + e, blank)` n times (`Vec::insert` needs index ≤ len)
          if e ≤ b1.rows ∧ e ≤ b1.view.length then
            let all := b1.view.take e ++ List.replicate n (Line.blank b1.cols pen) ++ b1.view.drop e
            some { b1 with sb := b1.sb ++ all.take n, view := all.drop n, trimNeeded := true }
          else none
      else
        match csub s 1 with
        | none => none
        | some s1 =>
          match b1.unwrapRow s1 with
          | none => none
          | some b2 =>
            match rotLRange b2.view s e n with
            | none => none
            | some v =>
              match ({ b2 with view := v } : Buffer).clear (e - n) e pen with
              | none => none
              | some b3 => some { b3 with trimNeeded := true }
  | _, _, _ => none

/-- `Buffer::scroll_down(range s..e, n, pen)` -/
def scrollDown (b : Buffer) (s e n : Nat) (pen : Pen) : Option Buffer :=
  match csub e s with
  | none => none
  | some h =>
    let n := min n h
    match rotRRange b.view s e n with
    | none => none
    | some v =>
      match ({ b with view := v } : Buffer).clear s (s + n) pen with
      | none => none
      | some b1 =>
        match (if s > 0 then b1.unwrapRow (s - 1) else some b1) with
        | none => none
        | some b2 =>
          match csub e 1 with
          | none => none
          | some e1 => b2.unwrapRow e1

/-! #### reflow -/

/-- `Reflow::next` collected; `rest` is the iterator's `rest` field, `iter` the remaining input.
    `cols = 0` (never requested: the API requires `cols ≥ 1`) is rejected instead of looping. -/
def reflowGo (cols : Nat) (fuel : Nat) (rest : Option Line) (iter : List Line) : Option (List Line) :=
  match fuel with
  | 0 => none
  | fuel + 1 =>
    let cur : Option (Line × List Line) :=
      match rest with
      | some l => some (l, iter)
      | none => match iter with
        | [] => none
        | l :: ls => some (l, ls)
    match cur with
    | none => some []
    | some (line, iter) =>
      if cols < line.len then
        let (line', rest') := line.contract cols
        (reflowGo cols fuel rest' iter).map fun out => line' :: out
      else if cols = line.len then
        (reflowGo cols fuel none iter).map fun out => line :: out
      else
        match iter with
        | next :: iter' =>
          match line.extend next cols with
          | none => none
          | some (line', true, some r) => (reflowGo cols fuel (some r) iter').map fun out => line' :: out
          | some (line', true, none) => (reflowGo cols fuel none iter').map fun out => line' :: out
          | some (line', false, _) => reflowGo cols fuel (some line') iter'
        | [] =>
          match line.expand cols Pen.default with
          | none => none
          | some l' => (reflowGo cols fuel none []).map fun out => { l' with wrapped := false } :: out

/-- enough fuel for every input: each iteration either consumes an input line or emits a line that
    removes `cols ≥ 1` cells from the pending rest -/
def reflowFuel (lines : List Line) : Nat := 2 * lines.length + (lines.map Line.len).sum + 2

/-- `reflow(iter, cols)` including the final `assert!` -/
def reflow (lines : List Line) (cols : Nat) : Option (List Line) :=
  if cols = 0 then none else
  match reflowGo cols (reflowFuel lines) none lines with
  | none => none
  | some out => if out.all (fun l => l.len == cols) then some out else none

/-! #### resize -/

/-- the `for line in self.lines.iter().take(abs_row)` loop of `logical_position` -/
def logLoop (cols : Nat) : List Line → Nat → Nat → Nat × Nat
  | [], off, row => (off, row)
  | l :: ls, off, row => if l.wrapped then logLoop cols ls (off + cols) row else logLoop cols ls 0 (row + 1)

/-- `Buffer::logical_position` over `lines` -/
def logicalPosition (lines : List Line) (pos : Nat × Nat) (cols rows : Nat) : Option (Nat × Nat) :=
  match csub lines.length rows with
  | none => none
  | some off =>
    let absRow := pos.2 + off
    let lastAvail := min absRow lines.length
    let logRow0 := absRow - lastAvail
    let (colOff, logRow) := logLoop cols (lines.take absRow) 0 logRow0
    some (pos.1 + colOff, logRow)

/-- first `while` loop of `relative_position`, run over `lines.take last_row` -/
def relLoop1 (target : Nat) : List Line → Nat → Nat → Nat
  | [], _, rr => rr
  | l :: ls, r, rr => if r < target then relLoop1 target ls (if !l.wrapped then r + 1 else r) (rr + 1) else rr

/-- second `while` loop, run over `lines.drop rel_row`; `none` = `self.lines[rel_row]` out of range -/
def relLoop2 (cols : Nat) : List Line → Nat → Nat → Option (Nat × Nat)
  | [], c, r => if c ≥ cols then none else some (c, r)
  | l :: ls, c, r => if c ≥ cols && l.wrapped then relLoop2 cols ls (c - cols) (r + 1) else some (c, r)

/-- `Buffer::relative_position` over `lines` -/
def relativePosition (lines : List Line) (pos : Nat × Nat) (cols rows : Nat) : Option (Nat × Int) :=
  match csub lines.length 1, csub cols 1, csub lines.length rows with
  | some lastRow, some c1, some off =>
    let rr := relLoop1 pos.2 (lines.take lastRow) 0 0
    match relLoop2 cols (lines.drop rr) pos.1 rr with
    | none => none
    | some (relCol, relRow) => some (min relCol c1, (relRow : Int) - (off : Int))
  | _, _, _ => none

def setLastUnwrapped : List Line → Option (List Line)
  | [] => none
  | [l] => some [{ l with wrapped := false }]
  | l :: ls => (setLastUnwrapped ls).map fun t => l :: t

/-- `Buffer::resize` -/
def resize (b : Buffer) (newCols newRows : Nat) (cursor : Nat × Nat) : Option (Buffer × (Nat × Nat)) :=
  let lines := b.lines
  let oldCols := b.cols
  let oldRows := b.rows
  match logicalPosition lines cursor oldCols oldRows with
  | none => none
  | some logPos =>
    let step1 : Option (List Line × (Nat × Nat) × Nat) :=
      if newCols ≠ oldCols then
        match reflow lines newCols with
        | none => none
        | some ls =>
          let ls := if ls.length < oldRows
            then ls ++ List.replicate (oldRows - ls.length) (Line.blank newCols Pen.default) else ls
          match relativePosition ls logPos newCols oldRows with
          | none => none
          | some (rc, rr) =>
            if rr ≥ 0 then some (ls, (rc, rr.toNat), oldRows)
            else some (ls, (rc, 0), oldRows + (-rr).toNat)
      else some (lines, cursor, oldRows)
    match step1 with
    | none => none
    | some (lines, cursor, oldRows) =>
      let lineCount := lines.length
      let step2 : Option (List Line × (Nat × Nat)) :=
        if newRows < oldRows then
          let heightDelta := oldRows - newRows
          match csub oldRows 1 with
          | none => none
          | some o1 =>
            match csub o1 cursor.2 with
            | none => none
            | some inv =>
              let excess := min heightDelta inv
              let lines' : Option (List Line) :=
                if excess > 0 then
                  match csub lineCount excess with
                  | none => none
                  | some k => setLastUnwrapped (lines.take k)
                else some lines
              match lines', csub cursor.2 (heightDelta - excess) with
              | some ls, some row => some (ls, (cursor.1, row))
              | _, _ => none
        else if newRows > oldRows then
          let heightDelta := newRows - oldRows
          let sbSize := lineCount - min oldRows lineCount
          let shift := min sbSize heightDelta
          let heightDelta := heightDelta - shift
          let cursor := if cursor.2 < oldRows then (cursor.1, cursor.2 + shift) else cursor
          let lines := if heightDelta > 0
            then lines ++ List.replicate heightDelta (Line.blank newCols Pen.default) else lines
          some (lines, cursor)
        else some (lines, cursor)
      match step2 with
      | none => none
      | some (lines, cursor) =>
        -- re-split at the new view boundary (the Rust code would panic at the next `view()`)
        match csub lines.length newRows with
        | none => none
        | some k =>
          some ({ b with sb := lines.take k, view := lines.drop k, cols := newCols, rows := newRows,
                         trimNeeded := true }, cursor)

/-- `Buffer::gc` → (buffer', drained lines) -/
def gc (b : Buffer) : Buffer × List Line :=
  if b.trimNeeded then
    let b := { b with trimNeeded := false }
    match b.limit with
    | some lim =>
      let sbSize := b.sb.length
      if sbSize > lim.hard then
        let excess := sbSize - lim.soft
        ({ b with sb := b.sb.drop excess }, b.sb.take excess)
      else (b, [])
    | none => (b, [])
  else (b, [])

/-! #### dump -/

/-- `rep_encode_cell_text` -/
def repFlush (prev count : Nat) : List Nat :=
  if count > 5 then prev :: [0x1b, 0x5b] ++ renderDec (count - 1) ++ [0x62]
  else List.replicate count prev

def repGo : List Nat → Nat → Nat → List Nat
  | [], prev, count => repFlush prev count
  | c :: cs, prev, count =>
    if c = prev then repGo cs prev (count + 1)
    else repFlush prev count ++ repGo cs c 1

def repEncode (cells : List Cell) : Option (List Nat) :=
  match cells with
  | [] => none
  | c :: cs => some (repGo (cs.map Cell.ch) c.ch 1)

def dumpCutoff : List Line → Nat → Bool → Nat → Nat
  | [], _, _, cutoff => cutoff
  | l :: ls, i, wrapped, cutoff =>
    let cutoff := if wrapped || l.wrapped || !l.isBlank then i + 1 else cutoff
    dumpCutoff ls (i + 1) l.wrapped cutoff

def dumpChunks : List (List Cell) → Pen → Option (List Nat × Pen)
  | [], pen => some ([], pen)
  | cells :: rest, pen =>
    match cells with
    | [] => none
    | c :: _ =>
      let pre : Option (List Nat × Pen) :=
        if c.pen ≠ pen then (c.pen.dump).map fun d => (d, c.pen) else some ([], pen)
      match pre, repEncode cells with
      | some (d, pen'), some t =>
        match dumpChunks rest pen' with
        | some (more, pen'') => some (d ++ t ++ more, pen'')
        | none => none
      | _, _ => none

def dumpLines (last : Nat) : List Line → Nat → Pen → Option (List Nat)
  | [], _, _ => some []
  | l :: ls, i, pen =>
    match dumpChunks (l.chunks fun c1 c2 => c1.pen ≠ c2.pen) pen with
    | none => none
    | some (s, pen') =>
      let nl : List Nat := if i < last && !l.wrapped then [0x0d, 0x0a] else []
      (dumpLines last ls (i + 1) pen').map fun more => s ++ nl ++ more

/-- `Buffer::dump` -/
def dump (b : Buffer) : Option (List Nat) :=
  let cutoff := dumpCutoff b.view 0 false 0
  match csub b.rows 1 with
  | none => none
  | some last => dumpLines last (b.view.take cutoff) 0 Pen.default

end Buffer
end Avt
