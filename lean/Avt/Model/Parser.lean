/-
  Avt.Model.Parser — model of src/parser.rs.

  `Parser.feed`, `execute`, `escDispatch`, `csiDispatch`, `ansiMode`, `decMode` *interpret* the
  tables that the translator regenerates from the Rust source on every run (`Avt.Gen`).
  `Param`, `Parser.param/clear/collect`, `SgrOps::next` and `Parser::dump` are hand-modelled.
-/
import Avt.Model.Types
import Avt.Model.Prim
import Avt.Gen.Tables

namespace Avt

structure Param where
  curPart : Nat := 0
  parts : List Nat := [0, 0, 0, 0, 0, 0]
  deriving DecidableEq, Repr, Inhabited

structure Parser where
  state : PState := .Ground
  params : List Param := List.replicate Gen.paramsLen {}
  curParam : Nat := 0
  intermediate : Option Nat := none
  deriving DecidableEq, Repr, Inhabited

namespace Param

/-- `self.parts[..=self.cur_part].fill(0); self.cur_part = 0` -/
def clear (p : Param) : Option Param :=
  match fillRange p.parts 0 (p.curPart + 1) 0 with
  | some parts => some { curPart := 0, parts := parts }
  | none => none

/-- `self.cur_part = (self.cur_part + 1).min(5)` -/
def addPart (p : Param) : Param := { p with curPart := min (p.curPart + 1) (Gen.maxParamLen - 1) }

/-- `*number = (10 * (*number as u32) + (input as u32)) as u16` -/
def addDigit (p : Param) (d : Nat) : Option Param :=
  match p.parts[p.curPart]? with
  | none => none
  | some n =>
    let v := 10 * n + d
    if v < 4294967296 then some { p with parts := p.parts.set p.curPart (v % 65536) } else none

/-- `as_u16`: `self.parts[0]` -/
def asU16 (p : Param) : Option Nat := p.parts[0]?

/-- `parts()`: `&self.parts[..=self.cur_part]` -/
def partsSlice (p : Param) : Option (List Nat) :=
  if p.curPart + 1 ≤ p.parts.length then some (p.parts.take (p.curPart + 1)) else none

end Param

namespace Parser

def new : Parser := {}

/-- `Parser::clear` -/
def clear (p : Parser) : Option Parser :=
  if p.curParam + 1 ≤ p.params.length then
    match (p.params.take (p.curParam + 1)).mapM Param.clear with
    | some cleared =>
      some { p with params := cleared ++ p.params.drop (p.curParam + 1), curParam := 0, intermediate := none }
    | none => none
  else none

def collect (p : Parser) (input : Nat) : Parser := { p with intermediate := some input }

/-- `Parser::param` -/
def param (p : Parser) (input : Nat) : Option Parser :=
  if input = 0x3b then
    let cp := p.curParam + 1
    some { p with curParam := if cp = Gen.paramsLen then Gen.paramsLen - 1 else cp }
  else if input = 0x3a then
    match modAt p.params p.curParam Param.addPart with
    | some ps => some { p with params := ps }
    | none => none
  else
    match csub (input % 256) 0x30 with
    | none => none
    | some d =>
      match modAtM p.params p.curParam (fun q => q.addDigit d) with
      | some ps => some { p with params := ps }
      | none => none

/-- `Parser::execute` (table regenerated from the source) -/
def execute (input : Nat) : Option Function := Gen.execTable.lookup input

def ansiMode (q : Param) : Option (Option AnsiMode) := q.asU16.map fun n => Gen.ansiModes.lookup n
def decMode (q : Param) : Option (Option DecMode) := q.asU16.map fun n => Gen.decModes.lookup n

/-! #### SgrOps::next (hand-modelled) -/

def u8 (n : Nat) : Nat := n % 256

/-- One iteration of the `while let Some(param) = self.ps.first()` loop on `p :: rest`:
    the op returned (if any) and how many *further* elements of `rest` are consumed. -/
def sgrStep (p : Param) (rest : List Param) : Option (Option SgrOp × Nat) :=
  match p.partsSlice with
  | none => none
  | some parts =>
    let colour (mk : Color → SgrOp) : Option (Option SgrOp × Nat) :=
      match rest with
      | [] => some (none, 0)
      | q :: _ =>
        match q.partsSlice with
        | none => none
        | some [2] =>
          match rest[3]?, rest[1]?, rest[2]? with
          | some b, some r, some g =>
            match r.asU16, g.asU16, b.asU16 with
            | some r, some g, some b => some (some (mk (.rgb (u8 r) (u8 g) (u8 b))), 4)
            | _, _, _ => none
          | none, _, _ => some (none, 1)
          | _, _, _ => none
        | some [5] =>
          match rest[1]? with
          | some i =>
            match i.asU16 with
            | some i => some (some (mk (.indexed (u8 i))), 2)
            | none => none
          | none => some (none, 1)
        | some _ => some (none, 0)
    match parts with
    | [0] => some (some .reset, 0)
    | [1] => some (some .setBold, 0)
    | [2] => some (some .setFaint, 0)
    | [3] => some (some .setItalic, 0)
    | [4] => some (some .setUnderline, 0)
    | [5] => some (some .setBlink, 0)
    | [7] => some (some .setInverse, 0)
    | [9] => some (some .setStrikethrough, 0)
    | [21] => some (some .resetIntensity, 0)
    | [22] => some (some .resetIntensity, 0)
    | [23] => some (some .resetItalic, 0)
    | [24] => some (some .resetUnderline, 0)
    | [25] => some (some .resetBlink, 0)
    | [27] => some (some .resetInverse, 0)
    | [29] => some (some .resetStrikethrough, 0)
    | [38, 2, r, g, b] => some (some (.setFg (.rgb (u8 r) (u8 g) (u8 b))), 0)
    | [38, 2, _, r, g, b] => some (some (.setFg (.rgb (u8 r) (u8 g) (u8 b))), 0)
    | [38, 5, i] => some (some (.setFg (.indexed (u8 i))), 0)
    | [38] => colour .setFg
    | [39] => some (some .resetFg, 0)
    | [48, 2, r, g, b] => some (some (.setBg (.rgb (u8 r) (u8 g) (u8 b))), 0)
    | [48, 2, _, r, g, b] => some (some (.setBg (.rgb (u8 r) (u8 g) (u8 b))), 0)
    | [48, 5, i] => some (some (.setBg (.indexed (u8 i))), 0)
    | [48] => colour .setBg
    | [49] => some (some .resetBg, 0)
    | [n] =>
      if 30 ≤ n ∧ n ≤ 37 then some (some (.setFg (.indexed (u8 (n - 30)))), 0)
      else if 40 ≤ n ∧ n ≤ 47 then some (some (.setBg (.indexed (u8 (n - 40)))), 0)
      else if 90 ≤ n ∧ n ≤ 97 then some (some (.setFg (.indexed (u8 (n - 90 + 8)))), 0)
      else if 100 ≤ n ∧ n ≤ 107 then some (some (.setBg (.indexed (u8 (n - 100 + 8)))), 0)
      else some (none, 0)
    | _ => some (none, 0)

/-- `SgrOps { ps }.collect()`; `skip` elements are dropped first. -/
def sgrGo : Nat → List Param → Option (List SgrOp)
  | _, [] => some []
  | skip + 1, _ :: rest => sgrGo skip rest
  | 0, p :: rest =>
    match sgrStep p rest with
    | none => none
    | some (op, skip) =>
      match sgrGo skip rest with
      | none => none
      | some ops => some (match op with | some o => o :: ops | none => ops)

def sgrOps (ps : List Param) : Option (List SgrOp) := sgrGo 0 ps

/-- `ps[..=self.cur_param]` -/
def activeParams (p : Parser) : Option (List Param) :=
  if p.curParam + 1 ≤ p.params.length then some (p.params.take (p.curParam + 1)) else none

def paramU16 (p : Parser) (i : Nat) : Option Nat :=
  match p.params[i]? with
  | some q => q.asU16
  | none => none

/-- collect `filter_map(f)` over the active params -/
def collectModes {α} (p : Parser) (f : Param → Option (Option α)) : Option (List α) :=
  match p.activeParams with
  | none => none
  | some ps =>
    match ps.mapM f with
    | none => none
    | some ms => some (ms.filterMap id)

def EscArm.matches (a : EscArm) (interm : Option Nat) (input : Nat) : Bool :=
  a.interm == interm && a.lo ≤ input && input ≤ a.hi

/-- `Parser::esc_dispatch` (table regenerated from the source) -/
def escDispatch (p : Parser) (input : Nat) : Option (Parser × Option Function) :=
  match Gen.escArms.find? (fun a => EscArm.matches a p.intermediate input) with
  | none => some (p, none)
  | some a =>
    match a.rhs with
    | .execPlus k =>
      let c := input % 256 + k
      if c < 256 then some (p, execute c) else none
    | .fn f => some (p, some f)
    | .fnGround f => some ({ p with state := .Ground }, some f)

def CsiArm.matches (a : CsiArm) (interm : Option Nat) (input : Nat) : Bool :=
  a.interm == interm && a.final == input

/-- `Parser::csi_dispatch` (table regenerated from the source) -/
def csiDispatch (p : Parser) (input : Nat) : Option (Option Function) :=
  match Gen.csiArms.find? (fun a => CsiArm.matches a p.intermediate input) with
  | none => some none
  | some a =>
    match a.rhs with
    | .f1 g => (p.paramU16 0).map fun n => some (g n)
    | .f2 g =>
      match p.paramU16 0, p.paramU16 1 with
      | some a, some b => some (some (g a b))
      | _, _ => none
    | .sel cases => (p.paramU16 0).map fun n => cases.lookup n
    | .const f => some (some f)
    | .sm => (p.collectModes ansiMode).map fun ms => some (.sm ms)
    | .rm => (p.collectModes ansiMode).map fun ms => some (.rm ms)
    | .decset => (p.collectModes decMode).map fun ms => some (.decset ms)
    | .decrst => (p.collectModes decMode).map fun ms => some (.decrst ms)
    | .sgr =>
      match p.activeParams with
      | none => none
      | some ps => (sgrOps ps).map fun ops => some (.sgr ops)
    | .xtwinops k =>
      match p.paramU16 0, p.paramU16 1, p.paramU16 2 with
      | some a, some rows, some cols => some (if a = k then some (.xtwinops cols rows) else none)
      | _, _, _ => none

def Pat.matches (pt : Pat) (st : PState) (c : Nat) : Bool :=
  (match pt.st with | none => true | some s => s == st) && pt.lo ≤ c && c ≤ pt.hi

def Arm.matches (a : Arm) (st : PState) (c : Nat) : Bool := a.pats.any fun pt => Pat.matches pt st c

def findArm (arms : List Arm) (st : PState) (c : Nat) : Option Arm := arms.find? fun a => Arm.matches a st c

/-- run the statements of an arm body -/
def runActs : List Act → Parser → Nat → Option (Parser × Option Function)
  | [], p, _ => some (p, none)
  | a :: as, p, input =>
    match a with
    | .setState s => runActs as { p with state := s } input
    | .clear => match p.clear with | some p' => runActs as p' input | none => none
    | .collect => runActs as (p.collect input) input
    | .param => match p.param input with | some p' => runActs as p' input | none => none
    | .put => runActs as p input
    | .oscPut => runActs as p input
    | .retExecute => some (p, execute input)
    | .retCsiDispatch => (p.csiDispatch input).map fun f => (p, f)
    | .retEscDispatch => p.escDispatch input
    | .retPrint => some (p, some (.print input))

def premap (input : Nat) : Nat := if input ≥ Gen.premapFrom then Gen.premapTo else input

/-- `Parser::feed` -/
def feed (p : Parser) (input : Nat) : Option (Parser × Option Function) :=
  match findArm Gen.feedArms p.state (premap input) with
  | none => some (p, none)
  | some arm => runActs arm.acts p input

/-! #### Parser::dump -/

def Param.render (q : Param) : Option (List Nat) :=
  match q.partsSlice with
  | none => none
  | some [] => none
  | some (first :: rest) => some (renderDec first ++ (rest.map fun x => 0x3a :: renderDec x).flatten)

def renderParams (p : Parser) : Option (List Nat) :=
  match p.activeParams with
  | none => none
  | some ps =>
    match ps.mapM Param.render with
    | none => none
    | some rs => some (List.intercalate [0x3b] rs)

def dump (p : Parser) : Option (List Nat) :=
  let im := p.intermediate.toList
  match p.state with
  | .Ground => some []
  | .Escape => some [0x1b]
  | .EscapeIntermediate => some (0x1b :: im)
  | .CsiEntry => some [0x9b]
  | .CsiParam => (renderParams p).map fun ps => 0x9b :: im ++ ps
  | .CsiIntermediate => some (0x9b :: im)
  | .CsiIgnore => some [0x9b, 0x3a]
  | .DcsEntry => some [0x90]
  | .DcsIntermediate => some (0x90 :: im)
  | .DcsParam => (renderParams p).map fun ps => 0x90 :: im ++ ps
  | .DcsPassthrough => some (0x90 :: im ++ [0x40])
  | .DcsIgnore => some [0x90, 0x3a]
  | .OscString => some [0x9d]
  | .SosPmApcString => some [0x98]

end Parser
end Avt
