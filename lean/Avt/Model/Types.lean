/-
  Avt.Model.Types — data types of the model (import-free).

  Characters are `Nat` code points; strings are `List Nat`.
-/
namespace Avt

/-- Unicode scalar values (what a Rust `char` can hold). -/
def isScalar (c : Nat) : Bool := c < 0xD800 || (0xE000 ≤ c && c < 0x110000)

inductive PState where
  | Ground | Escape | EscapeIntermediate | CsiEntry | CsiParam | CsiIntermediate | CsiIgnore
  | DcsEntry | DcsParam | DcsIntermediate | DcsPassthrough | DcsIgnore | OscString | SosPmApcString
  deriving DecidableEq, Repr, Inhabited

def PState.all : List PState :=
  [.Ground, .Escape, .EscapeIntermediate, .CsiEntry, .CsiParam, .CsiIntermediate, .CsiIgnore,
   .DcsEntry, .DcsParam, .DcsIntermediate, .DcsPassthrough, .DcsIgnore, .OscString, .SosPmApcString]

inductive Charset where
  | ascii | drawing
  deriving DecidableEq, Repr, Inhabited

inductive Color where
  | indexed (n : Nat)
  | rgb (r g b : Nat)
  deriving DecidableEq, Repr, Inhabited

inductive Intensity where
  | normal | bold | faint
  deriving DecidableEq, Repr, Inhabited

structure Pen where
  fg : Option Color := none
  bg : Option Color := none
  intensity : Intensity := .normal
  attrs : Nat := 0
  deriving DecidableEq, Repr, Inhabited

inductive AnsiMode where
  | insert | newLine
  deriving DecidableEq, Repr, Inhabited

inductive DecMode where
  | cursorKeys | origin | autoWrap | textCursorEnable | altScreenBuffer | saveCursor
  | saveCursorAltScreenBuffer
  deriving DecidableEq, Repr, Inhabited

inductive CtcOp where
  | set | clearCurrentColumn | clearAll
  deriving DecidableEq, Repr, Inhabited

inductive EdScope where
  | below | above | all | savedLines
  deriving DecidableEq, Repr, Inhabited

inductive ElScope where
  | toRight | toLeft | all
  deriving DecidableEq, Repr, Inhabited

inductive TbcScope where
  | currentColumn | all
  deriving DecidableEq, Repr, Inhabited

inductive SgrOp where
  | reset | setBold | setFaint | setItalic | setUnderline | setBlink | setInverse
  | setStrikethrough | resetIntensity | resetItalic | resetUnderline | resetBlink | resetInverse
  | resetStrikethrough | setFg (c : Color) | resetFg | setBg (c : Color) | resetBg
  deriving DecidableEq, Repr, Inhabited

/-- `parser::Function`.  Numeric arguments are `u16` values (kept `< 65536` by `Param.addDigit`). -/
inductive Function where
  | bs | cbt (n : Nat) | cha (n : Nat) | cht (n : Nat) | cnl (n : Nat) | cpl (n : Nat) | cr
  | ctc (op : CtcOp) | cub (n : Nat) | cud (n : Nat) | cuf (n : Nat) | cup (row col : Nat)
  | cuu (n : Nat) | dch (n : Nat) | decaln | decrc | decrst (modes : List DecMode) | decsc
  | decset (modes : List DecMode) | decstbm (top bottom : Nat) | decstr | dl (n : Nat)
  | ech (n : Nat) | ed (s : EdScope) | el (s : ElScope) | g1d4 (c : Charset) | gzd4 (c : Charset)
  | ht | hts | ich (n : Nat) | il (n : Nat) | lf | nel | print (ch : Nat) | rep (n : Nat) | ri
  | ris | rm (modes : List AnsiMode) | scorc | scosc | sd (n : Nat) | sgr (ops : List SgrOp) | si
  | sm (modes : List AnsiMode) | so | su (n : Nat) | tbc (s : TbcScope) | vpa (n : Nat)
  | vpr (n : Nat) | xtwinops (cols rows : Nat)
  deriving DecidableEq, Repr, Inhabited

/-! ### Shapes of the tables the translator regenerates from `src/parser.rs` -/

/-- One statement of an arm body of `Parser::feed`. -/
inductive Act where
  | setState (s : PState)
  | clear | collect | param | put | oscPut
  | retExecute | retCsiDispatch | retEscDispatch | retPrint
  deriving DecidableEq, Repr, Inhabited

/-- One alternative `(State | _, 'lo'..='hi')` of an arm pattern. -/
structure Pat where
  st : Option PState
  lo : Nat
  hi : Nat
  deriving DecidableEq, Repr, Inhabited

structure Arm where
  pats : List Pat
  acts : List Act
  deriving DecidableEq, Repr, Inhabited

/-- Right-hand sides of `esc_dispatch`. -/
inductive EscRhs where
  | execPlus (k : Nat)          -- `self.execute(((input as u8) + k) as char)`
  | fn (f : Function)           -- `Some(f)`
  | fnGround (f : Function)     -- `self.state = State::Ground; Some(f)`
  deriving DecidableEq, Repr, Inhabited

/-- `(interm, lo..=hi) => rhs`; `interm = none` is the pattern `None`, `some c` is `Some(c)`. -/
structure EscArm where
  interm : Option Nat
  lo : Nat
  hi : Nat
  rhs : EscRhs
  deriving DecidableEq, Repr, Inhabited

/-- Right-hand sides of `csi_dispatch`. -/
inductive CsiRhs where
  | f1 (mk : Nat → Function)                    -- `Some(F(ps[0].as_u16()))`
  | f2 (mk : Nat → Nat → Function)              -- `Some(F(ps[0].as_u16(), ps[1].as_u16()))`
  | sel (cases : List (Nat × Function))         -- `match ps[0].as_u16() { k => Some(f), … _ => None }`
  | const (f : Function)                        -- `Some(F)`
  | sm | rm | sgr | decset | decrst             -- the collecting arms
  | xtwinops (k : Nat)                          -- `if ps[0]==k {Some(Xtwinops(Resize(ps[2],ps[1])))} else {None}`

structure CsiArm where
  interm : Option Nat
  final : Nat
  rhs : CsiRhs

end Avt
