/-
  Avt.Model.Terminal — model of src/tabs.rs, src/terminal/dirty_lines.rs, src/terminal/cursor.rs,
  src/terminal.rs.  Hand-modelled; tied to the code by the correspondence check.
-/
import Avt.Model.Buffer

namespace Avt

/-! ### Tabs -/

namespace Tabs

/-- `(start..end).step_by(8)` -/
def stepFrom (start stop : Nat) : List Nat :=
  (List.range ((stop - start + 7) / 8)).map fun i => start + 8 * i

/-- `Tabs::new(cols)` -/
def new (cols : Nat) : List Nat := stepFrom 8 cols

/-- `Tabs::set(pos)`: sorted insert unless present -/
def set : List Nat → Nat → List Nat
  | [], pos => [pos]
  | t :: ts, pos => if pos < t then pos :: t :: ts else if pos = t then t :: ts else t :: set ts pos

/-- `Tabs::unset(pos)` -/
def unset (tabs : List Nat) (pos : Nat) : List Nat := tabs.filter (· ≠ pos)

/-- `Tabs::expand(start, end)` -/
def expand (tabs : List Nat) (start stop : Nat) : List Nat :=
  tabs ++ stepFrom (if start % 8 ≠ 0 then start + (8 - start % 8) else start) stop

/-- `Tabs::contract(pos)`: `partition_point(|t| t < pos)`, truncate -/
def contract (tabs : List Nat) (pos : Nat) : List Nat := tabs.takeWhile (· < pos)

/-- `Tabs::before(pos, n)`; `n - 1` is a checked subtraction -/
def before (tabs : List Nat) (pos n : Nat) : Option (Option Nat) :=
  (csub n 1).map fun k => (tabs.reverse.dropWhile (fun t => pos ≤ t))[k]?

/-- `Tabs::after(pos, n)` -/
def after (tabs : List Nat) (pos n : Nat) : Option (Option Nat) :=
  (csub n 1).map fun k => (tabs.dropWhile (fun t => pos ≥ t))[k]?

end Tabs

/-! ### DirtyLines -/

namespace Dirty

def new (len : Nat) : List Bool := List.replicate len true
def add (d : List Bool) (n : Nat) : Option (List Bool) := setAt d n true
def extend (d : List Bool) (a b : Nat) : Option (List Bool) := fillRange d a b true
def resize (d : List Bool) (len : Nat) : List Bool :=
  if len ≤ d.length then d.take len else d ++ List.replicate (len - d.length) false
def clear (d : List Bool) : List Bool := d.map fun _ => false
def toVecGo : List Bool → Nat → List Nat
  | [], _ => []
  | b :: bs, i => if b then i :: toVecGo bs (i + 1) else toVecGo bs (i + 1)
def toVec (d : List Bool) : List Nat := toVecGo d 0

end Dirty

/-! ### Terminal -/

structure Cursor where
  col : Nat := 0
  row : Nat := 0
  visible : Bool := true
  deriving DecidableEq, Repr, Inhabited

structure SavedCtx where
  cursorCol : Nat := 0
  cursorRow : Nat := 0
  pen : Pen := {}
  originMode : Bool := false
  autoWrapMode : Bool := true
  deriving DecidableEq, Repr, Inhabited

def SavedCtx.isDefault (c : SavedCtx) : Bool :=
  c.cursorCol == 0 && c.cursorRow == 0 && c.pen.isDefault && !c.originMode && c.autoWrapMode

inductive BufferType where
  | primary | alternate
  deriving DecidableEq, Repr, Inhabited

inductive CursorKeysMode where
  | normal | application
  deriving DecidableEq, Repr, Inhabited

structure Terminal where
  cols : Nat
  rows : Nat
  buffer : Buffer
  otherBuffer : Buffer
  activeBufferType : BufferType
  scrollbackLimit : Option Nat
  cursor : Cursor
  pen : Pen
  charsets : Charset × Charset
  activeCharset : Nat
  tabs : List Nat
  insertMode : Bool
  originMode : Bool
  autoWrapMode : Bool
  newLineMode : Bool
  cursorKeysMode : CursorKeysMode
  pendingWrap : Bool
  topMargin : Nat
  bottomMargin : Nat
  savedCtx : SavedCtx
  alternateSavedCtx : SavedCtx
  dirtyLines : List Bool
  xtwinops : Bool
  deriving DecidableEq, Repr, Inhabited

/-- `as_usize(value, default)` -/
def asUsize (value default : Nat) : Nat := if value = 0 then default else value

namespace Terminal

/-- `Terminal::new`; `rows - 1` is a checked subtraction -/
def new (cols rows : Nat) (limit : Option Nat) : Option Terminal :=
  (csub rows 1).map fun r1 =>
  { cols := cols, rows := rows,
    buffer := Buffer.new cols rows limit none,
    otherBuffer := Buffer.new cols rows (some 0) none,
    activeBufferType := .primary,
    scrollbackLimit := limit,
    cursor := {}, pen := {}, charsets := (.ascii, .ascii), activeCharset := 0,
    tabs := Tabs.new cols,
    insertMode := false, originMode := false, autoWrapMode := true, newLineMode := false,
    cursorKeysMode := .normal, pendingWrap := false, topMargin := 0, bottomMargin := r1,
    savedCtx := {}, alternateSavedCtx := {}, dirtyLines := Dirty.new rows, xtwinops := false }

/-! #### small helpers (all `Option`: `none` = panic) -/

def saveCursor (t : Terminal) : Option Terminal :=
  (csub t.cols 1).map fun c1 =>
  { t with savedCtx := { cursorCol := min t.cursor.col c1, cursorRow := t.cursor.row, pen := t.pen,
                         originMode := t.originMode, autoWrapMode := t.autoWrapMode } }

def restoreCursor (t : Terminal) : Terminal :=
  { t with cursor := { t.cursor with col := t.savedCtx.cursorCol, row := t.savedCtx.cursorRow },
           pen := t.savedCtx.pen, originMode := t.savedCtx.originMode,
           autoWrapMode := t.savedCtx.autoWrapMode, pendingWrap := false }

def doMoveCursorToCol (t : Terminal) (col : Nat) : Terminal :=
  { t with cursor := { t.cursor with col := col }, pendingWrap := false }

def moveCursorToCol (t : Terminal) (col : Nat) : Option Terminal :=
  if col ≥ t.cols then (csub t.cols 1).map fun c1 => t.doMoveCursorToCol c1
  else some (t.doMoveCursorToCol col)

def doMoveCursorToRow (t : Terminal) (row : Nat) : Option Terminal :=
  (csub t.cols 1).map fun c1 =>
  { t with cursor := { t.cursor with col := min t.cursor.col c1, row := row }, pendingWrap := false }

def actualTopMargin (t : Terminal) : Nat := if t.originMode then t.topMargin else 0

def actualBottomMargin (t : Terminal) : Option Nat :=
  if t.originMode then some t.bottomMargin else csub t.rows 1

def moveCursorToRow (t : Terminal) (row : Nat) : Option Terminal :=
  let top := t.actualTopMargin
  match t.actualBottomMargin with
  | none => none
  | some bottom => t.doMoveCursorToRow (min (max (top + row) top) bottom)

/-- `move_cursor_to_rel_col(rel_col: isize)` -/
def moveCursorToRelCol (t : Terminal) (rel : Int) : Option Terminal :=
  let newCol : Int := (t.cursor.col : Int) + rel
  if newCol < 0 then some (t.doMoveCursorToCol 0)
  else if newCol.toNat ≥ t.cols then (csub t.cols 1).map fun c1 => t.doMoveCursorToCol c1
  else some (t.doMoveCursorToCol newCol.toNat)

def moveCursorHome (t : Terminal) : Option Terminal :=
  let t := t.doMoveCursorToCol 0
  t.doMoveCursorToRow t.actualTopMargin

def moveCursorToNextTab (t : Terminal) (n : Nat) : Option Terminal :=
  match Tabs.after t.tabs t.cursor.col n, csub t.cols 1 with
  | some r, some c1 => t.moveCursorToCol (r.getD c1)
  | _, _ => none

def moveCursorToPrevTab (t : Terminal) (n : Nat) : Option Terminal :=
  match Tabs.before t.tabs t.cursor.col n with
  | some r => t.moveCursorToCol (r.getD 0)
  | none => none

def scrollUpInRegion (t : Terminal) (n : Nat) : Option Terminal :=
  match t.buffer.scrollUp t.topMargin (t.bottomMargin + 1) n t.pen with
  | none => none
  | some b =>
    (Dirty.extend t.dirtyLines t.topMargin (t.bottomMargin + 1)).map fun d =>
      { t with buffer := b, dirtyLines := d }

def scrollDownInRegion (t : Terminal) (n : Nat) : Option Terminal :=
  match t.buffer.scrollDown t.topMargin (t.bottomMargin + 1) n t.pen with
  | none => none
  | some b =>
    (Dirty.extend t.dirtyLines t.topMargin (t.bottomMargin + 1)).map fun d =>
      { t with buffer := b, dirtyLines := d }

def moveCursorDownWithScroll (t : Terminal) : Option Terminal :=
  if t.cursor.row = t.bottomMargin then t.scrollUpInRegion 1
  else
    match csub t.rows 1 with
    | none => none
    | some r1 => if t.cursor.row < r1 then t.doMoveCursorToRow (t.cursor.row + 1) else some t

def cursorDown (t : Terminal) (n : Nat) : Option Terminal :=
  if t.cursor.row > t.bottomMargin then
    match csub t.rows 1 with
    | none => none
    | some r1 => t.doMoveCursorToRow (min r1 (t.cursor.row + n))
  else t.doMoveCursorToRow (min t.bottomMargin (t.cursor.row + n))

def cursorUp (t : Terminal) (n : Nat) : Option Terminal :=
  let newY : Int := (t.cursor.row : Int) - (n : Int)
  let newY := if t.cursor.row < t.topMargin then max newY 0 else max newY (t.topMargin : Int)
  t.doMoveCursorToRow newY.toNat

def setTab (t : Terminal) : Terminal :=
  if 0 < t.cursor.col ∧ t.cursor.col < t.cols then { t with tabs := Tabs.set t.tabs t.cursor.col } else t

def clearTab (t : Terminal) : Terminal := { t with tabs := Tabs.unset t.tabs t.cursor.col }
def clearAllTabs (t : Terminal) : Terminal := { t with tabs := [] }

def markDirty (t : Terminal) (row : Nat) : Option Terminal :=
  (Dirty.add t.dirtyLines row).map fun d => { t with dirtyLines := d }

def markDirtyRange (t : Terminal) (a b : Nat) : Option Terminal :=
  (Dirty.extend t.dirtyLines a b).map fun d => { t with dirtyLines := d }

def switchToAlternateBuffer (t : Terminal) : Option Terminal :=
  match t.activeBufferType with
  | .primary =>
    let t' := { t with activeBufferType := .alternate, savedCtx := t.alternateSavedCtx,
                       alternateSavedCtx := t.savedCtx, otherBuffer := t.buffer,
                       buffer := Buffer.new t.cols t.rows (some 0) (some t.pen) }
    t'.markDirtyRange 0 t'.rows
  | .alternate => some t

def switchToPrimaryBuffer (t : Terminal) : Option Terminal :=
  match t.activeBufferType with
  | .alternate =>
    let t' := { t with activeBufferType := .primary, savedCtx := t.alternateSavedCtx,
                       alternateSavedCtx := t.savedCtx, buffer := t.otherBuffer,
                       otherBuffer := t.buffer }
    t'.markDirtyRange 0 t'.rows
  | .primary => some t

/-- `Terminal::reflow` -/
def reflow (t : Terminal) : Option Terminal :=
  let t := if t.cols ≠ t.buffer.cols then { t with pendingWrap := false } else t
  match t.buffer.resize t.cols t.rows (t.cursor.col, t.cursor.row) with
  | none => none
  | some (b, (col, row)) =>
    let t := { t with buffer := b, cursor := { t.cursor with col := col, row := row },
                      dirtyLines := Dirty.resize t.dirtyLines t.rows }
    match t.markDirtyRange 0 t.rows with
    | none => none
    | some t =>
      match (if t.savedCtx.cursorCol ≥ t.cols
             then (csub t.cols 1).map fun c1 => { t with savedCtx := { t.savedCtx with cursorCol := c1 } }
             else some t) with
      | none => none
      | some t =>
        if t.savedCtx.cursorRow ≥ t.rows
        then (csub t.rows 1).map fun r1 => { t with savedCtx := { t.savedCtx with cursorRow := r1 } }
        else some t

/-- `Terminal::resize` -/
def resize (t : Terminal) (cols rows : Nat) : Option Terminal :=
  let t := if cols < t.cols then { t with tabs := Tabs.contract t.tabs cols }
           else if cols > t.cols then { t with tabs := Tabs.expand t.tabs t.cols cols } else t
  let t' : Option Terminal :=
    if rows ≠ t.rows then (csub rows 1).map fun r1 => { t with topMargin := 0, bottomMargin := r1 }
    else some t
  match t' with
  | none => none
  | some t => ({ t with cols := cols, rows := rows } : Terminal).reflow

def softReset (t : Terminal) : Option Terminal :=
  (csub t.rows 1).map fun r1 =>
  { t with cursor := { t.cursor with visible := true }, topMargin := 0, bottomMargin := r1,
           insertMode := false, originMode := false, pen := {}, charsets := (.ascii, .ascii),
           activeCharset := 0, savedCtx := {} }

def hardReset (t : Terminal) : Option Terminal :=
  (csub t.rows 1).map fun r1 =>
  { t with buffer := Buffer.new t.cols t.rows t.scrollbackLimit none,
           otherBuffer := Buffer.new t.cols t.rows (some 0) none,
           activeBufferType := .primary, tabs := Tabs.new t.cols, cursor := {}, pen := {},
           charsets := (.ascii, .ascii), activeCharset := 0, insertMode := false,
           originMode := false, autoWrapMode := true, newLineMode := false, cursorKeysMode := .normal,
           pendingWrap := false, topMargin := 0, bottomMargin := r1, savedCtx := {},
           alternateSavedCtx := {}, dirtyLines := Dirty.new t.rows }

def primaryBuffer (t : Terminal) : Buffer :=
  if t.activeBufferType = .primary then t.buffer else t.otherBuffer

def alternateBuffer (t : Terminal) : Buffer :=
  if t.activeBufferType = .alternate then t.buffer else t.otherBuffer

def activeCharsetValue (t : Terminal) : Option Charset :=
  match t.activeCharset with
  | 0 => some t.charsets.1
  | 1 => some t.charsets.2
  | _ => none

/-! #### control functions -/

/-- `Terminal::print` -/
def print (t : Terminal) (ch : Nat) : Option Terminal :=
  match t.activeCharsetValue with
  | none => none
  | some cs =>
    match cs.translate ch with
    | none => none
    | some ch =>
      let cell : Cell := ⟨ch, t.pen⟩
      let t1 : Option Terminal :=
        if t.autoWrapMode && t.pendingWrap then
          let t := t.doMoveCursorToCol 0
          if t.cursor.row = t.bottomMargin then
            match t.buffer.wrap t.cursor.row with
            | none => none
            | some b =>
              match ({ t with buffer := b } : Terminal).scrollUpInRegion 1 with
              | none => none
              | some t =>
                match csub t.rows 1 with
                | none => none
                | some r1 =>
                  if t.bottomMargin < r1 then
                    match csub t.bottomMargin 1 with
                    | none => none
                    | some bm1 => (t.buffer.wrap bm1).map fun b => { t with buffer := b }
                  else some t
          else
            match csub t.rows 1 with
            | none => none
            | some r1 =>
              if t.cursor.row < r1 then
                match t.buffer.wrap t.cursor.row with
                | none => none
                | some b => ({ t with buffer := b } : Terminal).doMoveCursorToRow (t.cursor.row + 1)
              else some t
        else some t
      match t1 with
      | none => none
      | some t =>
        let nextCol := t.cursor.col + 1
        let t2 : Option Terminal :=
          if nextCol ≥ t.cols then
            match csub t.cols 1 with
            | none => none
            | some c1 =>
              match t.buffer.print c1 t.cursor.row cell with
              | none => none
              | some b =>
                let t := { t with buffer := b }
                if t.autoWrapMode then some { t.doMoveCursorToCol t.cols with pendingWrap := true }
                else some t
          else
            let b := if t.insertMode then t.buffer.insert t.cursor.col t.cursor.row 1 cell
                     else t.buffer.print t.cursor.col t.cursor.row cell
            match b with
            | none => none
            | some b => some (({ t with buffer := b } : Terminal).doMoveCursorToCol nextCol)
        match t2 with
        | none => none
        | some t => t.markDirty t.cursor.row

def bs (t : Terminal) : Option Terminal :=
  if t.pendingWrap then t.moveCursorToRelCol (-2) else t.moveCursorToRelCol (-1)

def lf (t : Terminal) : Option Terminal :=
  (t.moveCursorDownWithScroll).map fun t => if t.newLineMode then t.doMoveCursorToCol 0 else t

def nel (t : Terminal) : Option Terminal :=
  (t.moveCursorDownWithScroll).map fun t => t.doMoveCursorToCol 0

def ri (t : Terminal) : Option Terminal :=
  if t.cursor.row = t.topMargin then t.scrollDownInRegion 1
  else if t.cursor.row > 0 then t.doMoveCursorToRow (t.cursor.row - 1)
  else some t

def decalnRow (cols : Nat) : Line := ⟨List.replicate cols ⟨0x45, Pen.default⟩, false⟩

/-- inner loop of `decaln`: `for col in 0..cols { buffer.print((col, row), 'E') }` -/
def decalnCols (b : Buffer) (row : Nat) : Nat → Nat → Option Buffer
  | _, 0 => some b
  | col, j + 1 =>
    match b.print col row ⟨0x45, Pen.default⟩ with
    | none => none
    | some b => decalnCols b row (col + 1) j

/-- outer loop of `decaln` -/
def decalnRows (t : Terminal) : Nat → Nat → Option Terminal
  | _, 0 => some t
  | row, k + 1 =>
    match decalnCols t.buffer row 0 t.cols with
    | none => none
    | some b =>
      match ({ t with buffer := b } : Terminal).markDirty row with
      | none => none
      | some t => decalnRows t (row + 1) k

/-- `decaln`: prints 'E' (default pen) into every cell; wrap marks are untouched -/
def decaln (t : Terminal) : Option Terminal := decalnRows t 0 t.rows

def ich (t : Terminal) (n : Nat) : Option Terminal :=
  match t.buffer.insert t.cursor.col t.cursor.row (asUsize n 1) (Cell.blank t.pen) with
  | none => none
  | some b => ({ t with buffer := b } : Terminal).markDirty t.cursor.row

def cub (t : Terminal) (n : Nat) : Option Terminal :=
  let rel : Int := -((asUsize n 1 : Nat) : Int)
  t.moveCursorToRelCol (if t.pendingWrap then rel - 1 else rel)

def cup (t : Terminal) (row col : Nat) : Option Terminal :=
  match t.moveCursorToCol (asUsize col 1 - 1) with
  | none => none
  | some t => t.moveCursorToRow (asUsize row 1 - 1)

def eraseWith (t : Terminal) (mode : Buffer.EraseMode) : Option Terminal :=
  (t.buffer.erase t.cursor.col t.cursor.row mode t.pen).map fun b => { t with buffer := b }

def ed (t : Terminal) (s : EdScope) : Option Terminal :=
  match s with
  | .below =>
    match t.eraseWith .fromCursorToEndOfView with
    | none => none
    | some t => t.markDirtyRange t.cursor.row t.rows
  | .above =>
    match t.eraseWith .fromStartOfViewToCursor with
    | none => none
    | some t => t.markDirtyRange 0 (t.cursor.row + 1)
  | .all =>
    match t.eraseWith .wholeView with
    | none => none
    | some t => t.markDirtyRange 0 t.rows
  | .savedLines => some t

def el (t : Terminal) (s : ElScope) : Option Terminal :=
  let mode : Buffer.EraseMode := match s with
    | .toRight => .fromCursorToEndOfLine
    | .toLeft => .fromStartOfLineToCursor
    | .all => .wholeLine
  match t.eraseWith mode with
  | none => none
  | some t => t.markDirty t.cursor.row

def ilRange (t : Terminal) : Nat × Nat :=
  if t.cursor.row ≤ t.bottomMargin then (t.cursor.row, t.bottomMargin + 1) else (t.cursor.row, t.rows)

def il (t : Terminal) (n : Nat) : Option Terminal :=
  let (a, b) := t.ilRange
  match t.buffer.scrollDown a b (asUsize n 1) t.pen with
  | none => none
  | some buf => ({ t with buffer := buf } : Terminal).markDirtyRange a b

def dl (t : Terminal) (n : Nat) : Option Terminal :=
  let (a, b) := t.ilRange
  match t.buffer.scrollUp a b (asUsize n 1) t.pen with
  | none => none
  | some buf => ({ t with buffer := buf } : Terminal).markDirtyRange a b

def dch (t : Terminal) (n : Nat) : Option Terminal :=
  let t1 : Option Terminal :=
    if t.cursor.col ≥ t.cols then
      match csub t.cols 1 with
      | none => none
      | some c1 => t.moveCursorToCol c1
    else some t
  match t1 with
  | none => none
  | some t =>
    match t.buffer.delete t.cursor.col t.cursor.row (asUsize n 1) t.pen with
    | none => none
    | some b => ({ t with buffer := b } : Terminal).markDirty t.cursor.row

def ctc (t : Terminal) (op : CtcOp) : Terminal :=
  match op with
  | .set => t.setTab
  | .clearCurrentColumn => t.clearTab
  | .clearAll => t.clearAllTabs

def ech (t : Terminal) (n : Nat) : Option Terminal :=
  match t.eraseWith (.nextChars (asUsize n 1)) with
  | none => none
  | some t => t.markDirty t.cursor.row

def printN (t : Terminal) (ch : Nat) : Nat → Option Terminal
  | 0 => some t
  | k + 1 =>
    match t.print ch with
    | none => none
    | some t => printN t ch k

def rep (t : Terminal) (n : Nat) : Option Terminal :=
  if t.cursor.col > 0 then
    match t.buffer.view[t.cursor.row]? with
    | none => none
    | some line =>
      match line.cells[t.cursor.col - 1]? with
      | none => none
      | some cell => t.printN cell.ch (asUsize n 1)
  else some t

def tbc (t : Terminal) (s : TbcScope) : Terminal :=
  match s with
  | .currentColumn => t.clearTab
  | .all => t.clearAllTabs

def sm (t : Terminal) (modes : List AnsiMode) : Terminal :=
  modes.foldl (fun t m => match m with
    | .insert => { t with insertMode := true }
    | .newLine => { t with newLineMode := true }) t

def rm (t : Terminal) (modes : List AnsiMode) : Terminal :=
  modes.foldl (fun t m => match m with
    | .insert => { t with insertMode := false }
    | .newLine => { t with newLineMode := false }) t

def applySgr (pen : Pen) (op : SgrOp) : Pen :=
  match op with
  | .reset => {}
  | .setBold => { pen with intensity := .bold }
  | .setFaint => { pen with intensity := .faint }
  | .setItalic => pen.setBit Gen.italicMask
  | .setUnderline => pen.setBit Gen.underlineMask
  | .setBlink => pen.setBit Gen.blinkMask
  | .setInverse => pen.setBit Gen.inverseMask
  | .setStrikethrough => pen.setBit Gen.strikethroughMask
  | .resetIntensity => { pen with intensity := .normal }
  | .resetItalic => pen.unsetBit Gen.italicMask
  | .resetUnderline => pen.unsetBit Gen.underlineMask
  | .resetBlink => pen.unsetBit Gen.blinkMask
  | .resetInverse => pen.unsetBit Gen.inverseMask
  | .resetStrikethrough => pen.unsetBit Gen.strikethroughMask
  | .setFg c => { pen with fg := some c }
  | .resetFg => { pen with fg := none }
  | .setBg c => { pen with bg := some c }
  | .resetBg => { pen with bg := none }

def sgr (t : Terminal) (ops : List SgrOp) : Terminal := { t with pen := ops.foldl applySgr t.pen }

def decstbm (t : Terminal) (top bottom : Nat) : Option Terminal :=
  let top := asUsize top 1 - 1
  match csub (asUsize bottom t.rows) 1 with
  | none => none
  | some bottom =>
    let t := if top < bottom ∧ bottom < t.rows then { t with topMargin := top, bottomMargin := bottom } else t
    t.moveCursorHome

def xtwinopsF (t : Terminal) (cols rows : Nat) : Option Terminal :=
  if t.xtwinops then t.resize (asUsize cols t.cols) (asUsize rows t.rows) else some t

def decsetOne (t : Terminal) (m : DecMode) : Option Terminal :=
  match m with
  | .cursorKeys => some { t with cursorKeysMode := .application }
  | .origin => ({ t with originMode := true } : Terminal).moveCursorHome
  | .autoWrap => some { t with autoWrapMode := true }
  | .textCursorEnable => some { t with cursor := { t.cursor with visible := true } }
  | .altScreenBuffer =>
    match t.switchToAlternateBuffer with
    | none => none
    | some t => t.reflow
  | .saveCursor => t.saveCursor
  | .saveCursorAltScreenBuffer =>
    match t.saveCursor with
    | none => none
    | some t =>
      match t.switchToAlternateBuffer with
      | none => none
      | some t => t.reflow

def decrstOne (t : Terminal) (m : DecMode) : Option Terminal :=
  match m with
  | .cursorKeys => some { t with cursorKeysMode := .normal }
  | .origin => ({ t with originMode := false } : Terminal).moveCursorHome
  | .autoWrap => some { t with autoWrapMode := false }
  | .textCursorEnable => some { t with cursor := { t.cursor with visible := false } }
  | .altScreenBuffer =>
    match t.switchToPrimaryBuffer with
    | none => none
    | some t => t.reflow
  | .saveCursor => some t.restoreCursor
  | .saveCursorAltScreenBuffer =>
    match t.switchToPrimaryBuffer with
    | none => none
    | some t => t.restoreCursor.reflow

def foldM' {α β} (f : β → α → Option β) : List α → β → Option β
  | [], b => some b
  | a :: as, b => match f b a with | some b' => foldM' f as b' | none => none

/-- `Terminal::execute` -/
def execute (t : Terminal) (f : Function) : Option Terminal :=
  match f with
  | .bs => t.bs
  | .cbt n => t.moveCursorToPrevTab (asUsize n 1)
  | .cha n => t.moveCursorToCol (asUsize n 1 - 1)
  | .cht n => t.moveCursorToNextTab (asUsize n 1)
  | .cnl n => (t.cursorDown (asUsize n 1)).map fun t => t.doMoveCursorToCol 0
  | .cpl n => (t.cursorUp (asUsize n 1)).map fun t => t.doMoveCursorToCol 0
  | .cr => some (t.doMoveCursorToCol 0)
  | .ctc op => some (t.ctc op)
  | .cub n => t.cub n
  | .cud n => t.cursorDown (asUsize n 1)
  | .cuf n => t.moveCursorToRelCol ((asUsize n 1 : Nat) : Int)
  | .cup r c => t.cup r c
  | .cuu n => t.cursorUp (asUsize n 1)
  | .dch n => t.dch n
  | .decaln => t.decaln
  | .decrc => some t.restoreCursor
  | .decrst ms => foldM' decrstOne ms t
  | .decsc => t.saveCursor
  | .decset ms => foldM' decsetOne ms t
  | .decstbm a b => t.decstbm a b
  | .decstr => t.softReset
  | .dl n => t.dl n
  | .ech n => t.ech n
  | .ed s => t.ed s
  | .el s => t.el s
  | .g1d4 c => some { t with charsets := (t.charsets.1, c) }
  | .gzd4 c => some { t with charsets := (c, t.charsets.2) }
  | .ht => t.moveCursorToNextTab 1
  | .hts => some t.setTab
  | .ich n => t.ich n
  | .il n => t.il n
  | .lf => t.lf
  | .nel => t.nel
  | .print ch => t.print ch
  | .rep n => t.rep n
  | .ri => t.ri
  | .ris => t.hardReset
  | .rm ms => some (t.rm ms)
  | .scorc => some t.restoreCursor
  | .scosc => t.saveCursor
  | .sd n => t.scrollDownInRegion (asUsize n 1)
  | .sgr ops => some (t.sgr ops)
  | .si => some { t with activeCharset := 0 }
  | .sm ms => some (t.sm ms)
  | .so => some { t with activeCharset := 1 }
  | .su n => t.scrollUpInRegion (asUsize n 1)
  | .tbc s => some (t.tbc s)
  | .vpa n => t.moveCursorToRow (asUsize n 1 - 1)
  | .vpr n => t.cursorDown (asUsize n 1)
  | .xtwinops c r => t.xtwinopsF c r

/-- `Terminal::gc` → (terminal', lines handed out) -/
def gc (t : Terminal) : Terminal × List Line :=
  let (b, ls) := t.buffer.gc
  ({ t with buffer := b }, if t.activeBufferType = .alternate then [] else ls)

/-- `Terminal::changes` -/
def changes (t : Terminal) : Terminal × List Nat :=
  ({ t with dirtyLines := Dirty.clear t.dirtyLines }, Dirty.toVec t.dirtyLines)

def view (t : Terminal) : List Line := t.buffer.view
def lines (t : Terminal) : List Line := t.buffer.lines
def text (t : Terminal) : List (List Nat) := t.primaryBuffer.text

end Terminal
end Avt
