/-
  Avt.Spec.C12 — oracle of property C12 (decidable predicates evaluated on implementation states;
  the same definitions the theorems in Avt/Props/C12.lean are stated with).

  C12: the outcome of feeding a string does not depend on how it is split across calls.

  `equivChunk a b` is what must agree between two instances that received the same characters
  from the same start state under different chunkings, for EVERY scrollback limit:
    * the parser (state and all registers);
    * every field of the terminal except the dirty flags (a per-call report: `Vt::feed` never calls
      `changes()`) — size, cursor (col, row, visible), pen, charsets, tabs, insert / origin /
      auto-wrap / new-line / cursor-keys modes, pending wrap, margins, both saved contexts, the
      active buffer type, `xtwinops`, the scrollback limit;
    * of both buffers (active and parked): the view (cells, pens, wrap marks), `cols`, `rows`,
      `limit`.
  What may legitimately differ is only how much scrollback has been trimmed so far (`gc` runs once
  per `feed_str` call, never in `Vt::feed`): `trim_needed`, and the retained scrollback, of which one
  side must be a suffix of the other (`gc` only ever removes the oldest lines).
  `equivLines` adds what C12 requires under an unlimited scrollback: the same `lines()` and the same
  primary scrollback (also while the primary buffer is parked).

  Known finding KF4 (DESIGN.md §7): `Vt::feed` never runs `gc`, so after per-character feeding rows
  scrolled off the ALTERNATE screen (limit 0) are still in `lines()`; `feed_str` removes them.
  `kf4 whole perChar` recognises exactly that: everything in `equivChunk` agrees, the alternate screen
  is active, the parked primary agrees line by line, and only the active alternate buffer's
  scrollback differs.
-/
import Avt.Spec.Base

namespace Avt.Spec.C12
open Avt Avt.Spec

/-- `y` is a suffix of `x` -/
def isSuffix (y x : List Line) : Bool :=
  y.length ≤ x.length && x.drop (x.length - y.length) == y

/-- two retained scrollbacks of the same history: one is a suffix of the other -/
def sbCompatible (x y : List Line) : Bool := isSuffix x y || isSuffix y x

/-- buffers agree up to the amount of retained scrollback and the lazy-trim flag -/
def bufEqv (x y : Buffer) : Bool :=
  x.view == y.view && x.cols == y.cols && x.rows == y.rows && x.limit == y.limit
    && sbCompatible x.sb y.sb

/-- every terminal field except the dirty flags (only their number must agree) and the two buffers -/
def scalarsEq (a b : Terminal) : Bool :=
  a.cols == b.cols && a.rows == b.rows && a.activeBufferType == b.activeBufferType
    && a.scrollbackLimit == b.scrollbackLimit && a.cursor == b.cursor && a.pen == b.pen
    && a.charsets == b.charsets && a.activeCharset == b.activeCharset && a.tabs == b.tabs
    && a.insertMode == b.insertMode && a.originMode == b.originMode
    && a.autoWrapMode == b.autoWrapMode && a.newLineMode == b.newLineMode
    && a.cursorKeysMode == b.cursorKeysMode && a.pendingWrap == b.pendingWrap
    && a.topMargin == b.topMargin && a.bottomMargin == b.bottomMargin
    && a.savedCtx == b.savedCtx && a.alternateSavedCtx == b.alternateSavedCtx
    && a.xtwinops == b.xtwinops && a.dirtyLines.length == b.dirtyLines.length

def termEqv (a b : Terminal) : Bool :=
  scalarsEq a b && bufEqv a.buffer b.buffer && bufEqv a.otherBuffer b.otherBuffer

/-- same visible screen, cursor, modes, parser, parked buffer — for every scrollback limit -/
def equivChunk (a b : Vt) : Bool := a.parser == b.parser && termEqv a.terminal b.terminal

/-- additionally the same `lines()` and the same primary scrollback — required when the
    scrollback is unlimited -/
def equivLines (a b : Vt) : Bool :=
  equivChunk a b && a.lines == b.lines
    && a.terminal.primaryBuffer.sb == b.terminal.primaryBuffer.sb

/-- C13's statement for the alternate screen (`feed_str` leaves no scrollback there): used as a
    hypothesis by the `lines` clause of the C12 theorems while the alternate screen is showing -/
def altClean (v : Vt) : Bool :=
  v.terminal.activeBufferType != .alternate || v.terminal.buffer.sb.isEmpty

/-- classifier of known finding KF4 (`whole` was fed through `feed_str`, `perChar` through `Vt::feed`) -/
def kf4 (whole perChar : Vt) : Bool :=
  equivChunk whole perChar
    && whole.terminal.activeBufferType == .alternate
    && whole.terminal.otherBuffer.sb == perChar.terminal.otherBuffer.sb
    && whole.terminal.buffer.sb != perChar.terminal.buffer.sb

/-- first component in which two states differ (diagnostics only) -/
def firstDiff (a b : Vt) : String :=
  let s := a.terminal
  let t := b.terminal
  if a.parser != b.parser then "parser"
  else if (s.cols, s.rows) != (t.cols, t.rows) then "size"
  else if s.cursor != t.cursor then "cursor"
  else if s.pendingWrap != t.pendingWrap then "pending-wrap"
  else if s.activeBufferType != t.activeBufferType then "active-buffer-type"
  else if s.buffer.view != t.buffer.view then "view"
  else if s.pen != t.pen then "pen"
  else if s.charsets != t.charsets || s.activeCharset != t.activeCharset then "charsets"
  else if s.tabs != t.tabs then "tabs"
  else if (s.insertMode, s.originMode, s.autoWrapMode, s.newLineMode)
       != (t.insertMode, t.originMode, t.autoWrapMode, t.newLineMode) then "modes"
  else if s.cursorKeysMode != t.cursorKeysMode then "cursor-keys"
  else if (s.topMargin, s.bottomMargin) != (t.topMargin, t.bottomMargin) then "margins"
  else if s.savedCtx != t.savedCtx || s.alternateSavedCtx != t.alternateSavedCtx then "saved-context"
  else if !scalarsEq s t then "scrollback-limit/xtwinops/dirty-length"
  else if !bufEqv s.buffer t.buffer then "active-buffer(geometry/limit/scrollback-not-a-suffix)"
  else if !bufEqv s.otherBuffer t.otherBuffer then "parked-buffer"
  else if a.lines != b.lines then "lines"
  else if s.primaryBuffer.sb != t.primaryBuffer.sb then "parked-primary-scrollback"
  else "none"

/-- two `feed_str` chunkings of the same input -/
def checkChunked (who : String) (whole other : Inst) : Verdict :=
  let unlimited := whole.st.terminal.scrollbackLimit.isNone
  let ok := if unlimited then equivLines whole.st other.st else equivChunk whole.st other.st
  check s!"C12:{who}:{firstDiff whole.st other.st}" (whole.history != other.history) ok

/-- whole `feed_str` vs. per-character `Vt::feed` -/
def checkPerChar (whole pc : Inst) : Verdict :=
  let unlimited := whole.st.terminal.scrollbackLimit.isNone
  if !equivChunk whole.st pc.st then .fail s!"C12:feed-per-char:{firstDiff whole.st pc.st}"
  else if !unlimited then .pass true
  else if equivLines whole.st pc.st then .pass true
  else if kf4 whole.st pc.st then .fail "KF4:per-char-feed-keeps-alternate-scrollback"
  else .fail s!"C12:feed-per-char:{firstDiff whole.st pc.st}"

def checkStep (_ev : StepEv) : List Verdict := []

def checkNew (_cols _rows : Nat) (_lim : Option Nat) (_st : Vt) : List Verdict := []

def checkParserStep (_prev : Parser) (_c : Nat) (_next : Parser) (_fn : String) : List Verdict := []

/-- `X C12 k0 k1 k2 k3`: k0 fed whole, k1 in random pieces (`feed_str`), k2 per character through
    `Vt::feed`, k3 per character through `feed_str`; all from the same start state. -/
def checkDirective (name : String) (args : List String) (inst : String → Option Inst)
    (_tcOut : Nat → List (List Nat)) : List Verdict × List (Nat × Inst) :=
  match name, args with
  | "C12", [k0, k1, k2, k3] =>
    match inst k0, inst k1, inst k2, inst k3 with
    | some i0, some i1, some i2, some i3 =>
      -- `C12_feedStrs_total`: a chunked session panics iff the whole feed panics; a panic that
      -- depends on the chunking is a C12 violation (a panic under every chunking is C01's business)
      if i0.dead && i1.dead && i2.dead && i3.dead then ([.pass false], [])
      else if i0.dead || i1.dead || i2.dead || i3.dead then
        ([.fail s!"C12:panic-depends-on-chunking whole={i0.dead} split={i1.dead} feed-per-char={i2.dead} feed_str-per-char={i3.dead}"], [])
      else ([checkChunked "random-split" i0 i1, checkPerChar i0 i2, checkChunked "feed_str-per-char" i0 i3], [])
    | _, _, _, _ => ([.pass false], [])
  | _, _ => ([], [])

end Avt.Spec.C12
