/-
  Avt.Spec.C05 — oracle of property C05, cursor movement and addressing (decidable definitions
  evaluated on implementation states; the same definitions the theorems in Avt/Props/C05.lean are
  stated with).

  `moveSpec t f` is the complete terminal after a pure cursor command `f`, written as closed
  formulas in the vocabulary of the property (distance, screen edge, top/bottom margin, origin
  mode, wrap-pending column), not as a copy of `src/terminal.rs`.  Whatever `moveSpec` does not
  mention is unchanged — in particular both buffers (no cell changes), pen, modes, tabs, saved
  contexts and dirty flags.

  Covered (`covered t f`): BS, CR, HT, CHT n, CBT n, CUU, CUD, CUF (CSI C and CSI a), CUB, CNL, CPL,
  VPR (CSI e), CHA (CSI G and CSI `), CUP/HVP, VPA, DECSTBM, DECSET/DECRST ?6 (origin mode), and
  LF/IND/VT/FF (all `Function.lf`), NEL, RI when the cursor is NOT on the bottom resp. top margin.
  Tab moves go through C18's `nthAfter` / `nthBefore`.
-/
import Avt.Spec.Base
import Avt.Spec.C18

namespace Avt.Spec.C05
open Avt Avt.Spec

/-! ### vocabulary -/

/-- parameter default: missing or 0 means 1 -/
def arg (n : Nat) : Nat := if n = 0 then 1 else n

def lastCol (t : Terminal) : Nat := t.cols - 1
def lastRow (t : Terminal) : Nat := t.rows - 1

/-- the column the cursor is really in: the wrap-pending column (`col = cols`) is the last column -/
def realCol (t : Terminal) : Nat := min t.cursor.col (lastCol t)

/-- place the cursor (this always clears a pending wrap); nothing else changes -/
def cursorAt (t : Terminal) (col row : Nat) : Terminal :=
  { t with cursor := { t.cursor with col := col, row := row }, pendingWrap := false }

/-- row reached by moving up `n`: stop at the top margin unless the move starts above it -/
def up (t : Terminal) (n : Nat) : Nat :=
  if t.cursor.row < t.topMargin then t.cursor.row - n else max t.topMargin (t.cursor.row - n)

/-- row reached by moving down `n`: stop at the bottom margin unless the move starts below it -/
def down (t : Terminal) (n : Nat) : Nat :=
  if t.cursor.row > t.bottomMargin then min (lastRow t) (t.cursor.row + n)
  else min t.bottomMargin (t.cursor.row + n)

/-- column reached by moving left `n` (counted from the last real column when wrap is pending) -/
def left (t : Terminal) (n : Nat) : Nat := realCol t - n

/-- column reached by moving right `n` -/
def right (t : Terminal) (n : Nat) : Nat := min (t.cursor.col + n) (lastCol t)

/-- absolute column `c` (0-based), clamped to the screen -/
def absCol (t : Terminal) (c : Nat) : Nat := min c (lastCol t)

/-- absolute row `r` (0-based): clamped to the screen, or — in origin mode — relative to and
    clamped within the scroll region -/
def absRow (t : Terminal) (r : Nat) : Nat :=
  if t.originMode then min (t.topMargin + r) t.bottomMargin else min r (lastRow t)

/-- the margins after DECSTBM `a;b`: `a` defaults to 1, `b` to the number of rows; a pair that is
    not `top < bottom < rows` is ignored -/
def newMargins (t : Terminal) (a b : Nat) : Nat × Nat :=
  let top := arg a - 1
  let bottom := (if b = 0 then t.rows else b) - 1
  if top < bottom ∧ bottom < t.rows then (top, bottom) else (t.topMargin, t.bottomMargin)

/-- one row down when off the bottom margin: exactly one row, not past the last row (on the last
    row nothing at all happens, a pending wrap included) -/
def oneDown (t : Terminal) : Terminal :=
  if t.cursor.row < lastRow t then cursorAt t (realCol t) (t.cursor.row + 1) else t

/-- is `f` a pure cursor command in state `t`? -/
def covered (t : Terminal) : Function → Bool
  | .bs | .cr | .ht | .cht _ | .cbt _ | .cuu _ | .cud _ | .cuf _ | .cub _ | .cnl _ | .cpl _
  | .vpr _ | .cha _ | .cup _ _ | .vpa _ | .decstbm _ _ => true
  | .lf | .nel => t.cursor.row != t.bottomMargin
  | .ri => t.cursor.row != t.topMargin
  | .decset ms | .decrst ms => !ms.isEmpty && ms.all (· == DecMode.origin)
  | _ => false

/-- the terminal after cursor command `f` -/
def moveSpec (t : Terminal) : Function → Terminal
  | .bs => cursorAt t (left t 1) t.cursor.row
  | .cr => cursorAt t 0 t.cursor.row
  | .ht => C18.tabForward t 1
  | .cht n => C18.tabForward t (arg n)
  | .cbt n => C18.tabBackward t (arg n)
  | .cuu n => cursorAt t (realCol t) (up t (arg n))
  | .cud n => cursorAt t (realCol t) (down t (arg n))
  | .vpr n => cursorAt t (realCol t) (down t (arg n))
  | .cnl n => cursorAt t 0 (down t (arg n))
  | .cpl n => cursorAt t 0 (up t (arg n))
  | .cuf n => cursorAt t (right t (arg n)) t.cursor.row
  | .cub n => cursorAt t (left t (arg n)) t.cursor.row
  | .cha n => cursorAt t (absCol t (arg n - 1)) t.cursor.row
  | .cup r c => cursorAt t (absCol t (arg c - 1)) (absRow t (arg r - 1))
  | .vpa n => cursorAt t (realCol t) (absRow t (arg n - 1))
  | .lf => let t' := oneDown t
           if t.newLineMode then cursorAt t' 0 t'.cursor.row else t'
  | .nel => let t' := oneDown t
            cursorAt t' 0 t'.cursor.row
  | .ri => if 0 < t.cursor.row then cursorAt t (realCol t) (t.cursor.row - 1) else t
  | .decstbm a b =>
    let m := newMargins t a b
    cursorAt { t with topMargin := m.1, bottomMargin := m.2 } 0 (if t.originMode then m.1 else 0)
  | .decset _ => cursorAt { t with originMode := true } 0 t.topMargin
  | .decrst _ => cursorAt { t with originMode := false } 0 0
  | _ => t

/-- the oracle's partial specification (only from states satisfying the invariant, which is the
    hypothesis of the theorems) -/
def specStep (t : Terminal) (f : Function) : Option Terminal :=
  if covered t f then some (moveSpec t f) else none

/-! ### who may change origin mode -/

/-- functions that can change `originMode`: DECSET / DECRST naming ?6, the restores of the saved
    context, of which origin mode is a part (DECRC, SCORC, DECRST ?1048 and ?1049), and the two resets.
    Everything else — every other mode (entering the alternate screen, leaving it with ?47l/?1047l,
    saving the cursor), DECSTBM, every cursor movement, XTWINOPS — leaves it as it is
    (`Avt.C05_origin_persists`). -/
def setsOrigin : Function → Bool
  | .decset ms => ms.any (· == DecMode.origin)
  | .decrst ms =>
    ms.any fun m => m == .origin || m == .saveCursor || m == .saveCursorAltScreenBuffer
  | .decrc | .scorc | .ris | .decstr => true
  | _ => false

/-! ### oracle -/

def checkStep (ev : StepEv) : List Verdict :=
  let p := ev.prev.terminal
  let n := ev.next.terminal
  -- a resize keeps origin mode
  if ev.kind == .resize then
    [check "resize-keeps-origin-mode" p.originMode (n.originMode == p.originMode)]
  else
  if ev.funs.isEmpty then [] else
  -- origin mode is state: only DECSET/DECRST ?6, the restores and the resets change it
  let origin : List Verdict :=
    if ev.funs.all (fun f => !setsOrigin f) then
      [check "origin-mode-persists" p.originMode (n.originMode == p.originMode)]
    else []
  let move : List Verdict :=
  match foldSpec specStep ev.funs ev.prev.terminal with
  | some expected =>
    [ check "move" true (n == afterCall ev.kind expected),
      -- the property's own words, checked separately so that a failure names the clause
      check "cursor" true (n.cursor == expected.cursor && n.pendingWrap == expected.pendingWrap),
      check "margins-and-origin" true
        (n.topMargin == expected.topMargin && n.bottomMargin == expected.bottomMargin
          && n.originMode == expected.originMode),
      check "no-cell-changes" true
        (n.buffer.view == ev.prev.terminal.buffer.view && n.otherBuffer == ev.prev.terminal.otherBuffer),
      -- "the n-th next/previous stop": stops are positions, so a stop stored twice (which `tabsOK` and
      -- C18 exclude, and under which `moveSpec` = the formula below) must not count twice
      (match ev.funs with
       | [f] =>
         let t := ev.prev.terminal
         let distinct := t.tabs.eraseDups
         let want : Option Nat := match f with
           | .ht => some (min ((C18.nthAfter distinct t.cursor.col 1).getD (t.cols - 1)) (t.cols - 1))
           | .cht k => some (min ((C18.nthAfter distinct t.cursor.col (arg k)).getD (t.cols - 1)) (t.cols - 1))
           | .cbt k => some (min ((C18.nthBefore distinct t.cursor.col (arg k)).getD 0) (t.cols - 1))
           | _ => none
         match want with
         | some c => check "tab-move-reaches-the-nth-distinct-stop" true (n.cursor.col == c)
         | none => .pass false
       | _ => .pass false) ]
  | none => []
  move ++ origin

def checkNew (_cols _rows : Nat) (_lim : Option Nat) (_st : Vt) : List Verdict := []

def checkParserStep (_prev : Parser) (_c : Nat) (_next : Parser) (_fn : String) : List Verdict := []

def checkDirective (_name : String) (_args : List String) (_inst : String → Option Inst)
    (_tcOut : Nat → List (List Nat)) : List Verdict × List (Nat × Inst) := ([], [])

end Avt.Spec.C05
