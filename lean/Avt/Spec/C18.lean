/-
  Avt.Spec.C18 — oracle of property C18, tab stops (decidable definitions evaluated on
  implementation states; the same definitions the theorems in Avt/Props/C18.lean are stated with).

  Vocabulary of the property: a tab-stop vector is a *sorted set* of columns strictly between 0 and
  the width.  Everything below is written as a closed formula over `filter`/`range`/`++`, not as a
  copy of `src/tabs.rs` (which uses binary search, `partition_point`, `skip_while`, `step_by`).

  Covered functions: HTS, TBC (0 / 3), CTC (0 / 2 / 5), HT, CHT n, CBT n; `Terminal::resize`.
  Frame clause ("tabs-persist"): any event none of whose functions satisfies `setsTabs` leaves the
  stop vector as it is.
-/
import Avt.Spec.Base

namespace Avt.Spec.C18
open Avt Avt.Spec

/-! ### the reference -/

/-- default stops of a terminal `cols` wide: every multiple of 8 strictly between 0 and `cols` -/
def tabsRef (cols : Nat) : List Nat := (List.range cols).filter fun c => 0 < c && c % 8 == 0

/-- every multiple of 8 in `[lo, hi)` — the default stops of newly exposed columns -/
def defaultsIn (lo hi : Nat) : List Nat := (List.range hi).filter fun c => lo ≤ c && c % 8 == 0

/-- sorted-set insert -/
def setRef (tabs : List Nat) (col : Nat) : List Nat :=
  tabs.filter (· < col) ++ [col] ++ tabs.filter (col < ·)

/-- sorted-set remove -/
def unsetRef (tabs : List Nat) (col : Nat) : List Nat :=
  tabs.filter (· < col) ++ tabs.filter (col < ·)

/-- HTS / CTC 0 at cursor column `col` of a terminal `cols` wide: no stop at column 0, none at the
    wrap-pending column -/
def setAtCursor (tabs : List Nat) (col cols : Nat) : List Nat :=
  if 0 < col ∧ col < cols then setRef tabs col else tabs

/-- the `n`-th (1-based) stop greater than `pos` -/
def nthAfter (tabs : List Nat) (pos n : Nat) : Option Nat := (tabs.filter (pos < ·))[n - 1]?

/-- the `n`-th (1-based) stop smaller than `pos`, counting leftwards -/
def nthBefore (tabs : List Nat) (pos n : Nat) : Option Nat := (tabs.filter (· < pos)).reverse[n - 1]?

/-- resize from `old` to `new` columns: narrowing keeps exactly the stops below the new width;
    widening keeps every stop and adds every multiple of 8 in `[old, new)` — `old` itself included
    when it is a multiple of 8 -/
def resizeRef (tabs : List Nat) (old new : Nat) : List Nat :=
  if new < old then tabs.filter (· < new) else tabs ++ defaultsIn old new

/-- missing or 0 means 1 -/
def arg (n : Nat) : Nat := if n = 0 then 1 else n

/-- put the cursor in column `col` of its row (clears a pending wrap); nothing else changes -/
def toCol (t : Terminal) (col : Nat) : Terminal :=
  { t with cursor := { t.cursor with col := col }, pendingWrap := false }

/-- HT / CHT: to the `n`-th next stop, to the last column when there is none (never past it) -/
def tabForward (t : Terminal) (n : Nat) : Terminal :=
  toCol t (min ((nthAfter t.tabs t.cursor.col n).getD (t.cols - 1)) (t.cols - 1))

/-- CBT: to the `n`-th previous stop, to the first column when there is none -/
def tabBackward (t : Terminal) (n : Nat) : Terminal :=
  toCol t (min ((nthBefore t.tabs t.cursor.col n).getD 0) (t.cols - 1))

def withTabs (t : Terminal) (tabs : List Nat) : Terminal := { t with tabs := tabs }

/-- the functions this specification covers -/
def isTabOp : Function → Bool
  | .hts | .tbc _ | .ctc _ | .ht | .cht _ | .cbt _ => true
  | _ => false

/-- functions that edit the stop vector (a terminal that never executed one is "never customised") -/
def editsTabs : Function → Bool
  | .hts | .tbc _ | .ctc _ => true
  | _ => false

/-- complete effect of a tab function: the stop vector or the cursor column changes as the property
    says, everything else is unchanged -/
def tabSpec (t : Terminal) : Function → Terminal
  | .hts => withTabs t (setAtCursor t.tabs t.cursor.col t.cols)
  | .ctc .set => withTabs t (setAtCursor t.tabs t.cursor.col t.cols)
  | .ctc .clearCurrentColumn => withTabs t (unsetRef t.tabs t.cursor.col)
  | .tbc .currentColumn => withTabs t (unsetRef t.tabs t.cursor.col)
  | .ctc .clearAll => withTabs t []
  | .tbc .all => withTabs t []
  | .ht => tabForward t 1
  | .cht n => tabForward t (arg n)
  | .cbt n => tabBackward t (arg n)
  | _ => t

/-- the oracle's partial specification (only from states satisfying the invariant, which is the
    hypothesis of the theorems) -/
def specStep (t : Terminal) (f : Function) : Option Terminal :=
  if isTabOp f then some (tabSpec t f) else none

/-- The functions that may change the stop vector: HTS, TBC, CTC (they edit it), RIS (back to the
    defaults) and XTWINOPS (a resize, when enabled).  Everything else — HT / CHT / CBT themselves,
    printing, erasing, scrolling, save / restore cursor, DECSTR, every DEC mode in both directions
    (entering and leaving the alternate screen included) — leaves the stops exactly as they are
    (`Avt.C18_tabs_persist`).  A resize has its own rule (`resizeRef`). -/
def setsTabs : Function → Bool
  | .hts | .tbc _ | .ctc _ | .ris | .xtwinops _ _ => true
  | _ => false

/-! ### oracle -/

def checkStep (ev : StepEv) : List Verdict :=
  let p := ev.prev.terminal
  let n := ev.next.terminal
  let isResize := ev.kind == .resize
  let neverCustomised := p.tabs == tabsRef p.cols
  let noEdit := isResize || !(ev.funs.any editsTabs)
  [ check "tabs-sorted-and-inside-the-screen" true (tabsOK n.tabs n.cols),
    check "resize-rule" (isResize && ev.cols != p.cols)
      (!isResize || n.tabs == resizeRef p.tabs p.cols ev.cols),
    check "never-customised-equals-fresh-of-current-width" (neverCustomised && noEdit && isResize)
      (!(neverCustomised && noEdit) || n.tabs == tabsRef n.cols) ]
  ++ (if isResize || ev.funs.isEmpty then [] else
      match foldSpec specStep ev.funs p with
      | some expected => [check "tab-op" true (n == afterCall ev.kind expected)]
      | none => [])
  -- the stop vector is state that only HTS / TBC / CTC, RIS and a resize may change
  ++ (if !isResize && !ev.funs.isEmpty && ev.funs.all (fun f => !setsTabs f) then
        [check "tabs-persist" (p.tabs != tabsRef p.cols) (n.tabs == p.tabs)]
      else [])

def checkNew (cols _rows : Nat) (_lim : Option Nat) (st : Vt) : List Verdict :=
  [ check "new-has-default-stops" true (st.terminal.tabs == tabsRef cols),
    check "new-tabs-ok" true (tabsOK st.terminal.tabs st.terminal.cols) ]

def checkParserStep (_prev : Parser) (_c : Nat) (_next : Parser) (_fn : String) : List Verdict := []

def checkDirective (_name : String) (_args : List String) (_inst : String → Option Inst)
    (_tcOut : Nat → List (List Nat)) : List Verdict × List (Nat × Inst) := ([], [])

end Avt.Spec.C18
