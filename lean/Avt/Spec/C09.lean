/-
  Avt.Spec.C09 — oracle of property C09 (decidable predicates evaluated on implementation states;
  the same definitions the theorems in Avt/Props/C09.lean are stated with).

  C09: for input made of printable characters and CR LF line breaks, `text()` returns exactly the
  input lines (trailing white space trimmed as `str::trim_end` does; trailing empty lines aside),
  whatever the geometry; unwrapping `lines()` with `TextUnwrapper` gives the same lines up to
  trailing white space; the result is the same for every width.

  The harness feeds the same input (`expected` joined by CR LF) to two instances with different
  geometries and unlimited scrollback, queries `text()` and the TextUnwrapper output of both
  (`TEXT k`, `UNWRAP k`), and then emits `X C09 k0 k1 n hexline…` with the expected logical lines.
-/
import Avt.Spec.Base

namespace Avt.Spec.C09
open Avt Avt.Spec

/-- a character that the parser prints from the ground state: not C0, not C1, a scalar value
    (DEL 0x7F is printed by this parser and counts as printable, as in C04) -/
def isPrintable (c : Nat) : Bool := 0x20 ≤ c && !(0x80 ≤ c && c ≤ 0x9F) && isScalar c

/-- the precondition of C09 on the expected lines -/
def allPrintable (ls : List (List Nat)) : Bool := ls.all fun l => l.all isPrintable

/-- the input that the expected lines stand for: the lines joined by CR LF -/
def inputOf : List (List Nat) → List Nat
  | [] => []
  | [l] => l
  | l :: ls => l ++ [0x0d, 0x0a] ++ inputOf ls

/-- "trailing spaces trimmed", read as Rust's `str::trim_end`: trailing Unicode `White_Space` -/
def trimEndWs (s : List Nat) : List Nat := trimEnd s

/-- "trailing empty lines aside" -/
def dropTrailingEmpty (ls : List (List Nat)) : List (List Nat) :=
  (ls.reverse.dropWhile List.isEmpty).reverse

/-- what `text()` must be, up to trailing empty lines -/
def expectedText (expected : List (List Nat)) : List (List Nat) :=
  dropTrailingEmpty (expected.map trimEndWs)

/-- clause 1: `text()` is the input lines, trailing white space trimmed, trailing empty lines aside -/
def textOK (expected text : List (List Nat)) : Bool :=
  dropTrailingEmpty text == expectedText expected

/-- pointwise "is a prefix of" on the common indices -/
def prefixwise : List (List Nat) → List (List Nat) → Bool
  | a :: as, b :: bs => a.isPrefixOf b && prefixwise as bs
  | _, _ => true

/-- clause 2: the TextUnwrapper output gives the same lines *up to trailing white space*.
    `Buffer::text` trims the end of the whole joined logical line, `TextUnwrapper::push` trims only the
    final row: for a logical line whose final row is all white space while earlier rows end in white
    space (e.g. "ab" + 8 spaces at width 5) text() gives "ab" and the unwrapper "ab   ".  Hence the
    comparison is made after `trimEndWs` (and trailing empty lines aside); in addition every unwrapped
    line must be a prefix of the corresponding input line (white space is only ever removed). -/
def unwrapOK (expected unwrap : List (List Nat)) : Bool :=
  dropTrailingEmpty (unwrap.map trimEndWs) == expectedText expected
    && prefixwise unwrap expected

/-- clause 3: two geometries give the same text (trailing empty lines aside: their number depends on
    the height) -/
def sameText (t0 t1 : List (List Nat)) : Bool := dropTrailingEmpty t0 == dropTrailingEmpty t1

/-- everything C09 says about one instance -/
def instOK (expected : List (List Nat)) (text unwrap : List (List Nat)) : Bool :=
  textOK expected text && unwrapOK expected unwrap

def checkStep (_ev : StepEv) : List Verdict := []

def checkNew (_cols _rows : Nat) (_lim : Option Nat) (_st : Vt) : List Verdict := []

def checkParserStep (_prev : Parser) (_c : Nat) (_next : Parser) (_fn : String) : List Verdict := []

/-- hex token of the trace (`-` = empty, else `.`-separated hexadecimal code points) -/
def hexVal (s : String) : Option Nat :=
  s.foldl (fun acc ch =>
    match acc with
    | none => none
    | some n =>
      let d := ch.toNat
      if 0x30 ≤ d ∧ d ≤ 0x39 then some (n * 16 + (d - 0x30))
      else if 0x61 ≤ d ∧ d ≤ 0x66 then some (n * 16 + (d - 0x61 + 10))
      else if 0x41 ≤ d ∧ d ≤ 0x46 then some (n * 16 + (d - 0x41 + 10))
      else none) (if s.isEmpty then none else some 0)

def hexLine (s : String) : Option (List Nat) :=
  if s == "-" then some [] else (s.splitOn ".").mapM hexVal

/-- the instance qualifies: primary screen, unlimited scrollback (what the generator builds) -/
def instApplies (i : Inst) : Bool :=
  i.st.terminal.activeBufferType == .primary && i.st.terminal.scrollbackLimit == none
    && !i.sawResize

def checkOne (tag : String) (expected : List (List Nat)) (nt : Bool) (i : Inst) : List Verdict :=
  if i.dead then [check s!"C09.panicked[{tag}]" nt false] else
  match i.lastText, i.lastUnwrap with
  | some t, some u =>
    [check s!"C09.text[{tag}]" nt (textOK expected t),
     check s!"C09.unwrap[{tag}]" nt (unwrapOK expected u)]
  | _, _ => [check s!"C09.no-text-returned[{tag}]" nt false]

def checkDirective (name : String) (args : List String) (inst : String → Option Inst)
    (_tcOut : Nat → List (List Nat)) : List Verdict × List (Nat × Inst) :=
  if name != "C09" then ([], []) else
  match args with
  | k0 :: k1 :: n :: hexlines =>
    match inst k0, inst k1, n.toNat?, hexlines.mapM hexLine with
    | some i0, some i1, some n, some expected =>
      if expected.length != n then ([check "C09.bad-directive" false false], []) else
      -- precondition of the property: printable characters only, fresh unlimited primary screens
      if !(allPrintable expected && instApplies i0 && instApplies i1) then
        ([check "C09.precondition" false true], [])
      else
        let nt := expected.any (fun l => !l.isEmpty)
        let both : List Verdict :=
          match i0.lastText, i1.lastText with
          | some t0, some t1 => [check "C09.width-independent" nt (sameText t0 t1)]
          | _, _ => []
        (checkOne "0" expected nt i0 ++ checkOne "1" expected nt i1 ++ both, [])
    | _, _, _, _ => ([check "C09.bad-directive" false false], [])
  | _ => ([check "C09.bad-directive" false false], [])

end Avt.Spec.C09
