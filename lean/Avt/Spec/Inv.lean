/-
  Avt.Spec.Inv — the global invariant (C02) as a decidable predicate, used both in the theorems
  and, evaluated on snapshots of the implementation, as the oracle of the C01/C02 checks.
-/
import Avt.Model.Vt

namespace Avt

/-- strictly increasing -/
def strictlyIncreasing : List Nat → Bool
  | [] => true
  | [_] => true
  | a :: b :: rest => a < b && strictlyIncreasing (b :: rest)

def lastUnwrapped : List Line → Bool
  | [] => true
  | [l] => !l.wrapped
  | _ :: ls => lastUnwrapped ls

/-- parser register invariant: everything beyond the registers in use is zero -/
def Param.isZero (q : Param) : Bool := q.curPart == 0 && q.parts.all (· == 0)

def Param.ok (q : Param) : Bool :=
  q.parts.length == Gen.maxParamLen && q.curPart < Gen.maxParamLen
    && (q.parts.drop (q.curPart + 1)).all (· == 0) && q.parts.all (· < 65536)

def PInv (p : Parser) : Bool :=
  p.params.length == Gen.paramsLen && p.curParam < Gen.paramsLen
    && p.params.all Param.ok && (p.params.drop (p.curParam + 1)).all Param.isZero

/-- buffer invariant -/
def BInv (b : Buffer) : Bool :=
  1 ≤ b.cols && 1 ≤ b.rows && b.view.length == b.rows
    && b.view.all (fun l => l.cells.length == b.cols)
    && b.sb.all (fun l => l.cells.length == b.cols)
    && lastUnwrapped b.view
    && (match b.limit with | some l => l.hard == l.soft + l.soft / Gen.hardDiv | none => true)
    && (b.trimNeeded || match b.limit with | some l => b.sb.length ≤ l.hard | none => true)

def tabsOK (tabs : List Nat) (cols : Nat) : Bool :=
  strictlyIncreasing tabs && tabs.all (fun t => 0 < t && t < cols)

/-- terminal invariant -/
def TInv (t : Terminal) : Bool :=
  t.buffer.cols == t.cols && t.buffer.rows == t.rows && BInv t.buffer && BInv t.otherBuffer
    && t.cursor.row < t.rows
    && ((t.pendingWrap && t.cursor.col == t.cols) || (!t.pendingWrap && t.cursor.col < t.cols))
    && t.topMargin ≤ t.bottomMargin && t.bottomMargin < t.rows
    && (t.topMargin < t.bottomMargin || (t.topMargin == 0 && t.bottomMargin + 1 == t.rows))
    && tabsOK t.tabs t.cols
    && t.savedCtx.cursorCol < t.cols && t.savedCtx.cursorRow < t.rows
    && (t.activeBufferType == .primary
        || (t.alternateSavedCtx.cursorCol < t.otherBuffer.cols
            && t.alternateSavedCtx.cursorRow < t.otherBuffer.rows))
    && t.dirtyLines.length == t.rows
    && t.activeCharset < 2
    && (match t.activeBufferType with
        | .primary => t.buffer.limit == t.scrollbackLimit.map Buffer.mkLimit
        | .alternate => t.buffer.limit == some (Buffer.mkLimit 0)
                        && t.otherBuffer.limit == t.scrollbackLimit.map Buffer.mkLimit)
    && !t.xtwinops

def Inv (v : Vt) : Bool := PInv v.parser && TInv v.terminal

/-- the clause of C02 about the value returned by a call -/
def changesOK (rows : Nat) (lines : List Nat) : Bool :=
  strictlyIncreasing lines && lines.all (· < rows)

/-- what C02 states about the public view of the state (the part visible through the API) -/
def geomOK (v : Vt) : Bool :=
  let t := v.terminal
  v.view.length == t.rows && v.lines.all (fun l => l.cells.length == t.cols)
    && t.rows ≤ v.lines.length && lastUnwrapped v.lines
    && t.cursor.row < t.rows && t.cursor.col ≤ t.cols
    && (t.cursor.col < t.cols || t.pendingWrap)

end Avt
