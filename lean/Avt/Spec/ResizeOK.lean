/-
  Avt.Spec.ResizeOK — the contract between `Buffer.resize` (reflow, cursor translation) and the rest
  of the terminal.  Proved in Avt/Lemmas/Resize*.lean; used as a hypothesis-free lemma (or, until
  that proof is complete, as an explicit hypothesis) by the invariant-preservation theorems.
-/
import Avt.Spec.Inv

namespace Avt

/-- `Buffer.resize` succeeds and re-establishes the buffer invariant at the new geometry, keeps the
    scrollback limit, and returns a cursor inside the new screen (the column is untouched when the
    width does not change — it may be the wrap-pending column). -/
def ResizeOKAt (b : Buffer) (c r : Nat) (cur : Nat × Nat) : Prop :=
  ∃ b' cur', b.resize c r cur = some (b', cur') ∧ BInv b' = true ∧ b'.cols = c ∧ b'.rows = r
    ∧ b'.limit = b.limit ∧ cur'.2 < r ∧ (if c = b.cols then cur'.1 = cur.1 else cur'.1 < c)

/-- for every buffer satisfying the invariant, every new geometry ≥ 1x1 and every cursor whose row is
    inside the old or the new screen (the three call sites: direct resize, `?47/1047 l/h` with the
    current cursor applied to a stale buffer, `?1049l` with the restored old-geometry cursor) -/
def ResizeOK : Prop :=
  ∀ (b : Buffer) (c r : Nat) (cur : Nat × Nat), BInv b = true → 1 ≤ c → 1 ≤ r →
    (cur.2 < b.rows ∨ cur.2 < r) → ResizeOKAt b c r cur

end Avt
