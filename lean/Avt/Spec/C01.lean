/-
  Avt.Spec.C01 — oracle of property C01 (decidable predicates evaluated on implementation states;
  the same definitions the theorems in Avt/Props/C01.lean are stated with).
-/
import Avt.Spec.Base
import Avt.Spec.C02

namespace Avt.Spec.C01
open Avt Avt.Spec

/-- panics are reported by the driver itself (a `PANIC` result line); here: the invariant the
    totality theorem needs holds after every call -/
def checkStep (ev : StepEv) : List Verdict := C02.checkStep ev

def checkNew (cols rows : Nat) (lim : Option Nat) (st : Vt) : List Verdict := C02.checkNew cols rows lim st

def checkParserStep (_prev : Parser) (_c : Nat) (_next : Parser) (_fn : String) : List Verdict := []

def checkDirective (_name : String) (_args : List String) (_inst : String → Option Inst)
    (_tcOut : Nat → List (List Nat)) : List Verdict × List (Nat × Inst) := ([], [])

end Avt.Spec.C01
