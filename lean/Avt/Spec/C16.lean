/-
  Avt.Spec.C16 — oracle of property C16 "the alternate screen never disturbs the primary screen"
  (decidable predicates evaluated on implementation states; the same definitions the theorems in
  Avt/Props/C16.lean are stated with).

  An *excursion* is: a state `m` on the primary screen (the mark), `CSI ? 47/1047/1049 h`, any
  input that neither leaves the alternate screen nor is RIS (possibly with `resize` calls in
  between), `CSI ? 47/1047/1049 l`.  The script generator announces the phases:

    X C16MARK k                    the state of instance k is the mark
    X C16ENTER k <mode>            the entering call has just returned
    X C16DURING k                  after every call of the excursion
    X C16AFTER k <enter> <leave>   the leaving call has just returned

  When a `TEXT k` query precedes a directive, the strings `Vt::text()` itself returned are compared
  (`Inst.lastText`); otherwise `text` is computed from the implementation's state.

  What may and may not differ, decided from the code (terminal.rs `switch_to_*_buffer`, `reflow`,
  `gc`):
  * entering moves the primary `Buffer` value into `other_buffer` unchanged, and `gc()` at the end of
    a call only touches the active buffer, so during the whole excursion the parked primary is the
    marked buffer exactly — also across resizes (only the active buffer is reflowed).  The oracle
    compares everything except `trim_needed` (not observable through the API).
  * the primary's saved context is parked in `alternate_saved_ctx`; `?1049h` while already on the
    alternate screen saves into `saved_ctx` (the alternate's own), so the parked context is constant.
  * leaving runs `Buffer::resize(cols, rows)` on the parked buffer: with the geometry of the mark
    this is the identity on the lines (it sets `trim_needed`), and the `gc()` that ends the leaving
    call then trims the scrollback exactly when it is longer than the hard limit — impossible when
    the mark follows a `feed_str`/`resize` call, possible after per-char `feed()` calls; `trimmedSb`
    is that (deterministic) result and the lines handed out are the ones cut.
  * with a resize in between only the logical text is preserved (`textRel`); the sharp statement
    about the cursor is C10's.
-/
import Avt.Spec.Base

namespace Avt.Spec.C16
open Avt Avt.Spec

/-! ### vocabulary -/

/-- a screen of `rows × cols` blank cells carrying `pen`, no row wrapped -/
def blankScreen (cols rows : Nat) (pen : Pen) : List Line := List.replicate rows (Line.blank cols pen)

/-- the cursor context `?1049h` saves on entry: column clamped into the screen -/
def entryCtx (t : Terminal) : SavedCtx :=
  { cursorCol := min t.cursor.col (t.cols - 1), cursorRow := t.cursor.row, pen := t.pen,
    originMode := t.originMode, autoWrapMode := t.autoWrapMode }

/-- the primary's saved context while it is parked, for an excursion entered with `mode` from `m` -/
def parkedCtx (m : Terminal) (mode1049 : Bool) : SavedCtx := if mode1049 then entryCtx m else m.savedCtx

/-- equality of buffers up to the `trim_needed` flag: lines, scrollback, geometry, limit -/
def sameBuffer (a b : Buffer) : Bool :=
  a.view == b.view && a.sb == b.sb && a.cols == b.cols && a.rows == b.rows && a.limit == b.limit

/-- the scrollback `gc()` leaves once `trim_needed` is set -/
def trimmedSb (b : Buffer) : List Line :=
  match b.limit with
  | some l => if b.sb.length > l.hard then b.sb.drop (b.sb.length - l.soft) else b.sb
  | none => b.sb

def isPrefixOf (a b : List Nat) : Bool := a == b.take a.length

def dropTrailingEmpty (ls : List (List Nat)) : List (List Nat) :=
  (ls.reverse.dropWhile List.isEmpty).reverse

/-- all lines but the last are equal, the last one of `new` is a prefix of its counterpart -/
def prefixLines : List (List Nat) → List (List Nat) → Bool
  | [], _ => true
  | _ :: _, [] => false
  | [n], o :: _ => isPrefixOf n o
  | n :: ns, o :: os => n == o && prefixLines ns os

/-- logical text after a resized excursion: never altered, at most cut short at the end
    (trailing empty lines, which a taller screen adds, do not count) -/
def textRel (old new : List (List Nat)) : Bool := prefixLines (dropTrailingEmpty new) old

/-- the new alternate screen: blank with the pen current at entry, unwrapped, no scrollback -/
def freshAlternate (m s : Terminal) : Bool :=
  s.activeBufferType == .alternate && s.cols == m.cols && s.rows == m.rows
    && s.buffer.view == blankScreen m.cols m.rows m.pen && s.buffer.sb == []

/-- frame condition while the alternate screen is showing, size unchanged since the mark
    (`m` carries the parked context in `savedCtx`, see `checkDirective`) -/
def primaryParked (m s : Terminal) : Bool :=
  sameBuffer s.otherBuffer m.buffer && s.alternateSavedCtx == m.savedCtx

/-- back on the primary, same size: view identical, scrollback identical up to `gc()` -/
def primaryRestored (m s : Terminal) : Bool :=
  s.activeBufferType == .primary && s.buffer.view == m.buffer.view && s.buffer.sb == trimmedSb m.buffer
    && s.buffer.cols == m.buffer.cols && s.buffer.rows == m.buffer.rows && s.buffer.limit == m.buffer.limit

/-- `?1049l`: cursor, pen, origin mode and auto-wrap mode come back from the parked context -/
def ctxRestored (c : SavedCtx) (s : Terminal) : Bool :=
  s.cursor.col == c.cursorCol && s.cursor.row == c.cursorRow && s.pen == c.pen
    && s.originMode == c.originMode && s.autoWrapMode == c.autoWrapMode && !s.pendingWrap

/-- did the scrollback of the marked primary survive `gc()` untrimmed? -/
def untrimmed (b : Buffer) : Bool := trimmedSb b == b.sb

/-- DEC private modes 47 / 1047 (`altScreenBuffer`) and 1049 (`saveCursorAltScreenBuffer`) -/
def isAltScreenMode : DecMode → Bool
  | .altScreenBuffer | .saveCursorAltScreenBuffer => true
  | _ => false

/-- the functions an excursion excludes: leaving the alternate screen (`DECRST 47/1047/1049`), RIS -/
def endsExcursion : Function → Bool
  | .decrst ms => ms.any isAltScreenMode
  | .ris => true
  | _ => false

/-- the functions the parser emits for the input `s` from parser state `p` -/
def emitted : Parser → List Nat → List Function
  | _, [] => []
  | p, c :: cs =>
    match p.feed c with
    | none => []
    | some (p', none) => emitted p' cs
    | some (p', some f) => f :: emitted p' cs

/-- `Buffer.resize` to the geometry the buffer already has only sets `trim_needed`
    (proved as `Avt.Buffer.resize_same` in Avt/Lemmas/ResizeSame.lean) -/
def ResizeSame : Prop :=
  ∀ (b : Buffer) (cur : Nat × Nat), BInv b = true → cur.2 < b.rows →
    b.resize b.cols b.rows cur = some ({ b with trimNeeded := true }, cur)

/-! ### the oracle -/

/-- `Buffer.textGo` with the pending logical line kept as a reversed list of row texts, so that a
    logical line of `n` rows costs `O(n)` instead of `O(n²)` (sessions with `REP 65535` produce
    logical lines of 65535 cells).  `Avt.Lemmas.C16Text`: `fastTextGo ls [] = Buffer.textGo ls []`. -/
def fastTextGo : List Line → List (List Nat) → List (List Nat)
  | [], acc =>
    let cur := acc.reverse.flatten
    if cur.isEmpty then [] else [trimEnd cur]
  | l :: ls, acc =>
    let acc := l.text :: acc
    if !l.wrapped then trimEnd acc.reverse.flatten :: fastTextGo ls [] else fastTextGo ls acc

/-- `Terminal.text`, computed with `fastTextGo` -/
def textOf (t : Terminal) : List (List Nat) := fastTextGo t.primaryBuffer.lines []

/-- the text the implementation reports: `Vt::text()` itself when the script queried it just before
    the directive (`TEXT k`), otherwise `text` of the implementation's state -/
def obsText (i : Inst) : List (List Nat) := i.lastText.getD (textOf i.st.terminal)

def sameSize (a b : Terminal) : Bool := a.cols == b.cols && a.rows == b.rows

def checkStep (_ev : StepEv) : List Verdict := []

def checkNew (_cols _rows : Nat) (_lim : Option Nat) (_st : Vt) : List Verdict := []

def checkParserStep (_prev : Parser) (_c : Nat) (_next : Parser) (_fn : String) : List Verdict := []

def checkDirective (name : String) (args : List String) (inst : String → Option Inst)
    (_tcOut : Nat → List (List Nat)) : List Verdict × List (Nat × Inst) :=
  match args with
  | [] => ([], [])
  | ks :: rest =>
    match ks.toNat?, inst ks with
    | some k, some i =>
      if i.dead then ([], []) else
      let s := i.st.terminal
      -- give up on this excursion (precondition of the property no longer applies)
      let abandon : List Verdict × List (Nat × Inst) :=
        ([.pass false], [(k, { i with mark := none, lastText := none })])
      match name, rest with
      | "C16MARK", [] =>
        -- start counting from here: RIS seen, unconsumed `Changes`, lines handed out
        ([], [(k, { i with mark := some i.st, markResized := false, sawRis := false, sawDrop := false,
                           drained := [], lastText := none })])
      | "C16ENTER", [modeS] =>
        match i.mark, modeS.toNat? with
        | some mv, some mode =>
          let m := mv.terminal
          if m.activeBufferType != .primary || i.sawRis then abandon else
          let vs :=
            [ check "C16.enter-blank-screen-with-current-pen" true (freshAlternate m s),
              check "C16.enter-primary-parked-unchanged" true (sameBuffer s.otherBuffer m.buffer),
              check "C16.enter-saved-context" (mode == 1049) (s.alternateSavedCtx == parkedCtx m (mode == 1049)),
              check "C16.enter-text-unchanged" true (obsText i == textOf m) ]
          -- from now on the mark carries the context the primary was parked with
          let mv' : Vt := { mv with terminal := { m with savedCtx := parkedCtx m (mode == 1049) } }
          (vs, [(k, { i with mark := some mv', lastText := none })])
        | _, _ => ([], [])
      | "C16DURING", _ =>
        match i.mark with
        | some mv =>
          let m := mv.terminal
          if s.activeBufferType != .alternate || i.sawRis then abandon else
          let resized := i.markResized || !sameSize s m
          let vs :=
            if resized then
              [ check "C16.during-resized-text-not-altered" true (textRel (textOf m) (obsText i)) ]
            else
              [ check "C16.during-primary-parked-unchanged" true (primaryParked m s),
                check "C16.during-text-unchanged" true (obsText i == textOf m) ]
          (vs, [(k, { i with markResized := resized, lastText := none })])
        | none => ([.pass false], [])
      | "C16AFTER", [enterS, leaveS] =>
        match i.mark, enterS.toNat?, leaveS.toNat? with
        | some mv, some enter, some leave =>
          let m := mv.terminal
          if i.sawRis then abandon else
          let resized := i.markResized || !sameSize s m
          let vs :=
            if resized then
              [ check "C16.after-resized-on-primary" true (s.activeBufferType == .primary),
                check "C16.after-resized-invariants" true (Inv i.st && geomOK i.st),
                check "C16.after-resized-text-not-altered" (!i.sawDrop)
                  (i.sawDrop || s.activeBufferType != .primary
                    || textRel (textOf m) (fastTextGo (i.drained ++ s.buffer.lines) [])) ]
            else
              [ check "C16.after-primary-identical" true (primaryRestored m s),
                check "C16.after-scrollback-cut-is-handed-out" (!i.sawDrop)
                  (i.sawDrop || i.drained ++ s.buffer.sb == m.buffer.sb),
                check "C16.after-text-unchanged" (untrimmed m.buffer)
                  (!untrimmed m.buffer || obsText i == textOf m),
                check "C16.after-1049-context-restored" (leave == 1049 && enter == 1049)
                  (leave != 1049 || ctxRestored m.savedCtx s) ]
          (vs, [(k, { i with mark := none, markResized := false, lastText := none })])
        | _, _, _ => ([], [])
      | _, _ => ([], [])
    | _, _ => ([], [])

end Avt.Spec.C16
