/-
  Avt.Spec.C15 — oracle of property C15 "changed-line reports are sound" (decidable predicates
  evaluated on implementation states; the same definitions the theorems in Avt/Props/C15.lean are
  stated with).

  Vocabulary of the property: a *visible row* is an index `i < rows`; its *cells* are the characters
  and pens of view row `i` (wrap marks are not cells); a row *changed* during a call when its cells
  after the call differ from its cells before the call, or when the row did not exist before
  (resize to more rows; a row whose width changed has a different cell list, hence changed).
  Soundness: every changed row is in the returned `Changes.lines`.

  Step level (used by the theorems): while a call runs, flags are only ever set (`dirtyMono`), and
  every function flags each row whose cells it changes (`dirtySound`); `changes()` reports exactly
  the flagged rows.  Flags left over from before the call (after `Vt::new`: all set; after per-char
  `feed()`: accumulated) only add reported rows.
-/
import Avt.Spec.Base

namespace Avt.Spec.C15
open Avt Avt.Spec

/-- the cells of visible row `i` (`none`: there is no such row) -/
def rowCells (t : Terminal) (i : Nat) : Option (List Cell) := (t.buffer.view[i]?).map (·.cells)

/-- row `i` of `t'` is not cell-for-cell what row `i` of `t` was -/
def rowChanged (t t' : Terminal) (i : Nat) : Bool := rowCells t' i != rowCells t i

/-- the visible rows of `t'` whose cells differ from `t` -/
def changedRows (t t' : Terminal) : List Nat := (List.range t'.rows).filter (rowChanged t t')

/-- soundness of a report: every changed row is listed -/
def reportSound (t t' : Terminal) (lines : List Nat) : Bool :=
  (changedRows t t').all fun i => lines.contains i

/-- is the flag of row `i` set? -/
def flagged (t : Terminal) (i : Nat) : Bool := t.dirtyLines[i]? == some true

/-- step-level soundness: every row changed between `t` and `t'` is flagged in `t'` -/
def dirtySound (t t' : Terminal) : Bool := (changedRows t t').all (flagged t')

/-- flags are never cleared while a call runs (as long as the number of rows is the same; a change
    of the number of rows re-flags everything, which `dirtySound` covers) -/
def dirtyMono (t t' : Terminal) : Bool :=
  t.dirtyLines.length != t'.dirtyLines.length
    || (List.range t.dirtyLines.length).all fun i => !flagged t i || flagged t' i

/-- every row is flagged (after `hard_reset`, `reflow`, buffer switches) -/
def allFlagged (t : Terminal) : Bool := (List.range t.rows).all (flagged t)

def checkStep (ev : StepEv) : List Verdict :=
  let t := ev.prev.terminal
  let t' := ev.next.terminal
  match ev.ch with
  | some lines =>
    -- feed_str (either way of disposing of `Changes`) and resize: before/after view vs report
    let changed := changedRows t t'
    [ check "C15.changed-row-not-reported" (!changed.isEmpty) (reportSound t t' lines) ]
  | none =>
    if ev.kind == .feedChars then
      -- `Vt::feed` per character: nothing is reported or cleared, the flags themselves are visible
      [ check "C15.flag-cleared-during-call" (t.dirtyLines.any id) (dirtyMono t t'),
        check "C15.changed-row-not-flagged" (!(changedRows t t').isEmpty) (dirtySound t t') ]
    else []

def checkNew (_cols _rows : Nat) (_lim : Option Nat) (_st : Vt) : List Verdict := []

def checkParserStep (_prev : Parser) (_c : Nat) (_next : Parser) (_fn : String) : List Verdict := []

def checkDirective (_name : String) (_args : List String) (_inst : String → Option Inst)
    (_tcOut : Nat → List (List Nat)) : List Verdict × List (Nat × Inst) := ([], [])

end Avt.Spec.C15
