/-
  Avt.Spec.C15 — oracle of property C15 (decidable predicates evaluated on implementation states;
  the same definitions the theorems in Avt/Props/C15.lean are stated with).
-/
import Avt.Spec.Base

namespace Avt.Spec.C15
open Avt Avt.Spec

def checkStep (_ev : StepEv) : List Verdict := []

def checkNew (_cols _rows : Nat) (_lim : Option Nat) (_st : Vt) : List Verdict := []

def checkParserStep (_prev : Parser) (_c : Nat) (_next : Parser) (_fn : String) : List Verdict := []

def checkDirective (_name : String) (_args : List String) (_inst : String → Option Inst)
    (_tcOut : Nat → List (List Nat)) : List Verdict × List (Nat × Inst) := ([], [])

end Avt.Spec.C15
