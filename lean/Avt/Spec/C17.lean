/-
  Avt.Spec.C17 — oracle of property C17 (decidable predicates evaluated on implementation states;
  the same definitions the theorems in Avt/Props/C17.lean are stated with).

  The property is specified per step, on the two saved contexts kept in the state
  (`savedCtx` = context of the screen that is showing, `alternateSavedCtx` = context of the other one):

  (1) a save (DECSC `ESC 7`, SCOSC `CSI s`, `?1048h`, the first half of `?1049h`) records
      `ctxOf t` = (min col (cols-1), row, pen, origin mode, auto-wrap mode) in `savedCtx`;
  (2) a restore (DECRC `ESC 8`, SCORC `CSI u`, `?1048l`, the second half of `?1049l`) sets column,
      row, pen, origin mode and auto-wrap mode from `savedCtx`, clears the pending wrap and leaves
      both contexts as they are;
  (3) every other function leaves both contexts unchanged, except: a switch of screens
      (`?47/1047/1049 h/l`) swaps them (and clamps the one that becomes active into the screen),
      DECSTR resets the active one to the power-on default, RIS resets both, and a resize clamps
      the active one into the new screen.

  `stepOK t f t'` is that specification for one function `f` taking `t` to `t'`; it covers every
  `Function`.

  (4) a list of several DEC modes in one sequence (`CSI ? 1047 ; 1048 h`, `CSI ? 1048 ; 1047 h`,
      `CSI ? 1047 ; 1049 l`, …) acts left to right, each member exactly like the single-mode sequence:
      `afterDecset t ms` / `afterDecrst t ms` fold the single-mode rules over the list, threading which
      screen is showing, the two contexts and (for DECSET, where a later `?1048`/`?1049` saves the
      context in force at that point of the list) column, row, pen, origin mode and auto-wrap mode.
-/
import Avt.Spec.Base

namespace Avt.Spec.C17
open Avt Avt.Spec

/-- the context a save records -/
def ctxOf (t : Terminal) : SavedCtx :=
  { cursorCol := min t.cursor.col (t.cols - 1), cursorRow := t.cursor.row, pen := t.pen,
    originMode := t.originMode, autoWrapMode := t.autoWrapMode }

/-- power-on default: (0,0), default pen, origin off, auto-wrap on -/
def defaultCtx : SavedCtx :=
  { cursorCol := 0, cursorRow := 0, pen := Pen.default, originMode := false, autoWrapMode := true }

/-- a saved position clamped into a `cols × rows` screen -/
def clampCtx (cols rows : Nat) (s : SavedCtx) : SavedCtx :=
  { s with cursorCol := min s.cursorCol (cols - 1), cursorRow := min s.cursorRow (rows - 1) }

def ctxInside (cols rows : Nat) (s : SavedCtx) : Bool := s.cursorCol < cols && s.cursorRow < rows

/-- `t'` shows exactly the context `s` (clause 2) -/
def restoredFrom (s : SavedCtx) (t' : Terminal) : Bool :=
  t'.cursor.col == s.cursorCol && t'.cursor.row == s.cursorRow && t'.pen == s.pen
    && t'.originMode == s.originMode && t'.autoWrapMode == s.autoWrapMode && !t'.pendingWrap

/-- pen and the two modes of `s` (the part of a restore that a following reflow cannot disturb) -/
def restoredModes (s : SavedCtx) (t' : Terminal) : Bool :=
  t'.pen == s.pen && t'.originMode == s.originMode && t'.autoWrapMode == s.autoWrapMode
    && !t'.pendingWrap

def ctxKept (t t' : Terminal) : Bool :=
  t'.savedCtx == t.savedCtx && t'.alternateSavedCtx == t.alternateSavedCtx

/-- cursor, pen, modes and screen contents are the same (what a save must not disturb) -/
def sameVisible (t t' : Terminal) : Bool :=
  t'.cursor == t.cursor && t'.pen == t.pen && t'.originMode == t.originMode
    && t'.autoWrapMode == t.autoWrapMode && t'.pendingWrap == t.pendingWrap
    && t'.buffer.view == t.buffer.view && t'.activeBufferType == t.activeBufferType

/-- does setting (`set = true`) / resetting this DEC mode write a saved context or swap them? -/
def modeTouches (set : Bool) : DecMode → Bool
  | .saveCursor => set
  | .altScreenBuffer => true
  | .saveCursorAltScreenBuffer => true
  | _ => false

/-- functions that write or swap the saved contexts (restores do not) -/
def touchesCtx : Function → Bool
  | .decsc | .scosc | .decstr | .ris => true
  | .decset ms => ms.any (modeTouches true)
  | .decrst ms => ms.any (modeTouches false)
  | _ => false

/-- contexts after showing screen `to`: swapped when it was not showing; the one that becomes (or
    stays) active is clamped into the screen -/
def showScreen (t : Terminal) (to : BufferType) (s a : SavedCtx) : SavedCtx × SavedCtx :=
  if t.activeBufferType = to then (clampCtx t.cols t.rows s, a) else (clampCtx t.cols t.rows a, s)

/-- expected `(savedCtx, alternateSavedCtx)` after setting / resetting one DEC mode in `t` -/
def modeCtx (t : Terminal) (set : Bool) (m : DecMode) : SavedCtx × SavedCtx :=
  match m, set with
  | .saveCursor, true => (ctxOf t, t.alternateSavedCtx)
  | .saveCursorAltScreenBuffer, true => showScreen t .alternate (ctxOf t) t.alternateSavedCtx
  | .altScreenBuffer, true => showScreen t .alternate t.savedCtx t.alternateSavedCtx
  | .altScreenBuffer, false => showScreen t .primary t.savedCtx t.alternateSavedCtx
  | .saveCursorAltScreenBuffer, false => showScreen t .primary t.savedCtx t.alternateSavedCtx
  | _, _ => (t.savedCtx, t.alternateSavedCtx)

/-- the context `?1049l` restores: the primary screen's -/
def primaryCtx (t : Terminal) : SavedCtx :=
  if t.activeBufferType = .primary then t.savedCtx else t.alternateSavedCtx

/-- the primary screen's buffer has the terminal's geometry (no resize while it was parked) -/
def primaryFresh (t : Terminal) : Bool :=
  t.activeBufferType == .primary || (t.otherBuffer.cols == t.cols && t.otherBuffer.rows == t.rows)

/-! ### lists of DEC modes: the members act left to right

  Abstract state threaded through the list: which screen is showing, the context of that screen, the
  context of the other one (`Screens`), and for DECSET the context a save would record at that point
  (`ListSt.cur`).  What the members do to it:

  * `?6h` sets origin mode and homes the cursor: column 0, row = top margin (margins are not changed
    by any DEC mode, so it is the top margin of the state the list started in);
  * `?7h` sets auto-wrap mode;
  * `?1048h` records `cur` as the context of the screen that is showing;
  * `?47h`/`?1047h` show the alternate screen (`Screens.show`): when the primary one was showing, the
    two contexts are swapped and a fresh alternate buffer of the current size is built, so column, row,
    pen and the two modes stay what they are; when the alternate one was already showing nothing
    is swapped; in both cases the context that is active afterwards is clamped into the screen;
  * `?1049h` = `?1048h` then `?1047h`;
  * `?1h`, `?25h` change none of this.
  * `?47l`/`?1047l`/`?1049l` show the primary screen; no member of a DECRST list writes a context
    (`?1048l`, `?1049l` only read one), so for DECRST only `Screens` is threaded. -/

/-- which screen is showing, its saved context, the other screen's saved context -/
structure Screens where
  active : BufferType
  saved : SavedCtx
  other : SavedCtx
  deriving DecidableEq

def Screens.of (t : Terminal) : Screens :=
  { active := t.activeBufferType, saved := t.savedCtx, other := t.alternateSavedCtx }

/-- `showScreen` on the threaded state: after showing screen `to` in a `cols × rows` terminal -/
def Screens.show (cols rows : Nat) (sc : Screens) (to : BufferType) : Screens :=
  if sc.active = to then { sc with saved := clampCtx cols rows sc.saved }
  else { active := to, saved := clampCtx cols rows sc.other, other := sc.saved }

/-- `t'` shows the screen and holds the two contexts of `sc` -/
def Screens.holds (sc : Screens) (t' : Terminal) : Bool :=
  t'.activeBufferType == sc.active && t'.savedCtx == sc.saved && t'.alternateSavedCtx == sc.other

/-- state inside a DECSET list: the screens and `cur`, the context a save would record now -/
structure ListSt where
  scr : Screens
  cur : SavedCtx

/-- one member of a DECSET list (`top` = top margin) -/
def setOne (cols rows top : Nat) (st : ListSt) : DecMode → ListSt
  | .origin => { st with cur := { st.cur with cursorCol := 0, cursorRow := top, originMode := true } }
  | .autoWrap => { st with cur := { st.cur with autoWrapMode := true } }
  | .saveCursor => { st with scr := { st.scr with saved := st.cur } }
  | .altScreenBuffer => { st with scr := st.scr.show cols rows .alternate }
  | .saveCursorAltScreenBuffer =>
    { st with scr := Screens.show cols rows { st.scr with saved := st.cur } .alternate }
  | .cursorKeys | .textCursorEnable => st

/-- one member of a DECRST list -/
def rstOne (cols rows : Nat) (sc : Screens) : DecMode → Screens
  | .altScreenBuffer | .saveCursorAltScreenBuffer => sc.show cols rows .primary
  | _ => sc

/-- expected screens (and current context) after `CSI ? ms h` in `t` -/
def afterDecset (t : Terminal) (ms : List DecMode) : ListSt :=
  ms.foldl (setOne t.cols t.rows t.topMargin) { scr := Screens.of t, cur := ctxOf t }

/-- expected screens after `CSI ? ms l` in `t` -/
def afterDecrst (t : Terminal) (ms : List DecMode) : Screens :=
  ms.foldl (rstOne t.cols t.rows) (Screens.of t)

/-- when the last member of a DECRST list is a restore, `t'` shows the context of the screen that
    is showing at that point (which no later member can disturb): all of it after `?1048l`; pen and
    the two modes after `?1049l` (whose position goes through the reflow of the primary buffer) -/
def lastRestoreOK (ms : List DecMode) (t' : Terminal) : Bool :=
  match ms.getLast? with
  | some .saveCursor => restoredFrom t'.savedCtx t'
  | some .saveCursorAltScreenBuffer => restoredModes t'.savedCtx t'
  | _ => true

/-- the specification of one function -/
def stepOK (t : Terminal) (f : Function) (t' : Terminal) : Bool :=
  let pair := (t'.savedCtx, t'.alternateSavedCtx)
  match f with
  | .decsc | .scosc =>
    t'.savedCtx == ctxOf t && t'.alternateSavedCtx == t.alternateSavedCtx && sameVisible t t'
  | .decrc | .scorc =>
    restoredFrom t.savedCtx t' && ctxKept t t' && t'.buffer.view == t.buffer.view
      && t'.cursor.visible == t.cursor.visible
  | .decset [m] =>
    pair == modeCtx t true m && (m != .saveCursor || sameVisible t t')
  | .decrst [m] =>
    pair == modeCtx t false m
      && (m != .saveCursor || (restoredFrom t.savedCtx t' && t'.buffer.view == t.buffer.view))
      && (m != .saveCursorAltScreenBuffer
          || (restoredModes (primaryCtx t) t'
              && (!primaryFresh t
                  || (t'.cursor.col == (primaryCtx t).cursorCol && t'.cursor.row == (primaryCtx t).cursorRow))))
  | .decset ms => (afterDecset t ms).scr.holds t'
  | .decrst ms => (afterDecrst t ms).holds t' && lastRestoreOK ms t'
  | .decstr => t'.savedCtx == defaultCtx && t'.alternateSavedCtx == t.alternateSavedCtx
  | .ris => t'.savedCtx == defaultCtx && t'.alternateSavedCtx == defaultCtx
  | f => touchesCtx f || ctxKept t t'

/-- the specification of a resize to `cols × rows` -/
def resizeOK (cols rows : Nat) (t t' : Terminal) : Bool :=
  t'.savedCtx == clampCtx cols rows t.savedCtx && t'.alternateSavedCtx == t.alternateSavedCtx
    && ctxInside cols rows t'.savedCtx

def isRestore : Function → Bool
  | .decrc | .scorc => true
  | .decrst ms => ms.any fun m => m == .saveCursor || m == .saveCursorAltScreenBuffer
  | _ => false

def isSave : Function → Bool
  | .decsc | .scosc => true
  | .decset ms => ms.any fun m => m == .saveCursor || m == .saveCursorAltScreenBuffer
  | _ => false

/-- which clause of the specification a function falls under (for the report) -/
def clauseName (f : Function) : String :=
  match f with
  | .decsc | .scosc => "save-records-context"
  | .decrc | .scorc => "restore-reestablishes-context"
  | .decstr | .ris => "reset-restores-default-context"
  | .decset ms =>
    if ms.any (modeTouches true) then
      (if ms.length ≥ 2 then "decset-list-acts-left-to-right" else "decset-save-or-switch-contexts")
    else "frame-keeps-contexts"
  | .decrst ms =>
    if ms.any (modeTouches false) then
      (if ms.length ≥ 2 then "decrst-list-acts-left-to-right" else "decrst-switch-contexts")
    else if isRestore (.decrst ms) then "restore-reestablishes-context" else "frame-keeps-contexts"
  | _ => "frame-keeps-contexts"

/-! ### the oracle -/

def checkStep (ev : StepEv) : List Verdict :=
  let pt := ev.prev.terminal
  let nt := ev.next.terminal
  [ check "saved-position-inside-screen" true (ctxInside nt.cols nt.rows nt.savedCtx) ]
  ++ (if ev.kind == .resize then
        [ check "resize-clamps-active-context-only" true (resizeOK ev.cols ev.rows pt nt) ]
      else
        match ev.funs with
        | [] => [ check "no-function-keeps-contexts" false (ctxKept pt nt) ]
        | [f] =>
          [ check (clauseName f) (touchesCtx f || isRestore f) (stepOK pt f nt) ]
          ++ (if isRestore f then
                [ check "restored-position-inside-screen" true
                    (nt.cursor.col < nt.cols && nt.cursor.row < nt.rows) ]
              else [])
        | fs =>
          if fs.any touchesCtx then []
          else [ check "frame-keeps-contexts" (fs.any isRestore) (ctxKept pt nt) ])

def checkNew (_cols _rows : Nat) (_lim : Option Nat) (st : Vt) : List Verdict :=
  [ check "new-contexts-are-default" true
      (st.terminal.savedCtx == defaultCtx && st.terminal.alternateSavedCtx == defaultCtx) ]

def checkParserStep (_prev : Parser) (_c : Nat) (_next : Parser) (_fn : String) : List Verdict := []

def checkDirective (_name : String) (_args : List String) (_inst : String → Option Inst)
    (_tcOut : Nat → List (List Nat)) : List Verdict × List (Nat × Inst) := ([], [])

end Avt.Spec.C17
