/-
  Avt.Spec.C10 — oracle of property C10 (decidable predicates evaluated on implementation states;
  the same definitions the theorems in Avt/Props/C10.lean are stated with).

  C10: resizing the primary screen (unlimited scrollback) re-wraps soft-wrapped rows without changing
  content: every logical line above the cursor's logical line is unchanged, the cursor stays in the
  same logical line with everything before it intact and — when it was on a character of the text —
  on that same character; logical lines after the cursor are unchanged or cut short, never altered,
  reordered or invented.  A wrap-pending cursor at the end of a soft-wrapped row counts as being on the
  first character of the next row (`pendingOnChar`, `pendingPlaceRel`).

  Covered events: `ev.kind = .resize` with the primary screen active and `scrollbackLimit = none`.
  Chains of resizes are covered because every resize event of a history is checked.
-/
import Avt.Spec.Base

namespace Avt.Spec.C10
open Avt Avt.Spec

/-! ### logical lines -/

/-- remove trailing default cells (blank, default pen) -/
def stripDefault (cs : List Cell) : List Cell := (cs.reverse.dropWhile Cell.isDefault).reverse

/-- rows joined along wrap marks (cells not yet trimmed): a wrapped row is glued to the front of the
    logical line that the following rows form.  A wrapped last row (excluded by the buffer invariant)
    still forms a line. -/
def joinRows : List Line → List (List Cell)
  | [] => []
  | l :: ls =>
    if l.wrapped then
      match joinRows ls with
      | [] => [l.cells]
      | x :: xs => (l.cells ++ x) :: xs
    else l.cells :: joinRows ls

/-- the logical lines of a list of rows: rows joined along wrap marks, each logical line's trailing
    default cells removed -/
def logicalLines (ls : List Line) : List (List Cell) := (joinRows ls).map stripDefault

/-- the cursor's place in the logical text, read off the row structure: the index of its logical
    line is the number of logical lines completed above the cursor row; the offset is the number of
    cells of its own logical line in the rows above the cursor row, plus the column.
    `cur = (col, row)`, `row` relative to the view. -/
def cursorLogical (b : Buffer) (cur : Nat × Nat) : Nat × Nat :=
  let above := b.lines.take (b.sb.length + cur.2)
  let own := above.reverse.takeWhile (fun l => l.wrapped)
  (above.countP (fun l => !l.wrapped), (own.map Line.len).sum + cur.1)

/-! ### the relation between the logical text before and after a resize -/

/-- two cells "up to blanks": a missing cell (beyond the trimmed text) is a default cell -/
def cellEq (a b : Option Cell) : Bool :=
  match a, b with
  | some x, some y => x == y || (x.isDefault && y.isDefault)
  | some x, none => x.isDefault
  | none, some y => y.isDefault
  | none, none => true

/-- equal up to trailing default cells -/
def eqUpToBlanks (a b : List Cell) : Bool := stripDefault a == stripDefault b

/-- lines above the cursor's line are unchanged -/
def aboveOK (L L' : List (List Cell)) (i : Nat) : Bool := L'.take i == L.take i

/-- everything before the cursor in its own line is intact (up to trailing blanks, which matters only
    when the cursor stands beyond the text) -/
def beforeOK (L L' : List (List Cell)) (i o : Nat) : Bool :=
  match L[i]?, L'[i]? with
  | some a, some b => eqUpToBlanks (b.take o) (a.take o)
  | _, _ => false

/-- the cursor was on a character of the text: not wrap-pending and inside the trimmed line -/
def onChar (L : List (List Cell)) (i o : Nat) (pending : Bool) : Bool :=
  !pending && (match L[i]? with | some a => o < a.length | none => false)

/-- … then it is on that same character afterwards (the cell is compared up to blanks: when the rest
    of the line was cut below the cursor, a blank under the cursor may have become trailing) -/
def onCharOK (L L' : List (List Cell)) (i o o' : Nat) : Bool :=
  o' == o && (match L[i]?, L'[i]? with
    | some a, some b => cellEq b[o]? a[o]?
    | _, _ => false)

/-- the cursor is wrap-pending (one past the last column of its row) and its logical offset still
    names a character of the text: its row is soft-wrapped and the character is the first cell of the
    next row — the place where the next printed character goes -/
def pendingOnChar (L : List (List Cell)) (i o : Nat) (pending : Bool) : Bool :=
  pending && (match L[i]? with | some a => o < a.length | none => false)

/-- … then the cursor keeps its logical offset, and the character there is the same one — unless the
    cursor's line was cut exactly at the cursor (a height-only shrink may drop the rows below the
    cursor row, and the character of a wrap-pending cursor lives on the next row) -/
def pendingPlaceOK (L L' : List (List Cell)) (i o o' : Nat) : Bool :=
  o' == o && (match L[i]?, L'[i]? with
    | some a, some b => cellEq b[o]? a[o]? || decide (b.length ≤ o)
    | _, _ => false)

/-- the clause for the wrap-pending cursor: when it names a character of the text, a resize that
    changes the width puts the cursor ON that character (`onCharOK`: same offset, same cell — the
    translated cursor is a real column of a row that is never dropped); a height-only resize keeps the
    offset and the character, unless the line was cut at the cursor (`pendingPlaceOK`) -/
def pendingPlaceRel (L L' : List (List Cell)) (i o o' : Nat) (pending widthChanged : Bool) : Bool :=
  !pendingOnChar L i o pending
    || (if widthChanged then onCharOK L L' i o o' else pendingPlaceOK L L' i o o')

/-- old lines `as` against new lines `bs`, position by position: each new line is the old one, or the
    old one cut short — and then it is the last new line (rows are dropped from the bottom only); new
    lines beyond the old text are blank filler -/
def keptOrCut : List (List Cell) → List (List Cell) → Bool
  | _, [] => true
  | [], b :: bs => b.isEmpty && keptOrCut [] bs
  | a :: as, b :: bs => (b == a && keptOrCut as bs) || (b.isPrefixOf a && bs.isEmpty)

/-- from the cursor's line on the lines are kept or cut short.  Hence none altered, reordered or
    invented, and `L'.length ≤ L.length` apart from trailing blank lines. -/
def afterOK (L L' : List (List Cell)) (i : Nat) : Bool := keptOrCut (L.drop i) (L'.drop i)

/-- the whole relation: `(i,o)`/`(i',o')` the cursor's logical position before/after -/
def resizeRel (L L' : List (List Cell)) (i o i' o' : Nat) (pending : Bool) : Bool :=
  i' == i && i < L.length && i < L'.length
    && aboveOK L L' i && beforeOK L L' i o
    && (!onChar L i o pending || onCharOK L L' i o o')
    && afterOK L L' i

/-! ### height-only resize: the rows themselves -/

/-- clear the wrap mark of the last row -/
def unwrapLast (ls : List Line) : List Line :=
  match ls.getLast? with
  | some l => ls.dropLast ++ [{ l with wrapped := false }]
  | none => []

/-- what a height-only resize (`cols` unchanged) does to the rows: shrinking drops rows from the
    bottom — as many as the height shrinks by, but never the cursor row or anything above it — and
    clears the wrap mark of the new last row; growing first reveals scrollback rows and then appends
    blank rows.  No row is modified otherwise. -/
def rowsOnlyLines (lines : List Line) (cols rows rows' curRow : Nat) : List Line :=
  if rows' < rows then
    let excess := min (rows - rows') (rows - 1 - curRow)
    if excess = 0 then lines else unwrapLast (lines.take (lines.length - excess))
  else
    lines ++ List.replicate ((rows' - rows) - min (lines.length - rows) (rows' - rows))
      (Line.blank cols Pen.default)

/-- height-only resize: rows as above, the cursor keeps its column and its absolute row -/
def rowsOnlyOK (b b' : Buffer) (cur cur' : Nat × Nat) : Bool :=
  b'.lines == rowsOnlyLines b.lines b.cols b.rows b'.rows cur.2
    && cur'.1 == cur.1 && b'.sb.length + cur'.2 == b.sb.length + cur.2

/-! ### the oracle -/

/-- does C10 speak about this event? -/
def applies (ev : StepEv) : Bool :=
  ev.kind == .resize
    && ev.prev.terminal.activeBufferType == .primary
    && ev.next.terminal.activeBufferType == .primary
    && ev.prev.terminal.scrollbackLimit == none

def checkStep (ev : StepEv) : List Verdict :=
  if !applies ev then [] else
  let t := ev.prev.terminal
  let t' := ev.next.terminal
  let b := t.buffer
  let b' := t'.buffer
  let cur := (t.cursor.col, t.cursor.row)
  let cur' := (t'.cursor.col, t'.cursor.row)
  let L := logicalLines b.lines
  let L' := logicalLines b'.lines
  let (i, o) := cursorLogical b cur
  let (i', o') := cursorLogical b' cur'
  let widthChanged := b'.cols != b.cols
  let changed := widthChanged || b'.rows != b.rows
  [ check "C10.same-logical-line" changed (i' == i && i < L.length && i < L'.length),
    check "C10.lines-above-unchanged" (changed && i > 0) (aboveOK L L' i),
    check "C10.before-cursor-intact" (changed && o > 0) (beforeOK L L' i o),
    check "C10.same-character" (changed && onChar L i o t.pendingWrap)
      (!onChar L i o t.pendingWrap || onCharOK L L' i o o'),
    check "C10.pending-place" (changed && pendingOnChar L i o t.pendingWrap)
      (pendingPlaceRel L L' i o o' t.pendingWrap widthChanged),
    check "C10.after-cursor-kept-or-cut" changed (afterOK L L' i),
    check "C10.reflow-keeps-lines-and-cursor" widthChanged (resizeRel L L' i o i' o' t.pendingWrap),
    check "C10.rows-only" (!widthChanged && b'.rows != b.rows)
      (widthChanged || rowsOnlyOK b b' cur cur') ]

def checkNew (_cols _rows : Nat) (_lim : Option Nat) (_st : Vt) : List Verdict := []

def checkParserStep (_prev : Parser) (_c : Nat) (_next : Parser) (_fn : String) : List Verdict := []

def checkDirective (_name : String) (_args : List String) (_inst : String → Option Inst)
    (_tcOut : Nat → List (List Nat)) : List Verdict × List (Nat × Inst) := ([], [])

end Avt.Spec.C10
