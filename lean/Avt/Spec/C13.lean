/-
  Avt.Spec.C13 — oracle of property C13 (decidable predicates evaluated on implementation states;
  the same definitions the theorems in Avt/Props/C13.lean are stated with).

  C13: with scrollback limit `L`, once a `feed_str` or `resize` call has returned (its `Changes`
  consumed or dropped), `lines()` holds at most `rows + L + L/10` lines — exactly `rows` when
  `L = 0` — and exactly the visible rows while the alternate screen is showing.
-/
import Avt.Spec.Base

namespace Avt.Spec.C13
open Avt Avt.Spec

/-- `lines().len() ≤ rows + L + ⌊L/10⌋` for the configured limit `L` (no bound without a limit) -/
def withinLimit (v : Vt) : Bool :=
  match v.terminal.scrollbackLimit with
  | some L => v.lines.length ≤ v.terminal.rows + L + L / 10
  | none => true

/-- limit `0`: no scrollback at all -/
def exactWhenZero (v : Vt) : Bool :=
  v.terminal.scrollbackLimit != some 0 || v.lines.length == v.terminal.rows

/-- alternate screen: `lines()` is exactly the visible rows -/
def exactOnAlternate (v : Vt) : Bool :=
  v.terminal.activeBufferType != .alternate || v.lines.length == v.terminal.rows

/-- the whole property on a state right after a finishing call -/
def boundOK (v : Vt) : Bool := withinLimit v && exactWhenZero v && exactOnAlternate v

/-- after every finishing call (`feed_str` consumed / dropped, `resize`; not `Vt::feed`, which runs no
    `gc()`) the bound holds on the implementation's state -/
def checkStep (ev : StepEv) : List Verdict :=
  if ev.kind.finishes then
    [ check "lines-within-rows+L+L/10" ev.next.terminal.scrollbackLimit.isSome (withinLimit ev.next),
      check "exactly-rows-when-limit-0" (ev.next.terminal.scrollbackLimit == some 0) (exactWhenZero ev.next),
      check "exactly-rows-on-alternate-screen" (ev.next.terminal.activeBufferType == .alternate)
        (exactOnAlternate ev.next) ]
  else []

def checkNew (_cols _rows : Nat) (_lim : Option Nat) (st : Vt) : List Verdict :=
  [ check "new-terminal-within-bound" true (boundOK st) ]

def checkParserStep (_prev : Parser) (_c : Nat) (_next : Parser) (_fn : String) : List Verdict := []

def checkDirective (_name : String) (_args : List String) (_inst : String → Option Inst)
    (_tcOut : Nat → List (List Nat)) : List Verdict × List (Nat × Inst) := ([], [])

end Avt.Spec.C13
