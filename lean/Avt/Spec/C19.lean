/-
  Avt.Spec.C19 — oracle of property C19 (decidable predicates evaluated on implementation states;
  the same definitions the theorems in Avt/Props/C19.lean are stated with).

  C19: after `ESC c`, from any state whatsoever, the terminal is indistinguishable from a freshly
  built terminal of the current size and scrollback configuration.  "Indistinguishable" is taken in
  the strongest sense: *state equality* with the fresh `Vt` (all fields, parser included), up to the
  one thing a fresh terminal legitimately differs in — its dirty flags (a fresh `Vt` reports every
  row as changed; after a finishing call they are cleared).  Equal states react equally to every
  subsequent input (determinism), so nothing else has to be observed.
-/
import Avt.Spec.Base

namespace Avt.Spec.C19
open Avt Avt.Spec

/-- erase the dirty flags (and nothing else) -/
def normR (v : Vt) : Vt :=
  { v with terminal := { v.terminal with dirtyLines := Dirty.clear v.terminal.dirtyLines } }

/-- the power-on terminal for the configuration `t` currently has: the three fields a reset
    legitimately keeps are the size and the scrollback limit -/
def freshOf (t : Terminal) : Option Terminal := Terminal.new t.cols t.rows t.scrollbackLimit

/-- the power-on `Vt` for the configuration of `v` -/
def freshVt (v : Vt) : Option Vt :=
  Vt.new v.terminal.cols v.terminal.rows v.terminal.scrollbackLimit

/-- `s` is the power-on state (up to dirty flags) for its own configuration -/
def isPowerOn (v : Vt) : Bool :=
  match freshVt v with
  | some f => normR v == normR f
  | none => false

/-- does the input end with the two characters `ESC c`? -/
def endsWithRis (input : List Nat) : Bool :=
  match input.reverse with
  | 0x63 :: 0x1b :: _ => true
  | _ => false

/-- step level: a call whose last emitted function is RIS leaves exactly the power-on terminal of
    the current configuration (`hard_reset` reads nothing but `cols`, `rows`, `scrollback_limit`,
    and no function can change those three), adjusted by the `changes()`/`gc()` tail of the call;
    when the call's input ends with `ESC c` the parser is the power-on parser, registers included. -/
def checkStep (ev : StepEv) : List Verdict :=
  if ev.funs.getLast? = some .ris then
    let p := ev.prev.terminal
    let keep := check "C19:ris-keeps-size-and-limit" true
      (ev.next.terminal.cols == p.cols && ev.next.terminal.rows == p.rows
        && ev.next.terminal.scrollbackLimit == p.scrollbackLimit)
    match freshOf p with
    | none => [keep]
    | some fresh =>
      [keep, check "C19:ris-gives-power-on-terminal" true (ev.next.terminal == afterCall ev.kind fresh)]
        ++ (if endsWithRis ev.input
            then [check "C19:ris-leaves-power-on-parser" true (ev.next.parser == Parser.new)] else [])
  else []

def checkNew (_cols _rows : Nat) (_lim : Option Nat) (_st : Vt) : List Verdict := []

def checkParserStep (_prev : Parser) (_c : Nat) (_next : Parser) (_fn : String) : List Verdict := []

/-- `X C19 k0 k1`: instance `k0` went through an arbitrary history and then `ESC c`; instance `k1`
    was built fresh with the same current size and limit; both then receive identical input.
    The two states must be equal up to dirty flags — at once and after every continuation. -/
def checkDirective (name : String) (args : List String) (inst : String → Option Inst)
    (_tcOut : Nat → List (List Nat)) : List Verdict × List (Nat × Inst) :=
  if name ≠ "C19" then ([], []) else
  match args with
  | [k0, k1] =>
    match inst k0, inst k1 with
    | some i0, some i1 =>
      -- the call that was to reset instance `k0` panicked instead: no power-on state
      if i0.dead && !i1.dead && endsWithRis i0.diedOn then
        ([check "C19:ris-panicked-instead-of-resetting" true false], []) else
      if i0.dead || i1.dead then ([], []) else
      let fresh := i1.history == 0
      ([check (if fresh then "C19:state-after-ris-equals-fresh" else "C19:state-after-ris+continuation-equals-fresh+continuation")
          true (normR i0.st == normR i1.st)]
        ++ (if fresh then [check "C19:state-after-ris-is-power-on" true (isPowerOn i0.st)] else []), [])
    | _, _ => ([], [])
  | _ => ([], [])

end Avt.Spec.C19
