/-
  Avt.Spec.C14 — oracle of property C14 (decidable predicates evaluated on implementation states;
  the same definitions the theorems in Avt/Props/C14.lean are stated with).

  C14: for any session without hard reset or resize that ends on the primary screen, the lines
  handed out through `Changes.scrollback`, followed by the final `lines()`, are exactly the lines an
  unlimited-scrollback terminal fed the same input holds.  Consequently `util::TextCollector`
  yields the same text for every scrollback limit and every chunking.
-/
import Avt.Spec.Base

namespace Avt.Spec.C14
open Avt Avt.Spec

/-- the stream equation: what a limited terminal handed out, followed by what it still holds, is
    what the unlimited terminal holds (cell for cell, pens and wrap marks included) -/
def streamEq (drained : List Line) (limited unlimited : Vt) : Bool :=
  drained ++ limited.lines == unlimited.lines

/-- `p` is a prefix of `l` -/
def isPrefix (p l : List Line) : Bool := p.length ≤ l.length && l.take p.length == p

/-- the text of two collectors agrees up to trailing empty strings -/
def sameTextModTrailingBlank (x y : List (List Nat)) : Bool :=
  TextCollector.dropTrailingEmpty x == TextCollector.dropTrailingEmpty y

/-- `X C14TC`: the two collectors must yield the same text.  Known finding KF5: `flush` removes
    trailing empty strings only from its own final part, so blank lines that a limited collector has
    already streamed out stay, while the unlimited collector drops them all: the outputs then differ
    exactly by trailing empty strings.  That case is classified `KF5:`; any other difference is a
    violation. -/
def checkCollector (nontrivial : Bool) (limited unlimited : List (List Nat)) : Verdict :=
  if limited == unlimited then .pass nontrivial
  else if sameTextModTrailingBlank limited unlimited then .fail "KF5:text-collector-trailing-blank-lines"
  else .fail "C14:text-collector-output-differs"

/-- the session of an instance is one C14 speaks about -/
def sessionOK (i : Inst) : Bool :=
  !i.dead && !i.sawRis && !i.sawResize && !i.sawDrop && i.st.terminal.activeBufferType == .primary

/-- step-level consequences of the same statement, checked on every observed `feed_str`:
    (a) nothing is handed out by a call that ends on the alternate screen, nor by an unlimited
        terminal;
    (b) a call without RIS that starts and ends on the primary screen only appends below what was
        already above the view and hands out from the top: the old scrollback is a prefix of
        (handed out ++ new scrollback). -/
def checkStep (ev : StepEv) : List Verdict :=
  match ev.kind, ev.sb with
  | .feedStr, some sb =>
    let p := ev.prev.terminal
    let n := ev.next.terminal
    let noRis := !ev.funs.any (· == .ris)
    let quiet := n.activeBufferType == .alternate || n.scrollbackLimit.isNone
    let a := check "C14:step:alternate-or-unlimited-hands-out-lines" quiet (!quiet || sb.isEmpty)
    let both := p.activeBufferType == .primary && n.activeBufferType == .primary && noRis
    let b := check "C14:step:scrollback-not-preserved" (both && !sb.isEmpty)
      (!both || isPrefix p.buffer.sb (sb ++ n.buffer.sb))
    [a, b]
  | _, _ => []

def checkNew (_cols _rows : Nat) (_lim : Option Nat) (_st : Vt) : List Verdict := []

def checkParserStep (_prev : Parser) (_c : Nat) (_next : Parser) (_fn : String) : List Verdict := []

/-- `X C14 k0 k1`: k0 has limit L, k1 is unlimited, same input under different chunkings.
    `X C14TC k0 k1`: the two `TextCollector`s that received the same inputs. -/
def checkDirective (name : String) (args : List String) (inst : String → Option Inst)
    (tcOut : Nat → List (List Nat)) : List Verdict × List (Nat × Inst) :=
  match name, args with
  | "C14", [k0, k1] =>
    match inst k0, inst k1 with
    | some i0, some i1 =>
      if !(sessionOK i0 && sessionOK i1) then ([.pass false], [])
      else
        ([check "C14:stream:drained++lines≠unlimited-lines" (!i0.drained.isEmpty)
            (streamEq i0.drained i0.st i1.st),
          check "C14:unlimited-terminal-handed-out-lines" true i1.drained.isEmpty], [])
    | _, _ => ([.pass false], [])
  | "C14TC", [k0, k1] =>
    match inst k0, inst k1, k0.toNat?, k1.toNat? with
    | some i0, some i1, some n0, some n1 =>
      if !(sessionOK i0 && sessionOK i1) then ([.pass false], [])
      else ([checkCollector (!i0.drained.isEmpty) (tcOut n0) (tcOut n1)], [])
    | _, _, _, _ => ([.pass false], [])
  | _, _ => ([], [])

end Avt.Spec.C14
