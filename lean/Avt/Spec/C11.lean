/-
  Avt.Spec.C11 — oracle of property C11 (decidable predicates evaluated on implementation states;
  the same definitions the theorems in Avt/Props/C11.lean are stated with).

  C11: feeding `dump()` into a fresh terminal of the same size yields a terminal that is
  observationally equivalent to the original, for all future input.

  `Obs` is what the public API shows.  "Equivalent for all future input" is expressed as equality of
  a *normal form* `normD` that erases exactly the state no future input can ever observe; equality of
  normal forms is preserved by feeding identical input (checked on the implementation after every
  probe / continuation, and stated as `C11_norm_sound` in Props/C11.lean), and it implies `Obs`
  equality.

  The two exceptions the property text names — a third of the same mechanism found while
  building the model, and a fourth found while proving the restore half — are recognised by
  decidable classifiers on the *dumped* state:
    KF2  `resizedOnAlt`                     (the parked primary has stale geometry)
    KF1  `¬cursorStepFaithful`, mode part   (`CSI u` in dump step 9 restores other modes)
    KF3  `¬cursorStepFaithful`, position    (the relative moves after `CSI u` stop at a margin)
    KF6  `sizeExceedsU16`                   (`cols ≥ 65535` or `rows > 65535`: the numbers `dump()` writes —
                                             cursor address, tab stops, margins, REP counts, saved
                                             positions — are read back modulo 2^16)
    KF7  `parkedCtxExceedsU16`              (the primary screen is showing and the parked saved cursor position
                                             of the ALTERNATE screen — which no resize clamps — is `≥ 65535`:
                                             `dump()` writes it as `CSI row;col H`, read back modulo 2^16;
                                             found while proving dump steps 4–6)
  A failure is attributed to a finding only when the difference is confined to what that finding
  can disturb; every other difference is an unclassified `C11:` failure.
-/
import Avt.Spec.Base

namespace Avt.Spec.C11
open Avt Avt.Spec

/-! ### what the public API shows -/

structure Obs where
  view : List Line            -- cells (characters and pens) and the wrap marks of the view
  cursorCol : Nat
  cursorRow : Nat
  cursorVisible : Bool
  cursorKeyApp : Bool
  deriving DecidableEq, Repr

def obs (v : Vt) : Obs :=
  { view := v.view, cursorCol := v.cursor.col, cursorRow := v.cursor.row,
    cursorVisible := v.cursor.visible, cursorKeyApp := v.cursorKeyAppMode }

/-! ### normal form: erase what no future input can observe -/

/-- are the parameter registers read before the next `clear()`?  (`Parser::assert_eq` of the suite) -/
def paramsLive (s : PState) : Bool := s == .CsiParam || s == .DcsParam

/-- is the intermediate register read before the next `clear()`/`collect()`? -/
def intermediateLive (s : PState) : Bool :=
  s == .EscapeIntermediate || s == .CsiIntermediate || s == .CsiParam || s == .DcsIntermediate
    || s == .DcsParam

/-- dead parser registers are replaced by those of `Parser::new` -/
def normP (p : Parser) : Parser :=
  { state := p.state,
    params := if paramsLive p.state then p.params else Parser.new.params,
    curParam := if paramsLive p.state then p.curParam else 0,
    intermediate := if intermediateLive p.state then p.intermediate else none }

/-- what every reachable parser state guarantees about its registers beyond `PInv` (which characters
    can have been collected on the way into the state; DCS sequences never take sub-parameters).
    Hypothesis of the `Parser.dump` round trip; also evaluated on the implementation's states. -/
def imIn (lo hi : Nat) : Option Nat → Bool
  | some c => lo ≤ c && c ≤ hi
  | none => false

def PRegOK (p : Parser) : Bool :=
  match p.state with
  | .EscapeIntermediate | .CsiIntermediate | .DcsIntermediate => imIn 0x20 0x2f p.intermediate
  | .CsiParam => p.intermediate.isNone || imIn 0x3c 0x3f p.intermediate
  | .DcsParam => (p.intermediate.isNone || imIn 0x3c 0x3f p.intermediate)
      && (p.params.take (p.curParam + 1)).all (fun q => q.curPart == 0)
  | .DcsPassthrough => p.intermediate.isNone || imIn 0x20 0x2f p.intermediate || imIn 0x3c 0x3f p.intermediate
  | .Escape | .CsiEntry | .DcsEntry =>
      p.intermediate.isNone && p.curParam == 0 && p.params.all Param.isZero
  | _ => true

/-- scrollback, its limit and the trim flag of a buffer are invisible to every feed -/
def normB (b : Buffer) : Buffer := { b with sb := [], limit := none, trimNeeded := false }

/-- stands for a parked alternate buffer: it is rebuilt from scratch whenever the alternate screen is
    entered, so nothing of it is ever read -/
def deadBuffer : Buffer := { sb := [], view := [], cols := 0, rows := 0, limit := none, trimNeeded := false }

/-- the parked saved context is clamped into the screen before it can be used (`reflow` runs on
    every buffer switch) -/
def clampCtx (c : SavedCtx) (cols rows : Nat) : SavedCtx :=
  { c with cursorCol := min c.cursorCol (cols - 1), cursorRow := min c.cursorRow (rows - 1) }

def normT (t : Terminal) : Terminal :=
  { t with
    buffer := normB t.buffer,
    otherBuffer := if t.activeBufferType = .primary then deadBuffer else normB t.otherBuffer,
    scrollbackLimit := none,
    alternateSavedCtx := clampCtx t.alternateSavedCtx t.cols t.rows,
    dirtyLines := Dirty.clear t.dirtyLines }

def normD (v : Vt) : Vt := { parser := normP v.parser, terminal := normT v.terminal }

/-! ### classifiers of the known findings (on the dumped state) -/

/-- KF2: the alternate screen is showing and the parked primary buffer still has the geometry it had
    before a resize -/
def resizedOnAlt (t : Terminal) : Bool :=
  t.activeBufferType == .alternate && (t.otherBuffer.cols != t.cols || t.otherBuffer.rows != t.rows)

/-- does dump step 9 take the `CSI u` + relative moves route? -/
def cursorOutsideRegion (t : Terminal) : Bool :=
  t.originMode && (t.cursor.row < t.topMargin || t.cursor.row > t.bottomMargin)

/-- the terminal right after the `CSI u` of dump step 9 (a restored terminal has the same margins,
    size and active saved context as the original at that point; `CSI u` overwrites the cursor
    position, the pen and the two modes, so nothing else of the start state matters) -/
def afterCsiU (t : Terminal) : Terminal := t.restoreCursor

/-- the relative moves dump step 9 emits after `CSI u`, as the functions the parser makes of them -/
def step9Moves (t : Terminal) : List Function :=
  let col := t.cursor.col
  let row := t.cursor.row
  let sc := t.savedCtx
  (if col < sc.cursorCol then [Function.cub (sc.cursorCol - col)]
   else if col > sc.cursorCol then [Function.cuf (col - sc.cursorCol)] else [])
  ++ (if row < sc.cursorRow then [Function.cuu (sc.cursorRow - row)]
      else if row > sc.cursorRow then [Function.cud (row - sc.cursorRow)] else [])

/-- replay `CSI u` + the emitted moves on the model -/
def step9Sim (t : Terminal) : Option Terminal :=
  Terminal.foldM' Terminal.execute (step9Moves t) (afterCsiU t)

/-- the modes `CSI u` leaves are the ones the remaining steps assume: origin mode is not touched
    again; auto-wrap is only ever switched *off* by step 12, and must be on for the re-print that
    re-creates a pending wrap -/
def step9ModesFaithful (t : Terminal) : Bool :=
  let s := afterCsiU t
  s.originMode == t.originMode
    && (!t.autoWrapMode || s.autoWrapMode)
    && (t.cursor.col < t.cols || s.autoWrapMode)

/-- the relative moves land on the cursor (the wrap-pending column is reached by a re-print from the
    last column) -/
def step9PositionFaithful (t : Terminal) : Bool :=
  match step9Sim t with
  | some s => s.cursor.row == t.cursor.row && s.cursor.col == min t.cursor.col (t.cols - 1)
  | none => false

def cursorStepFaithful (t : Terminal) : Bool :=
  !cursorOutsideRegion t || (step9ModesFaithful t && step9PositionFaithful t)

/-- KF6: a dimension exceeds what a 16-bit CSI parameter can carry (`Param::add_digit` keeps the value
    modulo 65536), so positions `dump()` writes as numbers need not round-trip.  The largest number
    written for a column is `cols + 1` (cursor parked wrap-pending), for a row `rows`: faithful sizes
    are `cols ≤ 65534`, `rows ≤ 65535`. -/
def sizeExceedsU16 (t : Terminal) : Bool := decide (t.cols ≥ 65535) || decide (t.rows > 65535)

/-- KF7: the primary screen is showing and the saved cursor context of the ALTERNATE screen (parked in
    `alternate_saved_ctx`, not in its default state, so `dump()` re-creates it with `CSI row+1 ; col+1 H` on
    the alternate screen) holds a position at or beyond the 16-bit parameter range.  `Terminal::resize`
    clamps only the ACTIVE saved context, so such a position survives a later resize of the primary screen
    to any size: the classifier is independent of the current size (`sizeExceedsU16` may be false). -/
def parkedCtxExceedsU16 (t : Terminal) : Bool :=
  t.activeBufferType == .primary && !t.alternateSavedCtx.isDefault
    && (decide (t.alternateSavedCtx.cursorCol ≥ 65535) || decide (t.alternateSavedCtx.cursorRow ≥ 65535))

inductive Finding where
  | kf1 | kf2 | kf3 | kf6 | kf7
  deriving DecidableEq, Repr

/-- which known findings apply to a dumped state -/
def findings (t : Terminal) : List Finding :=
  (if resizedOnAlt t then [Finding.kf2] else [])
  ++ (if cursorStepFaithful t then []
      else if !step9ModesFaithful t then [Finding.kf1] else [Finding.kf3])
  ++ (if sizeExceedsU16 t then [Finding.kf6] else [])
  ++ (if parkedCtxExceedsU16 t then [Finding.kf7] else [])

def Finding.label : Finding → String
  | .kf1 => "KF1:dump-step9-CSI-u-restores-other-origin/auto-wrap-modes"
  | .kf2 => "KF2:resized-while-on-alternate-screen(parked-primary-has-stale-geometry)"
  | .kf3 => "KF3:dump-step9-relative-moves-after-CSI-u-stop-at-a-margin"
  | .kf6 => "KF6:size-exceeds-u16-parameter-range"
  | .kf7 => "KF7:parked-alternate-saved-position-exceeds-u16-parameter-range"

/-- what a finding can disturb in the restored terminal right after the restore:
    KF2 — the parked primary buffer;
    KF1/KF3 — cursor position, the two modes `CSI u` sets, the pending wrap, and (when a wrap is
    pending) the cell re-printed at the last column of the wrong row;
    KF6 — everything `dump()` writes as a number: cursor position (hence the pending wrap), tab stops,
    margins, the positions of both saved contexts, and the cells of both screens (REP counts; a
    re-print at a wrong position).  Modes, pens, character sets and the parser are still compared;
    KF7 — the position of the parked alternate-screen saved context, nothing else. -/
def excuse (fs : List Finding) (dumped : Terminal) (t : Terminal) : Terminal :=
  let t := if fs.contains .kf2 then { t with otherBuffer := deadBuffer } else t
  let t := if fs.contains .kf6 then
    { t with cursor := { t.cursor with col := 0, row := 0 }, pendingWrap := false, tabs := [],
             topMargin := 0, bottomMargin := 0,
             savedCtx := { t.savedCtx with cursorCol := 0, cursorRow := 0 },
             alternateSavedCtx := { t.alternateSavedCtx with cursorCol := 0, cursorRow := 0 },
             buffer := { t.buffer with view := [] }, otherBuffer := { t.otherBuffer with view := [] } }
    else t
  let t := if fs.contains .kf7 then
    { t with alternateSavedCtx := { t.alternateSavedCtx with cursorCol := 0, cursorRow := 0 } }
    else t
  if fs.contains .kf1 || fs.contains .kf3 then
    { t with cursor := { t.cursor with col := 0, row := 0 }, originMode := false, autoWrapMode := false,
             pendingWrap := false,
             buffer := if dumped.cursor.col ≥ dumped.cols then { t.buffer with view := [] } else t.buffer }
  else t

def excuseVt (fs : List Finding) (dumped : Terminal) (v : Vt) : Vt :=
  { v with terminal := excuse fs dumped v.terminal }

/-! ### the oracle -/

def checkStep (_ev : StepEv) : List Verdict := []

def checkNew (_cols _rows : Nat) (_lim : Option Nat) (_st : Vt) : List Verdict := []

def checkParserStep (_prev : Parser) (_c : Nat) (_next : Parser) (_fn : String) : List Verdict := []

def obsTag (a b : Vt) : String := if obs a == obs b then "obs=same" else "obs=DIFFERENT"

/-- first component of the normal forms that differs (diagnostics only) -/
def diffTag (a b : Vt) : String :=
  let x := a.terminal
  let y := b.terminal
  if a.parser ≠ b.parser then "parser"
  else if x.cursor ≠ y.cursor then "cursor"
  else if x.buffer ≠ y.buffer then "buffer"
  else if x.otherBuffer ≠ y.otherBuffer then "other_buffer"
  else if x.savedCtx ≠ y.savedCtx then "saved_ctx"
  else if x.alternateSavedCtx ≠ y.alternateSavedCtx then "alternate_saved_ctx"
  else if x.tabs ≠ y.tabs then "tabs"
  else if x.pen ≠ y.pen then "pen"
  else if (x.topMargin, x.bottomMargin) ≠ (y.topMargin, y.bottomMargin) then "margins"
  else if x.pendingWrap ≠ y.pendingWrap then "pending_wrap"
  else if (x.originMode, x.autoWrapMode) ≠ (y.originMode, y.autoWrapMode) then "origin/auto_wrap"
  else if (x.charsets, x.activeCharset) ≠ (y.charsets, y.activeCharset) then "charsets"
  else "modes/other"

/-- `X C11 k0 k1`.  The first directive of a case comes right after `DUMPTO k0 k1`: `k0` is the
    dumped terminal, `k1` a fresh terminal of the same size fed with the dump.  Every later directive
    comes after both were fed the same probe / continuation.

    `Inst.mark` of `k0` remembers the dumped state, `Inst.markResized` that a known finding has made
    the two instances diverge (so that later differences of the same case stay attributed to it). -/
def checkDirective (name : String) (args : List String) (inst : String → Option Inst)
    (_tcOut : Nat → List (List Nat)) : List Verdict × List (Nat × Inst) :=
  if name ≠ "C11" then ([], []) else
  match args with
  | [k0, k1] =>
    match inst k0, inst k1, k0.toNat? with
    | some i0, some i1, some n0 =>
      if i0.dead || i1.dead then ([], []) else
      let a := normD i0.st
      let b := normD i1.st
      match i0.mark with
      | none =>
        -- right after the restore
        let dumped := i0.st.terminal
        let fs := findings dumped
        let i0' := { i0 with mark := some i0.st }
        let reg := check "C11:parser-registers-have-the-shape-of-their-state" true
          (PInv i0.st.parser && PRegOK i0.st.parser)
        (fun (r : List Verdict × List (Nat × Inst)) => (reg :: r.1, r.2)) <|
        if a == b then ([check "C11:restored-equals-dumped" true true], [(n0, i0')])
        else
          match fs with
          | f :: _ =>
            if excuseVt fs dumped a == excuseVt fs dumped b then
              ([.fail s!"{f.label} at=restore {obsTag i0.st i1.st}"], [(n0, { i0' with markResized := true })])
            else
              ([.fail s!"C11:restored-differs-from-dumped-beyond-known-finding first-diff={diffTag (excuseVt fs dumped a) (excuseVt fs dumped b)} {obsTag i0.st i1.st}"],
               [(n0, i0')])
          | [] =>
            ([.fail s!"C11:restored-differs-from-dumped first-diff={diffTag a b} {obsTag i0.st i1.st}"], [(n0, i0')])
      | some dumpedVt =>
        -- after an identical probe / continuation on both
        if a == b then ([check "C11:equal-after-continuation" true true], [])
        else if i0.markResized then
          match findings dumpedVt.terminal with
          | f :: _ => ([.fail s!"{f.label} at=continuation {obsTag i0.st i1.st}"], [])
          | [] => ([.fail s!"C11:differs-after-continuation first-diff={diffTag a b} {obsTag i0.st i1.st}"], [])
        else
          ([.fail s!"C11:differs-after-continuation first-diff={diffTag a b} {obsTag i0.st i1.st}"], [])
    | _, _, _ => ([], [])
  | _ => ([], [])

end Avt.Spec.C11
