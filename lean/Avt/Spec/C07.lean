/-
  Avt.Spec.C07 — oracle of property C07 (decidable predicates evaluated on implementation states;
  the same definitions the theorems in Avt/Props/C07.lean are stated with).

  C07: erase, insert and delete touch exactly their documented extent.

  The specification is a closed formula per command over `take` / `drop` / `replicate`; it is not a
  copy of the model (`Line::insert/delete` are rotate+fill, `Buffer::erase` dispatches on a mode,
  DECALN is a double loop of single-cell prints).

  Covered functions (`coveredEdit`): ED 0/1/2/3, EL 0/1/2, ECH n, ICH n, DCH n, DECALN.
-/
import Avt.Spec.Base

namespace Avt.Spec.C07
open Avt Avt.Spec

/-! ### one row -/

/-- `k` blank cells carrying `pen` -/
def blanks (k : Nat) (pen : Pen) : List Cell := List.replicate k (Cell.blank pen)

/-- EL 0: from the cursor to the end of the row; the row stops being soft-wrapped.  In the
    wrap-pending column (`col = cols`) no cell is erased but the mark is still cleared. -/
def eraseRight (cols col : Nat) (pen : Pen) (r : Line) : Line :=
  ⟨r.cells.take col ++ blanks (cols - col) pen, false⟩

/-- EL 1: from the start of the row up to and including the cursor (the last column when the
    cursor is wrap-pending); the wrap mark stays -/
def eraseLeft (cols col : Nat) (pen : Pen) (r : Line) : Line :=
  ⟨blanks (min (col + 1) cols) pen ++ r.cells.drop (min (col + 1) cols), r.wrapped⟩

/-- EL 2 -/
def eraseRow (cols : Nat) (pen : Pen) (_r : Line) : Line := ⟨blanks cols pen, false⟩

/-- ECH n: `k = min n (cols - col)` cells from the cursor; the mark is cleared exactly when the
    erased stretch reaches the end of the row (`col + k = cols`, which includes `k = 0` in the
    wrap-pending column) -/
def eraseChars (cols col n : Nat) (pen : Pen) (r : Line) : Line :=
  let k := min n (cols - col)
  ⟨r.cells.take col ++ blanks k pen ++ r.cells.drop (col + k),
   if col + k = cols then false else r.wrapped⟩

/-- ICH n: `k` blanks inserted at the cursor, the tail shifted right, what falls off the right
    edge discarded; wrap mark unchanged -/
def insertChars (cols col n : Nat) (pen : Pen) (r : Line) : Line :=
  let k := min n (cols - col)
  ⟨r.cells.take col ++ blanks k pen ++ (r.cells.drop col).take (cols - col - k), r.wrapped⟩

/-- DCH n: `k` cells deleted at the cursor, the tail shifted left, `k` blanks appended; the row
    stops being soft-wrapped -/
def deleteChars (cols col n : Nat) (pen : Pen) (r : Line) : Line :=
  let k := min n (cols - col)
  ⟨r.cells.take col ++ r.cells.drop (col + k) ++ blanks k pen, false⟩

/-- DECALN row: 'E' with the default pen in every cell; wrap mark untouched -/
def alignRow (cols : Nat) (r : Line) : Line := ⟨List.replicate cols ⟨0x45, Pen.default⟩, r.wrapped⟩

/-! ### the view -/

/-- apply `g` to row `row`, leave every other row alone -/
def onRowOf (v : List Line) (row : Nat) (g : Line → Line) : List Line :=
  v.take row ++ ((v.drop row).take 1).map g ++ v.drop (row + 1)

/-- `k` fresh (blank, unwrapped) rows carrying `pen` -/
def blankRows (k cols : Nat) (pen : Pen) : List Line := List.replicate k (Line.blank cols pen)

/-- rows `a..b` flagged as changed -/
def markRange (d : List Bool) (a b : Nat) : List Bool :=
  d.take a ++ List.replicate (b - a) true ++ d.drop b

/-- a terminal with a new view and new changed-row flags, everything else as before -/
def withView (t : Terminal) (v : List Line) (d : List Bool) : Terminal :=
  { t with buffer := { t.buffer with view := v }, dirtyLines := d }

/-- edit the cursor's row with `g` -/
def onRow (t : Terminal) (g : Line → Line) : Terminal :=
  withView t (onRowOf t.buffer.view t.cursor.row g)
    (markRange t.dirtyLines t.cursor.row (t.cursor.row + 1))

/-- DCH first leaves the wrap-pending column -/
def leavePending (t : Terminal) : Terminal :=
  if t.cursor.col ≥ t.cols then
    { t with cursor := { t.cursor with col := t.cols - 1 }, pendingWrap := false }
  else t

/-- functions this specification covers -/
def coveredEdit : Function → Bool
  | .ed _ | .el _ | .ech _ | .ich _ | .dch _ | .decaln => true
  | _ => false

/-- the state after a covered function -/
def editSpec (t : Terminal) : Function → Terminal
  | .el .toRight => onRow t (eraseRight t.cols t.cursor.col t.pen)
  | .el .toLeft => onRow t (eraseLeft t.cols t.cursor.col t.pen)
  | .el .all => onRow t (eraseRow t.cols t.pen)
  | .ech n => onRow t (eraseChars t.cols t.cursor.col (asUsize n 1) t.pen)
  | .ich n => onRow t (insertChars t.cols t.cursor.col (asUsize n 1) t.pen)
  | .dch n =>
    onRow (leavePending t) (deleteChars t.cols (leavePending t).cursor.col (asUsize n 1) t.pen)
  | .ed .below =>
    let v := t.buffer.view
    let row := t.cursor.row
    withView t
      (v.take row ++ ((v.drop row).take 1).map (eraseRight t.cols t.cursor.col t.pen)
        ++ blankRows (t.rows - (row + 1)) t.cols t.pen)
      (markRange t.dirtyLines row t.rows)
  | .ed .above =>
    let v := t.buffer.view
    let row := t.cursor.row
    withView t
      (blankRows row t.cols t.pen ++ ((v.drop row).take 1).map (eraseLeft t.cols t.cursor.col t.pen)
        ++ v.drop (row + 1))
      (markRange t.dirtyLines 0 (row + 1))
  | .ed .all => withView t (blankRows t.rows t.cols t.pen) (markRange t.dirtyLines 0 t.rows)
  | .ed .savedLines => t
  | .decaln => withView t (t.buffer.view.map (alignRow t.cols)) (markRange t.dirtyLines 0 t.rows)
  | _ => t

/-! ### the extent, in the property's words -/

/-- is cell `(r, c)` of the view inside the extent of `f` executed in `t`? -/
def extent (t : Terminal) (f : Function) (r c : Nat) : Bool :=
  let row := t.cursor.row
  let col := t.cursor.col
  match f with
  | .ed .below => r > row || (r == row && c ≥ col)
  | .ed .above => r < row || (r == row && c ≤ col)
  | .ed .all => true
  | .ed .savedLines => false
  | .el .toRight => r == row && c ≥ col
  | .el .toLeft => r == row && c ≤ col
  | .el .all => r == row
  | .ech n => r == row && col ≤ c && c < col + asUsize n 1
  | .ich _ => r == row && c ≥ col
  | .dch _ => r == row && c ≥ min col (t.cols - 1)
  | .decaln => true
  | _ => false

/-- does `f` replace its whole extent by blanks (as opposed to shifting cells through it)? -/
def erases : Function → Bool
  | .ed _ | .el _ | .ech _ => true
  | _ => false

/-- cell `(r, c)` of the view -/
def cellAt (t : Terminal) (r c : Nat) : Option Cell := (t.buffer.view[r]?).bind fun l => l.cells[c]?

/-- wrap mark of row `r` -/
def markAt (t : Terminal) (r : Nat) : Option Bool := (t.buffer.view[r]?).map Line.wrapped

/-- does `f` executed in `t` clear the soft-wrap mark of the cursor's row? -/
def clearsMark (t : Terminal) : Function → Bool
  | .el .toRight | .el .all | .ed .below | .ed .all | .dch _ => true
  | .ech n => t.cursor.col + min (asUsize n 1) (t.cols - t.cursor.col) == t.cols
  | _ => false

/-! ### oracle -/

def foldCmd : List Function → Terminal → Bool → Option (Terminal × Bool)
  | [], t, nt => some (t, nt)
  | f :: fs, t, nt =>
    if coveredEdit f then foldCmd fs (editSpec t f) (nt || f != .ed .savedLines) else none

def checkStep (ev : StepEv) : List Verdict :=
  if ev.kind == .resize || ev.funs.isEmpty then [] else
  match foldCmd ev.funs ev.prev.terminal false with
  | some (exp, nt) => [check "edit-command-spec" nt (ev.next.terminal == afterCall ev.kind exp)]
  | none => []

def checkNew (_cols _rows : Nat) (_lim : Option Nat) (_st : Vt) : List Verdict := []

def checkParserStep (_prev : Parser) (_c : Nat) (_next : Parser) (_fn : String) : List Verdict := []

def checkDirective (_name : String) (_args : List String) (_inst : String → Option Inst)
    (_tcOut : Nat → List (List Nat)) : List Verdict × List (Nat × Inst) := ([], [])

end Avt.Spec.C07
