/-
  Avt.Spec.C20 — control strings and unimplemented sequences are inert: the text-level classifier of
  inert input and the oracle.

  `isInertInput s` is decided from the *text* alone (it never runs a parser): `s` is a non-empty
  concatenation of
   * complete control strings — OSC / DCS / SOS / PM / APC, 7- or 8-bit introducer, a payload of
     printable ASCII (incl. DEL), code points ≥ U+00A0 and C0 controls other than CAN, SUB, ESC (and BEL
     for OSC), terminated by ST in 7- or 8-bit form (or BEL for OSC);
   * CSI sequences `CSI [<=>?]? [0-9;:]* [SP../]* final` whose (last intermediate or private marker,
     final, parameters as written) select no function in the reference dispatch table
     `C03.refDispatchCsi`: unimplemented finals, the markers `<` `=` `>`, every intermediate except
     the DECSTR spelling `! p`, and implemented selectors with an unassigned selector value
     (`CSI 7 J`);
   * ESC sequences `ESC [SP../]* final` that select nothing in `C03.refDispatchEsc`;
   * single C0 / C1 controls without a function.
  The only thing shared with C03 is the hand-written table of implemented functions.
-/
import Avt.Spec.Base
import Avt.Spec.C03

namespace Avt.Spec.C20
open Avt Avt.Spec Avt.Spec.C03

/-! ### control strings -/

inductive StrKind where
  | osc | dcs | sos | pm | apc
  deriving DecidableEq, Repr, Inhabited

def StrKind.all : List StrKind := [.osc, .dcs, .sos, .pm, .apc]

/-- the character after ESC in the 7-bit introducer: `]` `P` `X` `^` `_` -/
def StrKind.intro7 : StrKind → Nat
  | .osc => 0x5D | .dcs => 0x50 | .sos => 0x58 | .pm => 0x5E | .apc => 0x5F

/-- the 8-bit introducer: OSC DCS SOS PM APC -/
def StrKind.intro8 : StrKind → Nat
  | .osc => 0x9D | .dcs => 0x90 | .sos => 0x98 | .pm => 0x9E | .apc => 0x9F

def StrKind.intros (k : StrKind) : List (List Nat) := [[0x1B, k.intro7], [k.intro8]]

/-- ST in 7- and 8-bit form; BEL for OSC -/
def StrKind.terms (k : StrKind) : List (List Nat) :=
  [[0x1B, 0x5C], [0x9C]] ++ (if k = .osc then [[0x07]] else [])

/-- payload characters: printable ASCII and DEL, code points from U+00A0, C0 other than CAN SUB ESC
    (and BEL inside OSC) -/
def payloadCharOK (k : StrKind) (c : Nat) : Bool :=
  (inR 0x20 0x7F c || inR 0xA0 0x10FFFF c || inR 0x00 0x17 c || inR 0x19 0x19 c || inR 0x1C 0x1F c)
    && !(k == .osc && inR 0x07 0x07 c)

def payloadOK (k : StrKind) (payload : List Nat) : Bool := payload.all (payloadCharOK k)

/-- the parser states a control string of kind `k` passes through -/
def strStates : StrKind → List PState
  | .osc => [.OscString]
  | .dcs => [.DcsEntry, .DcsParam, .DcsIntermediate, .DcsPassthrough, .DcsIgnore]
  | _ => [.SosPmApcString]

/-- the rest of the text after the terminator of a control string of kind `k` -/
def scanStr (k : StrKind) : List Nat → Option (List Nat)
  | [] => none
  | c :: r =>
    if c = 0x9C then some r
    else if c = 0x07 ∧ k = .osc then some r
    else if c = 0x1B then (match r with | 0x5C :: r' => some r' | _ => none)
    else if payloadCharOK k c then scanStr k r else none

def kindOfIntro7 (c : Nat) : Option StrKind := StrKind.all.find? fun k => k.intro7 == c
def kindOfIntro8 (c : Nat) : Option StrKind := StrKind.all.find? fun k => k.intro8 == c

/-! ### CSI sequences -/

/-- the text of a CSI sequence after the introducer -/
structure CsiText where
  marker : Option Nat       -- `<` `=` `>` `?`
  params : List Nat         -- `0`–`9` `;` `:`
  ints : List Nat           -- SP–`/`
  final : Nat               -- `@`–`~`
  deriving Repr, Inhabited

def CsiText.body (t : CsiText) : List Nat := t.marker.toList ++ t.params ++ t.ints ++ [t.final]

def CsiText.wf (t : CsiText) : Bool :=
  (match t.marker with | some m => inR 0x3C 0x3F m | none => true)
    && t.params.all (inR 0x30 0x3B) && (t.marker.isSome || t.params.head? != some 0x3A)
    && t.ints.all (inR 0x20 0x2F) && inR 0x40 0x7E t.final

/-- the last intermediate, or else the private marker -/
def CsiText.eff (t : CsiText) : Option Nat :=
  match t.ints.getLast? with
  | some i => some i
  | none => t.marker

/-- the function the sequence selects in the reference table -/
def CsiText.fn (t : CsiText) : Option Function := refDispatchCsi t.eff t.final (parseParams t.params)

/-- an optional private marker at the front -/
def splitMarker (s : List Nat) : Option Nat × List Nat :=
  match s with
  | c :: r => if inR 0x3C 0x3F c then (some c, r) else (none, s)
  | [] => (none, s)

def parseCsi (s : List Nat) : Option (CsiText × List Nat) :=
  let ms := splitMarker s
  let s2 := ms.2.dropWhile (inR 0x30 0x3B)
  match s2.dropWhile (inR 0x20 0x2F) with
  | f :: rest =>
    let t : CsiText := { marker := ms.1, params := ms.2.takeWhile (inR 0x30 0x3B),
                         ints := s2.takeWhile (inR 0x20 0x2F), final := f }
    if t.wf then some (t, rest) else none
  | [] => none

/-! ### ESC sequences -/

structure EscText where
  ints : List Nat
  final : Nat
  deriving Repr, Inhabited

def EscText.body (t : EscText) : List Nat := t.ints ++ [t.final]

/-- finals that, directly after ESC, introduce a longer sequence: `P` `X` `[` `]` `^` `_` -/
def escIntroducers : List Nat := [0x50, 0x58, 0x5B, 0x5D, 0x5E, 0x5F]

def EscText.wf (t : EscText) : Bool :=
  t.ints.all (inR 0x20 0x2F) && inR 0x30 0x7E t.final && (!t.ints.isEmpty || !escIntroducers.contains t.final)

def EscText.fn (t : EscText) : Option Function := refDispatchEsc t.ints.getLast? t.final

def parseEsc (s : List Nat) : Option (EscText × List Nat) :=
  let ints := s.takeWhile (inR 0x20 0x2F)
  match s.dropWhile (inR 0x20 0x2F) with
  | f :: rest =>
    let t : EscText := { ints := ints, final := f }
    if t.wf then some (t, rest) else none
  | [] => none

/-! ### single controls -/

/-- C0 / C1 controls that neither have a function nor introduce a sequence -/
def unassignedControl (c : Nat) : Bool :=
  (inR 0x00 0x1F c || inR 0x80 0x9F c)
    && !([0x1B, 0x90, 0x98, 0x9B, 0x9D, 0x9E, 0x9F].contains c) && (refExecute c).isNone

/-! ### the classifier -/

/-- remove one inert item from the front of the text -/
def stripInert (s : List Nat) : Option (List Nat) :=
  match s with
  | [] => none
  | 0x1B :: r =>
    (match r with
     | [] => none
     | x :: r' =>
       if x = 0x5B then
         (match parseCsi r' with
          | some (t, rest) => if t.fn.isNone then some rest else none
          | none => none)
       else match kindOfIntro7 x with
         | some k => scanStr k r'
         | none =>
           match parseEsc r with
           | some (t, rest) => if t.fn.isNone then some rest else none
           | none => none)
  | c :: r =>
    if c = 0x9B then
      (match parseCsi r with
       | some (t, rest) => if t.fn.isNone then some rest else none
       | none => none)
    else match kindOfIntro8 c with
      | some k => scanStr k r
      | none => if unassignedControl c then some r else none

def inertGo : Nat → List Nat → Bool
  | _, [] => true
  | 0, _ :: _ => false
  | n + 1, s => match stripInert s with | some rest => inertGo n rest | none => false

/-- the input is a non-empty concatenation of inert items -/
def isInertInput (s : List Nat) : Bool := !s.isEmpty && inertGo s.length s

/-! ### the oracle -/

/-- A public call whose input is inert, made with the parser in Ground: nothing reaches the terminal,
    the parser is back in Ground, the terminal is what it was (after the `changes()`/`gc()` every
    `feed_str` ends with), and the changed lines reported are those that were already pending before
    the call — none when the previous call cleared the flags. -/
def checkStep (ev : StepEv) : List Verdict :=
  if ev.kind != .resize && ev.prev.parser.state == .Ground && isInertInput ev.input then
    let clean := ev.prev.terminal.dirtyLines.all (· == false)
    [ check "inert-emits-no-function" true (ev.funs == []),
      check "inert-parser-back-in-ground" true (ev.next.parser.state == .Ground),
      check "inert-terminal-unchanged" true (ev.next.terminal == afterCall ev.kind ev.prev.terminal),
      check "inert-no-changed-lines" (ev.ch.isSome && clean)
        (match ev.ch with
         | some ch => ch == reportedOf ev.prev.terminal && (!clean || ch == [])
         | none => true) ]
  else []

def checkNew (_cols _rows : Nat) (_lim : Option Nat) (_st : Vt) : List Verdict := []

def checkParserStep (_prev : Parser) (_c : Nat) (_next : Parser) (_fn : String) : List Verdict := []

def checkDirective (_name : String) (_args : List String) (_inst : String → Option Inst)
    (_tcOut : Nat → List (List Nat)) : List Verdict × List (Nat × Inst) := ([], [])

end Avt.Spec.C20
