/-
  Avt.Spec.C03 — reference parser of property C03 and its oracle.

  Everything in this file is hand-written from Paul Williams' DEC-compatible parser diagram
  (https://www.vt100.net/emu/dec_ansi_parser) and from the list of control functions the property
  names; nothing here looks at the generated tables `Avt.Gen.*`, except `kindAndNext` at the end,
  which is the *classification of the generated arm list* that theorem `C03_table` compares with the
  reference.

  * `williams st c`      — the state diagram: action kind and next state for every state and every
                           code point (`c : Nat`, in particular every Unicode scalar value);
  * `refExecute`, `refDispatchEsc`, `refDispatchCsi` — the implemented control functions;
  * `AState`, `refStep`, `refRun` — the reference parser: Williams' machine over *abstract*
                           registers (the intermediate and the parameters as written, a
                           `List (List Nat)`), with no arrays, cursors or high-water marks;
  * `abs p`              — what a register file `p : Parser` encodes (`written p` = the parameters
                           up to `cur_param`, each up to its `cur_part`);
  * `checkParserStep`, `checkStep` — the oracle: the implementation's next state, emitted function and
                           encoded registers equal `refStep`'s.

  Deviations from the diagram (each one is listed by the property or forced by the pinned code):
   D1  `:` (0x3A) in state CsiParam is a parameter character (sub-parameter separator); the diagram
       sends it to CsiIgnore.  In CsiEntry `:` goes to CsiIgnore as in the diagram, and in the DCS
       states `:` is handled as in the diagram (DcsIgnore).
   D2  BEL (0x07) in OscString ends the string (xterm); the diagram ignores it there.
   D3  C1 controls are the code points U+0080–U+009F ("anywhere" transitions, as in the diagram's
       8-bit reading).
   D4  every code point ≥ U+00A0 is classified like 0x41 `A` (the diagram's GR area 0xA0–0xFF is folded
       onto 0x20–0x7F instead).  The *classification* only: the dispatch functions receive the
       character itself, so `CSI é` selects no function and `ESC ( é` designates ASCII.
   D5  the diagram's `hook`/`unhook`/`osc_start`/`osc_end` actions have no counterpart (no handler is
       attached to DCS/OSC strings); `put`/`osc_put` are kept as kinds but have no effect.
  DEL (0x7F): the diagram prints it in Ground (event 20–7F), passes it to `osc_put` in OscString and
  ignores it everywhere else (in DcsPassthrough it is *not* `put`).  The pinned code does exactly
  that, so no deviation was needed for DEL.
  The only single-register simplification: `collect` keeps only the *last* intermediate / private
  marker (the diagram collects all of them); the dispatch tables below are therefore keyed by one
  optional character.
-/
import Avt.Spec.Base

namespace Avt.Spec.C03
open Avt Avt.Spec

/-! ### 1. Williams' state diagram -/

/-- the kind of action a transition performs -/
inductive Kind where
  | ignore | print | execute | dispatchEsc | dispatchCsi | collect | param | clear | put | oscPut
  deriving DecidableEq, Repr, Inhabited

/-- one line of the diagram: `ranges / action → next` (`next = none`: an event inside the state) -/
structure Row where
  ranges : List (Nat × Nat)
  act : Kind
  next : Option PState
  deriving Repr, Inhabited

def Row.has (r : Row) (c : Nat) : Bool := r.ranges.any fun iv => decide (iv.1 ≤ c) && decide (c ≤ iv.2)

/-- the C0 controls that are executed (or ignored) inside a sequence: all except CAN, SUB, ESC -/
def c0 : List (Nat × Nat) := [(0x00, 0x17), (0x19, 0x19), (0x1C, 0x1F)]

/-- transitions that apply in every state -/
def anywhere : List Row := [
  ⟨[(0x18, 0x18), (0x1A, 0x1A), (0x80, 0x8F), (0x91, 0x97), (0x99, 0x99), (0x9A, 0x9A)], .execute, some .Ground⟩,
  ⟨[(0x9C, 0x9C)], .ignore, some .Ground⟩,
  ⟨[(0x1B, 0x1B)], .ignore, some .Escape⟩,
  ⟨[(0x98, 0x98), (0x9E, 0x9F)], .ignore, some .SosPmApcString⟩,
  ⟨[(0x90, 0x90)], .ignore, some .DcsEntry⟩,
  ⟨[(0x9D, 0x9D)], .ignore, some .OscString⟩,
  ⟨[(0x9B, 0x9B)], .ignore, some .CsiEntry⟩ ]

/-- the events and transitions of each state -/
def rows : PState → List Row
  | .Ground => [
      ⟨c0, .execute, none⟩,
      ⟨[(0x20, 0x7F)], .print, none⟩ ]
  | .Escape => [
      ⟨c0, .execute, none⟩,
      ⟨[(0x7F, 0x7F)], .ignore, none⟩,
      ⟨[(0x20, 0x2F)], .collect, some .EscapeIntermediate⟩,
      ⟨[(0x30, 0x4F), (0x51, 0x57), (0x59, 0x59), (0x5A, 0x5A), (0x5C, 0x5C), (0x60, 0x7E)], .dispatchEsc, some .Ground⟩,
      ⟨[(0x5B, 0x5B)], .ignore, some .CsiEntry⟩,
      ⟨[(0x5D, 0x5D)], .ignore, some .OscString⟩,
      ⟨[(0x50, 0x50)], .ignore, some .DcsEntry⟩,
      ⟨[(0x58, 0x58), (0x5E, 0x5E), (0x5F, 0x5F)], .ignore, some .SosPmApcString⟩ ]
  | .EscapeIntermediate => [
      ⟨c0, .execute, none⟩,
      ⟨[(0x20, 0x2F)], .collect, none⟩,
      ⟨[(0x7F, 0x7F)], .ignore, none⟩,
      ⟨[(0x30, 0x7E)], .dispatchEsc, some .Ground⟩ ]
  | .CsiEntry => [
      ⟨c0, .execute, none⟩,
      ⟨[(0x7F, 0x7F)], .ignore, none⟩,
      ⟨[(0x20, 0x2F)], .collect, some .CsiIntermediate⟩,
      ⟨[(0x3A, 0x3A)], .ignore, some .CsiIgnore⟩,
      ⟨[(0x30, 0x39), (0x3B, 0x3B)], .param, some .CsiParam⟩,
      ⟨[(0x3C, 0x3F)], .collect, some .CsiParam⟩,
      ⟨[(0x40, 0x7E)], .dispatchCsi, some .Ground⟩ ]
  | .CsiParam => [
      ⟨c0, .execute, none⟩,
      ⟨[(0x30, 0x39), (0x3A, 0x3A) /- D1 -/, (0x3B, 0x3B)], .param, none⟩,
      ⟨[(0x7F, 0x7F)], .ignore, none⟩,
      ⟨[(0x3C, 0x3F)], .ignore, some .CsiIgnore⟩,
      ⟨[(0x20, 0x2F)], .collect, some .CsiIntermediate⟩,
      ⟨[(0x40, 0x7E)], .dispatchCsi, some .Ground⟩ ]
  | .CsiIntermediate => [
      ⟨c0, .execute, none⟩,
      ⟨[(0x20, 0x2F)], .collect, none⟩,
      ⟨[(0x7F, 0x7F)], .ignore, none⟩,
      ⟨[(0x30, 0x3F)], .ignore, some .CsiIgnore⟩,
      ⟨[(0x40, 0x7E)], .dispatchCsi, some .Ground⟩ ]
  | .CsiIgnore => [
      ⟨c0, .execute, none⟩,
      ⟨[(0x20, 0x3F), (0x7F, 0x7F)], .ignore, none⟩,
      ⟨[(0x40, 0x7E)], .ignore, some .Ground⟩ ]
  | .DcsEntry => [
      ⟨c0, .ignore, none⟩,
      ⟨[(0x7F, 0x7F)], .ignore, none⟩,
      ⟨[(0x20, 0x2F)], .collect, some .DcsIntermediate⟩,
      ⟨[(0x3A, 0x3A)], .ignore, some .DcsIgnore⟩,
      ⟨[(0x30, 0x39), (0x3B, 0x3B)], .param, some .DcsParam⟩,
      ⟨[(0x3C, 0x3F)], .collect, some .DcsParam⟩,
      ⟨[(0x40, 0x7E)], .ignore, some .DcsPassthrough⟩ ]
  | .DcsParam => [
      ⟨c0, .ignore, none⟩,
      ⟨[(0x30, 0x39), (0x3B, 0x3B)], .param, none⟩,
      ⟨[(0x7F, 0x7F)], .ignore, none⟩,
      ⟨[(0x3A, 0x3A), (0x3C, 0x3F)], .ignore, some .DcsIgnore⟩,
      ⟨[(0x20, 0x2F)], .collect, some .DcsIntermediate⟩,
      ⟨[(0x40, 0x7E)], .ignore, some .DcsPassthrough⟩ ]
  | .DcsIntermediate => [
      ⟨c0, .ignore, none⟩,
      ⟨[(0x20, 0x2F)], .collect, none⟩,
      ⟨[(0x7F, 0x7F)], .ignore, none⟩,
      ⟨[(0x30, 0x3F)], .ignore, some .DcsIgnore⟩,
      ⟨[(0x40, 0x7E)], .ignore, some .DcsPassthrough⟩ ]
  | .DcsPassthrough => [
      ⟨c0 ++ [(0x20, 0x7E)], .put, none⟩,
      ⟨[(0x7F, 0x7F)], .ignore, none⟩ ]
  | .DcsIgnore => [
      ⟨c0 ++ [(0x20, 0x7F)], .ignore, none⟩ ]
  | .OscString => [
      ⟨[(0x07, 0x07)], .ignore, some .Ground⟩,     -- D2 (listed before the C0 row it overrides)
      ⟨c0, .ignore, none⟩,
      ⟨[(0x20, 0x7F)], .oscPut, none⟩ ]
  | .SosPmApcString => [
      ⟨c0 ++ [(0x20, 0x7F)], .ignore, none⟩ ]

/-- states whose entry action is `clear` -/
def entryClears : PState → Bool
  | .Escape | .CsiEntry | .DcsEntry => true
  | _ => false

/-- D4: code points from U+00A0 up are classified like `A` -/
def classChar (c : Nat) : Nat := if c ≥ 0xA0 then 0x41 else c

/-- **The reference table**: action kind and next state.  A transition without an action of its own
    into a state with entry action `clear` has kind `clear`. -/
def williams (st : PState) (c : Nat) : Kind × PState :=
  match (anywhere ++ rows st).find? (fun r => r.has (classChar c)) with
  | none => (.ignore, st)
  | some r =>
    match r.next with
    | none => (r.act, st)
    | some s => (if r.act == .ignore && entryClears s then .clear else r.act, s)

/-! ### 2. The implemented control functions -/

/-- closed-interval test -/
def inR (lo hi c : Nat) : Bool := decide (lo ≤ c) && decide (c ≤ hi)

/-- C0 and C1 controls with a function: BS HT LF VT FF CR SO SI, IND NEL HTS RI -/
def refExecTable : List (Nat × Function) := [
  (0x08, .bs), (0x09, .ht), (0x0A, .lf), (0x0B, .lf), (0x0C, .lf), (0x0D, .cr), (0x0E, .so), (0x0F, .si),
  (0x84, .lf), (0x85, .nel), (0x88, .hts), (0x8D, .ri) ]

def refExecute (c : Nat) : Option Function := refExecTable.lookup c

/-- what an ESC sequence selects: the C1 control `final + 0x40` (Fe), a function, or nothing -/
inductive EscSel where
  | fe | fn (f : Function) | none
  deriving DecidableEq, Repr, Inhabited

/-- ESC sequences: `interm` is the last intermediate (if any), `c` the final character -/
def refEscSel (interm : Option Nat) (c : Nat) : EscSel :=
  match interm with
  | none =>
    if inR 0x40 0x5F c then .fe                      -- ESC @ … ESC _  =  C1
    else if inR 0x37 0x37 c then .fn .decsc          -- ESC 7
    else if inR 0x38 0x38 c then .fn .decrc          -- ESC 8
    else if inR 0x63 0x63 c then .fn .ris            -- ESC c
    else .none
  | some 0x23 => if inR 0x38 0x38 c then .fn .decaln else .none                            -- ESC # 8
  | some 0x28 => .fn (.gzd4 (if inR 0x30 0x30 c then .drawing else .ascii))                -- ESC ( 0, ESC ( x
  | some 0x29 => .fn (.g1d4 (if inR 0x30 0x30 c then .drawing else .ascii))                -- ESC ) 0, ESC ) x
  | some _ => .none

/-- `ESC @ … ESC _` (Fe) act as the C1 control `c + 0x40` -/
def refDispatchEsc (interm : Option Nat) (c : Nat) : Option Function :=
  match refEscSel interm c with
  | .fe => refExecute (c + 0x40)
  | .fn f => some f
  | .none => none

/-- first sub-part of the `i`-th written parameter; a parameter that was not written is 0 -/
def arg (ps : List (List Nat)) (i : Nat) : Nat :=
  match ps[i]? with
  | some (v :: _) => v
  | _ => 0

def refAnsiModes : List (Nat × AnsiMode) := [(4, .insert), (20, .newLine)]

def refDecModes : List (Nat × DecMode) := [
  (1, .cursorKeys), (6, .origin), (7, .autoWrap), (25, .textCursorEnable), (47, .altScreenBuffer),
  (1047, .altScreenBuffer), (1048, .saveCursor), (1049, .saveCursorAltScreenBuffer) ]

def refAnsiMode (n : Nat) : Option AnsiMode := refAnsiModes.lookup n
def refDecMode (n : Nat) : Option DecMode := refDecModes.lookup n

def refEd : List (Nat × Function) := [(0, .ed .below), (1, .ed .above), (2, .ed .all), (3, .ed .savedLines)]
def refEl : List (Nat × Function) := [(0, .el .toRight), (1, .el .toLeft), (2, .el .all)]
def refCtc : List (Nat × Function) := [(0, .ctc .set), (2, .ctc .clearCurrentColumn), (5, .ctc .clearAll)]
def refTbc : List (Nat × Function) := [(0, .tbc .currentColumn), (3, .tbc .all)]

/-- a written parameter as a `Param` value (for the SGR decoder, which reads sub-parts) -/
def mkParam (parts : List Nat) : Param :=
  { curPart := parts.length - 1, parts := parts ++ List.replicate (6 - parts.length) 0 }

/-- CSI sequences: `interm` is the last private marker / intermediate collected (if any), `final`
    the final character, `ps` the parameters as written.  Numeric arguments are passed on as written
    (0 and "missing" are both 0 here; the default is applied by the terminal). -/
def refDispatchCsi (interm : Option Nat) (final : Nat) (ps : List (List Nat)) : Option Function :=
  let a := arg ps
  match interm, final with
  | none, 0x40 => some (.ich (a 0))                  -- @  ICH
  | none, 0x41 => some (.cuu (a 0))                  -- A  CUU
  | none, 0x42 => some (.cud (a 0))                  -- B  CUD
  | none, 0x43 => some (.cuf (a 0))                  -- C  CUF
  | none, 0x44 => some (.cub (a 0))                  -- D  CUB
  | none, 0x45 => some (.cnl (a 0))                  -- E  CNL
  | none, 0x46 => some (.cpl (a 0))                  -- F  CPL
  | none, 0x47 => some (.cha (a 0))                  -- G  CHA
  | none, 0x48 => some (.cup (a 0) (a 1))            -- H  CUP
  | none, 0x49 => some (.cht (a 0))                  -- I  CHT
  | none, 0x4A => refEd.lookup (a 0)                 -- J  ED
  | none, 0x4B => refEl.lookup (a 0)                 -- K  EL
  | none, 0x4C => some (.il (a 0))                   -- L  IL
  | none, 0x4D => some (.dl (a 0))                   -- M  DL
  | none, 0x50 => some (.dch (a 0))                  -- P  DCH
  | none, 0x53 => some (.su (a 0))                   -- S  SU
  | none, 0x54 => some (.sd (a 0))                   -- T  SD
  | none, 0x57 => refCtc.lookup (a 0)                -- W  CTC
  | none, 0x58 => some (.ech (a 0))                  -- X  ECH
  | none, 0x5A => some (.cbt (a 0))                  -- Z  CBT
  | none, 0x60 => some (.cha (a 0))                  -- `  HPA = CHA
  | none, 0x61 => some (.cuf (a 0))                  -- a  HPR = CUF
  | none, 0x62 => some (.rep (a 0))                  -- b  REP
  | none, 0x64 => some (.vpa (a 0))                  -- d  VPA
  | none, 0x65 => some (.vpr (a 0))                  -- e  VPR
  | none, 0x66 => some (.cup (a 0) (a 1))            -- f  HVP = CUP
  | none, 0x67 => refTbc.lookup (a 0)                -- g  TBC
  | none, 0x68 => some (.sm (ps.filterMap fun q => refAnsiMode (q.headD 0)))      -- h  SM
  | none, 0x6C => some (.rm (ps.filterMap fun q => refAnsiMode (q.headD 0)))      -- l  RM
  | none, 0x6D => (Parser.sgrOps (ps.map mkParam)).map .sgr                       -- m  SGR
  | none, 0x72 => some (.decstbm (a 0) (a 1))        -- r  DECSTBM
  | none, 0x73 => some .scosc                        -- s  SCOSC
  | none, 0x74 => if a 0 = 8 then some (.xtwinops (a 2) (a 1)) else none          -- t  XTWINOPS 8;rows;cols
  | none, 0x75 => some .scorc                        -- u  SCORC
  | some 0x21, 0x70 => some .decstr                  -- ! p  DECSTR
  | some 0x3F, 0x68 => some (.decset (ps.filterMap fun q => refDecMode (q.headD 0)))   -- ? h  DECSET
  | some 0x3F, 0x6C => some (.decrst (ps.filterMap fun q => refDecMode (q.headD 0)))   -- ? l  DECRST
  | _, _ => none

/-! ### 3. The reference parser over abstract registers -/

/-- apply `f` to the last element -/
def modLast {α : Type} : List α → (α → α) → List α
  | [], _ => []
  | [x], f => [f x]
  | x :: y :: r, f => x :: modLast (y :: r) f

/-- the effect of one parameter character on the written parameters: a digit extends the last
    sub-part (values are kept mod 65536), `;` opens a new parameter (at most 32; further `;` are
    dropped, so later digits run into the 32nd), `:` opens a new sub-part (at most 6) -/
def stepW (ps : List (List Nat)) (c : Nat) : List (List Nat) :=
  if c = 0x3B then (if ps.length < 32 then ps ++ [[0]] else ps)
  else if c = 0x3A then modLast ps fun q => if q.length < 6 then q ++ [0] else q
  else modLast ps fun q => modLast q fun v => (10 * v + (c - 0x30)) % 65536

/-- the parameters written by a parameter string (digits, `;`, `:`), read from the text -/
def parseParams (body : List Nat) : List (List Nat) := body.foldl stepW [[0]]

structure AState where
  state : PState := .Ground
  interm : Option Nat := none
  ps : List (List Nat) := [[0]]
  deriving DecidableEq, Repr, Inhabited

/-- one step of the reference parser: new state and the function emitted (if any) -/
def refStep (a : AState) (c : Nat) : AState × Option Function :=
  let w := williams a.state c
  match w.1 with
  | .ignore | .put | .oscPut => ({ a with state := w.2 }, none)
  | .print => ({ a with state := w.2 }, some (.print c))
  | .execute => ({ a with state := w.2 }, refExecute c)
  | .collect => ({ a with state := w.2, interm := some c }, none)
  | .param => ({ a with state := w.2, ps := stepW a.ps c }, none)
  | .clear => ({ state := w.2, interm := none, ps := [[0]] }, none)
  | .dispatchCsi => ({ a with state := w.2 }, refDispatchCsi a.interm c a.ps)
  | .dispatchEsc => ({ a with state := w.2 }, refDispatchEsc a.interm c)

def refRun : AState → List Nat → AState × List Function
  | a, [] => (a, [])
  | a, c :: cs =>
    let r := refStep a c
    let r2 := refRun r.1 cs
    (r2.1, r.2.toList ++ r2.2)

/-- the parameters a register file encodes: up to `cur_param`, each up to its `cur_part` -/
def written (p : Parser) : List (List Nat) :=
  (p.params.take (p.curParam + 1)).map fun q => q.parts.take (q.curPart + 1)

def abs (p : Parser) : AState := { state := p.state, interm := p.intermediate, ps := written p }

/-- `Parser::feed` over a string: final parser and the functions emitted (`none`: a panic) -/
def run : Parser → List Nat → Option (Parser × List Function)
  | p, [] => some (p, [])
  | p, c :: cs =>
    match p.feed c with
    | none => none
    | some (p', f) =>
      match run p' cs with
      | none => none
      | some (q, fs) => some (q, f.toList ++ fs)

/-- states in which the registers are dead: nothing reads them before the next `clear` -/
def dead : PState → Bool
  | .Ground | .CsiIgnore | .DcsPassthrough | .DcsIgnore | .OscString | .SosPmApcString => true
  | _ => false

/-- normal form that erases dead registers -/
def AState.norm (a : AState) : AState := if dead a.state then { state := a.state } else a

/-! ### 4. Classification of the generated arm list (the subject of `C03_table`) -/

def onlySetStates : List Act → PState → Option PState
  | [], st => some st
  | .setState s :: as, _ => onlySetStates as s
  | _ :: _, _ => none

/-- action kind and next state of an arm body: assignments to `self.state`, then at most one other
    statement (a register action may be followed by further state assignments).  `none`: the body
    has a shape the diagram has no kind for. -/
def classify : List Act → PState → Option (Kind × PState)
  | [], st => some (.ignore, st)
  | .setState s :: as, _ => classify as s
  | .retPrint :: _, st => some (.print, st)
  | .retExecute :: _, st => some (.execute, st)
  | .retCsiDispatch :: _, st => some (.dispatchCsi, st)
  | .retEscDispatch :: _, st => some (.dispatchEsc, st)
  | .clear :: as, st => (onlySetStates as st).map fun s => (.clear, s)
  | .collect :: as, st => (onlySetStates as st).map fun s => (.collect, s)
  | .param :: as, st => (onlySetStates as st).map fun s => (.param, s)
  | .put :: as, st => (onlySetStates as st).map fun s => (.put, s)
  | .oscPut :: as, st => (onlySetStates as st).map fun s => (.oscPut, s)

/-- what the (generated) `match (&self.state, input2)` of `Parser::feed` does for `(st, c)` -/
def kindAndNext (st : PState) (c : Nat) : Option (Kind × PState) :=
  match Parser.findArm Gen.feedArms st (Parser.premap c) with
  | none => some (.ignore, st)
  | some arm => classify arm.acts st

/-! ### 5. The oracle -/

def natTok (n : Nat) : String := toString n

def listTok {α : Type} (f : α → String) (xs : List α) : String :=
  if xs.isEmpty then "-" else ",".intercalate (xs.map f)

def colorTok : Color → String
  | .indexed n => s!"i{n}"
  | .rgb r g b => s!"r{r}.{g}.{b}"

def sgrOpTok : SgrOp → String
  | .reset => "0" | .setBold => "1" | .setFaint => "2" | .setItalic => "3" | .setUnderline => "4"
  | .setBlink => "5" | .setInverse => "7" | .setStrikethrough => "9" | .resetIntensity => "22"
  | .resetItalic => "23" | .resetUnderline => "24" | .resetBlink => "25" | .resetInverse => "27"
  | .resetStrikethrough => "29" | .setFg c => "fg:" ++ colorTok c | .resetFg => "39"
  | .setBg c => "bg:" ++ colorTok c | .resetBg => "49"

def decModeTok : DecMode → String
  | .cursorKeys => "1" | .origin => "6" | .autoWrap => "7" | .textCursorEnable => "25"
  | .altScreenBuffer => "1047" | .saveCursor => "1048" | .saveCursorAltScreenBuffer => "1049"

def ansiModeTok : AnsiMode → String
  | .insert => "4" | .newLine => "20"

/-- the harness' text form of a `Function` (`function_tok` in harness/src/main.rs) -/
def functionTok : Function → String
  | .bs => "bs" | .cbt n => s!"cbt {n}" | .cha n => s!"cha {n}" | .cht n => s!"cht {n}"
  | .cnl n => s!"cnl {n}" | .cpl n => s!"cpl {n}" | .cr => "cr"
  | .ctc op => "ctc " ++ (match op with | .set => "0" | .clearCurrentColumn => "1" | .clearAll => "2")
  | .cub n => s!"cub {n}" | .cud n => s!"cud {n}" | .cuf n => s!"cuf {n}" | .cup r c => s!"cup {r} {c}"
  | .cuu n => s!"cuu {n}" | .dch n => s!"dch {n}" | .decaln => "decaln" | .decrc => "decrc"
  | .decrst ms => "decrst " ++ listTok decModeTok ms | .decsc => "decsc"
  | .decset ms => "decset " ++ listTok decModeTok ms | .decstbm t b => s!"decstbm {t} {b}"
  | .decstr => "decstr" | .dl n => s!"dl {n}" | .ech n => s!"ech {n}"
  | .ed s => "ed " ++ (match s with | .below => "0" | .above => "1" | .all => "2" | .savedLines => "3")
  | .el s => "el " ++ (match s with | .toRight => "0" | .toLeft => "1" | .all => "2")
  | .g1d4 c => "g1d4 " ++ (match c with | .ascii => "0" | .drawing => "1")
  | .gzd4 c => "gzd4 " ++ (match c with | .ascii => "0" | .drawing => "1")
  | .ht => "ht" | .hts => "hts" | .ich n => s!"ich {n}" | .il n => s!"il {n}" | .lf => "lf"
  | .nel => "nel" | .print c => s!"print {c}" | .rep n => s!"rep {n}" | .ri => "ri" | .ris => "ris"
  | .rm ms => "rm " ++ listTok ansiModeTok ms | .scorc => "scorc" | .scosc => "scosc"
  | .sd n => s!"sd {n}" | .sgr ops => "sgr " ++ listTok sgrOpTok ops | .si => "si"
  | .sm ms => "sm " ++ listTok ansiModeTok ms | .so => "so" | .su n => s!"su {n}"
  | .tbc s => "tbc " ++ (match s with | .currentColumn => "0" | .all => "1")
  | .vpa n => s!"vpa {n}" | .vpr n => s!"vpr {n}" | .xtwinops c r => s!"xtwinops {c} {r}"

def optFunTok : Option Function → String
  | some f => functionTok f
  | none => "-"

def kindName : Kind → String
  | .ignore => "ignore" | .print => "print" | .execute => "execute" | .dispatchEsc => "esc-dispatch"
  | .dispatchCsi => "csi-dispatch" | .collect => "collect" | .param => "param" | .clear => "clear"
  | .put => "put" | .oscPut => "osc-put"

/-- One character fed to a bare parser of the implementation: `prev`/`next` are its register files
    before/after, `fn` the text form of the returned function (`-` for `None`).
    The next state must be Williams'; the function must be the reference dispatch applied to the
    parameters *as written* (recovered from `prev`); the registers after the step must encode what
    the reference parser holds (so the action kind — ignore / collect / param / clear — is checked
    through its effect), and must again satisfy the register invariant. -/
def checkParserStep (prev : Parser) (c : Nat) (next : Parser) (fn : String) : List Verdict :=
  let a := abs prev
  let w := williams prev.state c
  let r := refStep a c
  let k := kindName w.1
  let inv := PInv prev
  [ check s!"williams-next-state[{k}]" true (next.state == w.2),
    check s!"reference-function[{k}]" (w.1 == .print || w.1 == .execute || w.1 == .dispatchCsi || w.1 == .dispatchEsc)
      (fn == optFunTok r.2),
    check s!"registers-encode-written-parameters[{k}]" inv (!inv || abs next == r.1),
    check s!"register-invariant-preserved[{k}]" inv (!inv || PInv next) ]

/-- A whole public call: the parser state after the call is the fold of the reference parser over the
    input, its registers encode the reference's, and the functions that reached the terminal are the
    reference's. -/
def checkStep (ev : StepEv) : List Verdict :=
  if ev.kind == .resize then
    [ check "resize-leaves-parser-alone" false (ev.next.parser == ev.prev.parser) ]
  else
    let inv := PInv ev.prev.parser
    let r := refRun (abs ev.prev.parser) ev.input
    [ check "williams-state-after-call" true (ev.next.parser.state == r.1.state),
      check "registers-after-call" inv (!inv || (abs ev.next.parser == r.1 && PInv ev.next.parser)),
      check "functions-of-call" true (ev.funs == r.2) ]

def checkNew (_cols _rows : Nat) (_lim : Option Nat) (st : Vt) : List Verdict :=
  [ check "new-parser-is-ground-and-zero" true (st.parser == Parser.new && abs st.parser == {}) ]

def checkDirective (_name : String) (_args : List String) (_inst : String → Option Inst)
    (_tcOut : Nat → List (List Nat)) : List Verdict × List (Nat × Inst) := ([], [])

end Avt.Spec.C03
