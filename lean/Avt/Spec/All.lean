/-
  Avt.Spec.All — dispatch from a property id to its oracle.
-/
import Avt.Spec.Base
import Avt.Spec.C01
import Avt.Spec.C02
import Avt.Spec.C03
import Avt.Spec.C04
import Avt.Spec.C05
import Avt.Spec.C06
import Avt.Spec.C07
import Avt.Spec.C08
import Avt.Spec.C09
import Avt.Spec.C10
import Avt.Spec.C11
import Avt.Spec.C12
import Avt.Spec.C13
import Avt.Spec.C14
import Avt.Spec.C15
import Avt.Spec.C16
import Avt.Spec.C17
import Avt.Spec.C18
import Avt.Spec.C19
import Avt.Spec.C20

namespace Avt.Spec
open Avt

def checkStep (prop : String) (ev : StepEv) : List Verdict :=
  match prop with
  | "C01" => C01.checkStep ev
  | "C02" => C02.checkStep ev
  | "C03" => C03.checkStep ev
  | "C04" => C04.checkStep ev
  | "C05" => C05.checkStep ev
  | "C06" => C06.checkStep ev
  | "C07" => C07.checkStep ev
  | "C08" => C08.checkStep ev
  | "C09" => C09.checkStep ev
  | "C10" => C10.checkStep ev
  | "C11" => C11.checkStep ev
  | "C12" => C12.checkStep ev
  | "C13" => C13.checkStep ev
  | "C14" => C14.checkStep ev
  | "C15" => C15.checkStep ev
  | "C16" => C16.checkStep ev
  | "C17" => C17.checkStep ev
  | "C18" => C18.checkStep ev
  | "C19" => C19.checkStep ev
  | "C20" => C20.checkStep ev
  | _ => []

def checkNew (prop : String) (cols rows : Nat) (lim : Option Nat) (st : Vt) : List Verdict :=
  match prop with
  | "C01" => C01.checkNew cols rows lim st
  | "C02" => C02.checkNew cols rows lim st
  | "C03" => C03.checkNew cols rows lim st
  | "C04" => C04.checkNew cols rows lim st
  | "C05" => C05.checkNew cols rows lim st
  | "C06" => C06.checkNew cols rows lim st
  | "C07" => C07.checkNew cols rows lim st
  | "C08" => C08.checkNew cols rows lim st
  | "C09" => C09.checkNew cols rows lim st
  | "C10" => C10.checkNew cols rows lim st
  | "C11" => C11.checkNew cols rows lim st
  | "C12" => C12.checkNew cols rows lim st
  | "C13" => C13.checkNew cols rows lim st
  | "C14" => C14.checkNew cols rows lim st
  | "C15" => C15.checkNew cols rows lim st
  | "C16" => C16.checkNew cols rows lim st
  | "C17" => C17.checkNew cols rows lim st
  | "C18" => C18.checkNew cols rows lim st
  | "C19" => C19.checkNew cols rows lim st
  | "C20" => C20.checkNew cols rows lim st
  | _ => []

def checkParserStep (prop : String) (prev : Parser) (c : Nat) (next : Parser) (fn : String) : List Verdict :=
  match prop with
  | "C01" => C01.checkParserStep prev c next fn
  | "C02" => C02.checkParserStep prev c next fn
  | "C03" => C03.checkParserStep prev c next fn
  | "C04" => C04.checkParserStep prev c next fn
  | "C05" => C05.checkParserStep prev c next fn
  | "C06" => C06.checkParserStep prev c next fn
  | "C07" => C07.checkParserStep prev c next fn
  | "C08" => C08.checkParserStep prev c next fn
  | "C09" => C09.checkParserStep prev c next fn
  | "C10" => C10.checkParserStep prev c next fn
  | "C11" => C11.checkParserStep prev c next fn
  | "C12" => C12.checkParserStep prev c next fn
  | "C13" => C13.checkParserStep prev c next fn
  | "C14" => C14.checkParserStep prev c next fn
  | "C15" => C15.checkParserStep prev c next fn
  | "C16" => C16.checkParserStep prev c next fn
  | "C17" => C17.checkParserStep prev c next fn
  | "C18" => C18.checkParserStep prev c next fn
  | "C19" => C19.checkParserStep prev c next fn
  | "C20" => C20.checkParserStep prev c next fn
  | _ => []

def checkDirective (prop : String) (name : String) (args : List String) (inst : String → Option Inst)
    (tcOut : Nat → List (List Nat)) : List Verdict × List (Nat × Inst) :=
  match prop with
  | "C01" => C01.checkDirective name args inst tcOut
  | "C02" => C02.checkDirective name args inst tcOut
  | "C03" => C03.checkDirective name args inst tcOut
  | "C04" => C04.checkDirective name args inst tcOut
  | "C05" => C05.checkDirective name args inst tcOut
  | "C06" => C06.checkDirective name args inst tcOut
  | "C07" => C07.checkDirective name args inst tcOut
  | "C08" => C08.checkDirective name args inst tcOut
  | "C09" => C09.checkDirective name args inst tcOut
  | "C10" => C10.checkDirective name args inst tcOut
  | "C11" => C11.checkDirective name args inst tcOut
  | "C12" => C12.checkDirective name args inst tcOut
  | "C13" => C13.checkDirective name args inst tcOut
  | "C14" => C14.checkDirective name args inst tcOut
  | "C15" => C15.checkDirective name args inst tcOut
  | "C16" => C16.checkDirective name args inst tcOut
  | "C17" => C17.checkDirective name args inst tcOut
  | "C18" => C18.checkDirective name args inst tcOut
  | "C19" => C19.checkDirective name args inst tcOut
  | "C20" => C20.checkDirective name args inst tcOut
  | _ => ([], [])

end Avt.Spec
