/-
  Avt.Spec.All — dispatch from a property id to its oracle.
-/
import Avt.Spec.Base

namespace Avt.Spec
open Avt

def c02Step (ev : StepEv) : List Verdict :=
  [ check "inv-after-call" true (Inv ev.next),
    check "geometry-through-api" true (geomOK ev.next),
    check "size-is-last-requested" (ev.kind == .resize)
      (ev.kind != .resize || (ev.next.terminal.cols == ev.cols && ev.next.terminal.rows == ev.rows)),
    check "changed-lines-increasing-and-in-range" ev.ch.isSome
      (match ev.ch with | some ch => changesOK ev.next.terminal.rows ch | none => true) ]

def checkStep (prop : String) (ev : StepEv) : List Verdict :=
  match prop with
  | "C01" => c02Step ev
  | "C02" => c02Step ev
  | _ => []

def checkNew (prop : String) (cols rows : Nat) (_lim : Option Nat) (st : Vt) : List Verdict :=
  match prop with
  | "C01" | "C02" =>
    [ check "inv-of-new" true (Inv st), check "geometry-of-new" true (geomOK st),
      check "size-of-new" true (st.terminal.cols == cols && st.terminal.rows == rows) ]
  | _ => []

def checkParserStep (_prop : String) (_prev : Parser) (_c : Nat) (_next : Parser) (_fn : String) : List Verdict := []

def checkDirective (_prop : String) (_name : String) (_args : List String) (_inst : String → Option Inst)
    (_tcOut : Nat → List (List Nat)) : List Verdict × List (Nat × Inst) := ([], [])

end Avt.Spec
