/-
  Avt.Spec.C04 — oracle of property C04 (printing, auto-wrap, insert mode, charsets): decidable
  definitions evaluated on implementation states; the same definitions the theorems in
  Avt/Props/C04.lean are stated with.

  Covered functions: `Print ch` and `Rep n`.  The specification is a total function
  `printSpec : Terminal → Nat → Terminal` written with closed formulas over the rows of the view
  (`take` / `drop` / `set` / `replicate`); it is *not* the model code (no rotations, no `Vec::insert`,
  no checked arithmetic, no intermediate un-marking of rows).
-/
import Avt.Spec.Base

namespace Avt.Spec.C04
open Avt Avt.Spec

/-! ### The DEC special graphics set (fixed VT100 table, written out by hand) -/

/-- VT100 line-drawing glyph of a code point: 0x60..0x7E map to
    ♦ ▒ ␉ ␌ ␍ ␊ ° ± ␤ ␋ ┘ ┐ ┌ └ ┼ ⎺ ⎻ ─ ⎼ ⎽ ├ ┤ ┴ ┬ │ ≤ ≥ π ≠ £ ⋅ ; everything else is itself. -/
def gfxRef (c : Nat) : Nat :=
  match c with
  | 0x60 => 0x2666 -- ♦
  | 0x61 => 0x2592 -- ▒
  | 0x62 => 0x2409 -- ␉
  | 0x63 => 0x240C -- ␌
  | 0x64 => 0x240D -- ␍
  | 0x65 => 0x240A -- ␊
  | 0x66 => 0x00B0 -- °
  | 0x67 => 0x00B1 -- ±
  | 0x68 => 0x2424 -- ␤
  | 0x69 => 0x240B -- ␋
  | 0x6A => 0x2518 -- ┘
  | 0x6B => 0x2510 -- ┐
  | 0x6C => 0x250C -- ┌
  | 0x6D => 0x2514 -- └
  | 0x6E => 0x253C -- ┼
  | 0x6F => 0x23BA -- ⎺
  | 0x70 => 0x23BB -- ⎻
  | 0x71 => 0x2500 -- ─
  | 0x72 => 0x23BC -- ⎼
  | 0x73 => 0x23BD -- ⎽
  | 0x74 => 0x251C -- ├
  | 0x75 => 0x2524 -- ┤
  | 0x76 => 0x2534 -- ┴
  | 0x77 => 0x252C -- ┬
  | 0x78 => 0x2502 -- │
  | 0x79 => 0x2264 -- ≤
  | 0x7A => 0x2265 -- ≥
  | 0x7B => 0x03C0 -- π
  | 0x7C => 0x2260 -- ≠
  | 0x7D => 0x00A3 -- £
  | 0x7E => 0x22C5 -- ⋅
  | _ => c

/-- translation through a character set, against the reference table -/
def translateRef (cs : Charset) (c : Nat) : Nat :=
  match cs with
  | .ascii => c
  | .drawing => gfxRef c

/-- the character set in use: G0 unless G1 was shifted in -/
def activeSet (t : Terminal) : Charset := if t.activeCharset = 0 then t.charsets.1 else t.charsets.2

/-- the glyph a printable character is written as -/
def glyph (t : Terminal) (ch : Nat) : Nat := translateRef (activeSet t) ch

/-! ### Vocabulary on rows -/

def markWrapped (l : Line) : Line := { l with wrapped := true }
def clearWrapped (l : Line) : Line := { l with wrapped := false }

/-- a fresh row: `cols` spaces in the given pen, not soft-wrapped -/
def blankRow (cols : Nat) (pen : Pen) : Line := ⟨List.replicate cols ⟨0x20, pen⟩, false⟩

/-- the rows with `f` applied to row `r`; every other row is untouched -/
def onRow (v : List Line) (r : Nat) (f : Line → Line) : List Line :=
  match v[r]? with
  | some l => v.set r (f l)
  | none => v

/-- overwrite: only cell `c` changes -/
def putCell (c : Nat) (cell : Cell) (l : Line) : Line := { l with cells := l.cells.set c cell }

/-- insert: the cells from `c` on shift right by one, the last one is dropped -/
def insertCell (c : Nat) (cell : Cell) (l : Line) : Line :=
  { l with cells := l.cells.take c ++ [cell] ++ (l.cells.drop c).dropLast }

/-- the buffer with `f` applied to row `r` of the view -/
def bufOnRow (b : Buffer) (r : Nat) (f : Line → Line) : Buffer := { b with view := onRow b.view r f }

/-! ### The scroll caused by wrapping on the bottom margin

Rows `top..=bot` move up by one: row `top` leaves the region (into the scrollback when the region
starts at row 0, lost otherwise), rows `top+1..=bot` become rows `top..=bot-1` *with their wrap
marks*, a fresh row in the current pen appears at `bot`; rows outside the region stay, except
that the row just above a region that does not start at row 0 loses its wrap mark (its
continuation is gone).  The scrollback is flagged for trimming. -/
def scrollRegionUp1 (b : Buffer) (top bot : Nat) (pen : Pen) : Buffer :=
  let v := b.view
  { b with
    sb := b.sb ++ (if top = 0 then v.take 1 else []),
    view := onRow (v.take top) (top - 1) clearWrapped
              ++ (v.take (bot + 1)).drop (top + 1)
              ++ [blankRow b.cols pen]
              ++ v.drop (bot + 1),
    trimNeeded := true }

/-- rows `a..=b` reported as changed -/
def dirtyRange (d : List Bool) (a b : Nat) : List Bool :=
  d.take a ++ List.replicate (b + 1 - a) true ++ d.drop (b + 1)

/-! ### Print -/

/-- the deferred wrap (taken when auto-wrap is on and a wrap is pending): column 0 of the next row;
    the row left behind is marked soft-wrapped; on the bottom margin the region scrolls instead of
    the cursor moving; on the last row below the region nothing moves and nothing is marked. -/
def wrapStep (t : Terminal) : Terminal :=
  let r := t.cursor.row
  if r = t.bottomMargin then
    { t with
      cursor := { t.cursor with col := 0 },
      pendingWrap := false,
      buffer := scrollRegionUp1 (bufOnRow t.buffer r markWrapped) t.topMargin t.bottomMargin t.pen,
      dirtyLines := dirtyRange t.dirtyLines t.topMargin t.bottomMargin }
  else if r + 1 < t.rows then
    { t with
      cursor := { t.cursor with col := 0, row := r + 1 },
      pendingWrap := false,
      buffer := bufOnRow t.buffer r markWrapped }
  else
    { t with cursor := { t.cursor with col := 0 }, pendingWrap := false }

/-- writing glyph `g` at the cursor -/
def putStep (t : Terminal) (g : Nat) : Terminal :=
  let cell : Cell := ⟨g, t.pen⟩
  let r := t.cursor.row
  let c := t.cursor.col
  let dirty := t.dirtyLines.set r true
  if c + 1 ≥ t.cols then
    -- last column (or wrap pending with auto-wrap off): the last cell is overwritten
    let b := bufOnRow t.buffer r (putCell (t.cols - 1) cell)
    if t.autoWrapMode then
      { t with buffer := b, dirtyLines := dirty, cursor := { t.cursor with col := t.cols },
               pendingWrap := true }
    else
      { t with buffer := b, dirtyLines := dirty }
  else
    { t with
      buffer := bufOnRow t.buffer r (if t.insertMode then insertCell c cell else putCell c cell),
      dirtyLines := dirty,
      cursor := { t.cursor with col := c + 1 },
      pendingWrap := false }

/-- **C04, Print**: the terminal after printing `ch` -/
def printSpec (t : Terminal) (ch : Nat) : Terminal :=
  putStep (if t.autoWrapMode && t.pendingWrap then wrapStep t else t) (glyph t ch)

/-! ### REP -/

/-- the character left of the cursor (in the wrap-pending position: the last column's) -/
def charLeftOfCursor (t : Terminal) : Nat :=
  match t.buffer.view[t.cursor.row]? with
  | some l =>
    match l.cells[t.cursor.col - 1]? with
    | some c => c.ch
    | none => 0x20
  | none => 0x20

/-- `k` prints of the same character, as if typed -/
def printTimes (ch : Nat) : Nat → Terminal → Terminal
  | 0, t => t
  | k + 1, t => printTimes ch k (printSpec t ch)

/-- **C04, REP n** -/
def repSpec (t : Terminal) (n : Nat) : Terminal :=
  if t.cursor.col = 0 then t else printTimes (charLeftOfCursor t) (max n 1) t

/-! ### Oracle -/

/-- the functions this specification covers -/
def specFun (t : Terminal) (f : Function) : Option Terminal :=
  match f with
  | .print ch => some (printSpec t ch)
  | .rep n => some (repSpec t n)
  | _ => none

def covered : Function → Bool
  | .print _ => true
  | .rep _ => true
  | _ => false

/-- does the run really exercise the property?  (evidence counter only: a `Rep` at column 0 is the
    identity, everything else writes a cell) -/
def nontrivialRun (t : Terminal) (fs : List Function) : Bool :=
  fs.any (fun f => match f with | .print _ => true | _ => false) || t.cursor.col != 0

/-! ### who may change the state that steers printing -/

/-- functions that can change `autoWrapMode`, `insertMode`, `charsets` (the G0 / G1 designations) or
    `activeCharset`: SM / RM naming insert mode (4), DECSET / DECRST naming auto-wrap (?7), the
    restores of the saved context, of which the auto-wrap flag is a part (DECRC, SCORC, DECRST ?1048
    and ?1049), the designations (`ESC ( c`, `ESC ) c`), SO / SI, and the two resets.  Everything
    else — every other mode (in particular entering the alternate screen, ?47h/?1047h/?1049h, leaving
    it with ?47l/?1047l, and saving the cursor), cursor movement, scrolling, erasing, printing, margins,
    tabs, SGR, XTWINOPS — leaves all four as they are (`Avt.Props.C04.C04_print_modes_persist`). -/
def setsPrintModes : Function → Bool
  | .sm ms | .rm ms => ms.any (· == AnsiMode.insert)
  | .decset ms => ms.any (· == DecMode.autoWrap)
  | .decrst ms =>
    ms.any fun m => m == .autoWrap || m == .saveCursor || m == .saveCursorAltScreenBuffer
  | .decrc | .scorc | .gzd4 _ | .g1d4 _ | .so | .si | .ris | .decstr => true
  | _ => false

/-- are the four the same in both terminals? -/
def samePrintModes (p n : Terminal) : Bool :=
  n.autoWrapMode == p.autoWrapMode && n.insertMode == p.insertMode && n.charsets == p.charsets
    && n.activeCharset == p.activeCharset

/-- is any of the four away from its power-on value?  (evidence counter only) -/
def printModesNonDefault (p : Terminal) : Bool :=
  !p.autoWrapMode || p.insertMode || p.charsets != (Charset.ascii, Charset.ascii) || p.activeCharset != 0

def checkStep (ev : StepEv) : List Verdict :=
  let p := ev.prev.terminal
  let n := ev.next.terminal
  -- a resize keeps the modes that steer printing
  if ev.kind == .resize then
    [check "resize-keeps-print-modes" (printModesNonDefault p) (samePrintModes p n)]
  else
  -- the modes that steer printing are state: only their setters, the restores and the resets change them
  let modes : List Verdict :=
    if !ev.funs.isEmpty && ev.funs.all (fun f => !setsPrintModes f) then
      [check "print-modes-persist" (printModesNonDefault p) (samePrintModes p n)]
    else []
  let spec : List Verdict :=
  if ev.funs.isEmpty || !ev.funs.all covered then [] else
  match foldSpec specFun ev.funs ev.prev.terminal with
  | none => []
  | some expected =>
    -- the property speaks of the cursor as the API shows it: "wrap pending" IS the position col = cols.
    -- A state whose internal flag says "pending" while the cursor sits on a real column (excluded by the
    -- invariant, C02) must still print into the cell under the cursor; `printSpec` from the state with the
    -- flag normalised says where.  On states satisfying the invariant the two coincide.
    let t := ev.prev.terminal
    let apiView : Terminal := if t.cursor.col < t.cols then { t with pendingWrap := false } else t
    [check "C04.printSpec: state after Print/Rep run differs from the specification"
       (nontrivialRun ev.prev.terminal ev.funs)
       (ev.next.terminal == afterCall ev.kind expected),
     check "C04.print-goes-into-the-cell-under-the-cursor (pending flag set off the wrap-pending column)"
       (t.pendingWrap && t.cursor.col < t.cols)
       (match foldSpec specFun ev.funs apiView with
        | some e2 => ev.next.terminal == afterCall ev.kind e2
        | none => true)]
  spec ++ modes

def checkNew (_cols _rows : Nat) (_lim : Option Nat) (_st : Vt) : List Verdict := []

def checkParserStep (_prev : Parser) (_c : Nat) (_next : Parser) (_fn : String) : List Verdict := []

def checkDirective (_name : String) (_args : List String) (_inst : String → Option Inst)
    (_tcOut : Nat → List (List Nat)) : List Verdict × List (Nat × Inst) := ([], [])

end Avt.Spec.C04
