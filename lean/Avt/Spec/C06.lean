/-
  Avt.Spec.C06 — oracle of property C06 (decidable predicates evaluated on implementation states;
  the same definitions the theorems in Avt/Props/C06.lean are stated with).

  C06: scrolling stays inside its region and feeds the scrollback in order.

  The specification is written as closed formulas over `take` / `drop` / `replicate` in the
  vocabulary of the property text; it is NOT a copy of the model (`Buffer.scrollUp` has three
  code paths — extend, insert-below-range, rotate+clear — the specification has one formula).

  Covered functions (`coveredScroll`): LF (also IND/VT/FF, which the parser maps to `lf`), NEL, RI,
  SU n, SD n, IL n, DL n, DECSTBM t b, and CR (auxiliary, so that "\r\n" can be folded).  The scroll
  caused by auto-wrap on the bottom margin is specified by C04.
-/
import Avt.Spec.Base

namespace Avt.Spec.C06
open Avt Avt.Spec

/-! ### buffer level -/

/-- the same row without its soft-wrap mark -/
def unmark (l : Line) : Line := { l with wrapped := false }

/-- clear the wrap mark of row `i` (nothing happens when there is no such row) -/
def unmarkAt (v : List Line) (i : Nat) : List Line :=
  v.take i ++ ((v.drop i).take 1).map unmark ++ v.drop (i + 1)

/-- `k` blank rows carrying `pen` -/
def blankRows (k cols : Nat) (pen : Pen) : List Line := List.replicate k (Line.blank cols pen)

/-- wrap marks cleared before rows `s..e` are shifted up: the last row of the range stops being
    continued by the row below it (when there is one), and the row above the range stops being
    continued by the (departing) first row of the range -/
def upMarks (s e rows : Nat) (v : List Line) : List Line :=
  let v1 := if e < rows then unmarkAt v (e - 1) else v
  if s > 0 then unmarkAt v1 (s - 1) else v1

/-- scroll rows `s..e` of the view up by `n` (capped at the height of the range) -/
def scrollUpSpec (s e n : Nat) (pen : Pen) (b : Buffer) : Buffer :=
  let k := min n (e - s)
  let v := upMarks s e b.rows b.view
  { b with
    sb := if s = 0 then b.sb ++ v.take k else b.sb
    view := v.take s ++ (v.take e).drop (s + k) ++ blankRows k b.cols pen ++ v.drop e
    trimNeeded := true }

/-- scroll rows `s..e` of the view down by `n` (capped); never touches the scrollback -/
def scrollDownSpec (s e n : Nat) (pen : Pen) (b : Buffer) : Buffer :=
  let k := min n (e - s)
  let w := b.view.take s ++ blankRows k b.cols pen ++ (b.view.take (e - k)).drop s ++ b.view.drop e
  let w1 := if s > 0 then unmarkAt w (s - 1) else w
  { b with view := unmarkAt w1 (e - 1) }

/-! ### command level -/

/-- rows `a..b` flagged as changed -/
def markRange (d : List Bool) (a b : Nat) : List Bool :=
  d.take a ++ List.replicate (b - a) true ++ d.drop b

/-- the scroll region scrolled up by `n`; cursor, modes, everything else as before -/
def regionUp (t : Terminal) (n : Nat) : Terminal :=
  { t with buffer := scrollUpSpec t.topMargin (t.bottomMargin + 1) n t.pen t.buffer
           dirtyLines := markRange t.dirtyLines t.topMargin (t.bottomMargin + 1) }

def regionDown (t : Terminal) (n : Nat) : Terminal :=
  { t with buffer := scrollDownSpec t.topMargin (t.bottomMargin + 1) n t.pen t.buffer
           dirtyLines := markRange t.dirtyLines t.topMargin (t.bottomMargin + 1) }

/-- carriage return -/
def toCol0 (t : Terminal) : Terminal :=
  { t with cursor := { t.cursor with col := 0 }, pendingWrap := false }

/-- move to another row (the cursor leaves the wrap-pending column) -/
def toRow (t : Terminal) (row : Nat) : Terminal :=
  { t with cursor := { t.cursor with col := min t.cursor.col (t.cols - 1), row := row }
           pendingWrap := false }

/-- index: one row down; on the bottom margin the region scrolls and the cursor stays -/
def down1 (t : Terminal) : Terminal :=
  if t.cursor.row = t.bottomMargin then regionUp t 1
  else if t.cursor.row + 1 < t.rows then toRow t (t.cursor.row + 1)
  else t

/-- reverse index: one row up; on the top margin the region scrolls down and the cursor stays -/
def up1 (t : Terminal) : Terminal :=
  if t.cursor.row = t.topMargin then regionDown t 1
  else if t.cursor.row > 0 then toRow t (t.cursor.row - 1)
  else t

/-- IL/DL act on the rows from the cursor down to the bottom margin, or down to the last row when
    the cursor is below the region -/
def lineRange (t : Terminal) : Nat × Nat :=
  (t.cursor.row, if t.cursor.row ≤ t.bottomMargin then t.bottomMargin + 1 else t.rows)

def insertLines (t : Terminal) (n : Nat) : Terminal :=
  { t with buffer := scrollDownSpec (lineRange t).1 (lineRange t).2 n t.pen t.buffer
           dirtyLines := markRange t.dirtyLines (lineRange t).1 (lineRange t).2 }

def deleteLines (t : Terminal) (n : Nat) : Terminal :=
  { t with buffer := scrollUpSpec (lineRange t).1 (lineRange t).2 n t.pen t.buffer
           dirtyLines := markRange t.dirtyLines (lineRange t).1 (lineRange t).2 }

/-- does DECSTBM `top;bottom` (after defaults) name a valid region?  `1 ≤ top < bottom ≤ rows` -/
def validMargins (rows top bottom : Nat) : Bool :=
  1 ≤ asUsize top 1 && asUsize top 1 < asUsize bottom rows && asUsize bottom rows ≤ rows

/-- margins after DECSTBM -/
def marginsAfter (t : Terminal) (top bottom : Nat) : Nat × Nat :=
  if validMargins t.rows top bottom then (asUsize top 1 - 1, asUsize bottom t.rows - 1)
  else (t.topMargin, t.bottomMargin)

/-- DECSTBM: margins set only when valid; the cursor is homed in both cases (to the top margin in
    origin mode, else to row 0) -/
def setMargins (t : Terminal) (top bottom : Nat) : Terminal :=
  let m := marginsAfter t top bottom
  { t with topMargin := m.1, bottomMargin := m.2
           cursor := { t.cursor with col := 0, row := if t.originMode then m.1 else 0 }
           pendingWrap := false }

/-- functions this specification covers -/
def coveredScroll : Function → Bool
  | .lf | .nel | .ri | .su _ | .sd _ | .il _ | .dl _ | .decstbm _ _ | .cr => true
  | _ => false

/-- the state after a covered function -/
def scrollCmdSpec (t : Terminal) : Function → Terminal
  | .lf => if (down1 t).newLineMode then toCol0 (down1 t) else down1 t
  | .nel => toCol0 (down1 t)
  | .ri => up1 t
  | .su n => regionUp t (asUsize n 1)
  | .sd n => regionDown t (asUsize n 1)
  | .il n => insertLines t (asUsize n 1)
  | .dl n => deleteLines t (asUsize n 1)
  | .decstbm top bottom => setMargins t top bottom
  | .cr => toCol0 t
  | _ => t

/-- does `f`, executed in `t`, actually scroll (or set margins)?  Used for the evidence counters. -/
def scrolls (t : Terminal) : Function → Bool
  | .lf | .nel => t.cursor.row == t.bottomMargin
  | .ri => t.cursor.row == t.topMargin
  | .su _ | .sd _ | .il _ | .dl _ | .decstbm _ _ => true
  | _ => false

/-! ### who may change the scrollback -/

/-- functions that can change the lines above the view: a scroll-up of a range starting at row 0
    (LF family / NEL on the bottom margin, SU, DL, a wrapping Print / Rep), the hard reset, and the
    buffer switches (DECSET/DECRST; XTWINOPS would resize but is inert) -/
def mayChangeScrollback : Function → Bool
  | .lf | .nel | .su _ | .dl _ | .print _ | .rep _ | .ris | .decset _ | .decrst _ | .xtwinops _ _ => true
  | _ => false

/-- functions after which the scrollback need not extend the previous one: hard reset and buffer
    switches (which replace / reflow the buffer) -/
def replacesBuffer : Function → Bool
  | .ris | .xtwinops _ _ => true
  | .decset ms | .decrst ms =>
    ms.any fun m => m == .altScreenBuffer || m == .saveCursorAltScreenBuffer
  | _ => false

/-! ### who may change the scroll region -/

/-- functions that can change `topMargin` / `bottomMargin`: DECSTBM, the soft and the hard reset, and
    XTWINOPS (a resize; inert while the `xtwinops` flag is off, but the model is what counts).
    Everything else — in particular entering and leaving the alternate screen (DECSET / DECRST
    47/1047/1049, with the reflow that follows) and save / restore cursor — leaves the region as it
    is (`Avt.Props.C06.C06_region_persists`). -/
def setsMargins : Function → Bool
  | .decstbm _ _ | .decstr | .ris | .xtwinops _ _ => true
  | _ => false

/-! ### oracle -/

/-- fold the command specification over the emitted functions; the flag records whether any of
    them really scrolled; `none` as soon as a function is not covered or the invariant is lost -/
def foldCmd : List Function → Terminal → Bool → Option (Terminal × Bool)
  | [], t, nt => some (t, nt)
  | f :: fs, t, nt =>
    if coveredScroll f then foldCmd fs (scrollCmdSpec t f) (nt || scrolls t f) else none

def checkStep (ev : StepEv) : List Verdict :=
  let p := ev.prev.terminal
  let n := ev.next.terminal
  -- "a height change resets the region to the full screen, a width-only change keeps it"
  if ev.kind == .resize then
    [ check "resize: height change resets the region, width-only change keeps it" true
        (if n.rows == p.rows then n.topMargin == p.topMargin && n.bottomMargin == p.bottomMargin
         else n.topMargin == 0 && n.bottomMargin + 1 == n.rows) ]
  else
  let cmd : List Verdict :=
    if ev.funs.isEmpty then [] else
    match foldCmd ev.funs p false with
    | some (exp, nt) => [check "scroll-command-spec" nt (n == afterCall ev.kind exp)]
    | none => []
  let quiet : List Verdict :=
    if !ev.funs.isEmpty && ev.funs.all (fun f => !mayChangeScrollback f) then
      [check "no-other-function-feeds-scrollback" true
        (n.buffer.sb == (afterCall ev.kind p).buffer.sb && n.otherBuffer.sb == p.otherBuffer.sb)]
    else []
  let hist : List Verdict :=
    if p.activeBufferType == .primary && p.buffer.limit.isNone && !ev.funs.any replacesBuffer then
      [check "scrollback-only-appended" (n.buffer.sb != p.buffer.sb)
        (p.buffer.sb.isPrefixOf n.buffer.sb)]
    else []
  let alt : List Verdict :=
    if n.activeBufferType == .alternate && ev.kind.finishes then
      [check "alternate-screen-keeps-no-scrollback" true (n.buffer.sb.isEmpty)]
    else []
  -- the region is state that only DECSTBM, the resets and a resize may change
  let region : List Verdict :=
    if !ev.funs.isEmpty && ev.funs.all (fun f => !setsMargins f) then
      [check "region-persists" (p.topMargin != 0 || p.bottomMargin + 1 != p.rows)
        (n.topMargin == p.topMargin && n.bottomMargin == p.bottomMargin)]
    else []
  cmd ++ quiet ++ hist ++ alt ++ region

def checkNew (_cols _rows : Nat) (_lim : Option Nat) (_st : Vt) : List Verdict := []

def checkParserStep (_prev : Parser) (_c : Nat) (_next : Parser) (_fn : String) : List Verdict := []

def checkDirective (_name : String) (_args : List String) (_inst : String → Option Inst)
    (_tcOut : Nat → List (List Nat)) : List Verdict × List (Nat × Inst) := ([], [])

end Avt.Spec.C06
