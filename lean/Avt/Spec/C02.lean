/-
  Avt.Spec.C02 — oracle of property C02 (decidable predicates evaluated on implementation states;
  the same definitions the theorems in Avt/Props/C02.lean are stated with).
-/
import Avt.Spec.Base

namespace Avt.Spec.C02
open Avt Avt.Spec

def checkStep (ev : StepEv) : List Verdict :=
  [ check "inv-after-call" true (Inv ev.next),
    check "geometry-through-api" true (geomOK ev.next),
    check "size-is-last-requested" (ev.kind == .resize)
      (ev.kind != .resize || (ev.next.terminal.cols == ev.cols && ev.next.terminal.rows == ev.rows)),
    check "changed-lines-increasing-and-in-range" ev.ch.isSome
      (match ev.ch with | some ch => changesOK ev.next.terminal.rows ch | none => true) ]

def checkNew (cols rows : Nat) (_lim : Option Nat) (st : Vt) : List Verdict :=
  [ check "inv-of-new" true (Inv st), check "geometry-of-new" true (geomOK st),
    check "size-of-new" true (st.terminal.cols == cols && st.terminal.rows == rows) ]

def checkParserStep (_prev : Parser) (_c : Nat) (_next : Parser) (_fn : String) : List Verdict := []

def checkDirective (_name : String) (_args : List String) (_inst : String → Option Inst)
    (_tcOut : Nat → List (List Nat)) : List Verdict × List (Nat × Inst) := ([], [])

end Avt.Spec.C02
