/-
  Avt.Spec.Base — vocabulary shared by the per-property oracles: what the driver knows about one
  terminal instance of the implementation, one observed step, and a verdict.
-/
import Avt.Model.Vt
import Avt.Spec.Inv

namespace Avt.Spec
open Avt

/-- one terminal instance of the implementation as the driver sees it -/
structure Inst where
  st : Vt                                   -- latest state reported by the implementation
  dead : Bool := false
  diedOn : List Nat := []                   -- input of the call that panicked (when `dead`)
  drained : List Line := []                 -- everything handed out through Changes.scrollback so far
  sawRis : Bool := false
  sawResize : Bool := false
  sawDrop : Bool := false
  history : Nat := 0
  mark : Option Vt := none                  -- C16: state when the excursion started
  markResized : Bool := false
  lastText : Option (List (List Nat)) := none
  lastUnwrap : Option (List (List Nat)) := none
  deriving Inhabited

inductive Verdict where
  | pass (nontrivial : Bool)
  | fail (what : String)
  deriving Inhabited

inductive Kind where
  | feedStr | feedDrop | feedChars | resize
  deriving DecidableEq, Inhabited

/-- one observed public call: implementation state before, after, and what it returned -/
structure StepEv where
  prev : Vt
  next : Vt
  funs : List Function          -- functions the parser emits for `input` from `prev.parser`
  kind : Kind
  input : List Nat := []
  cols : Nat := 0
  rows : Nat := 0
  ch : Option (List Nat) := none
  sb : Option (List Line) := none
  inst : Inst

def check (name : String) (nontrivial : Bool) (ok : Bool) : Verdict :=
  if ok then .pass nontrivial else .fail name

/-- the tail of `feed_str` / `resize` applied to a terminal: `changes()` then `gc()` -/
def finishT (t : Terminal) : Terminal := (Terminal.gc (Terminal.changes t).1).1

/-- the changed-line list a call returns when it ends in terminal `t` (before `changes()` clears it) -/
def reportedOf (t : Terminal) : List Nat := Dirty.toVec t.dirtyLines

/-- does this kind of call end with `changes()` + `gc()`? (`Vt::feed` does not) -/
def Kind.finishes : Kind → Bool
  | .feedChars => false
  | _ => true

/-- what the implementation's state must be after a call whose function-level effect is `t` -/
def afterCall (k : Kind) (t : Terminal) : Terminal := if k.finishes then finishT t else t

/-- fold a partial specification over a function list; `none` as soon as one is not covered -/
def foldSpec (spec : Terminal → Function → Option Terminal) : List Function → Terminal → Option Terminal
  | [], t => some t
  | f :: fs, t => match spec t f with | some t' => foldSpec spec fs t' | none => none

end Avt.Spec
