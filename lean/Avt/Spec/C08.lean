/-
  Avt.Spec.C08 — oracle of property C08 (decidable predicates evaluated on implementation states;
  the same definitions the theorems in Avt/Props/C08.lean are stated with).

  Vocabulary of the property text:
  * the *written* parameters of an SGR sequence: the list of ';'-separated parameters, each the list
    of its ':'-separated sub-parameters (numbers; an empty number is 0);
  * `sgrRefOps` decodes written parameters into pen operations (table + colour forms);
  * `Pen.obs` is what the nine public accessors of a pen report; `obsStep` says what one operation
    does to each of the nine observations (each attribute independent), `obsRef` folds it;
    `penRef` is the pen with those observations;
  * `parseSgrText` reads the written parameters directly from the raw text of a complete sequence;
    `paramsOf` reads them from the parser's registers.

  Covered by `checkStep`: single `.sgr` functions (decode + fold + rest of the terminal unchanged),
  single prints (the stored cell), text runs (all `.print`), REP (last repeated cell, auto-wrap on),
  the blanking functions `el`, `ech`, `ed`, `ich`, `dch` (erased extent carries the pen) and `il`,
  `dl`, `su`, `sd`, `lf`, `nel`, `ri`, `rep` (no cell with a foreign pen appears in the view).
  Not covered: DECALN (fills with the default pen by definition), RIS, buffer switches and resizes
  (their fresh cells are specified by C16/C19/C10).
  Frame clause (`checkPenFrame`): any event none of whose functions satisfies `setsPen`, and any
  resize, leaves the pen as it is.
-/
import Avt.Spec.Base

namespace Avt.Spec.C08
open Avt Avt.Spec

/-! ### (ii) the nine public accessors and the reference fold -/

/-- `(foreground, background, is_bold, is_faint, is_italic, is_underline, is_strikethrough, is_blink,
    is_inverse)` -/
abbrev Obs := Option Color × Option Color × Bool × Bool × Bool × Bool × Bool × Bool × Bool

def Pen.obs (p : Pen) : Obs :=
  (p.fg, p.bg, p.isBold, p.isFaint, p.isItalic, p.isUnderline, p.isStrikethrough, p.isBlink, p.isInverse)

/-- observations of the default pen -/
def Obs.default : Obs := (none, none, false, false, false, false, false, false, false)

/-- what one operation does to the nine observations: every line changes only the components the
    property names for that code (bold and faint are mutually exclusive) -/
def obsStep : Obs → SgrOp → Obs
  | _, .reset => Obs.default
  | (fg, bg, _, _, it, un, st, bl, iv), .setBold => (fg, bg, true, false, it, un, st, bl, iv)
  | (fg, bg, _, _, it, un, st, bl, iv), .setFaint => (fg, bg, false, true, it, un, st, bl, iv)
  | (fg, bg, _, _, it, un, st, bl, iv), .resetIntensity => (fg, bg, false, false, it, un, st, bl, iv)
  | (fg, bg, bo, fa, _, un, st, bl, iv), .setItalic => (fg, bg, bo, fa, true, un, st, bl, iv)
  | (fg, bg, bo, fa, _, un, st, bl, iv), .resetItalic => (fg, bg, bo, fa, false, un, st, bl, iv)
  | (fg, bg, bo, fa, it, _, st, bl, iv), .setUnderline => (fg, bg, bo, fa, it, true, st, bl, iv)
  | (fg, bg, bo, fa, it, _, st, bl, iv), .resetUnderline => (fg, bg, bo, fa, it, false, st, bl, iv)
  | (fg, bg, bo, fa, it, un, _, bl, iv), .setStrikethrough => (fg, bg, bo, fa, it, un, true, bl, iv)
  | (fg, bg, bo, fa, it, un, _, bl, iv), .resetStrikethrough => (fg, bg, bo, fa, it, un, false, bl, iv)
  | (fg, bg, bo, fa, it, un, st, _, iv), .setBlink => (fg, bg, bo, fa, it, un, st, true, iv)
  | (fg, bg, bo, fa, it, un, st, _, iv), .resetBlink => (fg, bg, bo, fa, it, un, st, false, iv)
  | (fg, bg, bo, fa, it, un, st, bl, _), .setInverse => (fg, bg, bo, fa, it, un, st, bl, true)
  | (fg, bg, bo, fa, it, un, st, bl, _), .resetInverse => (fg, bg, bo, fa, it, un, st, bl, false)
  | (_, bg, bo, fa, it, un, st, bl, iv), .setFg c => (some c, bg, bo, fa, it, un, st, bl, iv)
  | (_, bg, bo, fa, it, un, st, bl, iv), .resetFg => (none, bg, bo, fa, it, un, st, bl, iv)
  | (fg, _, bo, fa, it, un, st, bl, iv), .setBg c => (fg, some c, bo, fa, it, un, st, bl, iv)
  | (fg, _, bo, fa, it, un, st, bl, iv), .resetBg => (fg, none, bo, fa, it, un, st, bl, iv)

/-- the left-to-right fold over the operations -/
def obsRef (o : Obs) (ops : List SgrOp) : Obs := ops.foldl obsStep o

/-- the pen reporting the given observations (attribute bits placed with the generated masks) -/
def Pen.ofObs : Obs → Pen
  | (fg, bg, bo, fa, it, un, st, bl, iv) =>
    { fg := fg, bg := bg,
      intensity := if bo then .bold else if fa then .faint else .normal,
      attrs := (if it then Gen.italicMask else 0) ||| (if un then Gen.underlineMask else 0)
                 ||| (if st then Gen.strikethroughMask else 0) ||| (if bl then Gen.blinkMask else 0)
                 ||| (if iv then Gen.inverseMask else 0) }

/-- the reference pen after `ops`, starting from `p` -/
def penRef (p : Pen) (ops : List SgrOp) : Pen := Pen.ofObs (obsRef (Pen.obs p) ops)

/-! ### (i) the reference decoder over the written parameters -/

/-- first sub-parameter of a written parameter (the number a ';'-form colour component contributes) -/
def first (p : List Nat) : Nat := p.headD 0

/-- `as u8` -/
def byte (n : Nat) : Nat := n % 256

/-- the codes that stand alone -/
def attrTable : List (Nat × SgrOp) :=
  [(0, .reset), (1, .setBold), (2, .setFaint), (3, .setItalic), (4, .setUnderline), (5, .setBlink),
   (7, .setInverse), (9, .setStrikethrough), (21, .resetIntensity), (22, .resetIntensity),
   (23, .resetItalic), (24, .resetUnderline), (25, .resetBlink), (27, .resetInverse),
   (29, .resetStrikethrough), (39, .resetFg), (49, .resetBg)]

/-- 30–37, 40–47, 90–97, 100–107 -/
def basicColour (n : Nat) : Option SgrOp :=
  if 30 ≤ n ∧ n ≤ 37 then some (.setFg (.indexed (n - 30)))
  else if 40 ≤ n ∧ n ≤ 47 then some (.setBg (.indexed (n - 40)))
  else if 90 ≤ n ∧ n ≤ 97 then some (.setFg (.indexed (n - 90 + 8)))
  else if 100 ≤ n ∧ n ≤ 107 then some (.setBg (.indexed (n - 100 + 8)))
  else none

/-- 38 selects the foreground, 48 the background -/
def ground (k : Nat) : Option (Color → SgrOp) :=
  if k = 38 then some .setFg else if k = 48 then some .setBg else none

/-- one written parameter decoded on its own: a stand-alone code, a basic colour, or a complete
    ':'-form colour (`k:5:n`, `k:2:r:g:b`, `k:2:<id>:r:g:b`); everything else is skipped -/
def sgrSingle : List Nat → Option SgrOp
  | [n] => match attrTable.lookup n with
           | some op => some op
           | none => basicColour n
  | [k, s, i] => if s = 5 then (ground k).map fun mk => mk (.indexed (byte i)) else none
  | [k, s, r, g, b] => if s = 2 then (ground k).map fun mk => mk (.rgb (byte r) (byte g) (byte b)) else none
  | [k, s, _, r, g, b] => if s = 2 then (ground k).map fun mk => mk (.rgb (byte r) (byte g) (byte b)) else none
  | _ => none

/-- a bare `38` / `48` (the introducer of a ';'-form colour) -/
def introducer (p : List Nat) : Option (Color → SgrOp) :=
  match p with
  | [k] => ground k
  | _ => none

/-- What follows a bare 38/48: the colour it selects (when the form is complete) and how many of the
    following parameters belong to it.  `2;r;g;b` and `5;n` are the complete forms (each component
    is the first sub-parameter of its parameter, taken `as u8`).  Truncated forms are dropped the
    way the code drops them: a `2` with fewer than three parameters after it is dropped alone (what
    follows is decoded on its own), likewise a `5` at the very end; anything else is not part of
    the colour at all. -/
def extended : List (List Nat) → Option Color × Nat
  | [2] :: r :: g :: b :: _ => (some (.rgb (byte (first r)) (byte (first g)) (byte (first b))), 4)
  | [2] :: _ => (none, 1)
  | [5] :: i :: _ => (some (.indexed (byte (first i))), 2)
  | [5] :: _ => (none, 1)
  | _ => (none, 0)

/-- The reference decoder: every written parameter is decoded on its own (`sgrSingle`), except that
    a bare 38/48 takes the parameters `extended` assigns to it. -/
def sgrRefOps : List (List Nat) → List SgrOp
  | [] => []
  | p :: rest =>
    match introducer p with
    | none => (sgrSingle p).toList ++ sgrRefOps rest
    | some mk => ((extended rest).1.map mk).toList ++ sgrRefOps (rest.drop (extended rest).2)
termination_by l => l.length
decreasing_by
  all_goals simp only [List.length_cons, List.length_drop]
  all_goals omega

/-! ### (iii) the written parameters, from the registers and from the raw text -/

/-- written parameters recovered from the parser registers in use -/
def paramsOf (ps : List Param) : List (List Nat) := ps.map fun q => q.parts.take (q.curPart + 1)

def isDigit (c : Nat) : Bool := 0x30 ≤ c && c ≤ 0x39

/-- reader state: finished parameters (reversed), finished sub-parameters of the current parameter
    (reversed), the number being written -/
structure Rd where
  done : List (List Nat) := []
  parts : List Nat := []
  cur : Nat := 0

def Rd.param (r : Rd) : List Nat := (r.cur :: r.parts).reverse

/-- body of a control sequence up to the final byte `m`, which must end the text.  The caps of the
    code are applied as the code applies them: numbers are 16-bit with wrap-around, a 7th.. ':' stays
    on the 6th sub-parameter, a 32nd.. ';' stays on the 32nd parameter. -/
def readBody : List Nat → Rd → Option (List (List Nat))
  | [], _ => none
  | c :: cs, r =>
    if c = 0x6d then (if cs.isEmpty then some ((r.param :: r.done).reverse) else none)
    else if isDigit c then readBody cs { r with cur := (10 * r.cur + (c - 0x30)) % 65536 }
    else if c = 0x3a then
      (if r.parts.length + 1 < 6 then readBody cs { r with parts := r.cur :: r.parts, cur := 0 }
       else readBody cs r)
    else if c = 0x3b then
      (if r.done.length + 1 < 32 then readBody cs { done := r.param :: r.done, parts := [], cur := 0 }
       else readBody cs r)
    else none

/-- body of `CSI … m`; a leading ':' makes the parser ignore the whole sequence -/
def sgrBody (body : List Nat) : Option (List (List Nat)) :=
  match body with
  | 0x3a :: _ => none
  | _ => readBody body {}

/-- written parameters of a text that is exactly one SGR sequence (`ESC [` or `0x9b`, digits / ';' /
    ':', `m`); `none` for any other text -/
def parseSgrText : List Nat → Option (List (List Nat))
  | 0x1b :: 0x5b :: body => sgrBody body
  | 0x9b :: body => sgrBody body
  | _ => none

/-! ### cells -/

/-- no cell with a foreign pen: every cell of `new` carries `pen` or is a cell of `old` -/
def noForeignCells (pen : Pen) (old new : List Line) : Bool :=
  new.all fun l => l.cells.all fun c => c.pen == pen || old.any fun l0 => l0.cells.contains c

/-- cells `a ≤ i < b` of row `row` are blanks carrying `pen` -/
def blankRange (view : List Line) (row a b : Nat) (pen : Pen) : Bool :=
  match view[row]? with
  | none => false
  | some l => ((l.cells.take b).drop a).all (· == Cell.blank pen) && b ≤ l.cells.length

/-- rows `a ≤ r < b` are blank lines carrying `pen` -/
def blankRows (view : List Line) (a b : Nat) (pen : Pen) : Bool :=
  ((view.take b).drop a).all fun l => l.cells.all (· == Cell.blank pen)

/-- column where a single `print` from `t` stores its cell, read off the state after it (`t'`):
    the last column when auto-wrap is off and the cursor is already there, otherwise the column left
    of the new cursor -/
def printedCol (t t' : Terminal) : Nat :=
  if !t.autoWrapMode && t.cursor.col + 1 ≥ t.cols then t.cols - 1 else t'.cursor.col - 1

def printedCell (t t' : Terminal) : Option Cell :=
  match t'.buffer.view[t'.cursor.row]? with
  | none => none
  | some l => l.cells[printedCol t t']?

/-- the extent blanked by an erase / insert / delete function at the cursor of `t` carries `t.pen`
    in view `v`; `none` when the function is not one of those -/
def erasedOK (t : Terminal) (f : Function) (v : List Line) : Option Bool :=
  let col := t.cursor.col
  let row := t.cursor.row
  let cols := t.cols
  match f with
  | .el .toRight => some (blankRange v row (min col cols) cols t.pen)
  | .el .toLeft => some (blankRange v row 0 (min (col + 1) cols) t.pen)
  | .el .all => some (blankRange v row 0 cols t.pen)
  | .ech n => some (blankRange v row (min col cols) (min col cols + min (asUsize n 1) (cols - col)) t.pen)
  | .ed .below => some (blankRange v row (min col cols) cols t.pen && blankRows v (row + 1) t.rows t.pen)
  | .ed .above => some (blankRange v row 0 (min (col + 1) cols) t.pen && blankRows v 0 row t.pen)
  | .ed .all => some (blankRows v 0 t.rows t.pen)
  | .ich n => some (blankRange v row (min col cols) (min col cols + min (asUsize n 1) (cols - col)) t.pen)
  | .dch n =>
    let col := min col (cols - 1)
    some (blankRange v row (cols - min (asUsize n 1) (cols - col)) cols t.pen)
  | _ => none

/-- functions whose fresh cells all carry the current pen -/
def writesWithPen : Function → Bool
  | .print _ | .rep _ | .ich _ | .dch _ | .ech _ | .ed _ | .el _ | .il _ | .dl _ | .su _ | .sd _
  | .lf | .nel | .ri => true
  | _ => false

def isPrint : Function → Bool
  | .print _ => true
  | _ => false

/-! ### the pen is state: who may change it -/

/-- DEC private modes whose *reset* restores the saved cursor, and with it the saved pen
    (1048, 1049).  Setting them only saves; 1 / 6 / 7 / 25 / 47 / 1047 never touch the pen in either
    direction. -/
def restoresPen : DecMode → Bool
  | .saveCursor | .saveCursorAltScreenBuffer => true
  | _ => false

/-- The functions that may change the pen: SGR, the restores (DECRC, SCORC, DECRST 1048 / 1049 —
    the pen comes back from the saved context) and the two resets (DECSTR, RIS — back to the
    default).  Everything else — printing, erasing, scrolling, every cursor movement, saving the
    cursor, setting any DEC mode, resetting 1 / 6 / 7 / 25 / 47 / 1047 (both directions of the plain
    switch of screens, with the reflow that follows), XTWINOPS — leaves the pen exactly as it is
    (`Avt.Props.C08.C08_pen_persists`), and so does a resize (`C08_pen_persists_resize`). -/
def setsPen : Function → Bool
  | .sgr _ | .decrc | .scorc | .decstr | .ris => true
  | .decrst ms => ms.any restoresPen
  | _ => false

/-! ### the oracle -/

/-- the pen is state that only SGR, the restores and the resets may change -/
def checkPenFrame (ev : StepEv) : List Verdict :=
  let pt := ev.prev.terminal
  let nt := ev.next.terminal
  if ev.kind == .resize then
    [ check "resize-keeps-pen" (Pen.obs pt.pen != Obs.default) (nt.pen == pt.pen) ]
  else if !ev.funs.isEmpty && ev.funs.all (fun f => !setsPen f) then
    [ check "pen-persists" (Pen.obs pt.pen != Obs.default) (nt.pen == pt.pen) ]
  else []

def checkStep (ev : StepEv) : List Verdict :=
  let pt := ev.prev.terminal
  let nt := ev.next.terminal
  checkPenFrame ev ++
  match ev.funs with
  | [.sgr ops] =>
    let written := if ev.prev.parser.state = .Ground then parseSgrText ev.input else none
    let refOps := match written with | some ps => sgrRefOps ps | none => ops
    [ check "sgr-decode-matches-written-parameters" written.isSome (ops == refOps),
      check "sgr-pen-is-reference-pen" true (Pen.obs nt.pen == Pen.obs (penRef pt.pen refOps)),
      check "sgr-touches-only-the-pen" true (nt == afterCall ev.kind { pt with pen := nt.pen }) ]
  | [.decset ms] =>
    -- entering the alternate screen blanks it: every cell of the new screen carries the current pen
    if pt.activeBufferType == .primary && nt.activeBufferType == .alternate
        && ms.all (fun m => m == .altScreenBuffer || m == .saveCursorAltScreenBuffer) then
      [ check "alternate-screen-blanked-with-current-pen" true
          (nt.buffer.view.all fun l => l.cells.all fun c => c.pen == pt.pen && c.ch == 0x20) ]
    else []
  | [f] =>
    if writesWithPen f then
      [ check "no-foreign-pen-in-view" true (noForeignCells pt.pen pt.buffer.view nt.buffer.view) ]
      ++ (match f with
          | .print _ =>
            [ check "printed-cell-carries-pen" true
                (match printedCell pt nt with | some c => c.pen == pt.pen | none => false) ]
          | .rep _ =>
            -- REP re-prints the preceding character with the *current* pen; with auto-wrap on the
            -- last copy sits left of the new cursor
            if pt.autoWrapMode && pt.cursor.col > 0 then
              [ check "repeated-cell-carries-pen" true
                  (match printedCell pt nt with | some c => c.pen == pt.pen | none => false) ]
            else []
          | _ => [])
      ++ (match erasedOK pt f nt.buffer.view with
          | some ok => [ check "blanked-extent-carries-pen" true ok ]
          | none => [])
    else []
  | fs =>
    if !fs.isEmpty && fs.all isPrint then
      [ check "text-run-no-foreign-pen" true (noForeignCells pt.pen pt.buffer.view nt.buffer.view) ]
    else []

def checkNew (_cols _rows : Nat) (_lim : Option Nat) (st : Vt) : List Verdict :=
  [ check "new-pen-is-default" true (Pen.obs st.terminal.pen == Obs.default),
    check "new-view-carries-default-pen" true
      (st.terminal.buffer.view.all fun l => l.cells.all fun c => Pen.obs c.pen == Obs.default) ]

def checkParserStep (_prev : Parser) (_c : Nat) (_next : Parser) (_fn : String) : List Verdict := []

def checkDirective (_name : String) (_args : List String) (_inst : String → Option Inst)
    (_tcOut : Nat → List (List Nat)) : List Verdict × List (Nat × Inst) := ([], [])

end Avt.Spec.C08
