//! Case generators.  A case is a short script (see main.rs); every random choice comes from one
//! SplitMix64 state, so `(profile, seed, ncases, tier)` reproduces the script exactly.

use crate::hex_encode;
use crate::rng::Rng;
use std::io::Write;

#[derive(Clone)]
pub struct W {
    pub text: usize,
    pub c0: usize,
    pub c1: usize,
    pub rel: usize,
    pub abs: usize,
    pub tabs: usize,
    pub scroll: usize,
    pub margins: usize,
    pub edit: usize,
    pub sgr: usize,
    pub modes: usize,
    pub alt: usize,
    pub save: usize,
    pub charset: usize,
    pub strings: usize,
    pub unimpl: usize,
    pub trunc: usize,
    pub garbage: usize,
    pub ris: usize,
    pub decstr: usize,
    pub rep: usize,
    pub huge: usize,
    // op mix
    pub resize_pct: usize,
    pub single_pct: usize,
    pub perchar_pct: usize,
    pub drop_pct: usize,
    pub tiny_pct: usize,
    pub nolimit_pct: usize,
    pub ops_lo: usize,
    pub ops_hi: usize,
    pub query_pct: usize,
    pub region_pct: usize,
    pub prewrap_pct: usize,
    pub park_pct: usize,
}

fn base() -> W {
    W {
        text: 30,
        c0: 8,
        c1: 3,
        rel: 8,
        abs: 8,
        tabs: 4,
        scroll: 8,
        margins: 4,
        edit: 8,
        sgr: 5,
        modes: 5,
        alt: 3,
        save: 3,
        charset: 2,
        strings: 2,
        unimpl: 2,
        trunc: 2,
        garbage: 2,
        ris: 1,
        decstr: 1,
        rep: 2,
        huge: 2,
        resize_pct: 12,
        single_pct: 70,
        perchar_pct: 5,
        drop_pct: 8,
        tiny_pct: 50,
        nolimit_pct: 35,
        ops_lo: 4,
        ops_hi: 30,
        query_pct: 6,
        region_pct: 10,
        prewrap_pct: 6,
        park_pct: 25,
    }
}

pub fn weights(profile: &str) -> W {
    let mut w = base();
    match profile {
        "C01" => {
            w.huge = 10;
            w.garbage = 8;
            w.trunc = 6;
            w.resize_pct = 25;
            w.alt = 8;
            w.tiny_pct = 60;
            w.rep = 5;
            w.query_pct = 70;
            w.park_pct = 45;
            w.save = 6;
            w.margins = 8;
            w.modes = 8;
        }
        "C02" => {
            w.resize_pct = 25;
            w.alt = 8;
            w.save = 5;
        }
        "C04" => {
            w.text = 60;
            w.charset = 8;
            w.modes = 10;
            w.margins = 6;
            w.rep = 8;
            w.abs = 12;
            w.resize_pct = 10;
            w.alt = 8;
            w.single_pct = 90;
        }
        "C05" => {
            w.rel = 30;
            w.abs = 30;
            w.tabs = 10;
            w.margins = 12;
            w.modes = 12;
            w.c0 = 14;
            w.c1 = 8;
            w.single_pct = 95;
            w.text = 10;
            w.region_pct = 65;
            w.scroll = 20;
        }
        "C06" => {
            w.region_pct = 50;
            w.resize_pct = 14;
            w.scroll = 40;
            w.margins = 14;
            w.abs = 14;
            w.sgr = 8;
            w.alt = 5;
            w.c0 = 12;
            w.c1 = 8;
            w.single_pct = 95;
            w.text = 25;
        }
        "C07" => {
            w.edit = 45;
            w.abs = 15;
            w.sgr = 8;
            w.single_pct = 95;
            w.text = 30;
        }
        "C08" => {
            w.sgr = 50;
            w.text = 25;
            w.edit = 8;
            w.scroll = 5;
            w.single_pct = 85;
            w.resize_pct = 8;
            w.alt = 8;
        }
        "C10" => {
            w.resize_pct = 35;
            w.alt = 0;
            w.ris = 0;
            w.text = 50;
            w.nolimit_pct = 100;
            w.edit = 12;
            w.prewrap_pct = 35;
        }
        "C11" => {
            // every component dump() has to re-create: tabs, margins, modes, charsets, both saved
            // contexts, pens, the alternate screen, cuts inside sequences
            w.tabs = 6;
            w.margins = 8;
            w.modes = 10;
            w.alt = 6;
            w.save = 8;
            w.charset = 4;
            w.sgr = 10;
            w.trunc = 4;
        }
        "C13" => {
            w.scroll = 20;
            w.text = 40;
            w.c0 = 14;
            w.resize_pct = 18;
            w.nolimit_pct = 5;
            w.alt = 5;
            w.single_pct = 30;
            w.drop_pct = 30;
        }
        "C15" => {
            w.single_pct = 50;
            w.edit = 14;
            w.scroll = 14;
            w.alt = 6;
            w.resize_pct = 15;
            w.perchar_pct = 5;
        }
        "C17" => {
            w.save = 25;
            w.alt = 10;
            w.modes = 10;
            w.sgr = 10;
            w.abs = 12;
            w.decstr = 3;
            w.resize_pct = 12;
            w.single_pct = 95;
        }
        "C18" => {
            w.tabs = 45;
            w.abs = 20;
            w.resize_pct = 25;
            w.single_pct = 95;
            w.text = 10;
            w.tiny_pct = 20;
        }
        "C20" => {
            w.strings = 40;
            w.unimpl = 40;
            w.text = 10;
            w.single_pct = 95;
            w.resize_pct = 2;
        }
        _ => {}
    }
    w
}

const WS_CHARS: [u32; 8] = [0x20, 0xa0, 0x3000, 0x2003, 0x85, 0x1680, 0x2028, 0x205f];

fn gen_char(rng: &mut Rng) -> char {
    let c = match rng.weighted(&[50, 8, 3, 8, 6, 8, 4, 3, 4]) {
        // characters a width-aware or byte-length-minded implementation treats specially: zero-width
        // (combining marks, joiners, variation selectors, BOM), astral planes, private use, U+FFFD
        8 => *rng.pick(&[
            0x301u32, 0x308, 0xe31, 0x94d, 0x200b, 0x200d, 0xfe0f, 0xfeff, 0xad, 0x1f600, 0x1f468, 0x10000, 0x10ffff,
            0xfffd, 0xe000, 0x1100, 0xff21, 0x2028, 0x7ff, 0x800, 0xffff,
        ]),
        0 => rng.range(0x61, 0x7a) as u32,
        1 => 0x20,
        2 => 0x7f,
        3 => rng.range(0xa1, 0xff) as u32,
        4 => rng.range(0x4e00, 0x4e20) as u32,
        5 => rng.range(0x5f, 0x7e) as u32,
        6 => *rng.pick(&WS_CHARS),
        _ => rng.range(0x21, 0x60) as u32,
    };
    char::from_u32(c).unwrap()
}

fn gen_text(rng: &mut Rng, cols: usize) -> String {
    let n = match rng.weighted(&[35, 25, 20, 10, 10]) {
        0 => 1,
        1 => rng.range(2, 5),
        2 => rng.range(cols.saturating_sub(1).max(1), cols + 2),
        3 => cols,
        _ => rng.range(1, 3 * cols + 2),
    };
    if rng.chance(25) {
        // a run of one character (exercises REP compression in dump)
        let c = gen_char(rng);
        return std::iter::repeat(c).take(n).collect();
    }
    (0..n).map(|_| gen_char(rng)).collect()
}

/// a numeric parameter; `edge` is the natural limit (rows or cols)
fn gen_num(rng: &mut Rng, edge: usize) -> String {
    match rng.weighted(&[14, 10, 16, 22, 8, 8, 8, 3, 3, 2, 6]) {
        0 => String::new(),
        1 => "0".into(),
        2 => "1".into(),
        3 => rng.range(2, edge.max(2) + 1).to_string(),
        4 => edge.saturating_sub(1).to_string(),
        5 => edge.to_string(),
        6 => (edge + 1).to_string(),
        7 => "65535".into(),
        8 => "65536".into(),
        9 => "99999999999".into(),
        _ => rng.range(0, 300).to_string(),
    }
}

fn csi(rng: &mut Rng) -> &'static str {
    if rng.chance(30) {
        "\u{9b}"
    } else {
        "\u{1b}["
    }
}

fn gen_rel(rng: &mut Rng, cols: usize, rows: usize) -> String {
    let f = *rng.pick(&['A', 'B', 'C', 'D', 'E', 'F', 'a', 'e']);
    let edge = if "ABEFe".contains(f) { rows } else { cols };
    format!("{}{}{}", csi(rng), gen_num(rng, edge), f)
}

fn gen_abs(rng: &mut Rng, cols: usize, rows: usize) -> String {
    match rng.below(5) {
        0 | 1 => {
            let f = *rng.pick(&['H', 'f']);
            if rng.chance(15) {
                format!("{}{}{}", csi(rng), gen_num(rng, rows), f)
            } else {
                format!("{}{};{}{}", csi(rng), gen_num(rng, rows), gen_num(rng, cols), f)
            }
        }
        2 => format!("{}{}{}", csi(rng), gen_num(rng, cols), *rng.pick(&['G', '`'])),
        3 => format!("{}{}d", csi(rng), gen_num(rng, rows)),
        _ => "\r".into(),
    }
}

fn gen_tabs(rng: &mut Rng, cols: usize) -> String {
    match rng.below(9) {
        0 => "\t".into(),
        1 => format!("{}{}I", csi(rng), gen_num(rng, 3)),
        2 => format!("{}{}Z", csi(rng), gen_num(rng, 3)),
        3 => "\u{1b}H".into(),
        4 => "\u{88}".into(),
        5 => format!("{}{}W", csi(rng), *rng.pick(&["", "0", "2", "5", "1", "3"])),
        6 => format!("{}{}g", csi(rng), *rng.pick(&["", "0", "3", "1", "2"])),
        7 => format!("{}{}G", csi(rng), gen_num(rng, cols)),
        _ => "\t\t".into(),
    }
}

fn gen_scroll(rng: &mut Rng, rows: usize) -> String {
    if rng.chance(6) {
        // a burst of short lines: reaches the soft/hard window of scrollback limits >= 20
        let n = rng.range(15, 130);
        return (0..n).map(|i| format!("{}\r\n", i % 10)).collect();
    }
    match rng.below(9) {
        0 => "\n".into(),
        1 => rng.pick(&["\u{1b}D", "\u{84}", "\u{0b}", "\u{0c}"]).to_string(),
        2 => rng.pick(&["\u{1b}E", "\u{85}"]).to_string(),
        3 => rng.pick(&["\u{1b}M", "\u{8d}"]).to_string(),
        4 => format!("{}{}S", csi(rng), gen_num(rng, rows)),
        5 => format!("{}{}T", csi(rng), gen_num(rng, rows)),
        6 => format!("{}{}L", csi(rng), gen_num(rng, rows)),
        7 => format!("{}{}M", csi(rng), gen_num(rng, rows)),
        _ => "\r\n".into(),
    }
}

fn gen_margins(rng: &mut Rng, rows: usize) -> String {
    if rng.chance(60) && rows >= 2 {
        let t = rng.range(1, rows);
        let b = rng.range(1, rows);
        format!("{}{};{}r", csi(rng), t, b)
    } else if rng.chance(50) {
        format!("{}{};{}r", csi(rng), gen_num(rng, rows), gen_num(rng, rows))
    } else {
        format!("{}r", csi(rng))
    }
}

fn gen_edit(rng: &mut Rng, cols: usize) -> String {
    match rng.below(7) {
        0 => format!("{}{}J", csi(rng), *rng.pick(&["", "0", "1", "2", "3", "4"])),
        1 => format!("{}{}K", csi(rng), *rng.pick(&["", "0", "1", "2", "3"])),
        2 => format!("{}{}X", csi(rng), gen_num(rng, cols)),
        3 => format!("{}{}@", csi(rng), gen_num(rng, cols)),
        4 => format!("{}{}P", csi(rng), gen_num(rng, cols)),
        5 => "\u{1b}#8".into(),
        _ => format!("{}{}X", csi(rng), gen_num(rng, cols)),
    }
}

fn gen_sgr_param(rng: &mut Rng) -> String {
    match rng.weighted(&[4, 18, 10, 6, 6, 8, 8, 8, 8, 6, 4, 4, 4]) {
        0 => String::new(),
        1 => rng.pick(&["0", "1", "2", "3", "4", "5", "7", "9"]).to_string(),
        2 => rng.pick(&["21", "22", "23", "24", "25", "27", "29"]).to_string(),
        3 => rng.range(30, 37).to_string(),
        4 => rng.range(40, 47).to_string(),
        5 => rng.pick(&["39", "49"]).to_string(),
        6 => rng.range(90, 107).to_string(),
        7 => {
            let g = *rng.pick(&[38, 48]);
            let n = *rng.pick(&[0usize, 1, 7, 8, 15, 16, 100, 231, 255, 256, 300]);
            if rng.chance(50) {
                format!("{};5;{}", g, n)
            } else {
                format!("{}:5:{}", g, n)
            }
        }
        8 => {
            let g = *rng.pick(&[38, 48]);
            let (r, gg, b) = (rng.below(300), rng.below(256), rng.below(256));
            match rng.below(3) {
                0 => format!("{};2;{};{};{}", g, r, gg, b),
                1 => format!("{}:2:{}:{}:{}", g, r, gg, b),
                _ => format!("{}:2::{}:{}:{}", g, r, gg, b),
            }
        }
        9 => {
            // truncated / malformed colour specs
            let g = *rng.pick(&[38, 48]);
            rng.pick(&[
                format!("{}", g),
                format!("{};5", g),
                format!("{};2", g),
                format!("{};2;1", g),
                format!("{};2;1;2", g),
                format!("{}:5", g),
                format!("{}:2:1:2", g),
                format!("{};9;1", g),
                format!("{}:2:1:2:3:4:5:6", g),
            ])
            .clone()
        }
        10 => rng.pick(&["6", "8", "10", "26", "28", "50", "58", "59", "98", "108", "999"]).to_string(),
        11 => format!("{}:{}", rng.below(10), rng.below(10)),
        _ => rng.below(120).to_string(),
    }
}

fn gen_sgr(rng: &mut Rng) -> String {
    let n = match rng.weighted(&[50, 25, 15, 10]) {
        0 => 1,
        1 => 2,
        2 => rng.range(3, 6),
        _ => rng.range(0, 40),
    };
    let ps: Vec<String> = (0..n).map(|_| gen_sgr_param(rng)).collect();
    format!("{}{}m", csi(rng), ps.join(";"))
}

const DEC_MODES: [usize; 12] = [1, 6, 7, 25, 47, 1047, 1048, 1049, 2, 12, 1000, 2004];
const DEC_MODES_NOALT: [usize; 8] = [1, 6, 7, 25, 1048, 2, 12, 2004];

fn gen_modes(rng: &mut Rng) -> String {
    let hl = *rng.pick(&['h', 'l']);
    if rng.chance(65) {
        let n = if rng.chance(80) { 1 } else { rng.range(2, 3) };
        let ps: Vec<String> = (0..n).map(|_| rng.pick(&DEC_MODES_NOALT).to_string()).collect();
        format!("{}?{}{}", csi(rng), ps.join(";"), hl)
    } else {
        let n = if rng.chance(80) { 1 } else { 2 };
        let ps: Vec<String> = (0..n).map(|_| rng.pick(&[4usize, 20, 2, 7, 0]).to_string()).collect();
        format!("{}{}{}", csi(rng), ps.join(";"), hl)
    }
}

fn gen_alt(rng: &mut Rng) -> String {
    let hl = *rng.pick(&['h', 'l']);
    let m = *rng.pick(&[47usize, 1047, 1049, 1049]);
    if rng.chance(12) {
        // the screen switch combined with a cursor save / restore mode, in either order
        let x = *rng.pick(&[1048usize, 1048, 1049, 47, 6, 7]);
        if rng.chance(50) {
            format!("{}?{};{}{}", csi(rng), m, x, hl)
        } else {
            format!("{}?{};{}{}", csi(rng), x, m, hl)
        }
    } else if rng.chance(10) {
        format!("{}?{};{}{}", csi(rng), m, rng.pick(&DEC_MODES), hl)
    } else {
        format!("{}?{}{}", csi(rng), m, hl)
    }
}

fn gen_save(rng: &mut Rng) -> String {
    rng.pick(&["\u{1b}7", "\u{1b}8", "\u{1b}[s", "\u{1b}[u", "\u{9b}s", "\u{9b}u", "\u{1b}[?1048h", "\u{1b}[?1048l"])
        .to_string()
}

fn gen_charset(rng: &mut Rng) -> String {
    rng.pick(&["\u{0e}", "\u{0f}", "\u{1b}(0", "\u{1b}(B", "\u{1b})0", "\u{1b})B", "\u{1b}(A", "\u{1b})1"])
        .to_string()
}

fn gen_payload(rng: &mut Rng) -> String {
    let n = rng.range(0, 12);
    (0..n)
        .map(|_| match rng.weighted(&[50, 15, 15, 10, 10]) {
            0 => char::from_u32(rng.range(0x20, 0x7e) as u32).unwrap(),
            1 => char::from_u32(rng.range(0xa0, 0x2ff) as u32).unwrap(),
            2 => *rng.pick(&['\u{1}', '\u{8}', '\u{9}', '\u{a}', '\u{d}', '\u{1c}', '\u{1f}', '\u{0}', '\u{19}']),
            3 => *rng.pick(&[';', ':', '0', '9', '?', '[', ']', 'c', 'm']),
            _ => '\u{7f}',
        })
        .collect()
}

fn gen_string(rng: &mut Rng) -> String {
    let kind = rng.below(5);
    let intro = match (kind, rng.chance(50)) {
        (0, true) => "\u{1b}]",
        (0, false) => "\u{9d}",
        (1, true) => "\u{1b}P",
        (1, false) => "\u{90}",
        (2, true) => "\u{1b}X",
        (2, false) => "\u{98}",
        (3, true) => "\u{1b}^",
        (3, false) => "\u{9e}",
        (4, true) => "\u{1b}_",
        _ => "\u{9f}",
    };
    let mut payload = gen_payload(rng);
    if kind == 0 {
        payload = payload.replace('\u{7}', "");
    }
    if kind == 1 && rng.chance(50) {
        // DCS with parameters / intermediates / final before the passthrough data
        payload = format!("{}{}{}", *rng.pick(&["", "1;2", "?1", "1$", " ", ":", "1:2"]), *rng.pick(&["q", "p", "|", "@"]), payload);
    }
    let term = match rng.weighted(&[40, 40, if kind == 0 { 30 } else { 0 }]) {
        0 => "\u{1b}\\",
        1 => "\u{9c}",
        _ => "\u{7}",
    };
    format!("{}{}{}", intro, payload, term)
}

fn gen_unimpl(rng: &mut Rng) -> String {
    if rng.chance(15) {
        // sequences the state machine must swallow whole: a parameter byte after an intermediate, a private
        // marker after digits, two intermediates - with a final byte that WOULD mean something (DECSTR `!p`, SGR, ED ...)
        let body = match rng.below(4) {
            0 => format!("{}{}{}", *rng.pick(&["", "1", "?1"]), *rng.pick(&['!', '$', ' ', '"']), *rng.pick(&["1", "0;", ":", "12"])),
            1 => format!("{}{}{}", rng.range(0, 9), *rng.pick(&['?', '<', '=', '>']), *rng.pick(&["", "1", ";2"])),
            2 => format!("{}{}{}", *rng.pick(&["", "2"]), *rng.pick(&['$', ' ']), *rng.pick(&['!', '#', '$'])),
            _ => format!("{}!", *rng.pick(&["", "0", "1;2", "?"])),
        };
        return format!("{}{}{}", csi(rng), body, *rng.pick(&['p', 'p', 'm', 'J', 'H', 'h', 'r']));
    }
    match rng.below(6) {
        0 => {
            // CSI with unimplemented final
            let f = *rng.pick(&['N', 'O', 'Q', 'R', 'U', 'V', 'Y', '[', '\\', ']', '^', '_', 'c', 'i', 'j', 'k', 'n', 'o', 'p', 'q', 'v', 'w', 'x', 'y', 'z', '{', '|', '}', '~']);
            format!("{}{}{}", csi(rng), gen_num(rng, 9), f)
        }
        1 => {
            // private markers
            let m = *rng.pick(&['<', '=', '>']);
            let f = char::from_u32(rng.range(0x40, 0x7e) as u32).unwrap();
            format!("{}{}{}{}", csi(rng), m, gen_num(rng, 9), f)
        }
        2 => {
            // intermediates (except the DECSTR spelling)
            let i = char::from_u32(rng.range(0x20, 0x2f) as u32).unwrap();
            let mut f = char::from_u32(rng.range(0x40, 0x7e) as u32).unwrap();
            if i == '!' && f == 'p' {
                f = 'q';
            }
            format!("{}{}{}{}", csi(rng), gen_num(rng, 9), i, f)
        }
        3 => {
            // unimplemented ESC finals
            let f = *rng.pick(&['1', '2', '3', '4', '5', '6', '9', ':', ';', '<', '=', '>', '?', '@', 'A', 'B', 'C', 'F', 'G', 'I', 'J', 'K', 'L', 'N', 'O', 'Q', 'R', 'S', 'T', 'U', 'V', 'W', 'Y', 'Z', '\\', '`', 'a', 'b', 'd', 'n', 'o', '|', '}', '~']);
            format!("\u{1b}{}", f)
        }
        4 => {
            // ESC with intermediates other than # ( )
            let i = *rng.pick(&[' ', '!', '"', '$', '%', '&', '\'', '*', '+', ',', '-', '.', '/']);
            let f = char::from_u32(rng.range(0x30, 0x7e) as u32).unwrap();
            format!("\u{1b}{}{}", i, f)
        }
        _ => {
            // unassigned C0/C1 controls
            let c = *rng.pick(&[0u32, 1, 2, 3, 4, 5, 6, 7, 0x10, 0x11, 0x12, 0x13, 0x14, 0x15, 0x16, 0x17, 0x19, 0x1c, 0x1d, 0x1e, 0x1f, 0x80, 0x81, 0x82, 0x83, 0x86, 0x87, 0x89, 0x8a, 0x8b, 0x8c, 0x8e, 0x8f, 0x91, 0x92, 0x93, 0x94, 0x95, 0x96, 0x97, 0x99, 0x9a, 0x9c]);
            char::from_u32(c).unwrap().to_string()
        }
    }
}

fn gen_garbage(rng: &mut Rng) -> String {
    let n = rng.range(1, 12);
    (0..n)
        .map(|_| match rng.below(4) {
            0 => char::from_u32(rng.below(0x100) as u32).unwrap(),
            1 => {
                let mut c = rng.below(0x110000) as u32;
                if (0xD800..0xE000).contains(&c) {
                    c = 0xFFFD;
                }
                char::from_u32(c).unwrap()
            }
            2 => *rng.pick(&['\u{1b}', '[', ';', ':', '?', '0', '9', 'm', 'H', '\u{9b}', '\u{18}', '\u{1a}', '!', 'p', ' ', '#', '(']),
            _ => char::from_u32(rng.range(0x20, 0x7e) as u32).unwrap(),
        })
        .collect()
}

/// REP is the one command whose work is proportional to its count; on very narrow screens 65535
/// repetitions mean ~65535 scrolls, which the (list-based) model replays in quadratic time, so such
/// counts are kept for screens of >= 4 columns.
fn rep_count(rng: &mut Rng, cols: usize, s: String) -> String {
    let big = s.len() >= 5;
    if big && (cols < 4 || (cols < 6 && !rng.chance(10))) {
        rng.pick(&["1000", "300", "2000"]).to_string()
    } else {
        s
    }
}

/// a CSI command with surplus parameters: one or two meaningful leading parameters, then enough
/// separators to run past the parameter array (32 entries), then trailing digits that must not leak
/// into the leading parameters; any dispatchable final byte
fn gen_overflow(rng: &mut Rng, cols: usize, rows: usize) -> String {
    let f = *rng.pick(&[
        'A', 'B', 'C', 'D', 'E', 'F', 'G', 'H', 'I', 'J', 'K', 'L', 'M', 'P', 'S', 'T', 'X', 'Z', '@', '`', 'a', 'd',
        'e', 'f', 'g', 'h', 'l', 'm', 'r', 'S', 'T', 'L', 'M', 'r', 'W', 't', 'b',
    ]);
    let edge = rows.max(cols).min(9);
    if rng.chance(20) {
        // the same overflow in the parameter section of a DCS string (shares `param` with CSI),
        // followed by a payload that must stay invisible and the string terminator
        let k = *rng.pick(&[15usize, 30, 31, 32, 33, 34, 40, 64]);
        let ps: String = (0..k).map(|i| if i % 3 == 0 { format!("{};", i % 10) } else { ";".to_string() }).collect();
        return format!(
            "{}{}{}{}{}{}",
            *rng.pick(&["\u{1b}P", "\u{90}"]),
            ps,
            *rng.pick(&["", "1", "$"]),
            *rng.pick(&["q", "p", "|", "m", "H"]),
            *rng.pick(&["visible?", "ab\u{1b}[2Jcd", "x"]),
            *rng.pick(&["\u{1b}\\", "\u{9c}"])
        );
    }
    let mut s = String::from(csi(rng));
    if f == 'h' || f == 'l' {
        if rng.chance(60) {
            s.push('?');
        }
        s.push_str(*rng.pick(&["6", "7", "4", "25", "47", "1049", "20"]));
    } else {
        // a first parameter that means something to the command
        let p1: String = match f {
            'g' => rng.pick(&["", "0", "3"]).to_string(),
            'W' => rng.pick(&["", "0", "2", "5"]).to_string(),
            'J' | 'K' => rng.pick(&["", "0", "1", "2"]).to_string(),
            't' => format!("8;{};{}", rng.range(1, 30), rng.range(1, 90)),
            'm' => rng.pick(&["1", "4", "7", "31", "0"]).to_string(),
            _ => {
                if rng.chance(12) {
                    String::new()
                } else {
                    rng.range(1, edge.max(1)).to_string()
                }
            }
        };
        s.push_str(&p1);
        if rng.chance(40) && !"gWJKt".contains(f) {
            s.push(';');
            s.push_str(&rng.range(1, edge.max(1)).to_string());
        }
    }
    if rng.chance(35) {
        // surplus SUB-parameters instead: the value the command reads is the first part, the parts
        // beyond the sixth must not leak into it
        let j = *rng.pick(&[4usize, 5, 6, 7, 8, 12]);
        for i in 0..j {
            s.push(':');
            if rng.chance(40) {
                s.push_str(&(i % 10).to_string());
            }
        }
        s.push_str(&rng.range(0, 9).to_string());
        if rng.chance(30) {
            s.push_str(";1");
        }
        s.push(f);
        return s;
    }
    let k = *rng.pick(&[13usize, 14, 15, 16, 17, 28, 29, 30, 31, 32, 33, 34, 35, 47, 63, 64, 65]);
    for i in 0..k {
        s.push(';');
        if rng.chance(30) {
            s.push_str(&(i % 10).to_string());
        }
    }
    if rng.chance(80) {
        s.push_str(&rng.range(0, 9).to_string());
    }
    s.push(f);
    s
}

fn gen_huge(rng: &mut Rng, cols: usize) -> String {
    match rng.below(6) {
        0 => {
            let f = *rng.pick(&['b', '@', 'L', 'M', 'S', 'T', 'P', 'X', 'A', 'B', 'C', 'D', 'I', 'Z', 'd', 'G']);
            let n = rng.pick(&["65535", "65536", "65534", "99999999999", "4294967296", "18446744073709551616"]).to_string();
            let n = if f == 'b' { rep_count(rng, cols, n) } else { n };
            format!("{}{}{}", csi(rng), n, f)
        }
        1 if rng.chance(60) => gen_overflow(rng, cols, cols.min(8)),
        1 => {
            // > 32 parameters
            let n = rng.range(30, 40);
            let ps: Vec<String> = (0..n).map(|i| (i % 10).to_string()).collect();
            format!("{}{}{}", csi(rng), ps.join(";"), *rng.pick(&['m', 'H', 'h', 'r', 'l']))
        }
        2 => {
            // > 6 sub-parameters
            let n = rng.range(5, 9);
            let ps: Vec<String> = (0..n).map(|i| (i + 1).to_string()).collect();
            format!("{}{}{}", csi(rng), ps.join(":"), *rng.pick(&['m', 'H']))
        }
        3 => format!("{}?{}h", csi(rng), (0..rng.range(30, 36)).map(|_| "1049").collect::<Vec<_>>().join(";")),
        4 => format!("{}{};{}r", csi(rng), *rng.pick(&["65535", "0", "65536"]), *rng.pick(&["65535", "0", "1"])),
        _ => {
            let n = rng.pick(&["65535", "300", "1000"]).to_string();
            format!("x{}{}b", csi(rng), rep_count(rng, cols, n))
        }
    }
}

fn gen_rep(rng: &mut Rng, cols: usize) -> String {
    let n = gen_num(rng, cols);
    let n = rep_count(rng, cols, n);
    if rng.chance(50) {
        format!("{}{}{}b", gen_char(rng), csi(rng), n)
    } else {
        format!("{}{}b", csi(rng), n)
    }
}

/// a sequence left open with the parser's registers at their limits: parameter list at / past its 32
/// slots, a parameter at / past its 6 sub-parts, numbers at the u16 ceiling, an open string - what
/// comes next (an ESC, CAN, a final byte, RIS) has to cope with those registers
fn gen_dangling(rng: &mut Rng) -> String {
    let intro = *rng.pick(&["\u{1b}[", "\u{9b}", "\u{1b}[", "\u{1b}P", "\u{90}"]);
    match rng.below(7) {
        0 => {
            let k = *rng.pick(&[30usize, 31, 32, 33, 40, 64]);
            let ps: String = (0..k).map(|i| if i % 4 == 0 { format!("{};", i % 10) } else { ";".to_string() }).collect();
            format!("{}{}{}", intro, ps, *rng.pick(&["", "5", "65535"]))
        }
        1 => {
            let j = *rng.pick(&[4usize, 5, 6, 7, 9, 12]);
            let ps: String = (0..j).map(|i| if i % 2 == 0 { format!("{}:", i + 1) } else { ":".to_string() }).collect();
            format!("{}{}{}{}", intro, *rng.pick(&["", "38", "1;"]), ps, *rng.pick(&["", "7", "30"]))
        }
        2 => format!("{}{}", intro, *rng.pick(&["65535", "65536", "99999999999", "?65535;65535", "1;2;3"])),
        3 => format!("{}{}{}", intro, *rng.pick(&["", "1", "?1;2"]), *rng.pick(&[" ", "$", "!", "#"])),
        4 => format!("{}{}", *rng.pick(&["\u{1b}]", "\u{9d}", "\u{1b}X", "\u{1b}^", "\u{1b}_"]), *rng.pick(&["0;title", "", "a\u{1b}"])),
        5 => format!("\u{1b}{}", *rng.pick(&["", "(", "#", " ", "%"])),
        _ => format!("{}1;2{}data", *rng.pick(&["\u{1b}P", "\u{90}"]), *rng.pick(&["q", "|", "p"])),
    }
}

pub fn gen_fragment(rng: &mut Rng, w: &W, cols: usize, rows: usize) -> String {
    let ws = [
        w.text, w.c0, w.c1, w.rel, w.abs, w.tabs, w.scroll, w.margins, w.edit, w.sgr, w.modes, w.alt, w.save,
        w.charset, w.strings, w.unimpl, w.trunc, w.garbage, w.ris, w.decstr, w.rep, w.huge,
    ];
    match rng.weighted(&ws) {
        0 => gen_text(rng, cols),
        1 => rng.pick(&["\u{8}", "\t", "\n", "\u{b}", "\u{c}", "\r", "\u{e}", "\u{f}", "\r\n", "\u{7}", "\u{0}"]).to_string(),
        2 => rng.pick(&["\u{84}", "\u{85}", "\u{88}", "\u{8d}", "\u{80}", "\u{9c}"]).to_string(),
        3 => gen_rel(rng, cols, rows),
        4 => gen_abs(rng, cols, rows),
        5 => gen_tabs(rng, cols),
        6 => gen_scroll(rng, rows),
        7 => gen_margins(rng, rows),
        8 => gen_edit(rng, cols),
        9 => gen_sgr(rng),
        10 => gen_modes(rng),
        11 => gen_alt(rng),
        12 => gen_save(rng),
        13 => gen_charset(rng),
        14 => gen_string(rng),
        15 => gen_unimpl(rng),
        16 if rng.chance(30) => gen_dangling(rng),
        16 => {
            // truncated prefix of some other fragment
            let mut w2 = w.clone();
            w2.trunc = 0;
            w2.text = 0;
            let f = gen_fragment(rng, &w2, cols, rows);
            let n = f.chars().count();
            if n <= 1 {
                f
            } else {
                let k = rng.range(1, n - 1);
                f.chars().take(k).collect()
            }
        }
        17 => gen_garbage(rng),
        18 => "\u{1b}c".into(),
        19 => "\u{1b}[!p".into(),
        20 => gen_rep(rng, cols),
        _ => gen_huge(rng, cols),
    }
}

const COLS_SET: [usize; 17] = [1, 2, 3, 7, 8, 9, 10, 15, 16, 17, 23, 24, 25, 32, 40, 80, 100];
const ROWS_SET: [usize; 5] = [1, 2, 3, 5, 8];

pub fn gen_size(rng: &mut Rng, w: &W) -> (usize, usize) {
    if rng.chance(w.tiny_pct) {
        (rng.range(1, 6), rng.range(1, 5))
    } else if rng.chance(55) {
        (rng.range(1, 20), rng.range(1, 8))
    } else {
        (*rng.pick(&COLS_SET), *rng.pick(&ROWS_SET))
    }
}

pub fn gen_limit(rng: &mut Rng, w: &W) -> Option<usize> {
    if rng.chance(w.nolimit_pct) {
        None
    } else {
        Some(*rng.pick(&[0usize, 0, 1, 2, 3, 9, 10, 11, 12, 20, 21, 25, 30, 100]))
    }
}

fn lim_tok(l: Option<usize>) -> String {
    match l {
        None => "-".into(),
        Some(n) => n.to_string(),
    }
}

fn gen_feed(rng: &mut Rng, w: &W, cols: usize, rows: usize) -> String {
    if rng.chance(w.single_pct) {
        gen_fragment(rng, w, cols, rows)
    } else {
        let n = rng.range(2, 8);
        (0..n).map(|_| gen_fragment(rng, w, cols, rows)).collect()
    }
}

/// occasional surplus-parameter command in place of a grammar fragment (every profile)
fn gen_feed_x(rng: &mut Rng, w: &W, cols: usize, rows: usize) -> String {
    if rng.chance(2) {
        gen_overflow(rng, cols, rows)
    } else {
        gen_feed(rng, w, cols, rows)
    }
}

/// a fragment from a small alphabet of state-changing commands with small parameters: the mode /
/// margin / saved-context / screen-switch state machine is explored much more densely than by the
/// general grammar (ordered combinations such as DECOM, DECSC, DECSTBM, DECRC become likely)
fn gen_soup_fragment(rng: &mut Rng, cols: usize, rows: usize) -> String {
    match rng.below(20) {
        18 => format!("\u{1b}[{}b", *rng.pick(&["", "1", "2", "3", "9"])),
        19 => {
            // several private modes in one DECSET / DECRST (order matters: screen switch vs save)
            let ms = [6usize, 7, 25, 47, 1047, 1048, 1049];
            let n = rng.range(2, 3);
            let ps: Vec<String> = (0..n).map(|_| rng.pick(&ms).to_string()).collect();
            format!("\u{1b}[?{}{}", ps.join(";"), *rng.pick(&['h', 'l']))
        }
        16 => format!("\u{1b}[{}{}", *rng.pick(&["", "1", "2", "3"]), *rng.pick(&['L', 'M', 'S', 'T'])),
        17 => {
            if rng.chance(15) {
                gen_overflow(rng, cols, rows)
            } else if rng.chance(40) {
                gen_fill(rng, cols, rows)
            } else {
                rng.pick(&["\u{1b}D", "\u{1b}E", "\u{1b}M", "\n", "\u{1b}[?1047h", "\u{1b}[?1047l"]).to_string()
            }
        }
        0 => format!("\u{1b}[?6{}", *rng.pick(&['h', 'l'])),
        1 => format!("\u{1b}[?7{}", *rng.pick(&['h', 'l'])),
        2 => rng.pick(&["\u{1b}7", "\u{1b}[s", "\u{1b}[?1048h"]).to_string(),
        3 => rng.pick(&["\u{1b}8", "\u{1b}[u", "\u{1b}[?1048l"]).to_string(),
        4 => {
            if rows >= 2 {
                let t = rng.range(1, rows - 1);
                let b = rng.range(t + 1, rows);
                format!("\u{1b}[{};{}r", t, b)
            } else {
                "\u{1b}[r".into()
            }
        }
        5 => "\u{1b}[r".into(),
        6 => format!("\u{1b}[{};{}H", rng.range(1, rows), rng.range(1, cols)),
        7 => format!("\u{1b}[?{}h", *rng.pick(&[47usize, 1047, 1049])),
        8 => format!("\u{1b}[?{}l", *rng.pick(&[47usize, 1047, 1049])),
        9 => format!("\u{1b}[4{}", *rng.pick(&['h', 'l'])),
        10 => {
            let n = rng.range(1, cols + 1);
            (0..n).map(|_| gen_char(rng)).collect()
        }
        11 => rng.pick(&["\n", "\u{1b}M", "\r", "\u{8}", "\t"]).to_string(),
        12 => format!("\u{1b}[{}{}", rng.range(1, rows.max(cols)), *rng.pick(&['A', 'B', 'C', 'D', 'd', 'G'])),
        13 => gen_sgr(rng),
        14 => rng.pick(&["\u{1b}[!p", "\u{e}", "\u{f}", "\u{1b}(0", "\u{1b}[?25l", "\u{1b}[?1h", "\u{1b}[20h", "\u{1b}H", "\u{1b}[3g"]).to_string(),
        _ => gen_edit(rng, cols),
    }
}

/// every row of the screen gets its own text (so that a row landing in the wrong place is visible)
fn gen_fill(rng: &mut Rng, cols: usize, rows: usize) -> String {
    let base = rng.below(20);
    let mut s = String::new();
    for r in 0..rows {
        s.push_str(&format!("\u{1b}[{};1H", r + 1));
        let n = rng.range(1, cols);
        for k in 0..n {
            s.push(char::from_u32(0x61 + ((base + r * 3 + k) % 26) as u32).unwrap());
        }
    }
    if rng.chance(70) {
        s.push_str(&format!("\u{1b}[{};{}H", rng.range(1, rows), rng.range(1, cols)));
    }
    s
}

/// an alternate-screen episode: switch, a few of {resize, margins, save, move, modes, text}, switch
/// back - the state carried across the two switches (margins, saved contexts, the other buffer's
/// size, a pending wrap) is what single random switches rarely exercise
fn alt_episode(rng: &mut Rng, cols: &mut usize, rows: &mut usize, second: bool, out: &mut impl Write) {
    let on = *rng.pick(&[47usize, 1047, 1049]);
    let off = *rng.pick(&[47usize, 1047, 1049]);
    writeln!(out, "S 0 {}", hex_encode(&format!("\u{1b}[?{}h", on))).unwrap();
    if second && rng.chance(60) {
        writeln!(out, "S 0 {}", hex_encode(*rng.pick(&["\u{1b}8", "\u{1b}[u", "\u{1b}[?1048l"]))).unwrap();
        if rng.chance(50) {
            let m = match rng.below(6) {
                0 => "\u{1b}[A".to_string(),
                1 => "\u{1b}[B".to_string(),
                2 => "\u{1b}[D".to_string(),
                3 => "\u{1b}[C".to_string(),
                4 => "x".to_string(),
                _ => "\u{1b}[K".to_string(),
            };
            writeln!(out, "S 0 {}", hex_encode(&m)).unwrap();
        }
    }
    for _ in 0..rng.range(1, 4) {
        match rng.below(8) {
            0 | 1 => {
                match rng.below(3) {
                    0 => *cols = rng.range(1, 8),
                    1 => *rows = rng.range(1, 6),
                    _ => {
                        *cols = rng.range(1, 8);
                        *rows = rng.range(1, 6);
                    }
                }
                writeln!(out, "R 0 {} {}", cols, rows).unwrap();
            }
            2 => {
                let s = if *rows >= 2 {
                    let t = rng.range(1, *rows - 1);
                    format!("\u{1b}[{};{}r", t, rng.range(t + 1, *rows))
                } else {
                    "\u{1b}[r".to_string()
                };
                writeln!(out, "S 0 {}", hex_encode(&s)).unwrap();
            }
            3 | 4 => {
                // move (often as far as it goes), then save
                let mv = match rng.below(3) {
                    0 => format!("\u{1b}[{};{}H", rows, cols),
                    1 => format!("\u{1b}[{};{}H", rng.range(1, *rows), rng.range(1, *cols)),
                    _ => "\u{1b}[99C\u{1b}[99B".to_string(),
                };
                let s = format!("{}{}", mv, *rng.pick(&["\u{1b}7", "\u{1b}[s", "\u{1b}[?1048h", ""]));
                writeln!(out, "S 0 {}", hex_encode(&s)).unwrap();
            }
            5 => {
                // print up to the right edge: leaves a wrap pending
                let s = format!("\u{1b}[{}G{}", cols, gen_char(rng));
                writeln!(out, "S 0 {}", hex_encode(&s)).unwrap();
            }
            _ => {
                let s = gen_soup_fragment(rng, *cols, *rows);
                writeln!(out, "S 0 {}", hex_encode(&s)).unwrap();
            }
        }
    }
    writeln!(out, "S 0 {}", hex_encode(&format!("\u{1b}[?{}l", off))).unwrap();
    if rng.chance(50) {
        writeln!(out, "S 0 {}", hex_encode(*rng.pick(&["\u{1b}8", "\u{1b}[u", "\n", "\u{1b}[S", "x", "xy"]))).unwrap();
    }
}

/// C04: printing at the right edge.  Reach the wrap-pending position (or the last column), tweak
/// what steers printing (DECAWM, IRM, pen, charsets, margins - also with the cursor parked outside the
/// region in origin mode), then print / repeat; several rounds
fn case_c04_edge(rng: &mut Rng, w: &W, out: &mut impl Write) {
    let (cols, rows) = (rng.range(1, 9), rng.range(1, 6));
    writeln!(out, "N 0 {} {} {}", cols, rows, lim_tok(gen_limit(rng, w))).unwrap();
    if rng.chance(50) {
        writeln!(out, "S 0 {}", hex_encode(&gen_fill(rng, cols, rows))).unwrap();
    }
    if rng.chance(35) && rows >= 2 {
        writeln!(out, "S 0 {}", hex_encode(&gen_park_outside(rng, cols, rows))).unwrap();
    } else if rng.chance(40) && rows >= 2 {
        let t = rng.range(1, rows - 1);
        let b = rng.range(t + 1, rows);
        writeln!(out, "S 0 {}", hex_encode(&format!("\u{1b}[{};{}r\u{1b}[{};1H", t, b, rng.range(1, rows)))).unwrap();
    }
    for _ in 0..rng.range(1, 5) {
        // to the edge
        let s = match rng.below(4) {
            0 => format!("\u{1b}[{}G{}", cols, gen_char(rng)),
            1 => "\u{1b}[999C".to_string(),
            2 => format!("\u{1b}[999C{}", gen_char(rng)),
            _ => (0..cols).map(|_| gen_char(rng)).collect(),
        };
        writeln!(out, "S 0 {}", hex_encode(&s)).unwrap();
        // tweaks
        for _ in 0..rng.below(4) {
            let s = match rng.below(9) {
                0 | 1 => format!("\u{1b}[?7{}", *rng.pick(&['h', 'l'])),
                2 => format!("\u{1b}[4{}", *rng.pick(&['h', 'l'])),
                3 | 4 => gen_sgr(rng),
                5 => gen_charset(rng),
                6 => format!("\u{1b}[?6{}", *rng.pick(&['h', 'l'])),
                7 => rng.pick(&["\u{1b}7", "\u{1b}8", "\u{1b}[?25l", "\u{1b}[20h"]).to_string(),
                _ => gen_margins(rng, rows),
            };
            writeln!(out, "S 0 {}", hex_encode(&s)).unwrap();
        }
        // print / repeat
        for _ in 0..rng.range(1, 3) {
            let s = match rng.below(5) {
                0 | 1 => gen_char(rng).to_string(),
                2 => format!("\u{1b}[{}b", *rng.pick(&["", "1", "2", "3", "9"])),
                3 => format!("{}{}", gen_char(rng), gen_char(rng)),
                _ => format!("{}\u{1b}[{}b", gen_char(rng), rng.range(1, cols + 1)),
            };
            writeln!(out, "S 0 {}", hex_encode(&s)).unwrap();
        }
    }
}

/// screens wider than 65535 columns: every `as u16` on a column count, and every parameter that is
/// compared with one, shows here (counts around `cols mod 65536`, 65535, the width itself)
fn case_huge_geometry(rng: &mut Rng, w: &W, out: &mut impl Write) {
    let mut cols = *rng.pick(&[65536usize, 65537, 65540, 65600, 70000]);
    let rows = rng.range(1, 2);
    writeln!(out, "N 0 {} {} {}", cols, rows, lim_tok(gen_limit(rng, w))).unwrap();
    let nops = rng.range(3, 8);
    for _ in 0..nops {
        let m = cols % 65536;
        let num = |rng: &mut Rng| -> String {
            match rng.below(8) {
                0 => String::new(),
                1 => (m + 1).to_string(),
                2 => (m + 2).to_string(),
                3 => m.max(1).to_string(),
                4 => "65535".to_string(),
                5 => rng.range(1, 9).to_string(),
                6 => "65536".to_string(),
                _ => (m / 2 + 1).to_string(),
            }
        };
        let s = match rng.below(12) {
            0 => format!("\u{1b}[{}G", num(rng)),
            1 => "\u{1b}[65535G\u{1b}[65535C".to_string(),
            2 => format!("\u{1b}[{}@", num(rng)),
            3 => format!("\u{1b}[{}P", num(rng)),
            4 => format!("\u{1b}[{}X", num(rng)),
            5 => format!("{}\u{1b}[{}b", gen_char(rng), rng.range(1, 9)),
            6 => format!("\u{1b}[{}{}", num(rng), *rng.pick(&['C', 'D', 'I', 'Z'])),
            7 => format!("\u{1b}[{}K", *rng.pick(&["", "1", "2"])),
            8 => gen_text(rng, 8),
            9 => rng.pick(&["\u{1b}H", "\t", "\u{1b}[g", "\r", "\n", "\u{1b}7", "\u{1b}8"]).to_string(),
            10 => {
                cols = *rng.pick(&[65536usize, 65537, 65540, 66000, 10, 70000]);
                writeln!(out, "R 0 {} {}", cols, rows).unwrap();
                continue;
            }
            _ => gen_fragment(rng, w, 8, rows),
        };
        writeln!(out, "S 0 {}", hex_encode(&s)).unwrap();
    }
}

/// the wrap-pending position (cursor one past the last column) on a row above / inside / below the scroll
/// region, then ONE command of any family: every command has to decide what the pending wrap and the
/// out-of-range column mean for it (clamp, clear, keep), and the rows outside the region have their own rules
fn case_edge_cmd(rng: &mut Rng, w: &W, out: &mut impl Write) {
    let (cols, rows) = (rng.range(1, 9), rng.range(1, 6));
    writeln!(out, "N 0 {} {} {}", cols, rows, lim_tok(gen_limit(rng, w))).unwrap();
    if rng.chance(60) {
        writeln!(out, "S 0 {}", hex_encode(&gen_fill(rng, cols, rows))).unwrap();
    }
    if rng.chance(70) && rows >= 2 {
        let t = rng.range(1, rows - 1);
        let b = rng.range(t + 1, rows);
        writeln!(out, "S 0 {}", hex_encode(&format!("\u{1b}[{};{}r", t, b))).unwrap();
    }
    if rng.chance(20) {
        writeln!(out, "S 0 {}", hex_encode(*rng.pick(&["\u{1b}[?6h", "\u{1b}[20h", "\u{1b}[4h", "\u{1b}[?7l"]))).unwrap();
    }
    for _ in 0..rng.range(1, 5) {
        // to the edge of some row (any row: above, inside, below the region)
        let r = rng.range(1, rows);
        let s = match rng.below(3) {
            0 => format!("\u{1b}[{};{}H{}", r, cols, gen_char(rng)),
            1 => format!("\u{1b}[{};1H{}", r, (0..cols).map(|_| gen_char(rng)).collect::<String>()),
            _ => format!("\u{1b}[{}d\u{1b}[999C{}", r, gen_char(rng)),
        };
        writeln!(out, "S 0 {}", hex_encode(&s)).unwrap();
        // one or two commands from there
        for _ in 0..rng.range(1, 2) {
            let s = match rng.below(9) {
                0 => gen_rel(rng, cols, rows),
                1 => gen_abs(rng, cols, rows),
                2 | 3 => gen_scroll(rng, rows),
                4 => gen_edit(rng, cols),
                5 => gen_tabs(rng, cols),
                6 => gen_save(rng),
                7 => rng.pick(&["\n", "\u{1b}D", "\u{1b}E", "\u{1b}M", "\u{b}", "\u{c}", "\r", "\u{8}", "\t"]).to_string(),
                _ => gen_char(rng).to_string(),
            };
            writeln!(out, "S 0 {}", hex_encode(&s)).unwrap();
        }
        if rng.chance(30) {
            writeln!(out, "S 0 {}", hex_encode(&gen_char(rng).to_string())).unwrap();
        }
    }
}

/// one instance, ops drawn from the small state-machine alphabet (with resizes and queries)
fn case_soup(rng: &mut Rng, w: &W, out: &mut impl Write) {
    let park = rng.chance(w.park_pct);
    let (mut cols, mut rows) = if park { (rng.range(1, 8), rng.range(2, 8)) } else { (rng.range(1, 8), rng.range(1, 6)) };
    let limit = gen_limit(rng, w);
    writeln!(out, "N 0 {} {} {}", cols, rows, lim_tok(limit)).unwrap();
    if rng.chance(70) {
        writeln!(out, "S 0 {}", hex_encode(&gen_fill(rng, cols, rows))).unwrap();
    }
    if park && rows >= 2 {
        // park the cursor outside the scroll region with origin mode on (needs DECOM, a save, new
        // margins and a restore in that order - too rare to arise by chance)
        let s = gen_park_outside(rng, cols, rows);
        writeln!(out, "S 0 {}", hex_encode(&s)).unwrap();
        // ... and move around vertically while parked there
        for _ in 0..rng.range(2, 6) {
            let m = match rng.below(14) {
                10 | 11 => format!("\u{1b}[{}{}", rng.range(1, 3), *rng.pick(&['A', 'B', 'B'])),
                12 => format!("\u{1b}[{}{}", rng.range(1, 3), *rng.pick(&['C', 'D'])),
                13 => format!("\u{1b}[{}G", rng.range(1, cols)),
                7 => format!("\u{1b}[{}L", *rng.pick(&["", "1", "2"])),
                8 => format!("\u{1b}[{}M", *rng.pick(&["", "1", "2"])),
                9 => format!("\u{1b}[{}", *rng.pick(&['S', 'T'])),
                0 | 1 => "\u{1b}M".to_string(),
                2 => "\n".to_string(),
                3 => format!("\u{1b}[{}A", rng.range(1, 2)),
                4 => format!("\u{1b}[{}B", rng.range(1, 2)),
                5 => "\u{1b}D".to_string(),
                _ => format!("\u{1b}[{}e", rng.range(1, 2)),
            };
            writeln!(out, "S 0 {}", hex_encode(&m)).unwrap();
            // dump() has a branch of its own for this state (cursor outside the region in origin
            // mode: restore + relative moves, one arm per direction)
            if rng.chance(70) {
                writeln!(out, "DUMP 0").unwrap();
            }
        }
    }
    let nops = rng.range(6, 40);
    // alternate-screen episodes: none, one, or two (the second often after a shrink, starting with a
    // restore: the saved context of the first episode must have been clamped meanwhile)
    let (ep1, ep2) = match rng.below(100) {
        0..=49 => (usize::MAX, usize::MAX),
        50..=74 => (rng.below(nops), usize::MAX),
        _ => {
            let a = rng.below(nops);
            (a, a + 1 + rng.below(6))
        }
    };
    for i in 0..nops {
        if i == ep1 || i == ep2 {
            alt_episode(rng, &mut cols, &mut rows, i == ep2, out);
            if i == ep1 && ep2 != usize::MAX && rng.chance(60) {
                // shrink (or otherwise resize) while the primary screen shows
                match rng.below(3) {
                    0 => cols = rng.range(1, cols),
                    1 => rows = rng.range(1, rows),
                    _ => {
                        cols = rng.range(1, 8);
                        rows = rng.range(1, 6);
                    }
                }
                writeln!(out, "R 0 {} {}", cols, rows).unwrap();
            }
        }
        if rng.chance(w.resize_pct / 2) {
            cols = rng.range(1, 8);
            rows = rng.range(1, 6);
            writeln!(out, "R 0 {} {}", cols, rows).unwrap();
        } else {
            let s = gen_soup_fragment(rng, cols, rows);
            // now and then through `Vt::feed` (char by char: no changes() / gc() at the end - the next
            // feed_str or resize starts from a buffer that was never trimmed)
            let kind = if rng.chance(8) { "F" } else { "S" };
            writeln!(out, "{} 0 {}", kind, hex_encode(&s)).unwrap();
        }
        if rng.chance(w.query_pct) {
            match rng.weighted(&[70, 10, 10, 10]) {
                0 => writeln!(out, "DUMP 0").unwrap(),
                1 => writeln!(out, "TEXT 0").unwrap(),
                2 => writeln!(out, "UNWRAP 0").unwrap(),
                _ => writeln!(out, "CHUNKS 0 {}", rng.below(rows)).unwrap(),
            }
        }
    }
}

/// tab-stop scenario: widths around multiples of 8, custom stops, narrowing exactly onto a stop column,
/// widening again, then counted tab movements across the boundary
fn case_tabs(rng: &mut Rng, w: &W, out: &mut impl Write) {
    let widths = [7usize, 8, 9, 15, 16, 17, 20, 23, 24, 25, 30, 32, 33, 40];
    let mut cols = *rng.pick(&widths[4..]);
    let rows = rng.range(1, 4);
    writeln!(out, "N 0 {} {} {}", cols, rows, lim_tok(gen_limit(rng, w))).unwrap();
    let nops = rng.range(6, 24);
    for _ in 0..nops {
        match rng.weighted(&[22, 10, 10, 28, 10, 10, 10, 8, 7]) {
            8 => {
                // stops edited / width changed while the other screen shows: the stop vector belongs to the
                // terminal, not to a screen - nothing may be re-derived from a buffer's stale width on return
                let on = *rng.pick(&[47usize, 1047, 1049]);
                writeln!(out, "S 0 {}", hex_encode(&format!("\u{1b}[?{}h", on))).unwrap();
                for _ in 0..rng.range(1, 3) {
                    match rng.below(4) {
                        0 | 1 => {
                            cols = *rng.pick(&widths);
                            writeln!(out, "R 0 {} {}", cols, rows).unwrap();
                        }
                        2 => writeln!(out, "S 0 {}", hex_encode(&format!("\u{1b}[{}G\u{1b}[g", rng.range(1, cols + 1)))).unwrap(),
                        _ => writeln!(out, "S 0 {}", hex_encode(*rng.pick(&["\u{1b}[3g", "\u{1b}[5W", "\u{1b}[2W", "\u{1b}H"]))).unwrap(),
                    }
                }
                writeln!(out, "S 0 {}", hex_encode(&format!("\u{1b}[?{}l", *rng.pick(&[47usize, 1047, 1049])))).unwrap();
                writeln!(out, "S 0 {}", hex_encode(&format!("\r\u{1b}[{}I", rng.range(1, 5)))).unwrap();
            }
            7 => {
                // tab movement from the wrap-pending position (one past the last column), where a
                // stop in the last column lies BEFORE the cursor
                let f = *rng.pick(&['Z', 'Z', 'I']);
                writeln!(out, "S 0 {}", hex_encode(&format!("\u{1b}[{}G{}", cols, gen_char(rng)))).unwrap();
                writeln!(out, "S 0 {}", hex_encode(&format!("\u{1b}[{}{}", rng.range(1, 3), f))).unwrap();
            }
            0 => {
                cols = *rng.pick(&widths);
                writeln!(out, "R 0 {} {}", cols, rows).unwrap();
            }
            1 => writeln!(out, "S 0 {}", hex_encode(&format!("\u{1b}[{}G\u{1b}H", rng.range(1, cols + 1)))).unwrap(),
            2 => writeln!(out, "S 0 {}", hex_encode(&format!("\u{1b}[{}G\u{1b}[g", rng.range(1, cols + 1)))).unwrap(),
            3 => {
                let f = *rng.pick(&['I', 'Z']);
                let n = rng.range(1, 4);
                writeln!(out, "S 0 {}", hex_encode(&format!("\u{1b}[{}G", rng.range(1, cols + 1)))).unwrap();
                writeln!(out, "S 0 {}", hex_encode(&format!("\u{1b}[{}{}", n, f))).unwrap();
            }
            4 => writeln!(out, "S 0 {}", hex_encode("\r\t")).unwrap(),
            5 => writeln!(out, "S 0 {}", hex_encode(*rng.pick(&["\u{1b}[3g", "\u{1b}[5W", "\u{1b}[?1049h", "\u{1b}[?1049l", "\u{1b}c"]))).unwrap(),
            _ => {
                let n = rng.range(1, cols + 1);
                let t: String = (0..n).map(|_| gen_char(rng)).collect();
                writeln!(out, "S 0 {}", hex_encode(&t)).unwrap();
            }
        }
    }
}

/// one instance, random ops
fn case_generic(rng: &mut Rng, w: &W, out: &mut impl Write) {
    let (mut cols, mut rows) = gen_size(rng, w);
    let limit = gen_limit(rng, w);
    writeln!(out, "N 0 {} {} {}", cols, rows, lim_tok(limit)).unwrap();
    if rng.chance(w.region_pct) && rows >= 2 {
        // start inside a scroll region (often with top > 1), half of the time with origin mode on
        let t = rng.range(1, rows - 1);
        let b = rng.range(t + 1, rows);
        writeln!(out, "S 0 {}", hex_encode(&format!("\u{1b}[{};{}r", t, b))).unwrap();
        if rng.chance(50) {
            writeln!(out, "S 0 {}", hex_encode("\u{1b}[?6h")).unwrap();
        }
    }
    let nops = rng.range(w.ops_lo, w.ops_hi);
    for _ in 0..nops {
        if rng.chance(w.resize_pct) {
            if rng.chance(w.prewrap_pct) {
                // put the cursor somewhere definite first: often into the pending-wrap position
                // (one past the last column) of a row in the middle of a wrapped paragraph
                let r = rng.range(1, rows);
                let s = match rng.below(4) {
                    0 | 1 => format!("\u{1b}[{};{}H{}", r, cols, gen_char(rng)),
                    2 => format!("\u{1b}[{};{}H", r, rng.range(1, cols)),
                    _ => format!("\u{1b}[{};1H", r),
                };
                writeln!(out, "S 0 {}", hex_encode(&s)).unwrap();
            }
            let (c, r) = gen_size(rng, w);
            // chains that change only one dimension are as interesting as arbitrary ones
            match rng.below(3) {
                0 => cols = c,
                1 => rows = r,
                _ => {
                    cols = c;
                    rows = r;
                }
            }
            writeln!(out, "R 0 {} {}", cols, rows).unwrap();
        } else {
            let s = gen_feed_x(rng, w, cols, rows);
            let kind = if rng.chance(w.perchar_pct) {
                "F"
            } else if rng.chance(w.drop_pct) {
                "D"
            } else {
                "S"
            };
            writeln!(out, "{} 0 {}", kind, hex_encode(&s)).unwrap();
        }
        // queries: dump / text / unwrapped lines / chunks (C01: every public query returns normally)
        if rng.chance(w.query_pct) {
            match rng.weighted(&[55, 15, 15, 15]) {
                0 => writeln!(out, "DUMP 0").unwrap(),
                1 => writeln!(out, "TEXT 0").unwrap(),
                2 => writeln!(out, "UNWRAP 0").unwrap(),
                _ => writeln!(out, "CHUNKS 0 {}", rng.below(rows)).unwrap(),
            }
        }
    }
}

fn history(rng: &mut Rng, w: &W, k: &[usize], cols: &mut usize, rows: &mut usize, nops: usize, out: &mut impl Write) {
    for _ in 0..nops {
        if rng.chance(w.resize_pct) {
            let (c, r) = gen_size(rng, w);
            match rng.below(3) {
                0 => *cols = c,
                1 => *rows = r,
                _ => {
                    *cols = c;
                    *rows = r;
                }
            }
            for i in k {
                writeln!(out, "R {} {} {}", i, cols, rows).unwrap();
            }
        } else {
            let s = gen_feed_x(rng, w, *cols, *rows);
            for i in k {
                writeln!(out, "S {} {}", i, hex_encode(&s)).unwrap();
            }
        }
    }
}

fn printable_line(rng: &mut Rng, cols: usize) -> String {
    let n = match rng.weighted(&[10, 20, 30, 25, 15]) {
        0 => 0,
        1 => rng.range(1, 3),
        2 => {
            let k = rng.range(1, 3);
            (k * cols + rng.range(0, 2)).saturating_sub(1)
        }
        3 => rng.range(1, 3) * cols,
        _ => rng.range(0, 4 * cols + 3),
    };
    if rng.chance(10) {
        return " ".repeat(n);
    }
    let mut s: String = (0..n).map(|_| gen_char(rng)).collect();
    if rng.chance(25) {
        for _ in 0..rng.range(1, 3) {
            s.push(char::from_u32(*rng.pick(&WS_CHARS)).unwrap());
        }
    }
    // C09 is about printable characters: U+0085 (NEL) is White_Space but also a C1 control that
    // breaks the line, so it must not occur inside an expected line
    s.chars().map(|c| if c == '\u{85}' { '\u{2000}' } else { c }).collect()
}

/// C09: printable lines + CR LF at two geometries
fn case_c09(rng: &mut Rng, w: &W, out: &mut impl Write) {
    let (c0, r0) = gen_size(rng, w);
    let (c1, r1) = gen_size(rng, w);
    writeln!(out, "N 0 {} {} -", c0, r0).unwrap();
    writeln!(out, "N 1 {} {} -", c1, r1).unwrap();
    let nl = rng.range(0, 12);
    let lines: Vec<String> = (0..nl).map(|_| printable_line(rng, c0.min(c1))).collect();
    let input = lines.join("\r\n");
    // feed in a few chunks (chunking is C12's business; here it just varies the call pattern)
    let chars: Vec<char> = input.chars().collect();
    let mut cuts: Vec<usize> = (0..rng.below(3)).map(|_| rng.below(chars.len() + 1)).collect();
    cuts.sort();
    cuts.push(chars.len());
    let mut prev = 0;
    for c in cuts {
        let piece: String = chars[prev..c].iter().collect();
        prev = c;
        writeln!(out, "S 0 {}", hex_encode(&piece)).unwrap();
        writeln!(out, "S 1 {}", hex_encode(&piece)).unwrap();
    }
    writeln!(out, "TEXT 0").unwrap();
    writeln!(out, "TEXT 1").unwrap();
    writeln!(out, "UNWRAP 0").unwrap();
    writeln!(out, "UNWRAP 1").unwrap();
    let mut x = format!("X C09 0 1 {}", lines.len());
    for l in &lines {
        x.push(' ');
        x.push_str(&hex_encode(l));
    }
    writeln!(out, "{}", x).unwrap();
}

const PROBES: [&str; 16] = [
    "\u{1b}[1;1H",
    "X",
    "\u{1b}[999C\u{1b}[0mYZ",
    "\r\t\t\t",
    "\u{e}a\u{f}a",
    "\u{1b}8",
    "\u{1b}[?1047h\u{1b}8Q\u{1b}[?1047l",
    "\u{1b}[4hI",
    "\n",
    "\u{1b}M",
    "\u{1b}[999;999H\n\n",
    "\u{1b}[1;1H\u{1b}M",
    "\u{1b}[?1049l",
    "\u{1b}[u",
    "\u{1b}[6CW\u{8}\u{8}",
    "\u{1b}[?6l\u{1b}[1;1Hx",
];

/// C11 (KF1/KF3 territory): origin mode on and the cursor parked outside the scroll region (only a
/// restored cursor can get there) with the saved contexts of both screens in play.  Depending on the
/// random choices dump step 9 is faithful, restores other modes (KF1) or stops at a margin (KF3).
fn gen_park_outside(rng: &mut Rng, cols: usize, rows: usize) -> String {
    fn margins(rng: &mut Rng, rows: usize) -> String {
        if rows < 2 {
            return "\u{1b}[r".into();
        }
        let t = rng.range(1, rows - 1);
        let b = rng.range(t + 1, rows);
        format!("\u{1b}[{};{}r", t, b)
    }
    fn alt(rng: &mut Rng) -> String {
        rng.pick(&["\u{1b}[?1047h", "\u{1b}[?1047l", "\u{1b}[?47h", "\u{1b}[?47l", "\u{1b}[?1049h", "\u{1b}[?1049l"]).to_string()
    }
    let save = ["\u{1b}7", "\u{1b}[s", "\u{1b}[?1048h"];
    let restore = ["\u{1b}8", "\u{1b}[u", "\u{1b}[?1048l"];
    if rng.chance(45) {
        // wide variant: save anywhere on the full screen (any column), then a small region somewhere:
        // the restored cursor is above, inside or below it with rows to spare on its side
        let mut s = String::from("\u{1b}[?6h\u{1b}[r");
        s.push_str(&format!("\u{1b}[{};{}H", rng.range(1, rows), rng.range(1, cols + 1)));
        if rng.chance(30) {
            s.push_str(&gen_sgr(rng));
        }
        s.push_str(*rng.pick(&save));
        if rows >= 2 {
            let t = rng.range(1, rows - 1);
            let b = (t + rng.range(1, 2)).min(rows);
            s.push_str(&format!("\u{1b}[{};{}r", t, b));
        }
        s.push_str(*rng.pick(&restore));
        return s;
    }
    let mut s = String::from("\u{1b}[?6h");
    s.push_str(&margins(rng, rows));
    if rng.chance(50) {
        s.push_str(&format!("\u{1b}[{};{}H", rng.range(1, rows), rng.range(1, cols + 1)));
    }
    if rng.chance(20) {
        s.push_str("\u{1b}[?7l");
    }
    s.push_str(*rng.pick(&save));
    if rng.chance(20) {
        s.push_str("\u{1b}[?7h");
    }
    if rng.chance(50) {
        s.push_str(&alt(rng));
    }
    s.push_str(&margins(rng, rows));
    if rng.chance(40) {
        if rng.chance(50) {
            s.push_str(&format!("\u{1b}[{};{}H", rng.range(1, rows), rng.range(1, cols + 1)));
        }
        s.push_str(*rng.pick(&save));
    }
    if rng.chance(50) {
        s.push_str(&alt(rng));
    }
    s.push_str(*rng.pick(&restore));
    if rng.chance(60) {
        s.push_str(&alt(rng));
    }
    if rng.chance(25) {
        s.push_str(*rng.pick(&["\u{1b}[?7l", "\u{1b}[?7h", "\u{1b}[999C", "\u{1b}[999CX"]));
    }
    s
}

/// C11: history, cut, dump into a fresh terminal, probes + random continuation, Obs compared
fn case_c11(rng: &mut Rng, w: &W, out: &mut impl Write) {
    let (mut cols, mut rows) = gen_size(rng, w);
    let limit = gen_limit(rng, w);
    writeln!(out, "N 0 {} {} {}", cols, rows, lim_tok(limit)).unwrap();
    let nops = rng.range(1, 14);
    if rng.chance(45) {
        for _ in 0..nops + 6 {
            let s = gen_soup_fragment(rng, cols, rows);
            writeln!(out, "S 0 {}", hex_encode(&s)).unwrap();
        }
    } else {
        history(rng, w, &[0], &mut cols, &mut rows, nops, out);
    }
    if rng.chance(12) {
        let s = gen_park_outside(rng, cols, rows);
        writeln!(out, "S 0 {}", hex_encode(&s)).unwrap();
    }
    if rng.chance(25) {
        // dump taken with the cursor in the wrap-pending position (dump re-prints the last column to get
        // there - under whatever auto-wrap / origin / pen state its earlier steps left behind), after
        // saves and mode changes made while parked there, on either screen
        if rng.chance(40) {
            writeln!(out, "S 0 {}", hex_encode(&format!("\u{1b}[?{}h", *rng.pick(&[47usize, 1047, 1049])))).unwrap();
        }
        if rng.chance(30) && rows >= 2 {
            let t = rng.range(1, rows - 1);
            writeln!(out, "S 0 {}", hex_encode(&format!("\u{1b}[{};{}r\u{1b}[?6h", t, rng.range(t + 1, rows)))).unwrap();
        }
        let fill: String = (0..cols).map(|_| gen_char(rng)).collect();
        let s = match rng.below(3) {
            0 => format!("\r{}", fill),
            1 => format!("\u{1b}[{}G{}", cols, gen_char(rng)),
            _ => format!("{}\u{1b}[999C{}", gen_sgr(rng), gen_char(rng)),
        };
        writeln!(out, "S 0 {}", hex_encode(&s)).unwrap();
        for _ in 0..rng.range(1, 4) {
            let s = match rng.below(8) {
                0 | 1 => "\u{1b}[?7l".to_string(),
                2 => "\u{1b}[?7h".to_string(),
                3 => rng.pick(&["\u{1b}7", "\u{1b}[s", "\u{1b}[?1048h"]).to_string(),
                4 => gen_sgr(rng),
                5 => rng.pick(&["\u{1b}[4h", "\u{1b}[?25l", "\u{e}", "\u{1b}(0"]).to_string(),
                6 => rng.pick(&["\u{1b}7", "\u{1b}[s"]).to_string(),
                _ => format!("\u{1b}[?{}l", *rng.pick(&[47usize, 1047])),
            };
            writeln!(out, "S 0 {}", hex_encode(&s)).unwrap();
        }
    }
    if rng.chance(50) {
        // cut inside a sequence
        let mut w2 = w.clone();
        w2.text = 0;
        w2.trunc = 100;
        let s = gen_fragment(rng, &w2, cols, rows);
        writeln!(out, "S 0 {}", hex_encode(&s)).unwrap();
    }
    writeln!(out, "DUMPTO 0 1").unwrap();
    writeln!(out, "X C11 0 1").unwrap();
    let np = rng.range(1, 5);
    for _ in 0..np {
        let s = if rng.chance(60) {
            rng.pick(&PROBES).to_string()
        } else {
            gen_feed(rng, w, cols, rows)
        };
        writeln!(out, "S 0 {}", hex_encode(&s)).unwrap();
        writeln!(out, "S 1 {}", hex_encode(&s)).unwrap();
        writeln!(out, "X C11 0 1").unwrap();
    }
}

/// C12: same start, one string fed whole / split / per char
fn case_c12(rng: &mut Rng, w: &W, out: &mut impl Write) {
    // 40 %: small screen, history and chunked string drawn from the dense state-machine alphabet
    // (alternate screen, margins, scrolls, saves) - cuts between e.g. entering the alternate screen
    // and a region scroll are where the end-of-call work (changes, gc) can make a difference
    let soup = rng.chance(40);
    let (mut cols, mut rows) = if soup { (rng.range(1, 7), rng.range(1, 5)) } else { gen_size(rng, w) };
    let limit = gen_limit(rng, w);
    for k in 0..4 {
        writeln!(out, "N {} {} {} {}", k, cols, rows, lim_tok(limit)).unwrap();
    }
    let s: String = if soup {
        let mut pre = String::new();
        if rng.chance(60) {
            pre.push_str(&gen_fill(rng, cols, rows));
        }
        for _ in 0..rng.range(0, 5) {
            pre.push_str(&gen_soup_fragment(rng, cols, rows));
        }
        if !pre.is_empty() {
            for k in 0..4 {
                writeln!(out, "S {} {}", k, hex_encode(&pre)).unwrap();
            }
        }
        let n = rng.range(2, 12);
        (0..n).map(|_| gen_soup_fragment(rng, cols, rows)).collect()
    } else {
        let nops = rng.range(0, 6);
        history(rng, w, &[0, 1, 2, 3], &mut cols, &mut rows, nops, out);
        let n = rng.range(1, 10);
        (0..n).map(|_| gen_fragment(rng, w, cols, rows)).collect()
    };
    let mut s = s;
    if rng.chance(20) {
        // a CSI sequence the parser ignores (a private marker after digits, a parameter byte after an
        // intermediate) - long enough to be cut inside
        let body = match rng.below(3) {
            0 => format!("1;2{}3;4", *rng.pick(&['?', '<', '=', '>'])),
            1 => format!("5{}6;7", *rng.pick(&['$', ' ', '!'])),
            _ => format!("?1{}2;3", *rng.pick(&['?', '>'])),
        };
        let at = rng.below(s.chars().count() + 1);
        let mut t: String = s.chars().take(at).collect();
        t.push_str(&format!("\u{1b}[{}{}", body, *rng.pick(&['m', 'H', 'h', 'p', 'J'])));
        t.extend(s.chars().skip(at));
        s = t;
    }
    if rng.chance(30) {
        // controls that act from inside any sequence (C0 executes in place, C1 / CAN / SUB abort it)
        for _ in 0..rng.range(1, 3) {
            let c = *rng.pick(&['\r', '\n', '\u{8}', '\t', '\u{e}', '\u{85}', '\u{84}', '\u{18}', '\u{1a}', '\u{8d}', '\u{7f}', 'é']);
            let at = rng.below(s.chars().count() + 1);
            let mut t: String = s.chars().take(at).collect();
            t.push(c);
            t.extend(s.chars().skip(at));
            s = t;
        }
    }
    let chars: Vec<char> = s.chars().collect();
    writeln!(out, "S 0 {}", hex_encode(&s)).unwrap();
    // random split
    let mut cuts: Vec<usize> = (0..rng.range(1, 5)).map(|_| rng.below(chars.len() + 1)).collect();
    cuts.sort();
    cuts.push(chars.len());
    let mut prev = 0;
    for c in cuts {
        let piece: String = chars[prev..c].iter().collect();
        prev = c;
        writeln!(out, "S 1 {}", hex_encode(&piece)).unwrap();
    }
    // per char through feed()
    writeln!(out, "F 2 {}", hex_encode(&s)).unwrap();
    // per char through feed_str
    for c in &chars {
        writeln!(out, "S 3 {}", hex_encode(&c.to_string())).unwrap();
    }
    writeln!(out, "X C12 0 1 2 3").unwrap();
}

/// C14: limit L vs unlimited, same input (different chunking), no RIS / resize, ends on primary
fn case_c14(rng: &mut Rng, w: &W, out: &mut impl Write) {
    let (cols, rows) = gen_size(rng, w);
    let limit = *rng.pick(&[0usize, 0, 1, 2, 3, 9, 10, 12, 25]);
    writeln!(out, "N 0 {} {} {}", cols, rows, limit).unwrap();
    writeln!(out, "N 1 {} {} -", cols, rows).unwrap();
    writeln!(out, "TCNEW 0 {} {} {}", cols, rows, limit).unwrap();
    writeln!(out, "TCNEW 1 {} {} -", cols, rows).unwrap();
    let mut w2 = w.clone();
    w2.ris = 0;
    w2.scroll = 25;
    w2.c0 = 20;
    w2.text = 40;
    w2.alt = 6;
    let nops = rng.range(2, 25);
    let mut whole = String::new();
    for _ in 0..nops {
        let s = gen_feed(rng, &w2, cols, rows);
        whole.push_str(&s);
        writeln!(out, "S 0 {}", hex_encode(&s)).unwrap();
        writeln!(out, "TCS 0 {}", hex_encode(&s)).unwrap();
    }
    // make sure we end on the primary screen
    let tail = "\u{1b}[?1047l";
    whole.push_str(tail);
    writeln!(out, "S 0 {}", hex_encode(tail)).unwrap();
    writeln!(out, "TCS 0 {}", hex_encode(tail)).unwrap();
    // the unlimited twin gets the same input in different chunks
    let chars: Vec<char> = whole.chars().collect();
    let mut cuts: Vec<usize> = (0..rng.range(0, 4)).map(|_| rng.below(chars.len() + 1)).collect();
    cuts.sort();
    cuts.push(chars.len());
    let mut prev = 0;
    for c in cuts {
        let piece: String = chars[prev..c].iter().collect();
        prev = c;
        writeln!(out, "S 1 {}", hex_encode(&piece)).unwrap();
        writeln!(out, "TCS 1 {}", hex_encode(&piece)).unwrap();
    }
    writeln!(out, "X C14 0 1").unwrap();
    writeln!(out, "TCFLUSH 0").unwrap();
    writeln!(out, "TCFLUSH 1").unwrap();
    writeln!(out, "X C14TC 0 1").unwrap();
}

/// C16: primary history, excursion to the alternate screen (no leave / RIS inside), return
fn case_c16(rng: &mut Rng, w: &W, out: &mut impl Write) {
    let (mut cols, mut rows) = gen_size(rng, w);
    let limit = gen_limit(rng, w);
    writeln!(out, "N 0 {} {} {}", cols, rows, lim_tok(limit)).unwrap();
    let mut w0 = w.clone();
    w0.alt = 0;
    w0.ris = 0;
    let nops = rng.range(1, 10);
    history(rng, &w0, &[0], &mut cols, &mut rows, nops, out);
    let earlier = rng.chance(30);
    if earlier {
        // an earlier excursion that leaves a saved context behind on the alternate screen (often far
        // from home), then usually a shrink while the primary screen shows: the excursion under
        // test starts with a stale context parked on the other screen
        let on = *rng.pick(&[47usize, 1047, 1049]);
        let off = *rng.pick(&[47usize, 1047, 1049]);
        let mv = match rng.below(3) {
            0 => format!("\u{1b}[{};{}H", rows, cols),
            1 => format!("\u{1b}[{};{}H", rng.range(1, rows), rng.range(1, cols)),
            _ => "\u{1b}[999C\u{1b}[999B".to_string(),
        };
        let sv = *rng.pick(&["\u{1b}7", "\u{1b}[s", "\u{1b}[?1048h"]);
        writeln!(out, "S 0 {}", hex_encode(&format!("\u{1b}[?{}h{}{}{}\u{1b}[?{}l", on, mv, gen_sgr(rng), sv, off))).unwrap();
        if rng.chance(70) {
            match rng.below(3) {
                0 => cols = rng.range(1, cols),
                1 => rows = rng.range(1, rows),
                _ => {
                    cols = rng.range(1, cols);
                    rows = rng.range(1, rows);
                }
            }
            writeln!(out, "R 0 {} {}", cols, rows).unwrap();
        }
    }
    let with_resize = rng.chance(35);
    let enter = *rng.pick(&[47usize, 1047, 1049]);
    writeln!(out, "X C16MARK 0").unwrap();
    writeln!(out, "S 0 {}", hex_encode(&format!("\u{1b}[?{}h", enter))).unwrap();
    // text() itself (not only the state it is computed from) is queried before every directive
    writeln!(out, "TEXT 0").unwrap();
    writeln!(out, "X C16ENTER 0 {}", enter).unwrap();
    let mut wa = w.clone();
    wa.alt = 0;
    wa.ris = 0;
    wa.trunc = 0;
    wa.garbage = 0;
    wa.resize_pct = if with_resize { 25 } else { 0 };
    let n2 = rng.range(1, 12);
    for _ in 0..n2 {
        if rng.chance(wa.resize_pct) {
            let (c, r) = gen_size(rng, &wa);
            match rng.below(3) {
                0 => cols = c,
                1 => rows = r,
                _ => {
                    cols = c;
                    rows = r;
                }
            }
            writeln!(out, "R 0 {} {}", cols, rows).unwrap();
        } else {
            let s = if rng.chance(8) {
                // entering again (any of the three numbers) must be a no-op for the primary
                format!("\u{1b}[?{}h", *rng.pick(&[47usize, 1047, 1049]))
            } else if earlier && rng.chance(25) {
                rng.pick(&["\u{1b}8", "\u{1b}[u", "\u{1b}[?1048l"]).to_string()
            } else {
                gen_feed(rng, &wa, cols, rows)
            };
            writeln!(out, "S 0 {}", hex_encode(&s)).unwrap();
        }
        writeln!(out, "TEXT 0").unwrap();
        writeln!(out, "X C16DURING 0").unwrap();
    }
    let leave = if enter == 1049 && rng.chance(70) { 1049 } else { *rng.pick(&[47usize, 1047, 1049]) };
    writeln!(out, "S 0 {}", hex_encode(&format!("\u{1b}[?{}l", leave))).unwrap();
    writeln!(out, "TEXT 0").unwrap();
    writeln!(out, "X C16AFTER 0 {} {}", enter, leave).unwrap();
}

/// C19: any history, ESC c, compared with a fresh terminal, then identical continuations
fn case_c19(rng: &mut Rng, w: &W, out: &mut impl Write) {
    let (mut cols, mut rows) = gen_size(rng, w);
    let limit = gen_limit(rng, w);
    writeln!(out, "N 0 {} {} {}", cols, rows, lim_tok(limit)).unwrap();
    let mut w0 = w.clone();
    w0.modes = 15;
    w0.alt = 8;
    w0.save = 8;
    w0.tabs = 8;
    w0.margins = 8;
    w0.charset = 6;
    w0.trunc = 8;
    w0.strings = 5;
    let nops = rng.range(1, 16);
    history(rng, &w0, &[0], &mut cols, &mut rows, nops, out);
    if rng.chance(35) {
        // RIS arriving in the middle of a sequence whose registers are at their limits
        writeln!(out, "S 0 {}", hex_encode(&gen_dangling(rng))).unwrap();
    }
    writeln!(out, "S 0 {}", hex_encode("\u{1b}c")).unwrap();
    writeln!(out, "N 1 {} {} {}", cols, rows, lim_tok(limit)).unwrap();
    writeln!(out, "X C19 0 1").unwrap();
    let n2 = rng.range(1, 6);
    for _ in 0..n2 {
        let s = if rng.chance(30) { rng.pick(&PROBES).to_string() } else { gen_feed(rng, w, cols, rows) };
        writeln!(out, "S 0 {}", hex_encode(&s)).unwrap();
        writeln!(out, "S 1 {}", hex_encode(&s)).unwrap();
        writeln!(out, "X C19 0 1").unwrap();
    }
}

/// C03: bare-parser streams (function by function) — sequences, pairs of sequences, soup
fn case_c03(rng: &mut Rng, w: &W, out: &mut impl Write) {
    writeln!(out, "PN 0").unwrap();
    let mut w2 = w.clone();
    w2.text = 8;
    w2.strings = 8;
    w2.unimpl = 10;
    w2.trunc = 10;
    w2.huge = 8;
    w2.garbage = 6;
    w2.sgr = 12;
    let n = rng.range(2, 14);
    for _ in 0..n {
        let s = gen_fragment(rng, &w2, 10, 5);
        writeln!(out, "PF 0 {}", hex_encode(&s)).unwrap();
    }
}

pub fn generate(profile: &str, seed: u64, ncases: usize, tier: &str, out: &mut impl Write) {
    let mut w = weights(profile);
    if tier == "thorough" {
        w.ops_hi += 20;
    }
    for i in 0..ncases {
        // each case gets its own generator state so that a case is reproducible from (seed, index)
        let mut rng = Rng::new(seed.wrapping_mul(1_000_003).wrapping_add(i as u64));
        writeln!(out, "CASE {} {} {}", i, profile, seed).unwrap();
        match profile {
            "C01" | "C02" | "C04" | "C05" | "C06" | "C07" | "C08" | "C15" | "C17" | "C18" if i % 100 == 57 => {
                case_huge_geometry(&mut rng, &w, out)
            }
            "C03" => {
                if i % 3 == 0 {
                    case_generic(&mut rng, &w, out)
                } else {
                    case_c03(&mut rng, &w, out)
                }
            }
            "C09" => case_c09(&mut rng, &w, out),
            "C11" => case_c11(&mut rng, &w, out),
            "C12" => case_c12(&mut rng, &w, out),
            "C14" => case_c14(&mut rng, &w, out),
            "C16" => case_c16(&mut rng, &w, out),
            "C19" => case_c19(&mut rng, &w, out),
            "C05" | "C06" | "C07" | "C15" | "C17" | "C18" | "C02" | "C01" if i % 8 == 1 => case_edge_cmd(&mut rng, &w, out),
            "C18" | "C05" if i % 8 == 5 => case_tabs(&mut rng, &w, out),
            "C01" | "C02" | "C05" | "C17" | "C15" | "C13" => {
                if i % 3 == 2 {
                    case_soup(&mut rng, &w, out)
                } else {
                    case_generic(&mut rng, &w, out)
                }
            }
            "C04" if i % 4 == 1 => case_c04_edge(&mut rng, &w, out),
            "C04" | "C06" | "C07" | "C08" | "C18" if i % 4 == 3 => case_soup(&mut rng, &w, out),
            _ => case_generic(&mut rng, &w, out),
        }
        writeln!(out, "END").unwrap();
    }
}


/// Bounded-exhaustive family: every sequence of `depth` commands over a fixed alphabet of concrete
/// commands, on every tiny screen of `EXH_SIZES`, from each start prefix of `EXH_STARTS`.
/// Cases are numbered; shard `k` of `n` emits the cases whose number is congruent to k mod n.
const EXH_SIZES: [(usize, usize); 7] = [(1, 1), (2, 1), (1, 2), (2, 2), (3, 2), (2, 3), (3, 3)];
const EXH_STARTS: [&str; 3] = ["", "abcdefgh\r\nij", "\u{1b}[2;3r\u{1b}[?6hxy"];
const EXH_ALPHABET: [&str; 50] = [
    "a", "bc", "\n", "\r", "\u{8}", "\t", "\u{1b}M", "\u{1b}[A", "\u{1b}[B", "\u{1b}[C", "\u{1b}[D",
    "\u{1b}[2;2H", "\u{1b}[H", "\u{1b}[2;3r", "\u{1b}[1;2r", "\u{1b}[r", "\u{1b}[?6h", "\u{1b}[?6l", "\u{1b}[?7l",
    "\u{1b}[?7h", "\u{1b}7", "\u{1b}8", "\u{1b}[?1049h", "\u{1b}[?1049l", "\u{1b}[?47h", "\u{1b}[?47l",
    "\u{1b}[4h", "\u{1b}[4l", "\u{1b}[L", "\u{1b}[M", "\u{1b}[S", "\u{1b}[T", "\u{1b}[@", "\u{1b}[P",
    "\u{1b}[X", "\u{1b}[J", "\u{1b}[1J", "\u{1b}[K", "\u{1b}[1K", "\u{1b}[2b", "\u{1b}H", "\u{1b}[g",
    "\u{1b}[7;31m", "\u{1b}[m", "\u{1b}c", "\u{1b}[!p", "R 1 1", "R 2 2", "R 3 1", "R 2 3",
];

pub fn generate_exhaustive(profile: &str, depth: usize, shard: usize, nshards: usize, out: &mut impl Write) {
    let a = EXH_ALPHABET.len();
    let nseq = a.pow(depth as u32);
    let mut id = 0usize;
    for (cols, rows) in EXH_SIZES.iter() {
        for start in EXH_STARTS.iter() {
            for limit in ["-", "0", "1"].iter() {
                // the limit only matters once something can scroll: keep all three for depth <= 2
                if depth > 2 && *limit == "1" {
                    continue;
                }
                for q in 0..nseq {
                    id += 1;
                    if id % nshards != shard {
                        continue;
                    }
                    writeln!(out, "CASE x{} {} exhaustive", id, profile).unwrap();
                    writeln!(out, "N 0 {} {} {}", cols, rows, limit).unwrap();
                    if !start.is_empty() {
                        writeln!(out, "S 0 {}", hex_encode(start)).unwrap();
                    }
                    let mut x = q;
                    for _ in 0..depth {
                        let cmd = EXH_ALPHABET[x % a];
                        x /= a;
                        if let Some(rest) = cmd.strip_prefix("R ") {
                            writeln!(out, "R 0 {}", rest).unwrap();
                        } else {
                            writeln!(out, "S 0 {}", hex_encode(cmd)).unwrap();
                        }
                    }
                    if profile == "C01" || profile == "C11" {
                        writeln!(out, "DUMP 0").unwrap();
                    }
                    writeln!(out, "END").unwrap();
                }
            }
        }
    }
}
