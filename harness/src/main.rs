//! avt-harness: drives the real crate (path dependency on /repo, built with `--cfg avt_verif`,
//! overflow checks and debug assertions on) and writes a trace that the Lean driver checks.
//!
//!   avt-harness gen <profile> <seed> <ncases> [tier]   -> script on stdout
//!   avt-harness run  < script                           -> trace on stdout
//!   avt-harness ptable <mode>                           -> parser table dump (C03/C20)
//!
//! Script / trace grammar: see DESIGN.md section 4.2 (and lean/Avt/Driver/*.lean).

mod gen;
mod rng;

use avt::parser::{Function, Parser};
use avt::util::{TextCollector, TextUnwrapper};
use avt::Vt;
use std::collections::HashMap;
use std::fmt::Write as FmtWrite;
use std::io::{self, BufRead, Write};
use std::panic::{catch_unwind, AssertUnwindSafe};

fn hex_decode(s: &str) -> String {
    // code points as lowercase hex separated by '.', "-" for the empty string
    if s == "-" {
        return String::new();
    }
    s.split('.')
        .map(|h| char::from_u32(u32::from_str_radix(h, 16).expect("hex")).expect("scalar"))
        .collect()
}

pub fn hex_encode(s: &str) -> String {
    if s.is_empty() {
        return "-".to_owned();
    }
    let mut out = String::new();
    for (i, c) in s.chars().enumerate() {
        if i > 0 {
            out.push('.');
        }
        let _ = write!(out, "{:x}", c as u32);
    }
    out
}

fn color_tok(c: Option<avt::Color>, out: &mut String) {
    match c {
        None => out.push('-'),
        Some(avt::Color::Indexed(n)) => {
            let _ = write!(out, "i{}", n);
        }
        Some(avt::Color::RGB(c)) => {
            let _ = write!(out, "r{}.{}.{}", c.r, c.g, c.b);
        }
    }
}

/// a line read through the public API only: wrap mark via TextUnwrapper, pens via accessors
fn api_line(l: &avt::Line, out: &mut String) {
    let wrapped = TextUnwrapper::new().push(l).is_none();
    out.push(if wrapped { '1' } else { '0' });
    out.push('|');
    let cells = l.cells();
    let mut i = 0;
    let mut first = true;
    while i < cells.len() {
        let mut j = i + 1;
        while j < cells.len() && cells[j] == cells[i] {
            j += 1;
        }
        if !first {
            out.push(',');
        }
        first = false;
        let p = cells[i].pen();
        let _ = write!(out, "{}*{}@", cells[i].char() as u32, j - i);
        color_tok(p.foreground(), out);
        out.push('/');
        color_tok(p.background(), out);
        let _ = write!(
            out,
            "/{}{}{}{}{}{}{}",
            p.is_bold() as u8,
            p.is_faint() as u8,
            p.is_italic() as u8,
            p.is_underline() as u8,
            p.is_strikethrough() as u8,
            p.is_blink() as u8,
            p.is_inverse() as u8
        );
        i = j;
    }
}

fn api_record(k: usize, vt: &Vt, out: &mut impl Write) {
    let mut s = String::new();
    let (cols, rows) = vt.size();
    let cur = vt.cursor();
    let lines = vt.lines();
    let view = vt.view();
    // API self-consistency that needs no model
    let mut err = String::new();
    if view.len() > lines.len() || lines[lines.len() - view.len()..] != *view {
        err.push_str(" view-not-tail-of-lines");
    }
    if view.len() == rows {
        for n in 0..rows {
            if vt.line(n) != &view[n] {
                err.push_str(" line(n)-differs-from-view");
                break;
            }
        }
    }
    let _ = write!(
        s,
        "API {} {} {} {} {} {} {} {} {}",
        k,
        cols,
        rows,
        cur.col,
        cur.row,
        cur.visible as u8,
        vt.cursor_key_app_mode() as u8,
        view.len(),
        lines.len()
    );
    // the view plus a few lines above it (older lines were checked when they were this close)
    let from = if compress() { lines.len().saturating_sub(view.len() + 3) } else { 0 };
    for l in &lines[from..] {
        s.push(' ');
        api_line(l, &mut s);
    }
    writeln!(out, "{}", s).unwrap();
    if !err.is_empty() {
        writeln!(out, "APIERR {}{}", k, err).unwrap();
    }
}

thread_local! {
    /// per instance: the line tokens of the two buffer slots in the previous ST record
    static PREV_LINES: std::cell::RefCell<HashMap<usize, [Vec<String>; 2]>> = std::cell::RefCell::new(HashMap::new());
}

fn reset_prev_lines() {
    PREV_LINES.with(|p| p.borrow_mut().clear());
}

/// ST record with the (often long and mostly unchanged) line lists prefix-compressed against the
/// previous record of the same instance: `B cols rows limit trim nlines =S:N line…` means "the first
/// N lines are the first N lines of slot S (0 = buffer, 1 = other_buffer) of the previous record".
fn compress() -> bool {
    std::env::var("AVT_TRACE_COMPRESS").map(|v| v == "1").unwrap_or(false)
}

fn st_record(k: usize, vt: &Vt, out: &mut impl Write) {
    let full = vt.verif_state();
    if !compress() {
        writeln!(out, "ST {} {}", k, full).unwrap();
        return;
    }
    let toks: Vec<&str> = full.split(' ').filter(|t| !t.is_empty()).collect();
    let mut res = String::with_capacity(256);
    let mut slots: [Vec<String>; 2] = [Vec::new(), Vec::new()];
    let prev = PREV_LINES.with(|p| p.borrow().get(&k).cloned());
    let mut i = 0;
    let mut slot = 0;
    while i < toks.len() {
        if toks[i] == "B" && slot < 2 {
            // B cols rows limit trim nlines
            for t in &toks[i..i + 6] {
                res.push_str(t);
                res.push(' ');
            }
            let n: usize = toks[i + 5].parse().unwrap();
            let lines = &toks[i + 6..i + 6 + n];
            let mut best = (0usize, 0usize);
            if let Some(prev) = &prev {
                for s in 0..2 {
                    let mut c = 0;
                    while c < n && c < prev[s].len() && prev[s][c] == lines[c] {
                        c += 1;
                    }
                    if c > best.1 {
                        best = (s, c);
                    }
                }
            }
            let _ = write!(res, "={}:{} ", best.0, best.1);
            for l in &lines[best.1..] {
                res.push_str(l);
                res.push(' ');
            }
            slots[slot] = lines.iter().map(|s| s.to_string()).collect();
            slot += 1;
            i += 6 + n;
        } else {
            res.push_str(toks[i]);
            res.push(' ');
            i += 1;
        }
    }
    PREV_LINES.with(|p| p.borrow_mut().insert(k, slots));
    writeln!(out, "ST {} {}", k, res.trim_end()).unwrap();
}

pub fn function_tok(f: &Function) -> String {
    use avt::parser::*;
    use Function::*;
    fn cs(c: &avt::parser::Function) -> &'static str {
        let s = format!("{:?}", c);
        if s.contains("Drawing") {
            "1"
        } else {
            "0"
        }
    }
    fn col(c: &avt::Color) -> String {
        match c {
            avt::Color::Indexed(n) => format!("i{}", n),
            avt::Color::RGB(c) => format!("r{}.{}.{}", c.r, c.g, c.b),
        }
    }
    match f {
        Bs => "bs".into(),
        Cbt(n) => format!("cbt {}", n),
        Cha(n) => format!("cha {}", n),
        Cht(n) => format!("cht {}", n),
        Cnl(n) => format!("cnl {}", n),
        Cpl(n) => format!("cpl {}", n),
        Cr => "cr".into(),
        Ctc(op) => format!(
            "ctc {}",
            match op {
                CtcOp::Set => 0,
                CtcOp::ClearCurrentColumn => 1,
                CtcOp::ClearAll => 2,
            }
        ),
        Cub(n) => format!("cub {}", n),
        Cud(n) => format!("cud {}", n),
        Cuf(n) => format!("cuf {}", n),
        Cup(r, c) => format!("cup {} {}", r, c),
        Cuu(n) => format!("cuu {}", n),
        Dch(n) => format!("dch {}", n),
        Decaln => "decaln".into(),
        Decrc => "decrc".into(),
        Decrst(ms) => format!("decrst {}", dec_modes(ms)),
        Decsc => "decsc".into(),
        Decset(ms) => format!("decset {}", dec_modes(ms)),
        Decstbm(t, b) => format!("decstbm {} {}", t, b),
        Decstr => "decstr".into(),
        Dl(n) => format!("dl {}", n),
        Ech(n) => format!("ech {}", n),
        Ed(s) => format!(
            "ed {}",
            match s {
                EdScope::Below => 0,
                EdScope::Above => 1,
                EdScope::All => 2,
                EdScope::SavedLines => 3,
            }
        ),
        El(s) => format!(
            "el {}",
            match s {
                ElScope::ToRight => 0,
                ElScope::ToLeft => 1,
                ElScope::All => 2,
            }
        ),
        G1d4(_) => format!("g1d4 {}", cs(f)),
        Gzd4(_) => format!("gzd4 {}", cs(f)),
        Ht => "ht".into(),
        Hts => "hts".into(),
        Ich(n) => format!("ich {}", n),
        Il(n) => format!("il {}", n),
        Lf => "lf".into(),
        Nel => "nel".into(),
        Print(c) => format!("print {}", *c as u32),
        Rep(n) => format!("rep {}", n),
        Ri => "ri".into(),
        Ris => "ris".into(),
        Rm(ms) => format!("rm {}", ansi_modes(ms)),
        Scorc => "scorc".into(),
        Scosc => "scosc".into(),
        Sd(n) => format!("sd {}", n),
        Sgr(ops) => {
            let mut s = String::from("sgr ");
            if ops.is_empty() {
                s.push('-');
            }
            for (i, op) in ops.iter().enumerate() {
                if i > 0 {
                    s.push(',');
                }
                use SgrOp::*;
                let t = match op {
                    Reset => "0".to_string(),
                    SetBoldIntensity => "1".into(),
                    SetFaintIntensity => "2".into(),
                    SetItalic => "3".into(),
                    SetUnderline => "4".into(),
                    SetBlink => "5".into(),
                    SetInverse => "7".into(),
                    SetStrikethrough => "9".into(),
                    ResetIntensity => "22".into(),
                    ResetItalic => "23".into(),
                    ResetUnderline => "24".into(),
                    ResetBlink => "25".into(),
                    ResetInverse => "27".into(),
                    ResetStrikethrough => "29".into(),
                    SetForegroundColor(c) => format!("fg:{}", col(c)),
                    ResetForegroundColor => "39".into(),
                    SetBackgroundColor(c) => format!("bg:{}", col(c)),
                    ResetBackgroundColor => "49".into(),
                };
                s.push_str(&t);
            }
            s
        }
        Si => "si".into(),
        Sm(ms) => format!("sm {}", ansi_modes(ms)),
        So => "so".into(),
        Su(n) => format!("su {}", n),
        Tbc(s) => format!(
            "tbc {}",
            match s {
                TbcScope::CurrentColumn => 0,
                TbcScope::All => 1,
            }
        ),
        Vpa(n) => format!("vpa {}", n),
        Vpr(n) => format!("vpr {}", n),
        Xtwinops(XtwinopsOp::Resize(c, r)) => format!("xtwinops {} {}", c, r),
    }
}

fn dec_modes(ms: &[avt::parser::DecMode]) -> String {
    use avt::parser::DecMode::*;
    if ms.is_empty() {
        return "-".into();
    }
    ms.iter()
        .map(|m| {
            match m {
                CursorKeys => "1",
                Origin => "6",
                AutoWrap => "7",
                TextCursorEnable => "25",
                AltScreenBuffer => "1047",
                SaveCursor => "1048",
                SaveCursorAltScreenBuffer => "1049",
            }
            .to_string()
        })
        .collect::<Vec<_>>()
        .join(",")
}

fn ansi_modes(ms: &[avt::parser::AnsiMode]) -> String {
    use avt::parser::AnsiMode::*;
    if ms.is_empty() {
        return "-".into();
    }
    ms.iter()
        .map(|m| {
            match m {
                Insert => "4",
                NewLine => "20",
            }
            .to_string()
        })
        .collect::<Vec<_>>()
        .join(",")
}

fn new_vt(cols: usize, rows: usize, limit: Option<usize>) -> Vt {
    let mut b = Vt::builder();
    b.size(cols, rows);
    if let Some(l) = limit {
        b.scrollback_limit(l);
    }
    b.build()
}

fn parse_limit(s: &str) -> Option<usize> {
    if s == "-" {
        None
    } else {
        Some(s.parse().unwrap())
    }
}

fn panic_msg(e: Box<dyn std::any::Any + Send>) -> String {
    let m = if let Some(s) = e.downcast_ref::<&str>() {
        s.to_string()
    } else if let Some(s) = e.downcast_ref::<String>() {
        s.clone()
    } else {
        "?".to_string()
    };
    m.replace(['\n', ' '], "_")
}

/// watchdog state: (milliseconds since start at which the current op began, or 0 when idle; script line number)
static OP_STARTED_MS: std::sync::atomic::AtomicU64 = std::sync::atomic::AtomicU64::new(0);
static OP_LINE: std::sync::atomic::AtomicU64 = std::sync::atomic::AtomicU64::new(0);

/// C01 "no hang": a single script line that takes longer than AVT_OP_TIMEOUT_MS (default 30 s) makes the
/// harness report `HANG line=<n>` on stderr and exit with status 97 (threads cannot be cancelled).
fn start_watchdog(case_ids: std::sync::Arc<std::sync::Mutex<String>>) {
    use std::sync::atomic::Ordering;
    let limit: u64 = std::env::var("AVT_OP_TIMEOUT_MS").ok().and_then(|v| v.parse().ok()).unwrap_or(30_000);
    let t0 = std::time::Instant::now();
    // the limit is applied to the CPU time the process burns while one op is in flight (sampled
    // here, 4x per second), and to the wall clock as well: a machine under heavy load or a stopped
    // process makes the wall clock run on without the crate doing anything, a real hang burns CPU
    fn cpu_ms() -> Option<u64> {
        let st = std::fs::read_to_string("/proc/self/stat").ok()?;
        let rest = &st[st.rfind(')')? + 1..];
        let f: Vec<&str> = rest.split_whitespace().collect();
        let ut: u64 = f.get(11)?.parse().ok()?;
        let stt: u64 = f.get(12)?.parse().ok()?;
        Some((ut + stt) * 10)
    }
    std::thread::spawn(move || {
        let mut key = (0u64, 0u64);
        let mut cpu0 = 0u64;
        loop {
            std::thread::sleep(std::time::Duration::from_millis(250));
            let started = OP_STARTED_MS.load(Ordering::Relaxed);
            if started != 0 {
                let k = (started, OP_LINE.load(Ordering::Relaxed));
                let cpu = cpu_ms();
                if k != key {
                    key = k;
                    cpu0 = cpu.unwrap_or(0);
                }
                let now = t0.elapsed().as_millis() as u64 + 1;
                let burned = match cpu {
                    Some(c) => c.saturating_sub(cpu0) > limit,
                    None => true,
                };
                if now > started && now - started > limit && burned {
                    let case = case_ids.lock().map(|c| c.clone()).unwrap_or_default();
                    eprintln!("HANG case={} line={} after_ms={}", case, OP_LINE.load(Ordering::Relaxed), now - started);
                    std::process::exit(97);
                }
            }
        }
    });
    WATCH_T0.with(|c| *c.borrow_mut() = Some(t0));
}

thread_local! {
    static WATCH_T0: std::cell::RefCell<Option<std::time::Instant>> = std::cell::RefCell::new(None);
}

fn op_begin(line_no: u64) {
    use std::sync::atomic::Ordering;
    WATCH_T0.with(|c| {
        if let Some(t0) = *c.borrow() {
            OP_LINE.store(line_no, Ordering::Relaxed);
            OP_STARTED_MS.store(t0.elapsed().as_millis() as u64 + 1, Ordering::Relaxed);
        }
    });
}

fn op_end() {
    OP_STARTED_MS.store(0, std::sync::atomic::Ordering::Relaxed);
}

/// Output wrapper: time spent blocked in `write` (a slow consumer on a pipe) must not count as the
/// crate hanging, so the watchdog clock is stopped while writing and restarted afterwards.
struct WatchOut<W: Write>(W);

impl<W: Write> Write for WatchOut<W> {
    fn write(&mut self, buf: &[u8]) -> io::Result<usize> {
        use std::sync::atomic::Ordering;
        let active = OP_STARTED_MS.swap(0, Ordering::Relaxed) != 0;
        let r = self.0.write(buf);
        if active {
            op_begin(OP_LINE.load(Ordering::Relaxed));
        }
        r
    }

    fn flush(&mut self) -> io::Result<()> {
        use std::sync::atomic::Ordering;
        let active = OP_STARTED_MS.swap(0, Ordering::Relaxed) != 0;
        let r = self.0.flush();
        if active {
            op_begin(OP_LINE.load(Ordering::Relaxed));
        }
        r
    }
}

fn run_script(input: impl BufRead, out: &mut impl Write) {
    let case_id = std::sync::Arc::new(std::sync::Mutex::new(String::new()));
    start_watchdog(case_id.clone());
    let mut line_no: u64 = 0;
    let mut vts: HashMap<usize, Vt> = HashMap::new();
    let mut dead: HashMap<usize, bool> = HashMap::new();
    let mut tcs: HashMap<usize, Option<TextCollector>> = HashMap::new();
    let mut parsers: HashMap<usize, Parser> = HashMap::new();

    for line in input.lines() {
        let line = line.unwrap();
        let toks: Vec<&str> = line.split_whitespace().collect();
        if toks.is_empty() {
            continue;
        }
        writeln!(out, "{}", line).unwrap();
        line_no += 1;
        op_end();
        op_begin(line_no);
        match toks[0] {
            "CASE" => {
                if let Ok(mut c) = case_id.lock() {
                    *c = toks.get(1).unwrap_or(&"?").to_string();
                }
                // keep what was produced so far even if a later case hangs
                let _ = out.flush();
                reset_prev_lines();
                vts.clear();
                dead.clear();
                tcs.clear();
                parsers.clear();
            }
            "N" => {
                let k: usize = toks[1].parse().unwrap();
                let cols: usize = toks[2].parse().unwrap();
                let rows: usize = toks[3].parse().unwrap();
                let limit = parse_limit(toks[4]);
                match catch_unwind(|| new_vt(cols, rows, limit)) {
                    Ok(vt) => {
                        PREV_LINES.with(|p| p.borrow_mut().remove(&k));
                        st_record(k, &vt, out);
                        api_record(k, &vt, out);
                        vts.insert(k, vt);
                        dead.insert(k, false);
                    }
                    Err(e) => {
                        writeln!(out, "RES {} PANIC {}", k, panic_msg(e)).unwrap();
                        dead.insert(k, true);
                    }
                }
            }
            "S" | "D" | "F" | "R" => {
                let k: usize = toks[1].parse().unwrap();
                if *dead.get(&k).unwrap_or(&true) {
                    writeln!(out, "RES {} DEAD", k).unwrap();
                    continue;
                }
                let vt = vts.get_mut(&k).unwrap();
                let kind = toks[0];
                let res = catch_unwind(AssertUnwindSafe(|| -> String {
                    let mut r = String::new();
                    match kind {
                        "S" => {
                            let s = hex_decode(toks[2]);
                            let ch = vt.feed_str(&s);
                            let _ = write!(r, "CH {}", ch.lines.len());
                            for i in &ch.lines {
                                let _ = write!(r, " {}", i);
                            }
                            let sb: Vec<avt::Line> = ch.scrollback.collect();
                            let _ = write!(r, " SB {}", sb.len());
                            for l in &sb {
                                r.push(' ');
                                r.push_str(&avt::verif::line_token(l));
                            }
                        }
                        "D" => {
                            let s = hex_decode(toks[2]);
                            let ch = vt.feed_str(&s);
                            let _ = write!(r, "CH {}", ch.lines.len());
                            for i in &ch.lines {
                                let _ = write!(r, " {}", i);
                            }
                            drop(ch);
                            r.push_str(" SB -");
                        }
                        "F" => {
                            let s = hex_decode(toks[2]);
                            for c in s.chars() {
                                vt.feed(c);
                            }
                            r.push_str("CH - SB -");
                        }
                        "R" => {
                            let cols: usize = toks[2].parse().unwrap();
                            let rows: usize = toks[3].parse().unwrap();
                            let ch = vt.resize(cols, rows);
                            let _ = write!(r, "CH {}", ch.lines.len());
                            for i in &ch.lines {
                                let _ = write!(r, " {}", i);
                            }
                            let sb: Vec<avt::Line> = ch.scrollback.collect();
                            let _ = write!(r, " SB {}", sb.len());
                            for l in &sb {
                                r.push(' ');
                                r.push_str(&avt::verif::line_token(l));
                            }
                        }
                        _ => unreachable!(),
                    }
                    r
                }));
                match res {
                    Ok(r) => {
                        writeln!(out, "RES {} OK {}", k, r).unwrap();
                        let vt = vts.get(&k).unwrap();
                        st_record(k, vt, out);
                        match catch_unwind(AssertUnwindSafe(|| {
                            let mut buf: Vec<u8> = Vec::new();
                            api_record(k, vt, &mut buf);
                            buf
                        })) {
                            Ok(buf) => out.write_all(&buf).unwrap(),
                            Err(e) => {
                                writeln!(out, "APIERR {} panic:{}", k, panic_msg(e)).unwrap();
                            }
                        }
                    }
                    Err(e) => {
                        writeln!(out, "RES {} PANIC {}", k, panic_msg(e)).unwrap();
                        dead.insert(k, true);
                    }
                }
            }
            "DUMP" => {
                // DUMP k : query dump()
                let k: usize = toks[1].parse().unwrap();
                if *dead.get(&k).unwrap_or(&true) {
                    writeln!(out, "DUMPRES {} DEAD", k).unwrap();
                    continue;
                }
                let vt = vts.get(&k).unwrap();
                match catch_unwind(AssertUnwindSafe(|| vt.dump())) {
                    Ok(d) => writeln!(out, "DUMPRES {} OK {}", k, hex_encode(&d)).unwrap(),
                    Err(e) => writeln!(out, "DUMPRES {} PANIC {}", k, panic_msg(e)).unwrap(),
                }
            }
            "DUMPTO" => {
                // DUMPTO k j : j := fresh Vt of k's size (no scrollback limit) fed with k.dump()
                let k: usize = toks[1].parse().unwrap();
                let j: usize = toks[2].parse().unwrap();
                if *dead.get(&k).unwrap_or(&true) {
                    writeln!(out, "DUMPRES {} DEAD", k).unwrap();
                    dead.insert(j, true);
                    continue;
                }
                let vt = vts.get(&k).unwrap();
                let res = catch_unwind(AssertUnwindSafe(|| {
                    let d = vt.dump();
                    let (cols, rows) = vt.size();
                    let mut nv = new_vt(cols, rows, None);
                    nv.feed_str(&d);
                    (d, nv)
                }));
                match res {
                    Ok((d, nv)) => {
                        writeln!(out, "DUMPRES {} OK {}", k, hex_encode(&d)).unwrap();
                        PREV_LINES.with(|p| p.borrow_mut().remove(&j));
                        st_record(j, &nv, out);
                        vts.insert(j, nv);
                        dead.insert(j, false);
                    }
                    Err(e) => {
                        writeln!(out, "DUMPRES {} PANIC {}", k, panic_msg(e)).unwrap();
                        dead.insert(j, true);
                    }
                }
            }
            "TEXT" => {
                let k: usize = toks[1].parse().unwrap();
                if *dead.get(&k).unwrap_or(&true) {
                    writeln!(out, "TEXTRES {} DEAD", k).unwrap();
                    continue;
                }
                let vt = vts.get(&k).unwrap();
                match catch_unwind(AssertUnwindSafe(|| vt.text())) {
                    Ok(t) => {
                        let mut r = format!("TEXTRES {} OK {}", k, t.len());
                        for l in &t {
                            r.push(' ');
                            r.push_str(&hex_encode(l));
                        }
                        writeln!(out, "{}", r).unwrap();
                    }
                    Err(e) => writeln!(out, "TEXTRES {} PANIC {}", k, panic_msg(e)).unwrap(),
                }
            }
            "UNWRAP" => {
                // UNWRAP k : lines() pushed through TextUnwrapper, then flush
                let k: usize = toks[1].parse().unwrap();
                if *dead.get(&k).unwrap_or(&true) {
                    writeln!(out, "UNWRAPRES {} DEAD", k).unwrap();
                    continue;
                }
                let vt = vts.get(&k).unwrap();
                match catch_unwind(AssertUnwindSafe(|| {
                    let mut u = TextUnwrapper::new();
                    let mut t: Vec<String> = vt.lines().iter().filter_map(|l| u.push(l)).collect();
                    t.extend(u.flush());
                    t
                })) {
                    Ok(t) => {
                        let mut r = format!("UNWRAPRES {} OK {}", k, t.len());
                        for l in &t {
                            r.push(' ');
                            r.push_str(&hex_encode(l));
                        }
                        writeln!(out, "{}", r).unwrap();
                    }
                    Err(e) => writeln!(out, "UNWRAPRES {} PANIC {}", k, panic_msg(e)).unwrap(),
                }
            }
            "CHUNKS" => {
                // CHUNKS k row : Line::chunks by pen on a view row
                let k: usize = toks[1].parse().unwrap();
                let row: usize = toks[2].parse().unwrap();
                if *dead.get(&k).unwrap_or(&true) {
                    writeln!(out, "CHUNKSRES {} DEAD", k).unwrap();
                    continue;
                }
                let vt = vts.get(&k).unwrap();
                match catch_unwind(AssertUnwindSafe(|| {
                    let l = &vt.view()[row];
                    l.chunks(|a, b| a.pen() != b.pen()).map(|c| c.len()).collect::<Vec<usize>>()
                })) {
                    Ok(c) => {
                        let mut r = format!("CHUNKSRES {} OK {}", k, c.len());
                        for n in c {
                            let _ = write!(r, " {}", n);
                        }
                        writeln!(out, "{}", r).unwrap();
                    }
                    Err(e) => writeln!(out, "CHUNKSRES {} PANIC {}", k, panic_msg(e)).unwrap(),
                }
            }
            "TCNEW" => {
                let k: usize = toks[1].parse().unwrap();
                let cols: usize = toks[2].parse().unwrap();
                let rows: usize = toks[3].parse().unwrap();
                let limit = parse_limit(toks[4]);
                tcs.insert(k, Some(TextCollector::new(new_vt(cols, rows, limit))));
            }
            "TCS" | "TCR" => {
                let k: usize = toks[1].parse().unwrap();
                let tc = tcs.get_mut(&k).unwrap();
                if tc.is_none() {
                    writeln!(out, "TCRES {} DEAD", k).unwrap();
                    continue;
                }
                let kind = toks[0];
                let res = catch_unwind(AssertUnwindSafe(|| -> Vec<String> {
                    let t = tc.as_mut().unwrap();
                    if kind == "TCS" {
                        t.feed_str(&hex_decode(toks[2])).collect()
                    } else {
                        t.resize(toks[2].parse().unwrap(), toks[3].parse().unwrap()).collect()
                    }
                }));
                match res {
                    Ok(t) => {
                        let mut r = format!("TCRES {} OK {}", k, t.len());
                        for l in &t {
                            r.push(' ');
                            r.push_str(&hex_encode(l));
                        }
                        writeln!(out, "{}", r).unwrap();
                    }
                    Err(e) => {
                        writeln!(out, "TCRES {} PANIC {}", k, panic_msg(e)).unwrap();
                        *tc = None;
                    }
                }
            }
            "TCFLUSH" => {
                let k: usize = toks[1].parse().unwrap();
                let tc = tcs.get_mut(&k).unwrap().take();
                match tc {
                    None => writeln!(out, "TCRES {} DEAD", k).unwrap(),
                    Some(t) => match catch_unwind(AssertUnwindSafe(|| t.flush())) {
                        Ok(t) => {
                            let mut r = format!("TCRES {} OK {}", k, t.len());
                            for l in &t {
                                r.push(' ');
                                r.push_str(&hex_encode(l));
                            }
                            writeln!(out, "{}", r).unwrap();
                        }
                        Err(e) => writeln!(out, "TCRES {} PANIC {}", k, panic_msg(e)).unwrap(),
                    },
                }
            }
            "PN" => {
                let k: usize = toks[1].parse().unwrap();
                let p = Parser::new();
                let mut s = String::new();
                p.verif_state(&mut s);
                writeln!(out, "PST {}{}", k, s).unwrap();
                parsers.insert(k, p);
            }
            "PF" => {
                // PF k hex : feed chars one at a time to a bare parser; one PRES line per char
                let k: usize = toks[1].parse().unwrap();
                let p = parsers.get_mut(&k).unwrap();
                for c in hex_decode(toks[2]).chars() {
                    match catch_unwind(AssertUnwindSafe(|| p.feed(c))) {
                        Ok(f) => {
                            let mut s = String::new();
                            p.verif_state(&mut s);
                            let ft = match &f {
                                None => "-".to_string(),
                                Some(f) => function_tok(f),
                            };
                            writeln!(out, "PRES {} {:x}{} FN {}", k, c as u32, s, ft).unwrap();
                        }
                        Err(e) => {
                            writeln!(out, "PRES {} {:x} PANIC {}", k, c as u32, panic_msg(e)).unwrap();
                            break;
                        }
                    }
                }
            }
            // directives for the Lean driver, passed through unchanged
            "X" | "END" | "#" => {}
            other => panic!("unknown script op {}", other),
        }
    }
    op_end();
}

/// Parser transition table: for each state (entered through a canonical prefix with a given
/// register background) and each scalar value: next state and action kind, run-length encoded.
fn ptable(bg: usize, out: &mut impl Write) {
    // prefixes that enter each of the 14 states from ground
    let prefixes: [&str; 14] = [
        "",
        "\u{1b}",
        "\u{1b} ",
        "\u{9b}",
        "\u{9b}1",
        "\u{9b} ",
        "\u{9b}:",
        "\u{90}",
        "\u{90}1",
        "\u{90} ",
        "\u{90}@",
        "\u{90}:",
        "\u{9d}",
        "\u{98}",
    ];
    // register backgrounds fed (and aborted by CAN) before the prefix
    let backgrounds: [&str; 4] = ["", "\u{9b}?12;34:5;6 \u{18}", "\u{9b}1;2;3;4;5;6;7;8;9;10;11;12;13;14;15;16;17;18;19;20;21;22;23;24;25;26;27;28;29;30;31;32;33:1:2:3:4:5:6:7\u{18}", "\u{1b}#\u{18}\u{90}?65535;99999\u{18}"];
    for (si, prefix) in prefixes.iter().enumerate() {
        let mut run_start: u32 = 0;
        let mut run_val: Option<String> = None;
        let mut emit = |start: u32, end: u32, val: &str, out: &mut dyn Write| {
            writeln!(out, "PT {} {} {:x} {:x} {}", bg, si, start, end, val).unwrap();
        };
        let mut c: u32 = 0;
        while c <= 0x10FFFF {
            if (0xD800..0xE000).contains(&c) {
                c = 0xE000;
                continue;
            }
            let ch = char::from_u32(c).unwrap();
            let mut p = Parser::new();
            for b in backgrounds[bg].chars() {
                p.feed(b);
            }
            for b in prefix.chars() {
                p.feed(b);
            }
            let f = p.feed(ch);
            let kind = match &f {
                None => "none".to_string(),
                Some(Function::Print(x)) if *x == ch => "print".to_string(),
                Some(f) => function_tok(f).replace(' ', "_"),
            };
            let val = format!("{} {}", p.state as u8, kind);
            match &run_val {
                Some(v) if *v == val => {}
                Some(v) => {
                    let prev_end = if c == 0xE000 { 0xD7FF } else { c - 1 };
                    emit(run_start, prev_end, v, out);
                    run_start = c;
                    run_val = Some(val);
                }
                None => {
                    run_start = c;
                    run_val = Some(val);
                }
            }
            c += 1;
        }
        if let Some(v) = &run_val {
            emit(run_start, 0x10FFFF, v, out);
        }
    }
}

fn main() {
    let args: Vec<String> = std::env::args().collect();
    // keep panic messages out of stderr noise
    std::panic::set_hook(Box::new(|_| {}));
    let stdout = io::stdout();
    let mut out = io::BufWriter::new(stdout.lock());
    match args.get(1).map(|s| s.as_str()) {
        Some("gen") => {
            let profile = &args[2];
            let seed: u64 = args[3].parse().unwrap();
            let n: usize = args[4].parse().unwrap();
            let tier = args.get(5).map(|s| s.as_str()).unwrap_or("quick");
            gen::generate(profile, seed, n, tier, &mut out);
        }
        Some("genexh") => {
            // genexh <profile> <depth> <shard> <nshards>
            let profile = &args[2];
            let depth: usize = args[3].parse().unwrap();
            let shard: usize = args[4].parse().unwrap();
            let nshards: usize = args[5].parse().unwrap();
            gen::generate_exhaustive(profile, depth, shard, nshards, &mut out);
        }
        Some("run") => {
            let stdin = io::stdin();
            let mut wout = WatchOut(out);
            run_script(stdin.lock(), &mut wout);
        }
        Some("ptable") => {
            let bg: usize = args.get(2).map(|s| s.parse().unwrap()).unwrap_or(0);
            ptable(bg, &mut out);
        }
        _ => {
            eprintln!("usage: avt-harness gen <profile> <seed> <ncases> [tier] | run | ptable <bg>");
            std::process::exit(2);
        }
    }
}
