//! SplitMix64 — every random choice of the harness derives from one state seeded by VERIF_SEED.

pub struct Rng(u64);

impl Rng {
    pub fn new(seed: u64) -> Self {
        Rng(seed.wrapping_mul(0x9E3779B97F4A7C15) ^ 0xD1B54A32D192ED03)
    }

    pub fn next(&mut self) -> u64 {
        self.0 = self.0.wrapping_add(0x9E3779B97F4A7C15);
        let mut z = self.0;
        z = (z ^ (z >> 30)).wrapping_mul(0xBF58476D1CE4E5B9);
        z = (z ^ (z >> 27)).wrapping_mul(0x94D049BB133111EB);
        z ^ (z >> 31)
    }

    /// uniform in 0..n (n > 0)
    pub fn below(&mut self, n: usize) -> usize {
        (self.next() % (n as u64)) as usize
    }

    /// uniform in lo..=hi
    pub fn range(&mut self, lo: usize, hi: usize) -> usize {
        lo + self.below(hi - lo + 1)
    }

    pub fn chance(&mut self, percent: usize) -> bool {
        self.below(100) < percent
    }

    pub fn pick<'a, T>(&mut self, xs: &'a [T]) -> &'a T {
        &xs[self.below(xs.len())]
    }

    /// index chosen with the given weights
    pub fn weighted(&mut self, ws: &[usize]) -> usize {
        let total: usize = ws.iter().sum();
        let mut x = self.below(total.max(1));
        for (i, w) in ws.iter().enumerate() {
            if x < *w {
                return i;
            }
            x -= *w;
        }
        ws.len() - 1
    }
}
